#!/bin/sh
# usage: tools/merge_agent.sh <name> : copy NEW files from /work/<name>/verif into /verif; list files that differ
src=/work/$1/verif
cd $src || exit 2
find coq harness notes corpus tools -type f \( -name '*.v' -o -name '*.py' -o -name '*.patch' -o -name '*.json' -o -name '*.md' -o -name '*.diff' \) 2>/dev/null | while read f; do
  if [ ! -e /verif/$f ]; then mkdir -p /verif/$(dirname $f); cp $f /verif/$f; echo "NEW  $f";
  elif ! cmp -s $f /verif/$f; then echo "DIFF $f"; fi
done
