#!/bin/sh
# usage: tools/try_revert.sh <commit-in-/repo> <Cxx> [<Cxx>...]  : revert the commit in the working tree only, run checks, restore
c=$1; shift
git -C /repo status --short | grep -q . && { echo "/repo not clean"; exit 2; }
git -C /repo revert --no-commit $c >/dev/null || exit 2
for p in "$@"; do ./check $p 2>&1 | grep -v "^WARNING" | tail -4; git -C /verif checkout -- evidence/$p.json 2>/dev/null; done
git -C /repo revert --abort 2>/dev/null; git -C /repo reset -q --hard HEAD
git -C /repo status --short | head -3
