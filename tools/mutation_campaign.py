#!/venv/bin/python
"""Automated mutation campaign (supporting evidence only, not a proof): small syntactic mutants of the functions the
properties are anchored in; each mutant runs in a private copy of /repo with a private copy of /verif
(VERIF_REPO), first through the relevant checks (quick tier), survivors then through the repository's own suite.
Output: /verif/notes/mutation_campaign.json with every mutant, which check killed it, and the survivors of BOTH
(checks and suite) for manual triage (equivalent mutant vs. gap).

usage: tools/mutation_campaign.py <workers> <mutants-per-function> [seed]
"""
import json
import os
import random
import re
import shutil
import subprocess
import sys
from concurrent.futures import ThreadPoolExecutor

TARGETS = {
    # file: {function: [checks]}
    'tweakwcs/linearfit.py': {
        'iter_linear_fit': ['C07', 'C06', 'C09', 'C08', 'C10'], 'fit_shifts': ['C06', 'C09', 'C10'], 'fit_rscale': ['C06', 'C08', 'C17'],
        'fit_general': ['C06', 'C17', 'C09'], '_compute_stat': ['C10', 'C07'], '_build_fit': ['C10'],
        'build_fit_matrix': ['C10']},
    'tweakwcs/linalg.py': {'inv': ['C17', 'C06']},
    'tweakwcs/matchutils.py': {'_xy_2dhist': ['C12', 'C11'], '_estimate_2dhist_shift': ['C12', 'C11'],
                               '_find_peak': ['C12'], '__call__': ['C11']},
    'tweakwcs/imalign.py': {'fit_wcs': ['C01', 'C18', 'C09'], 'align_wcs': ['C13', 'C14', 'C15'], '_max_overlap_pair': ['C15'],
                            '_max_overlap_image': ['C15', 'C14']},
    'tweakwcs/wcsimage.py': {'convex_hull': ['C16'], 'fit2ref': ['C01', 'C09'], 'align_to_ref': ['C13', 'C01'],
                             'expand_catalog': ['C14'], 'get_unmatched_cat': ['C14'], 'match2ref': ['C11', 'C13', 'C14'],
                             '_calc_cat_convex_hull': ['C16'], 'apply_affine_to_wcs': ['C05', 'C13'],
                             'calc_bounding_polygon': ['C16', 'C15'], 'intersection_area': ['C16', 'C15'],
                             'calc_tanp_xy': ['C14', 'C05', 'C11'], 'update_bounding_polygon': ['C16'],
                             'recalc_catalog_radec': ['C14', 'C13']},
    'tweakwcs/correctors.py': {'set_correction': ['C02', 'C04', 'C18'], '_tpcorr_combine_affines': ['C04', 'C02', 'C03'],
                               '_tp2tp': ['C05', 'C02'], '_linearize': ['C02', 'C18'], 'tanp_pixel_scale': ['C20'],
                               '_update_transformations': ['C03', 'C02']},
}
FAMILY = os.environ.get('MUT_FAMILY', 'ops')    # 'ops' (token flips) or 'stmt' (statement deletion, negated conditions)
OPS = [(' < ', ' <= '), (' <= ', ' < '), (' > ', ' >= '), (' >= ', ' > '), (' == ', ' != '), (' != ', ' == '),
       (' + ', ' - '), (' - ', ' + '), (' * ', ' / '), (' and ', ' or '), (' or ', ' and '), ('True', 'False'),
       ('False', 'True'), (' 0.5 ', ' 0.25 '), (' 1)', ' 2)'), ('[0]', '[1]'), ('[1]', '[0]'), (' - 1', ' - 2'),
       (' + 1', ' + 2'), ('.T', ''), ('np.abs(', '('), (' not ', ' ')]


def functions(path):
    """(name -> list of (first, last) line ranges) for every def in the file"""
    src = open(path).read().splitlines()
    out = {}
    cur = []
    for i, line in enumerate(src):
        m = re.match(r'^(\s*)def (\w+)\(', line)
        if m:
            cur.append((len(m.group(1)), m.group(2), i))
    for k, (ind, name, start) in enumerate(cur):
        end = len(src)
        for ind2, _, start2 in cur[k + 1:]:
            if ind2 <= ind:
                end = start2
                break
        # stop at a class statement or dedent to module level
        for j in range(start + 1, end):
            if src[j].strip() and (len(src[j]) - len(src[j].lstrip())) <= ind and not src[j].lstrip().startswith(('#', ')')):
                end = j
                break
        out.setdefault(name, []).append((start, end))
    return src, out


def candidates(rng, per_func):
    muts = []
    for f, funcs in TARGETS.items():
        src, defs = functions(os.path.join('/repo', f))
        for fn, checks in funcs.items():
            cand = []
            for (a, b) in defs.get(fn, []):
                indoc = False
                for i in range(a + 1, b):
                    line = src[i]
                    if '"""' in line:
                        if line.count('"""') == 1:
                            indoc = not indoc
                        continue
                    if indoc or line.lstrip().startswith('#') or 'log.' in line or 'raise ' in line:
                        continue
                    code = line.split('#')[0]
                    if FAMILY == 'ops':
                        for old, new in OPS:
                            for m in re.finditer(re.escape(old), code):
                                cand.append((f, fn, i, m.start(), old, new, checks))
                    else:
                        st = code.strip()
                        ind = len(code) - len(code.lstrip())
                        nxt = src[i + 1] if i + 1 < len(src) else ''
                        # statement deletion: a one-line simple statement (balanced brackets, not the only statement of
                        # its block header, no return/raise/def/class/import/else/try)
                        simple = (st and not st.endswith((':', ',', '(', '[', '{', '\\')) and
                                  st.count('(') == st.count(')') and st.count('[') == st.count(']') and
                                  not re.match(r'(return|raise|def |class |import |from |else|elif|try|except|finally|with |'
                                               r'for |while |if |pass|break|continue|@|\)|\]|\}|"|\')', st) and
                                  not src[i - 1].rstrip().endswith((',', '(', '[', '\\', '+', '-', '*', '/', 'and', 'or', '=')))
                        if simple and ('=' in st or '(' in st):
                            cand.append((f, fn, i, ind, code[ind:].rstrip('\n'), 'pass', checks))
                        m = re.match(r'(\s*)(if|elif|while) (.*):\s*$', code)
                        if m and m.group(2) != 'while':
                            cand.append((f, fn, i, len(m.group(1)), code[len(m.group(1)):].rstrip('\n'),
                                         '%s not (%s):' % (m.group(2), m.group(3)), checks))
            rng.shuffle(cand)
            muts += cand[:per_func]
    return muts


def sh(cmd, timeout=1800, env=None):
    try:
        r = subprocess.run(cmd, shell=True, stdout=subprocess.PIPE, stderr=subprocess.STDOUT, text=True, timeout=timeout,
                           env=env)
        return r.returncode, r.stdout
    except subprocess.TimeoutExpired:
        return 124, 'timeout'


def worker_setup(k):
    base = '/work/mut%d' % k
    shutil.rmtree(base, ignore_errors=True)
    os.makedirs(base)
    sh('cp -r /repo %s/repo && rm -rf %s/repo/.git' % (base, base))
    sh('mkdir %s/verif && cd /verif && cp -r check harness coq corpus known_findings.json tools %s/verif/' % (base, base))
    return base


def run_mutant(args):
    k, mut = args
    f, fn, line, col, old, new, checks = mut
    base = '/work/mut%d' % k
    path = os.path.join(base, 'repo', f)
    orig = open(os.path.join('/repo', f)).read()
    lines = orig.splitlines(keepends=True)
    lines[line] = lines[line][:col] + new + lines[line][col + len(old):]
    open(path, 'w').write(''.join(lines))
    rec = {'file': f, 'function': fn, 'line': line + 1, 'old': old, 'new': new,
           'source_line': orig.splitlines()[line].strip(), 'checks': {}}
    try:
        rc, out = sh('cd %s/repo && PYTHONPATH=%s/repo /venv/bin/python -c "import tweakwcs"' % (base, base), 120)
        if rc != 0:
            rec['result'] = 'does-not-import'
            return rec
        env = dict(os.environ, VERIF_REPO='%s/repo' % base)
        killed = None
        for c in checks:
            rc, out = sh('cd %s/verif && ./check %s' % (base, c), 1500, env)
            last = [l for l in out.splitlines() if l.startswith(c + ' ')]
            rec['checks'][c] = {'exit': rc, 'summary': last[-1] if last else out[-200:]}
            if rc != 0:
                killed = c
                break
        if killed:
            rec['result'] = 'killed-by-' + killed
            return rec
        rc, out = sh('cd %s/repo && PYTHONPATH=%s/repo /venv/bin/python -m pytest -q -p no:cacheprovider --timeout=900 -x '
                     '--deselect tweakwcs/tests/test_correctors.py::test_jwstgwcs_bad_pipelines_no_vacorr '
                     '--deselect tweakwcs/tests/test_correctors.py::test_jwstgwcs_bad_pipelines_with_vacorr 2>&1 | tail -1'
                     % (base, base), 1500)
        rec['suite'] = out.strip().splitlines()[-1] if out.strip() else ''
        rec['result'] = 'SURVIVES-checks-and-suite' if (' failed' not in rec['suite'] and 'passed' in rec['suite']) \
            else 'survives-checks-killed-by-suite'
        return rec
    finally:
        open(path, 'w').write(orig)


def main():
    workers, per = int(sys.argv[1]), int(sys.argv[2])
    seed = int(sys.argv[3]) if len(sys.argv) > 3 else 1
    rng = random.Random(seed)
    muts = candidates(rng, per)
    print('%d mutants' % len(muts), flush=True)
    for k in range(workers):
        worker_setup(k)
    queues = [[] for _ in range(workers)]
    for i, m in enumerate(muts):
        queues[i % workers].append(m)
    results = []

    def drain(k):
        out = []
        for m in queues[k]:
            r = run_mutant((k, m))
            print('%-34s %s:%d %r->%r  [%s]' % (r['result'], r['file'].split('/')[-1], r['line'], r['old'], r['new'],
                                                 r['source_line'][:60]), flush=True)
            out.append(r)
        return out
    with ThreadPoolExecutor(max_workers=workers) as ex:
        for part in ex.map(drain, range(workers)):
            results += part
    summary = {}
    for r in results:
        key = r['result'] if not r['result'].startswith('killed-by') else 'killed-by-check'
        summary[key] = summary.get(key, 0) + 1
    os.makedirs('/verif/notes', exist_ok=True)
    json.dump({'seed': seed, 'summary': summary, 'mutants': results},
              open('/verif/notes/mutation_campaign_seed%d.json' % seed, 'w'), indent=1)
    print(summary)
    for k in range(workers):
        shutil.rmtree('/work/mut%d' % k, ignore_errors=True)


if __name__ == '__main__':
    main()
