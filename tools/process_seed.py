#!/venv/bin/python
"""usage: tools/process_seed.py <pid> <k> [<extra check ids> ...]
Confirms seeded change k of /tmp/seed_<pid>/out in a scratch worktree (suite unchanged, demo fails with / passes
without), then applies it to /repo, runs ./check <pid> (and extra checks), undoes it, and stores the result under
/verif/seeded/<pid>-<k>/ (patch.diff, demo.py, note.txt, meta.json)."""
import json
import os
import re
import shutil
import subprocess
import sys

pid, k = sys.argv[1], sys.argv[2]
extra = sys.argv[3:]
PREFIX = os.environ.get('SEED_PREFIX', '/tmp/seed_')
TAG = os.environ.get('SEED_TAG', '')
src = '%s%s/out' % (PREFIX, pid)
patch = os.path.join(src, 'seed%s.diff' % k)
demo = os.path.join(src, 'demo%s.py' % k)
note = os.path.join(src, 'note%s.txt' % k)
wt = '/tmp/conf_%s_%s%s' % (pid, TAG, k)


def sh(cmd, **kw):
    return subprocess.run(cmd, shell=True, stdout=subprocess.PIPE, stderr=subprocess.STDOUT, text=True, **kw)


assert not sh('git -C /repo status --short').stdout.strip(), '/repo not clean'
sh('git -C /repo worktree remove --force %s' % wt)
r = sh('git -C /repo worktree add --detach %s HEAD' % wt)
assert os.path.isdir(wt), r.stdout
meta = {'property': pid, 'seed': k}
try:
    r = sh('git -C %s apply %s' % (wt, patch))
    meta['applies_to_repo_head'] = r.returncode == 0
    assert r.returncode == 0, r.stdout
    r = sh('cd %s && PYTHONPATH=%s /venv/bin/python -m pytest -q -p no:cacheprovider --timeout=900 2>&1 | tail -1' % (wt, wt))
    meta['suite_with_change'] = r.stdout.strip().splitlines()[-1]
    r1 = sh('cd %s && PYTHONPATH=%s /venv/bin/python %s' % (src, wt, demo))
    meta['demo_with_change'] = {'exit': r1.returncode, 'tail': r1.stdout.strip()[-400:]}
    r0 = sh('cd %s && PYTHONPATH=/repo /venv/bin/python %s' % (src, demo))
    meta['demo_without_change'] = {'exit': r0.returncode, 'tail': r0.stdout.strip()[-200:]}
finally:
    sh('git -C /repo worktree remove --force %s' % wt)
ok = ('468 passed' in meta['suite_with_change'] and '2 failed' in meta['suite_with_change'] and
      meta['demo_with_change']['exit'] != 0 and meta['demo_without_change']['exit'] == 0)
meta['confirmed'] = ok
print('confirmed' if ok else 'NOT CONFIRMED', json.dumps(meta, indent=1))
if not ok:
    sys.exit(1)
# run my checks against it
sh('git -C /repo apply %s' % patch)
meta['checks'] = {}
try:
    for c in [pid] + extra:
        r = sh('cd /verif && ./check %s' % c)
        lines = [l for l in r.stdout.splitlines() if l.startswith('VIOLATION') or l.startswith(c + ' ')]
        meta['checks'][c] = {'exit': r.returncode, 'violations': sum(1 for l in lines if l.startswith('VIOLATION')),
                             'no_failing_input': sum(1 for l in lines if 'no-failing-input-found' in l),
                             'summary': lines[-1] if lines else r.stdout[-300:]}
        first = [l for l in lines if l.startswith('VIOLATION')]
        if first:
            m = re.search(r'replay=(\S+)', first[0])
            if m and os.path.exists(m.group(1)):
                meta['checks'][c]['first_replay_kind'] = json.load(open(m.group(1))).get('kind')
        sh('git -C /verif checkout -- evidence/%s.json' % c)
finally:
    sh('git -C /repo checkout -- .')
assert not sh('git -C /repo status --short').stdout.strip()
meta['detected_by'] = [c for c, v in meta['checks'].items() if v['exit'] == 1]
out = '/verif/seeded/%s-%s%s' % (pid, TAG, k)
os.makedirs(out, exist_ok=True)
shutil.copy(patch, os.path.join(out, 'patch.diff'))
shutil.copy(demo, os.path.join(out, 'demo.py'))
if os.path.exists(note):
    shutil.copy(note, os.path.join(out, 'note.txt'))
    meta['needs_to_manifest'] = open(note).read().strip()
meta['what_was_run'] = ['scratch worktree of /repo HEAD: git apply patch.diff; pytest (suite result above); demo.py with and '
                        'without the change', 'git -C /repo apply patch.diff; ./check ' + ' '.join([pid] + extra) +
                        '; git -C /repo checkout -- .']
json.dump(meta, open(os.path.join(out, 'meta.json'), 'w'), indent=1)
print('DETECTED BY', meta['detected_by'], json.dumps(meta['checks'], indent=1))
