#!/bin/sh
# regenerate every evidence file with a clean quick run on /repo (must be clean) and report
cd /verif || exit 2
git -C /repo status --short | grep -q . && { echo "/repo not clean"; exit 2; }
for p in C01 C02 C03 C04 C05 C06 C07 C08 C09 C10 C11 C12 C13 C14 C15 C16 C17 C18 C19 C20; do
  VERIF_SEED=${VERIF_SEED:-1} ./check $p 2>&1 | grep -v "^WARNING" | tail -3
done
python3-vt - <<'PY'
import json, jsonschema, glob
sch = json.load(open('/root/.vp/EVIDENCE.schema.json'))
for f in sorted(glob.glob('/verif/evidence/C*.json')):
    e = json.load(open(f)); jsonschema.validate(e, sch)
    assert e['violations'] == 0 and e['coverage']['obligations'] == e['coverage']['discharged'], f
print('all evidence files valid, 0 violations, obligations == discharged')
PY
