#!/venv/bin/python
"""Mutation sanity for C19: applies one mutant at a time to a PRIVATE copy of the repository
(VERIF_REPO, never /repo), runs ./check C19, prints which layer reported it, restores the copy.
usage: VERIF_REPO=/work/c19/repo tools/c19_mutants.py [name ...]"""
import json
import os
import re
import subprocess
import sys

REPO = os.environ.get('VERIF_REPO', '')
ROOT = os.path.dirname(os.path.dirname(os.path.abspath(__file__)))
assert REPO and os.path.realpath(REPO) != '/repo', 'set VERIF_REPO to a private copy'


def sub(path, old, new, count=1, after=None):
    p = os.path.join(REPO, 'tweakwcs', path)
    s = open(p).read()
    start = s.index(after) if after else 0
    assert old in s[start:], (path, old)
    s = s[:start] + s[start:].replace(old, new, count)
    open(p, 'w').write(s)


MUTANTS = {
    'M1_iter_linear_fit_asarray_xy': lambda: sub('linearfit.py', 'xy = np.array(xy, dtype=np.longdouble)',
                                                 'xy = np.asarray(xy, dtype=np.longdouble)'),
    'M2_inv_asarray_m': lambda: sub('linalg.py', 'm = np.array(m, dtype=np.longdouble)',
                                    'm = np.asarray(m, dtype=np.longdouble)'),
    'M3a_refcatalog_no_copy': lambda: sub('wcsimage.py', 'self._catalog = catalog.copy()', 'self._catalog = catalog'),
    'M3b_corrector_no_deepcopy_wcs': lambda: sub('correctors.py', 'self._wcs = deepcopy(wcs)', 'self._wcs = wcs'),
    'M3c_align_refimage_catalog_no_copy': lambda: sub('imalign.py', "rcat = refcat.meta['catalog'].copy()",
                                                      "rcat = refcat.meta['catalog']"),
    'M3d_imagecatalog_no_copy': lambda: sub('wcsimage.py', 'self._catalog = table.Table(catalog.copy(), masked=True)',
                                            'self._catalog = catalog'),
    'M4_fit_shifts_weights_not_copied': lambda: sub('linearfit.py', 'w = np.array(wuv, dtype=np.longdouble)',
                                                    'w = np.asarray(wuv)', after='def fit_shifts'),
    'M5a_cache_in_xy_2dhist': lambda: sub('matchutils.py', 'def _xy_2dhist(imgxy, refxy, r):\n',
                                          "_CACHE = {}\n\n\ndef _xy_2dhist(imgxy, refxy, r):\n    prev = _CACHE.get('last')\n"
                                          "    _CACHE['last'] = refxy\n"
                                          "    if prev is not None and prev.shape == refxy.shape:\n        refxy = prev\n"),
    'M5b_cache_in_XYXYMatch_call': lambda: (
        sub('matchutils.py', 'class XYXYMatch(MatchCatalogs):', '_LAST_OFFSET = {}\n\n\nclass XYXYMatch(MatchCatalogs):'),
        sub('matchutils.py', '        try:\n            matches = xyxymatch(',
            "        prev = _LAST_OFFSET.get('xyoff')\n        _LAST_OFFSET['xyoff'] = xyoff\n"
            "        xyoff = xyoff if prev is None else prev\n        try:\n            matches = xyxymatch(")),
    'M6_convex_hull_sorts_input': lambda: sub('wcsimage.py', '    points = sorted(set(zip(x, y)))',
                                              '    if isinstance(x, np.ndarray):\n        x.sort()\n'
                                              '    points = sorted(set(zip(x, y)))'),
    'M7_find_peak_writes_data': lambda: sub('matchutils.py', '    d = data[fit_slice].ravel()[m]',
                                            '    d = data[fit_slice].ravel()'),
    # harmless refactorings: must NOT raise an alarm
    'R1_rename_and_astype': lambda: (
        sub('linearfit.py', 'xy = np.array(xy, dtype=np.longdouble)', 'xy = np.array(xy).astype(np.longdouble)'),
        subprocess.run(['sed', '-i', r's/\bwmask\b/weight_mask/g; s/\bnew_mask\b/mask_next/g',
                        os.path.join(REPO, 'tweakwcs', 'linearfit.py')], check=True)),
    'R2_inv_rename_astype': lambda: (
        sub('linalg.py', 'm = np.array(m, dtype=np.longdouble)', 'm = np.array(m).astype(np.longdouble)'),
        subprocess.run(['sed', '-i', r's/\binvm\b/result/g; s/\bpv2\b/pivot2/g',
                        os.path.join(REPO, 'tweakwcs', 'linalg.py')], check=True)),
    'R3_fit_general_copy_method': lambda: sub('linearfit.py', 'x = np.array(xy[:, 0], dtype=np.longdouble)',
                                              'x = xy[:, 0].astype(np.longdouble)', after='def fit_general'),
}


def main():
    names = sys.argv[1:] or list(MUTANTS)
    for nm in names:
        subprocess.run(['git', '-C', REPO, 'checkout', '--', '.'], check=True)
        MUTANTS[nm]()
        for f in os.listdir(os.path.join(ROOT, 'replays')):
            if f.startswith('C19-'):
                os.remove(os.path.join(ROOT, 'replays', f))
        env = dict(os.environ, VERIF_REPO=REPO, VERIF_SEED=os.environ.get('VERIF_SEED', '1'))
        r = subprocess.run([os.path.join(ROOT, 'check'), 'C19'], env=env, stdout=subprocess.PIPE,
                           stderr=subprocess.STDOUT, text=True)
        subprocess.run(['git', '-C', REPO, 'checkout', '--', '.'], check=True)
        ev = json.load(open(os.path.join(ROOT, 'evidence', 'C19.json')))
        failed = [o['name'] for o in ev['coverage']['obligation_list'] if not o['ok']]
        kinds = {}
        for ln in r.stdout.splitlines():
            m = re.match(r'VIOLATION property=C19 replay=(\S+)( no-failing-input-found)?', ln)
            if m:
                d = json.load(open(m.group(1)))
                k = (d.get('kind'), d.get('call', d.get('function')), d.get('argument', ''), bool(m.group(2)))
                kinds[k] = kinds.get(k, 0) + 1
        print('=== %s: exit %d' % (nm, r.returncode))
        print('    checker/translator layer: %s' % ('; '.join(failed) if failed else 'all obligations discharged'))
        mon = [k for k in kinds if k[0] in ('argument-modified-by-call', 'repeated-call-gives-different-result',
                                             'call-attempted-to-write-read-only-argument')]
        print('    monitor layer: %s' % ('; '.join('%s in %s %s' % (k[0], k[1], k[2]) for k in mon[:6]) if mon else 'nothing'))
        other = [k for k in kinds if k not in mon]
        if other:
            print('    other reports: %s' % other)
        print('    ' + r.stdout.strip().splitlines()[-1])
        sys.stdout.flush()


if __name__ == '__main__':
    main()
