#!/bin/sh
# usage: tools/try_patch.sh <patch.diff> <Cxx> [...] : apply patch to /repo working tree, run checks, undo
c=$1; shift
git -C /repo status --short | grep -q . && { echo "/repo not clean"; exit 2; }
git -C /repo apply $c || exit 2
for p in "$@"; do ./check $p 2>&1 | grep -v "^WARNING" | tail -4; git -C /verif checkout -- evidence/$p.json 2>/dev/null; done
git -C /repo checkout -- . ; git -C /repo status --short | head -3
