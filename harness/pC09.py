"""C09 - zero-weight sources never influence a fit; weights reach the right sources."""
import numpy as np

import gen_fit as G
import gen_align as A
from common import q, b, lst, nat, frac, implementation
from pC06 import run_impl, coq_case, effective

HUGE = 2.0 ** 40


def variants(rng, pr):
    """(original, corrupted at zero-weight positions, zero-weight pairs dropped), Z"""
    n = pr['n']
    zpos = set()
    for key in ('wxy', 'wuv'):
        if pr[key] is not None:
            zpos |= {k for k in range(n) if pr[key][k] <= 0}
    cor = dict(pr)
    cor['xy'] = [list(p) for p in pr['xy']]
    cor['uv'] = [list(p) for p in pr['uv']]
    for k in zpos:
        which = rng.choice(['xy', 'uv', 'both'])
        if which in ('xy', 'both'):
            cor['xy'][k] = [rng.choice([-1, 1]) * HUGE * rng.randrange(1, 8), rng.choice([-1, 1]) * HUGE]
        if which in ('uv', 'both'):
            cor['uv'][k] = [rng.choice([-1, 1]) * HUGE, rng.choice([-1, 1]) * HUGE * rng.randrange(1, 8)]
    keep = [k for k in range(n) if k not in zpos]
    drop = dict(pr)
    for key in ('xy', 'uv', 'wxy', 'wuv'):
        drop[key] = None if pr[key] is None else [pr[key][k] for k in keep]
    drop['n'] = len(keep)
    return cor, drop, sorted(zpos)


def close(a, b_, tol, floor=0.0):
    a, b_ = np.asarray(a, dtype=float), np.asarray(b_, dtype=float)
    return bool(np.all(np.abs(a - b_) <= tol * np.maximum(1.0, np.abs(a)) + floor))


def coord_scale(pr, Z):
    """largest coordinate magnitude among the sources that take part in the fit"""
    zs = set(Z)
    vals = [abs(v) for key in ('xy', 'uv') for k, p in enumerate(pr[key]) if k not in zs for v in p]
    return max(vals) if vals else 1.0


def fit_level(ck, lf):
    rng = ck.rng
    cases, meta = [], []
    for t in range(ck.n(200, 3000)):
        geom = G.GEOMS[t % 4]
        n = rng.choice([6, 8, 12, 20, 30])
        wmode = ['xy', 'uv', 'both'][(t // 4) % 3]
        pr = G.problem(rng, geom, n=n, noise=rng.choice([0, 1, 2]), style=rng.choice(['random', 'lattice', 'clustered']),
                       wmode=wmode, outliers=rng.choice([0, 1]))
        # force a few zero (sometimes negative) weights, keep >= minobj+1 positive pairs
        neg = rng.random() < 0.25
        for key in ('wxy', 'wuv'):
            if pr[key] is not None:
                pr[key] = [max(w, 0.25) for w in pr[key]]
        zs = rng.sample(range(n), rng.randrange(1, max(2, n // 3)))
        for k in zs:
            key = rng.choice([kk for kk in ('wxy', 'wuv') if pr[kk] is not None])
            pr[key][k] = -1.0 if neg else 0.0
        if t % 5 == 0 and not neg:
            # integer-typed weight arrays (counts / flags, 0 = unused): same numbers, other dtype
            for key in ('wxy', 'wuv'):
                if pr[key] is not None:
                    pr[key] = [float(int(round(4 * w))) for w in pr[key]]
            pr['dtypes'] = (None, ['int64', 'uint8', 'int32'][(t // 5) % 3])
        ck.count('weight_dtype', pr.get('dtypes', (None, 'float64'))[1])
        pr['stream'], pr['style'] = 'zero_weight', pr['style']
        cor, drop, Z = variants(rng, pr)
        ck.count('geom', geom)
        ck.count('wmode', wmode)
        ck.count('n_zero_weight', len(Z))
        ck.count('negative_weights', neg)
        for iterative in ((True,) if neg else (False, True)):
            res = {}
            for name, p in (('orig', pr), ('corrupt', cor), ('drop', drop)):
                res[name] = run_impl(lf, p, iterative)
            ck.search_evaluations += 1
            c0, e0, f0 = res['orig']
            c1, e1, f1 = res['corrupt']
            c2, e2, f2 = res['drop']
            ck.case((pr['xy'], pr['uv'], pr['wxy'], pr['wuv'], iterative), c0 == 0 and len(Z) > 0)
            rp = {'kind': 'zero-weight-sources-influence-the-fit', 'iterative': iterative, 'geom': geom,
                  'original': slim(pr), 'corrupted': slim(cor), 'zero_weight_positions': Z}
            if not (c0 == c1 == c2):
                rp['detail'] = 'error codes differ: %s' % [c0, c1, c2]
                ck.violation(rp)
                continue
            if c0 != 0:
                continue
            ok = close(e0, e1, 1e-9) and close(e0, e2, 1e-9)
            # statistics of a (nearly) exact fit are rounding noise of size ~ cond * eps * |coordinates|: absolute floor
            floor = 2.0 ** -36 * coord_scale(pr, Z)
            for kstat in ('rmse', 'mae'):
                ok = ok and close(f0[kstat], f1[kstat], 1e-9, floor) and close(f0[kstat], f2[kstat], 1e-9, floor)
            if iterative:
                m0, m1 = np.asarray(f0['fitmask']), np.asarray(f1['fitmask'])
                ok = ok and not m1[Z].any() and not m0[Z].any() and np.array_equal(m0, m1)
                ok = ok and int(m0.sum()) == int(np.asarray(f2['fitmask']).sum())
            if not ok:
                rp['detail'] = {'orig': [float(v) for v in e0], 'corrupt': [float(v) for v in e1],
                                'dropped': [float(v) for v in e2]}
                ck.violation(rp)
            # model tie on the corrupted input
            cases.append(coq_case(cor, iterative, c1, e1))
            meta.append((cor, iterative, c1, e1))
        # --- with clipping: zero-weight sources at good, moderately wrong or absurd positions are never tested,
        #     never (re-)admitted and leave every clipping decision unchanged
        if pr.get('noise'):
            unit = 2.0 ** pr.get('log2scale', 0)
            mod = dict(pr)
            mod['xy'] = [list(p) for p in pr['xy']]
            for k in Z:
                d = unit * rng.choice([2.0 ** -12, 2.0 ** -9, 0.125, 0.5])
                mod['xy'][k] = [pr['xy'][k][0] + d, pr['xy'][k][1] - d]
            for accum in (False, True):
                kw = dict(nclip=3, sigma=rng.choice([(3.0, 'rmse'), (2.0, 'rmse'), (2.5, 'mae'), (2.0, 'std')]),
                          clip_accum=accum)
                outs = {}
                for name, p_ in (('orig', pr), ('moderate', mod), ('corrupt', cor), ('drop', drop)):
                    try:
                        f_ = lf.iter_linear_fit(np.array(p_['xy'], dtype=float).reshape(-1, 2),
                                                np.array(p_['uv'], dtype=float).reshape(-1, 2),
                                                None if p_['wxy'] is None else np.array(p_['wxy'], dtype=float),
                                                None if p_['wuv'] is None else np.array(p_['wuv'], dtype=float),
                                                fitgeom=geom, **kw)
                        outs[name] = (0, effective(f_, True), f_)
                    except (lf.NotEnoughPointsError, lf.SingularMatrixError, ValueError) as e:
                        outs[name] = (type(e).__name__, [], None)
                ck.search_evaluations += 1
                ck.count('clipping_stream', 'clip_accum=%s' % accum)
                rp = {'kind': 'zero-weight-sources-influence-clipping', 'geom': geom, 'call': 'iter_linear_fit(..., %r)' % kw,
                      'original': slim(pr), 'zero_weight_positions': Z,
                      'variants': 'orig / zero-weight xy moved by a fraction of the unit / zero-weight set to +-2^40 / '
                                  'zero-weight pairs removed'}
                codes = [outs[k_][0] for k_ in ('orig', 'moderate', 'corrupt', 'drop')]
                if len(set(codes)) != 1:
                    rp['detail'] = 'outcomes differ: %s' % codes
                    ck.violation(rp)
                    continue
                if codes[0] != 0:
                    continue
                f0 = outs['orig'][2]
                okc = True
                floorc = 2.0 ** -36 * coord_scale(pr, Z)
                keepidx = [k for k in range(pr['n']) if k not in Z]
                for name in ('moderate', 'corrupt', 'drop'):
                    fk = outs[name][2]
                    okc = okc and close(outs['orig'][1], outs[name][1], 1e-9) and f0['eff_nclip'] == fk['eff_nclip']
                    okc = okc and close(f0['rmse'], fk['rmse'], 1e-9, floorc) and close(f0['mae'], fk['mae'], 1e-9, floorc)
                    mk = np.asarray(fk['fitmask'])
                    if name == 'drop':
                        okc = okc and np.array_equal(np.asarray(f0['fitmask'])[keepidx], mk)
                    else:
                        okc = okc and np.array_equal(np.asarray(f0['fitmask']), mk) and not mk[Z].any()
                okc = okc and not np.asarray(f0['fitmask'])[Z].any()
                ck.case(('clip', pr['xy'], pr['uv'], pr['wxy'], pr['wuv'], repr(kw)), len(Z) > 0 and f0['eff_nclip'] > 0)
                if not okc:
                    rp['detail'] = {name: {'effective': [float(v) for v in outs[name][1]], 'eff_nclip': outs[name][2]['eff_nclip'],
                                           'fitmask': [bool(v) for v in outs[name][2]['fitmask']]}
                                    for name in ('orig', 'moderate', 'corrupt', 'drop')}
                    ck.violation(rp)
        # harmonic law: both weights == single combined weight
        if wmode == 'both' and not neg:
            ck.search_evaluations += 1
            comb = [a * c / (a + c) if (a > 0 and c > 0) else 0.0 for a, c in zip(pr['wxy'], pr['wuv'])]
            one = dict(pr, wxy=comb, wuv=None)
            ca, ea, _ = run_impl(lf, pr, True)
            cb, eb, _ = run_impl(lf, one, True)
            if ca != cb or (ca == 0 and not close(ea, eb, 1e-9)):
                ck.violation({'kind': 'harmonic-weight-law-violated', 'problem': slim(pr),
                              'both': [float(v) for v in ea], 'combined': [float(v) for v in eb]})
    ck.sample({'geom': meta[0][0]['geom'], 'uv(corrupted)': meta[0][0]['uv'][:5], 'wxy': meta[0][0]['wxy'],
               'wuv': meta[0][0]['wuv']})
    bad = ck.coq_agree('zero_weight', ['GJModel', 'LSQ', 'LinearFit', 'C06Corr'], 'case06', 'agree06', cases,
                       show='show06', shard=ck.n(40, 200))
    for i in bad:
        pr, iterative, code, eff = meta[i]
        ck.violation({'kind': 'fit-with-corrupted-zero-weight-sources-differs-from-exact-model',
                      'iterative': iterative, 'problem': slim(pr), 'impl_code': code,
                      'impl_effective': [float(v) for v in eff], 'model': ck.last_shown.get(i, 'n/a')})


def align_level(ck):
    """weight columns of image catalogs (1..3 images per group) and of the reference catalog must reach the
    pairs they belong to: the fit reported by align_wcs equals the exact model fit of the true pairs with the
    true weights (harmonic combination), computed through the public transforms only."""
    from astropy.table import Table
    from tweakwcs import FITSWCSCorrector, align_wcs
    rng = ck.rng
    nprng = np.random.default_rng(rng.randrange(2 ** 31))
    cases, meta = [], []
    for t in range(ck.n(24, 300)):
        ng = 1 + t % 3
        wmode = ['im', 'ref', 'both'][(t // 3) % 3]
        geom = ['shift', 'rscale', 'general', 'rshift'][(t // 9) % 4]
        ra, dec = A.separated_sources(nprng, 120, 0.012, 14e-5)
        nsrc = len(ra)
        wref = nprng.choice([0.0, 0.25, 0.5, 1.0, 2.0, 3.0], nsrc) if wmode in ('ref', 'both') else None
        tp = FITSWCSCorrector(A.mkwcs(crval=(82.0, 12.0), rot=nprng.uniform(0, 360), scale=1.1e-5))
        cors, truth = [], []
        for k in range(ng):
            crv = (82.0 + 0.002 * k, 12.0 + 0.0015 * k)
            rot = 25.0 * k + nprng.uniform(0, 5)
            wt = A.mkwcs(crval=crv, rot=rot)
            x, y, sid = A.observe(wt, ra, dec)
            perm = nprng.permutation(len(x))
            x, y, sid = x[perm], y[perm], sid[perm]
            wg = A.mkwcs(crval=(crv[0] + 1.5e-5, crv[1] - 1e-5), rot=rot + 0.01)
            cat = Table([x, y], names=('x', 'y'))
            wim = None
            if wmode in ('im', 'both'):
                wim = nprng.choice([0.0, 0.25, 0.5, 1.0, 2.0, 3.0], len(x))
                wim[:4] = [1.0, 2.0, 0.5, 1.0][:len(x)]
                cat['weight'] = wim
            c = FITSWCSCorrector(wg, meta={'catalog': cat, 'name': 'im%d' % k, 'group_id': 7})
            cors.append(c)
            truth.append((x, y, sid, wim, c))
        cols = [ra, dec] + ([wref] if wref is not None else [])
        refcat = Table(cols, names=('RA', 'DEC') + (('weight',) if wref is not None else ()))
        # expected pairs through the public API (before alignment changes the correctors)
        rx, ry = tp.world_to_tanp(ra, dec)
        pxy, puv, pwxy, pwuv = [], [], [], []
        for x, y, sid, wim, c in truth:
            ira, idec = c.det_to_world(x, y)
            ix, iy = tp.world_to_tanp(ira, idec)
            for j in range(len(x)):
                pxy.append([float(rx[sid[j]]), float(ry[sid[j]])])
                puv.append([float(ix[j]), float(iy[j])])
                if wref is not None:
                    pwxy.append(float(wref[sid[j]]))
                if wim is not None:
                    pwuv.append(float(wim[j]))
        pr = {'geom': geom, 'xy': pxy, 'uv': puv, 'wxy': pwxy if wref is not None else None,
              'wuv': pwuv if wim is not None else None, 'n': len(pxy)}
        try:
            align_wcs(cors, refcat=refcat, ref_tpwcs=tp, fitgeom=geom, nclip=0, minobj=3,
                      match=A.oracle_matcher(3.0, seed=t), expand_refcat=False)
        except Exception as e:   # noqa
            ck.violation({'kind': 'align_wcs-raised', 'error': repr(e), 'geom': geom, 'wmode': wmode})
            continue
        fi = cors[0].meta['fit_info']
        ck.search_evaluations += 1
        ck.count('align_group_size', ng)
        ck.count('align_wmode', wmode)
        if fi['status'] != 'SUCCESS':
            ck.violation({'kind': 'align_wcs-did-not-succeed', 'status': fi['status'], 'geom': geom})
            continue
        same = all(np.array_equal(c.meta['fit_info']['matrix'], fi['matrix']) for c in cors)
        if not same:
            ck.violation({'kind': 'group-members-have-different-fits'})
        m, s = np.asarray(fi['matrix']), np.asarray(fi['shift'])
        eff = [m[0, 0], m[0, 1], m[1, 0], m[1, 1], s[0], s[1]]
        npos = sum(1 for k in range(pr['n']) if (pr['wxy'] is None or pr['wxy'][k] > 0) and
                   (pr['wuv'] is None or pr['wuv'][k] > 0))
        if int(np.sum(fi['fitmask'])) != npos:
            ck.violation({'kind': 'fitmask-count-differs-from-number-of-positively-weighted-true-pairs',
                          'fitmask_sum': int(np.sum(fi['fitmask'])), 'expected': npos, 'geom': geom,
                          'wmode': wmode, 'group_size': ng})
        ck.case(('align', t, wmode, geom, ng), True)
        cases.append(coq_case(pr, True, 0, eff))
        meta.append((pr, geom, wmode, ng, eff))
    bad = ck.coq_agree('align_weights', ['GJModel', 'LSQ', 'LinearFit', 'C06Corr'], 'case06', 'agree06', cases,
                       show='show06', shard=ck.n(6, 20))
    for i in bad:
        pr, geom, wmode, ng, eff = meta[i]
        ck.violation({'kind': 'align_wcs-fit-differs-from-exact-fit-of-true-pairs-with-true-weights',
                      'fitgeom': geom, 'weights_in': wmode, 'group_size': ng,
                      'impl [m00,m01,m10,m11,s0,s1]': [float(v) for v in eff],
                      'model': ck.last_shown.get(i, 'n/a'),
                      'pairs(ref_tp, image_tp, w_ref, w_im)': slim(pr)})


def expand_level(ck):
    """weights through a growing reference catalog: two weighted images (two groups), weighted reference catalog that
    holds only part of the sources, align_wcs(expand_refcat=True): the second image is matched to original reference
    rows (reference weights) and to rows appended from the first image (which carry the first image's weights); its
    reported fit must be the exact weighted fit of these true pairs with 1/w = 1/w_image + 1/w_reference."""
    from astropy.table import Table
    from tweakwcs import FITSWCSCorrector, align_wcs
    rng = ck.rng
    nprng = np.random.default_rng(rng.randrange(2 ** 31))
    cases, meta = [], []
    for t in range(ck.n(12, 150)):
        geom = ['shift', 'rscale', 'general', 'rshift'][t % 4]
        ra, dec = A.separated_sources(nprng, 120, 0.012, 14e-5)
        nsrc = len(ra)
        inref = nprng.random(nsrc) < 0.4
        wref = nprng.choice([0.0, 0.25, 0.5, 1.0, 2.0, 3.0], nsrc)
        tp = FITSWCSCorrector(A.mkwcs(crval=(82.0, 12.0), rot=nprng.uniform(0, 360), scale=1.1e-5))
        cors, truth = [], []
        for k in range(2):
            crv = (82.0 + 0.002 * k, 12.0 + 0.0015 * k)
            rot = 25.0 * k + nprng.uniform(0, 5)
            wt = A.mkwcs(crval=crv, rot=rot)
            x, y, sid = A.observe(wt, ra, dec)
            perm = nprng.permutation(len(x))
            x, y, sid = x[perm], y[perm], sid[perm]
            wg = A.mkwcs(crval=(crv[0] + 1.5e-5, crv[1] - 1e-5 * (k + 1)), rot=rot + 0.01)
            wim = nprng.choice([0.0, 0.25, 0.5, 1.0, 2.0, 3.0], len(x))
            wim[:4] = [1.0, 2.0, 0.5, 1.0][:len(x)]
            cat = Table([x, y, wim], names=('x', 'y', 'weight'))
            cors.append(FITSWCSCorrector(wg, meta={'catalog': cat, 'name': 'im%d' % k}))
            truth.append((x, y, sid, wim))
        ref_sid = np.nonzero(inref)[0]
        refcat = Table([ra[inref], dec[inref], wref[inref]], names=('RA', 'DEC', 'weight'))
        cB0 = cors[1].copy()
        inref_set = set(int(v) for v in ref_sid)
        nposA = sum(1 for j in range(len(truth[0][0])) if int(truth[0][2][j]) in inref_set and truth[0][3][j] > 0 and
                    wref[truth[0][2][j]] > 0)
        if nposA < 4:
            ck.discard('expand stream: first image has < 4 positively weighted reference pairs')
            continue
        ck.search_evaluations += 1
        try:
            out = align_wcs(cors, refcat=refcat, ref_tpwcs=tp, fitgeom=geom, nclip=0, minobj=3,
                            match=A.oracle_matcher(3.0, seed=t), expand_refcat=True, enforce_user_order=True)
        except Exception as e:   # noqa
            ck.violation({'kind': 'align_wcs-raised', 'error': repr(e), 'geom': geom, 'stream': 'expand_refcat'})
            continue
        st = [c.meta['fit_info']['status'] for c in cors]
        if st[0] != 'SUCCESS':
            ck.violation({'kind': 'align_wcs-did-not-succeed', 'status': st, 'geom': geom, 'stream': 'expand_refcat'})
            continue
        # rows appended from the first image, identified by their sky position
        n0 = len(ref_sid)
        xA, yA, sidA, wA = truth[0]
        raA, decA = cors[0].det_to_world(xA, yA)
        refpos = {int(s): (float(ra[s]), float(dec[s]), float(wref[s])) for s in ref_sid}
        napp = 0
        for r in range(n0, len(out)):
            d = np.hypot((raA - float(out['RA'][r])) * np.cos(np.deg2rad(12.0)), decA - float(out['DEC'][r]))
            j = int(np.argmin(d))
            if d[j] < 2e-6 and int(sidA[j]) not in refpos:      # 0.2 px
                refpos[int(sidA[j])] = (float(out['RA'][r]), float(out['DEC'][r]), float(wA[j]))
                napp += 1
        xB, yB, sidB, wB = truth[1]
        sel = [j for j in range(len(xB)) if int(sidB[j]) in refpos]
        n_app_pairs = sum(1 for j in sel if int(sidB[j]) not in set(int(s) for s in ref_sid))
        if n_app_pairs < 3:
            ck.discard('expand stream: second image sees < 3 sources appended from the first')
            continue
        rr = np.array([refpos[int(sidB[j])] for j in sel])
        rx, ry = tp.world_to_tanp(rr[:, 0], rr[:, 1])
        ira, idec = cB0.det_to_world(xB[sel], yB[sel])
        ix, iy = tp.world_to_tanp(ira, idec)
        pr = {'geom': geom, 'xy': [[float(a), float(c)] for a, c in zip(rx, ry)],
              'uv': [[float(a), float(c)] for a, c in zip(ix, iy)], 'wxy': [float(v) for v in rr[:, 2]],
              'wuv': [float(wB[j]) for j in sel], 'n': len(sel)}
        npos = sum(1 for k in range(pr['n']) if pr['wxy'][k] > 0 and pr['wuv'][k] > 0)
        if npos < 4:
            ck.discard('expand stream: second image has < 4 positively weighted pairs')
            continue
        if st[1] != 'SUCCESS':
            ck.violation({'kind': 'align_wcs-did-not-succeed', 'status': st, 'geom': geom, 'stream': 'expand_refcat',
                          'positively_weighted_true_pairs_of_second_image': npos, 'of_which_with_appended_rows': n_app_pairs})
            continue
        fi = cors[1].meta['fit_info']
        m, s = np.asarray(fi['matrix']), np.asarray(fi['shift'])
        eff = [m[0, 0], m[0, 1], m[1, 0], m[1, 1], s[0], s[1]]
        ck.count('expand_stream_pairs_with_appended_rows', min(n_app_pairs, 20) // 5 * 5)
        ck.case(('expand', t, geom), True)
        if int(np.sum(fi['fitmask'])) != npos:
            ck.violation({'kind': 'fitmask-count-differs-from-number-of-positively-weighted-true-pairs',
                          'stream': 'expand_refcat (second image; reference rows appended from the first carry its weights)',
                          'fitmask_sum': int(np.sum(fi['fitmask'])), 'expected': npos, 'geom': geom,
                          'pairs_with_appended_rows': n_app_pairs})
            continue
        cases.append(coq_case(pr, True, 0, eff))
        meta.append((pr, geom, n_app_pairs, eff))
    bad = ck.coq_agree('expand_weights', ['GJModel', 'LSQ', 'LinearFit', 'C06Corr'], 'case06', 'agree06', cases,
                       show='show06', shard=ck.n(6, 20))
    for i in bad:
        pr, geom, nap, eff = meta[i]
        ck.violation({'kind': 'align_wcs-fit-differs-from-exact-fit-of-true-pairs-with-true-weights',
                      'stream': 'expand_refcat (second image)', 'fitgeom': geom, 'pairs_with_appended_rows': nap,
                      'impl [m00,m01,m10,m11,s0,s1]': [float(v) for v in eff], 'model': ck.last_shown.get(i, 'n/a'),
                      'pairs(ref_tp, image_tp, w_ref, w_im)': slim(pr)})


def run(ck):
    implementation()
    from tweakwcs import linearfit as lf
    ck.props()
    ck.rule = ('fit level: problems with a subset of zero (or negative) weights in either catalog; three variants '
               '(original / coordinates of the zero-weight sources replaced by +-2^40 / those pairs removed) through '
               'the single-shot fitters and iter_linear_fit; the corrupted variant is also compared with the exact '
               'model in Coq; harmonic law vs a single combined weight. Alignment level: 1..3 FITS images per group '
               'with weight columns in image and/or reference catalogs, scripted ground-truth matcher returning '
               'shuffled indices; the reported fit is compared in Coq with the exact model fit of the true pairs '
               'with the true weights. Clipping stream: the same variants (plus zero-weight sources moved by a fraction of '
               'the unit) through iter_linear_fit with nclip=3, clip_accum on/off: parameters, statistics, eff_nclip and '
               'fitmask must agree. Expand stream: two weighted images and a partial weighted reference catalog through '
               'align_wcs(expand_refcat=True); the second image\'s fit is compared in Coq with the exact weighted fit of its '
               'true pairs (rows appended from the first image carry that image\'s weights). Non-trivial: fit returned and at least one zero-weight source / any '
               'alignment case; distinct by content.')
    ck.notes += ['variants are compared within 1e-9 relative; statistics additionally get an absolute floor of 2^-36 x '
                 'the largest coordinate of a participating source (rmse/mae of an exact fit are rounding noise)',
                 'tangent-plane coordinates of the expected pairs are computed through the public transforms '
                 '(det_to_world, world_to_tanp) of the same correctors', 'rounding outside the theorems']
    fit_level(ck, lf)
    align_level(ck)
    expand_level(ck)


def slim(pr):
    return {k: pr[k] for k in ('geom', 'xy', 'uv', 'wxy', 'wuv')}
