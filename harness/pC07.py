"""C07 - sigma clipping rejects exactly the points beyond the cut-off of the current fit."""
import json
import os

import numpy as np

import gen_fit as G
from common import q, b, lst, nat, frac, blist, implementation
from pC06 import effective

STATS = {'rmse': 'SRmse', 'mae': 'SMae', 'std': 'SStd'}


def run_trace(lf, pr, sigma, stat, accum, K):
    xy, uv = np.array(pr['xy'], dtype=float), np.array(pr['uv'], dtype=float)
    wxy = None if pr['wxy'] is None else np.array(pr['wxy'], dtype=float)
    wuv = None if pr['wuv'] is None else np.array(pr['wuv'], dtype=float)
    trace = []
    for k in range(K + 1):
        fit = lf.iter_linear_fit(xy, uv, wxy, wuv, fitgeom=pr['geom'], nclip=k, sigma=(sigma, stat),
                                 clip_accum=accum)
        trace.append({'mask': [bool(x) for x in fit['fitmask']], 'eff': int(fit['eff_nclip']),
                      'par': effective(fit, True), 'stats': [fit['rmse'], fit['mae'], fit['std']],
                      'nres': len(fit['resids'])})
    return trace


def coq_case(pr, sigma, stat, accum, trace, exact=False):
    trs = lst(['{| t_mask := %s; t_eff := %s; t_par := %s; t_stats := %s |}' % (
        blist(e['mask']), nat(e['eff']), lst([q(frac(v)) for v in e['par']]), lst([q(v) for v in e['stats']]))
        for e in trace])
    return ('{| k_g := %s; k_p := %s; k_wxy := %s; k_wuv := %s; k_nsig := %s; k_st := %s; k_accum := %s; '
            'k_exact := %s; k_trace := %s |}' % (G.COQ_GEOM[pr['geom']], G.coq_pts(pr['xy'], pr['uv']),
                                                 G.coq_optw(pr['wxy']), G.coq_optw(pr['wuv']), q(sigma),
                                                 STATS[stat], b(accum), b(exact), trs))


def gen(rng, t, nmax):
    geom = G.GEOMS[t % 4]
    n = rng.choice([G.MINOBJ[geom], G.MINOBJ[geom] + 1, 5, 8, 12, 16, nmax])
    n = max(n, G.MINOBJ[geom])
    frac_out = rng.choice([0, 0.1, 0.2, 0.3])
    pr = G.problem(rng, geom, n=n, noise=rng.choice([1, 2, 2]), style=rng.choice(['random', 'clustered', 'lattice']),
                   outliers=int(round(frac_out * n)), wmode=rng.choice(['none', 'none', 'xy', 'uv', 'both']),
                   zeros=rng.random() < 0.3)
    # make sure enough positively weighted points exist
    for key in ('wxy', 'wuv'):
        if pr[key] is not None:
            for k in range(min(n, G.MINOBJ[geom])):
                if pr[key][k] <= 0:
                    pr[key][k] = 1.0
    return pr, frac_out


def gen_tie(rng):
    """shift-fit data whose residual norms are small integers, symmetric (mean displacement exactly 0), n a power of
    two, and sigma*mae equal to one of the norms exactly."""
    vecs = [(1, 0), (0, 1), (2, 0), (0, 2), (3, 0), (0, 3), (3, 4), (4, 3), (0, 5), (5, 0), (6, 0), (0, 4), (6, 8)]
    for _ in range(200):
        n = rng.choice([8, 16])
        half = [rng.choice(vecs) for _ in range(n // 2)]
        d = half + [(-a, -b_) for a, b_ in half]
        norms = [int(round((a * a + b_ * b_) ** 0.5)) for a, b_ in d]
        mae = sum(norms) / n
        for sigma in (1.5, 2.0, 2.5, 3.0, 4.0):
            c = sigma * mae
            if c in norms and c > min(norms) and any(x > c for x in norms) | True:
                if sum(1 for x in norms if x < c) >= 1:
                    rng.shuffle(d)
                    uv = [[float(rng.randrange(-20, 20)), float(rng.randrange(-20, 20))] for _ in range(n)]
                    xy = [[u[0] + a + 7.0, u[1] + b_ - 3.0] for u, (a, b_) in zip(uv, d)]
                    return ({'geom': 'shift', 'xy': xy, 'uv': uv, 'wxy': None, 'wuv': None, 'n': n,
                             'wmode': 'none'}, sigma)
    return None, None


def run(ck):
    implementation()
    from tweakwcs import linearfit as lf
    ck.props()
    K = ck.n(5, 8)
    ck.rule = ('data = family member + dyadic noise + 0-30%% gross outliers, all fitgeom, sigma in {1.5,2,2.5,3}, '
               'statistics rmse/mae/std, clip_accum both, 4 weight modes; the SAME data are run for nclip = 0..%d '
               'and the resulting history (fitmask, eff_nclip, parameters, statistics per nclip) is validated step '
               'by step inside Coq. Non-trivial: at least one effective clipping iteration happened; distinct by '
               'content.' % K)
    ck.notes += ['cut-off decisions within a relative band of 2^-20 (on squares) or below the absolute noise floor '
                 '(2^-36*scale)^2 are three-valued (either outcome accepted); mae uses a rational square-root '
                 'enclosure of absolute width 2^-50',
                 'every trace entry is also checked to be the exact optimum of its retained points (C06 predicate) '
                 'and its rmse/mae/std to be recomputable from the retained points']
    rng = ck.rng
    N = ck.n(72, 900)
    nmax = ck.n(20, 40)
    cases, meta = [], []
    todo = []
    # corpus first: data sets on which one iteration rejects a point and re-admits another (same count,
    # different set) - found by an offline search, they distinguish "set unchanged" from "count unchanged"
    for c in json.load(open(os.path.join(os.path.dirname(os.path.dirname(os.path.abspath(__file__))), 'corpus',
                                         'c07_swaps.json'))):
        pr = {'geom': c['geom'], 'xy': c['xy'], 'uv': c['uv'], 'wxy': None, 'wuv': None, 'n': len(c['xy']),
              'wmode': 'none'}
        todo.append((pr, 'corpus_swap', c['sigma'], c['stat'], c['accum'], K, False))
    # exact ties: |resid| == sigma * mae exactly, all float operations exact (shift fit, symmetric integer
    # displacements with integer norms, n a power of two, one clipping step): strict '<' must reject the tie
    for t in range(ck.n(24, 200)):
        pr, sigma = gen_tie(rng)
        if pr is not None:
            todo.append((pr, 'exact_tie', sigma, 'mae', bool(t % 2), 1, True))
    for t in range(N):
        pr, fo = gen(rng, t, nmax)
        todo.append((pr, fo, rng.choice([1.5, 2.0, 2.5, 3.0]), ['rmse', 'mae', 'std'][(t // 4) % 3],
                     bool((t // 12) % 2), K, False))
    # constant (and piecewise constant) weights: given weights are not "no weights" - the weighted std estimator
    # (reliability weights, 1 - sum w^2) differs from the unweighted one - also when the retained weights only BECOME
    # uniform after the differently weighted sources were clipped
    for t in range(ck.n(16, 160)):
        pr, fo = gen(rng, 4 * t + t % 4, nmax)
        if pr['n'] < 6:
            continue
        keys = [['wxy'], ['wuv'], ['wxy', 'wuv']][t % 3]
        pr['wxy'], pr['wuv'] = None, None
        nlow = [0, 0, 1, 2][t % 4]
        for key in keys:
            pr[key] = [float(2 ** (t % 3))] * pr['n']
            for k in range(nlow):
                pr[key][pr['n'] - 1 - k] = 0.125           # the outliers G.problem puts last, if any
        pr['wmode'] = {('wxy',): 'xy', ('wuv',): 'uv'}.get(tuple(keys), 'both') + '/constant'
        todo.append((pr, 'constant_weights', rng.choice([1.5, 2.0, 2.5]), ['std', 'std', 'rmse', 'mae'][t % 4],
                     bool(t % 2), K, False))
    for pr, fo, sigma, stat, accum, KK, exact in todo:
        try:
            trace = run_trace(lf, pr, sigma, stat, accum, KK)
        except (lf.SingularMatrixError, lf.NotEnoughPointsError, ValueError) as e:
            ck.discard('implementation raised %s on generated data' % type(e).__name__)
            continue
        # the property is about non-degenerate data: a 'general' fit of (nearly) collinear retained points is
        # ill-conditioned beyond the stated tolerances (and exactly collinear ones are C17's domain, finding K1)
        if pr['geom'] == 'general':
            from fractions import Fraction
            from pC06 import rel_det
            degenerate = False
            for mk in {tuple(e['mask']) for e in trace}:
                sub = {key: (None if pr[key] is None else [v for v, keep in zip(pr[key], mk) if keep])
                       for key in ('xy', 'uv', 'wxy', 'wuv')}
                if rel_det(sub) < Fraction(1, 2 ** 20):
                    degenerate = True
            if degenerate:
                ck.discard('general fit of (nearly) collinear retained points (relative determinant < 2^-20)')
                continue
        # python-side structural predicates (same points everywhere)
        for e in trace:
            ck.search_evaluations += 1
            if e['nres'] != sum(e['mask']) or e['eff'] > len(trace):
                ck.violation({'kind': 'fitmask/resids/eff_nclip inconsistent', 'problem': slim(pr), 'entry': e})
        effmax = max(e['eff'] for e in trace)
        ck.case((pr['xy'], pr['uv'], pr['wxy'], pr['wuv'], sigma, stat, accum), effmax >= 1)
        ck.count('geom', pr['geom'])
        ck.count('stat', stat)
        ck.count('accum', accum)
        ck.count('weights', pr['wmode'])
        ck.count('stream/outlier_fraction', fo)
        ck.count('effective_iterations', effmax)
        ck.count('n', pr['n'])
        cases.append(coq_case(pr, sigma, stat, accum, trace, exact))
        meta.append((pr, sigma, stat, accum, trace))
        if effmax >= 2:
            ck.sample({'geom': pr['geom'], 'n': pr['n'], 'sigma': sigma, 'stat': stat, 'accum': accum,
                       'retained_per_nclip': [sum(e['mask']) for e in trace], 'eff': [e['eff'] for e in trace]})
    bad = ck.coq_agree('trace', ['GJModel', 'LSQ', 'LinearFit', 'ClipModel', 'C06Corr', 'C07Corr'], 'case07',
                       'agree07', cases, show='show07', shard=ck.n(6, 24))
    for i in bad:
        pr, sigma, stat, accum, trace = meta[i]
        ck.violation({'kind': 'clipping-history-disagrees-with-model-step',
                      'call': 'iter_linear_fit(xy, uv, wxy, wuv, fitgeom=%r, nclip=k, sigma=(%r, %r), clip_accum=%r) '
                              'for k = 0..%d' % (pr['geom'], sigma, stat, accum, K),
                      'problem': slim(pr),
                      'impl_history': [{'nclip': k, 'eff_nclip': e['eff'], 'fitmask': e['mask'],
                                        'stats': e['stats']} for k, e in enumerate(trace)],
                      'model (fit_ok per entry, stats_ok per entry, [(step_ok, verdict, sure-retained, '
                      'possibly-retained)] per step)': ck.last_shown.get(i, 'n/a'),
                      'predicate': 'each effective iteration retains exactly the tested points below the cut-off '
                                   'of the current fit; stops only when <minobj would remain or set unchanged'})


def slim(pr):
    return {k: pr[k] for k in ('geom', 'xy', 'uv', 'wxy', 'wuv')}
