"""C15 - overlap-driven ordering: _max_overlap_pair, _max_overlap_image, grouping order of align_wcs."""
import itertools
import logging
import math
import warnings
from fractions import Fraction

import numpy as np

from common import q, b, lst, nat, natlist, frac, is_finite, implementation

F = Fraction


# --------------------------------------------------------------------------- duck-typed footprints
class Rect:
    """Axis-aligned rectangle with dyadic corners standing in for a WCSGroupCatalog / RefCatalog footprint.
    Implements what imalign._max_overlap_pair / overlap_matrix / _max_overlap_image call on an image."""

    def __init__(self, name, x0, x1, y0, y1):
        self.name = name
        self.box = (float(x0), float(x1), float(y0), float(y1))
        self.ncalls = 0

    def intersection_area(self, other):
        a, o = self.box, other.box
        w = max(0.0, min(a[1], o[1]) - max(a[0], o[0]))
        h = max(0.0, min(a[3], o[3]) - max(a[2], o[2]))
        self.ncalls += 1
        return w * h

    def _guarded_intersection_area(self, other):
        return self.intersection_area(other), 0

    def __repr__(self):
        return '%s%r' % (self.name, self.box)


def exact_area(a, o):
    """exact intersection area of two boxes (tuples of floats), independent of Rect's float arithmetic."""
    w = min(F(a[1]), F(o[1])) - max(F(a[0]), F(o[0]))
    h = min(F(a[3]), F(o[3])) - max(F(a[2]), F(o[2]))
    return (w if w > 0 else F(0)) * (h if h > 0 else F(0))


def bbox(a, o):
    return (min(a[0], o[0]), max(a[1], o[1]), min(a[2], o[2]), max(a[3], o[3]))


def coq_rect(bx):
    return '{| rx0 := %s; rx1 := %s; ry0 := %s; ry1 := %s |}' % tuple(q(v) for v in bx)


def coq_optnat(v):
    return 'None' if v is None else 'Some %s' % nat(v)


def coq_optq(v):
    return 'None' if v is None else 'Some %s' % q(v)


# --------------------------------------------------------------------------- generators of footprint sets
def dyad(rng, lo, hi, bits=3):
    return rng.randrange(int(lo * 2 ** bits), int(hi * 2 ** bits)) / float(2 ** bits)


def gen_set(rng, kind, n):
    """n boxes (x0, x1, y0, y1) with dyadic corners."""
    out = []
    if kind == 'chain':          # partially overlapping chain along x, different heights
        x = dyad(rng, 0, 8)
        for _ in range(n):
            w = dyad(rng, 6, 24)
            y0 = dyad(rng, 0, 6)
            out.append((x, x + w, y0, y0 + dyad(rng, 6, 20)))
            x += dyad(rng, 2, 14)
    elif kind == 'nested':       # box 1 inside box 0; later boxes inside box 0, nested in or straddling the previous
        bx = (0.0, 64.0, 0.0, 64.0)
        out.append(bx)
        for k in range(1, n):
            wx, wy = bx[1] - bx[0], bx[3] - bx[2]
            dx0, dy0 = dyad(rng, 0.125, max(0.25, wx / 4)), dyad(rng, 0.125, max(0.25, wy / 4))
            dx1, dy1 = dyad(rng, 0.125, max(0.25, wx / 4)), dyad(rng, 0.125, max(0.25, wy / 4))
            bx = (bx[0] + dx0, bx[1] - dx1, bx[2] + dy0, bx[3] - dy1)
            if k >= 2 and rng.random() < 0.6:      # push it partly out of its parent (still inside box 0)
                sh = dyad(rng, 0.25, max(0.5, dx1 + (bx[1] - bx[0]) / 2))
                nb = (bx[0] + sh, bx[1] + sh, bx[2], bx[3])
                if nb[1] < 64.0:
                    out.append(nb)
                    continue
            out.append(bx)
    elif kind == 'disjoint_mix':  # a cluster of overlapping boxes plus boxes disjoint from everything
        nd = rng.randrange(1, max(2, n - 1))
        for k in range(n - nd):
            x0, y0 = dyad(rng, 0, 12), dyad(rng, 0, 12)
            out.append((x0, x0 + dyad(rng, 8, 24), y0, y0 + dyad(rng, 8, 24)))
        for k in range(nd):
            x0 = 100.0 + 40 * k + dyad(rng, 0, 4)
            out.append((x0, x0 + dyad(rng, 4, 20), dyad(rng, 0, 8), dyad(rng, 10, 30)))
    elif kind == 'random':
        for _ in range(n):
            x0, y0 = dyad(rng, 0, 40), dyad(rng, 0, 40)
            out.append((x0, x0 + dyad(rng, 2, 40), y0, y0 + dyad(rng, 2, 40)))
    elif kind == 'mixed':        # nested pair + overlapping + one disjoint when room
        big = (0.0, 40.0, 0.0, 40.0)
        out.append(big)
        x0, y0 = dyad(rng, 2, 10), dyad(rng, 2, 10)
        out.append((x0, x0 + dyad(rng, 4, 20), y0, y0 + dyad(rng, 4, 20)))      # nested in big
        while len(out) < n:
            if len(out) == n - 1 and n >= 4:
                out.append((200.0, 200.0 + dyad(rng, 4, 20), 0.0, dyad(rng, 4, 20)))   # disjoint
            else:
                x0, y0 = dyad(rng, 20, 50), dyad(rng, -10, 30)
                out.append((x0, x0 + dyad(rng, 6, 30), y0, y0 + dyad(rng, 6, 30)))
    elif kind == 'ties_grid':    # small integer boxes: many equal overlaps
        for _ in range(n):
            x0, y0 = rng.randrange(0, 4), rng.randrange(0, 3)
            out.append((float(x0), float(x0 + rng.randrange(1, 4)), float(y0), float(y0 + rng.randrange(1, 3))))
    elif kind == 'ties_identical':
        base = (0.0, 8.0, 0.0, 8.0)
        for k in range(n):
            out.append(base if rng.random() < 0.6 else (4.0, 12.0, 0.0, 8.0))
    elif kind == 'all_disjoint':
        for k in range(n):
            out.append((20.0 * k, 20.0 * k + dyad(rng, 1, 10), 0.0, dyad(rng, 1, 10)))
    else:
        raise ValueError(kind)
    return out[:n]


def analyse(boxes):
    """exact overlap matrix and what is unique about it."""
    n = len(boxes)
    m = [[F(0)] * n for _ in range(n)]
    for i in range(n):
        for j in range(i + 1, n):
            m[i][j] = m[j][i] = exact_area(boxes[i], boxes[j])
    best = max([m[i][j] for i in range(n) for j in range(i + 1, n)] or [F(0)])
    arg = [(i, j) for i in range(n) for j in range(i + 1, n) if m[i][j] == best]
    tot = [sum(r) for r in m]
    info = {'m': m, 'best': best, 'argmax_pairs': arg, 'tot': tot,
            'unique': n < 3 or (len(arg) == 1 and tot[arg[0][0]] != tot[arg[0][1]] and best > 0)}
    kinds = set()
    for i in range(n):
        for j in range(i + 1, n):
            a, o = boxes[i], boxes[j]
            if m[i][j] == 0:
                kinds.add('disjoint')
            elif m[i][j] in (exact_area(a, a), exact_area(o, o)):
                kinds.add('nested')
            else:
                kinds.add('partial')
    info['relations'] = sorted(kinds)
    return info


# --------------------------------------------------------------------------- running the implementation
def pos_of(objs):
    return {id(o): k for k, o in enumerate(objs)}


def run_pair(imalign, objs, enforce):
    """objs: Rect objects in list order. Returns dict with positions (into objs) or an 'error'."""
    work = list(objs)
    ident = pos_of(objs)
    try:
        im1, im2, area = imalign._max_overlap_pair(work, enforce)
    except Exception as e:   # noqa
        return {'error': '%s: %s' % (type(e).__name__, e)}, work
    out = {'ref': None if im1 is None else ident.get(id(im1), -1),
           'sec': None if im2 is None else ident.get(id(im2), -1),
           'area': area, 'rest': [ident.get(id(o), -1) for o in work]}
    return out, work


def run_image(imalign, refobj, work, enforce):
    """work is modified in place (as the implementation does). Positions refer to `work` BEFORE the call."""
    before = list(work)
    ident = pos_of(before)
    try:
        im, area = imalign._max_overlap_image(refobj, work, enforce)
    except Exception as e:   # noqa
        return {'error': '%s: %s' % (type(e).__name__, e)}, before, None
    out = {'img': None if im is None else ident.get(id(im), -1), 'area': area,
           'rest': [ident.get(id(o), -1) for o in work]}
    return out, before, im


def area_ok(a):
    return a is None or (isinstance(a, (int, float, np.floating, np.integer)) and is_finite(a))


# --------------------------------------------------------------------------- the property predicate (on the implementation)
def pred_pair(boxes, enforce, out):
    """the sentence of C15 about the first pair, evaluated on what the implementation returned. boxes in list order."""
    n = len(boxes)
    if 'error' in out:
        return False, 'raised ' + out['error']
    r, s, area, rest = out['ref'], out['sec'], out['area'], out['rest']
    if n == 0:
        return (r is None and s is None and rest == []), 'empty list'
    if n == 1:
        return (r == 0 and s is None and rest == [0]), 'single image: returned, nothing removed'
    if r is None or s is None or r < 0 or s < 0 or r == s:
        return False, 'returned images are not two distinct members of the input list'
    if not area_ok(area) or area is None:
        return False, 'reported area is not a finite number'
    true = exact_area(boxes[r], boxes[s])
    if frac(area) != true:
        return False, 'reported area %r is not the area %s of the returned pair' % (float(area), true)
    if sorted(rest + [r, s]) != list(range(n)):
        return False, 'work list does not lose exactly the two returned images'
    if n == 2 or enforce:
        if (r, s) != (0, 1):
            return False, 'user order: the first two images of the list must be returned in list order'
        if rest != list(range(2, n)):
            return False, 'user order: the rest of the work list must be untouched'
        return True, ''
    m = [[exact_area(boxes[i], boxes[j]) if i != j else F(0) for j in range(n)] for i in range(n)]
    best = max(m[i][j] for i in range(n) for j in range(n) if i != j)
    if m[r][s] != best:
        return False, 'returned pair has overlap %s, the largest overlap is %s' % (m[r][s], best)
    if sum(m[r]) < sum(m[s]):
        return False, 'reference has total overlap %s < %s of the other image' % (sum(m[r]), sum(m[s]))
    keys = [m[r][k] for k in rest]
    if any(keys[k] < keys[k + 1] for k in range(len(keys) - 1)):
        return False, 'remaining work list is not ordered by decreasing overlap with the reference: %s' % [str(x) for x in keys]
    return True, ''


def pred_image(refbox, boxes, enforce, out):
    n = len(boxes)
    if 'error' in out:
        return False, 'raised ' + out['error']
    k, area, rest = out['img'], out['area'], out['rest']
    if n == 0:
        return (k is None and area is None and rest == []), 'empty work list'
    if k is None or k < 0:
        return False, 'returned image is not a member of the work list'
    if not area_ok(area) or area is None:
        return False, 'reported area is not a finite number'
    v = [exact_area(refbox, bx) for bx in boxes]
    if frac(area) != v[k]:
        return False, 'reported area %r is not the overlap %s of the returned image with the reference' % (float(area), v[k])
    if sorted(rest + [k]) != list(range(n)):
        return False, 'work list does not lose exactly the returned image'
    if enforce:
        if k != 0:
            return False, 'user order: the head of the work list must be returned'
    elif v[k] != max(v):
        return False, 'returned image has overlap %s with the reference, the largest is %s' % (v[k], max(v))
    return True, ''


# --------------------------------------------------------------------------- end to end (real correctors)
def mkwcs(crval, rot, scale=1e-5):
    from astropy import wcs as fitswcs
    from tweakwcs.linearfit import build_fit_matrix
    w = fitswcs.WCS(naxis=2)
    w.wcs.cd = build_fit_matrix(rot, scale)
    w.wcs.crval = list(crval)
    w.wcs.crpix = [512.0, 512.0]
    w.wcs.ctype = ['RA---TAN', 'DEC--TAN']
    w.pixel_shape = [1024, 1024]
    w.wcs.set()
    return w


class Sky:
    def __init__(self, seed, nsrc, half):
        r = np.random.default_rng(seed)
        self.ra = 82.0 + r.uniform(-half, half, nsrc) / math.cos(math.radians(12.0))
        self.dec = 12.0 + r.uniform(-half, half, nsrc)


def mkcorr(sky, k, gid, dra, ddec, rot):
    from astropy.table import Table
    from tweakwcs import FITSWCSCorrector
    wt = mkwcs((82.0 + dra, 12.0 + ddec), rot)
    x, y = wt.all_world2pix(sky.ra, sky.dec, 0)
    msk = (x > 5) & (x < 1019) & (y > 5) & (y < 1019)
    meta = {'catalog': Table([x[msk], y[msk]], names=('x', 'y')), 'name': 'im%d' % k}
    if gid is not None:
        meta['group_id'] = gid
    return FITSWCSCorrector(wt, meta=meta)


def make_matcher(on_call=None):
    from tweakwcs.matchutils import MatchCatalogs

    class Recorder(MatchCatalogs):
        """scripted matcher: nearest neighbour in the tangent plane; records which images are being aligned."""

        def __init__(self):
            self.calls = []

        def __call__(self, refcat, imcat, **kw):
            from scipy.spatial import cKDTree
            self.calls.append(sorted(set(int(str(v)[2:]) for v in imcat['cat_name'])))
            if on_call is not None:
                on_call(refcat, self.calls[-1])
            r = np.array([refcat['TPx'], refcat['TPy']]).T
            m = np.array([imcat['TPx'], imcat['TPy']]).T
            d, j = cKDTree(r).query(m, distance_upper_bound=3.0)
            ii = np.nonzero(np.isfinite(d))[0]
            return np.array(j[ii], dtype=int), np.array(ii, dtype=int)

    return Recorder()


def model_groups(gids):
    """python mirror of the property sentence (groups in order of first member), used for the predicate."""
    out, seen = [], {}
    for k, g in enumerate(gids):
        key = ('u', k) if g is None else ('g', g)
        if key not in seen:
            seen[key] = len(out)
            out.append([])
        out[seen[key]].append(k)
    return out


def legacy_groups(gids):
    d = {}
    for k, g in enumerate(gids):
        d.setdefault(g, []).append(k)
    out = []
    for g, ms in d.items():
        out.extend([[k] for k in ms] if g is None else [ms])
    return out


def e2e_user_order(ck, tw, sky, gids, expand, labels=None):
    # the canonical group numbers may be mapped to arbitrary hashable user labels, including falsy but valid ones
    # (0, '', False): a label means "no group" only when it is None
    lab = (lambda g: g) if not labels else (lambda g: None if g is None else labels.get(g, g))
    cors = [mkcorr(sky, k, lab(g), 0.002 * k, 0.0005 * (k % 2), 10.0 * k) for k, g in enumerate(gids)]
    mt = make_matcher()
    try:
        tw.align_wcs(cors, match=mt, enforce_user_order=True, expand_refcat=expand, fitgeom='rscale', nclip=0)
    except Exception as e:   # noqa
        return {'error': '%s: %s' % (type(e).__name__, e)}
    ref = [k for k, c in enumerate(cors) if c.meta.get('fit_info', {}).get('status') == 'REFERENCE']
    return {'order': [ref] + mt.calls, 'status': [c.meta.get('fit_info', {}).get('status') for c in cors]}


def e2e_optimised(ck, tw, sky, offsets):
    """enforce_user_order=False, expand_refcat=True, every image its own group. The matcher sees the current
    reference catalog at every step; the footprint of that catalog and of the images still in the work list are
    rebuilt with the public classes and their overlap areas give the expected choice."""
    from tweakwcs.wcsimage import WCSImageCatalog, WCSGroupCatalog, RefCatalog
    n = len(offsets)
    cors = [mkcorr(sky, k, None, offsets[k][0], offsets[k][1], offsets[k][2]) for k in range(n)]
    twins = [mkcorr(sky, k, None, offsets[k][0], offsets[k][1], offsets[k][2]) for k in range(n)]
    gcat = [WCSGroupCatalog(WCSImageCatalog(catalog=c.meta['catalog'], corrector=c, name=c.meta['name']),
                            name='twin') for c in twins]
    steps = []

    def on_call(refcat_table, members):
        t = refcat_table.copy()
        rc = RefCatalog(t, name='twin-ref')
        steps.append((members, [float(rc._guarded_intersection_area(g)[0]) for g in gcat]))

    mt = make_matcher(on_call)
    try:
        tw.align_wcs(cors, match=mt, enforce_user_order=False, expand_refcat=True, fitgeom='rscale', nclip=0)
    except Exception as e:   # noqa
        return {'error': '%s: %s' % (type(e).__name__, e)}
    ref = [k for k, c in enumerate(cors) if c.meta.get('fit_info', {}).get('status') == 'REFERENCE']
    m = [[0.0 if i == j else float(gcat[i]._guarded_intersection_area(gcat[j])[0]) for j in range(n)]
         for i in range(n)]
    return {'ref': ref, 'steps': steps, 'm': m}


# --------------------------------------------------------------------------- proofs
def props_with_coqchk(ck):
    """ck.props() decides the coqchk obligation by looking for 'Modules were successfully checked', a line that
    `coqchk -silent` does not print (so the obligation of common.py can never be discharged); common.py is shared
    and not edited here: its coqchk step is switched off for this call and the re-check is run below, judged by
    the exit status of coqchk and its context summary."""
    import os
    import subprocess
    from common import COQ
    old = os.environ.get('VERIF_COQCHK')
    os.environ['VERIF_COQCHK'] = '0'
    try:
        ok = ck.props()
    finally:
        if old is None:
            del os.environ['VERIF_COQCHK']
        else:
            os.environ['VERIF_COQCHK'] = old
    if ok and ck.thorough and (old or '1') == '1':
        r = subprocess.run(['timeout', '1500', 'coqchk', '-silent', '-o', '-R', '.', 'TW', 'TW.Props.' + ck.pid],
                           cwd=COQ, stdout=subprocess.PIPE, stderr=subprocess.STDOUT, text=True)
        good = r.returncode == 0 and 'Axioms: <none>' in r.stdout and 'type-in-type: <none>' in r.stdout
        ck.oblige('coqchk -o TW.Props.%s exits 0 with "Axioms: <none>" (independent re-check of the compiled '
                  'theorems and everything they depend on)' % ck.pid, good, r.stdout[-1500:])
        ck.extra['coqchk'] = r.stdout[-3000:]
    return ok


# --------------------------------------------------------------------------- the check
CORPUS = [
    # DESIGN section 5, F4: 12 of 24 permutations reported 0 or 50 instead of 60
    ('corpus_F4', [(0., 10., 0., 10.), (5., 15., 0., 10.), (9., 19., 0., 10.), (100., 110., 0., 10.)]),
    ('corpus_nested3', [(0., 32., 0., 32.), (2., 20., 2., 20.), (16., 26., 4., 9.)]),
    ('corpus_two', [(0., 8., 0., 8.), (4., 12., 2., 10.)]),
    ('corpus_two_disjoint', [(0., 8., 0., 8.), (40., 52., 2., 10.)]),
]


def _run(ck, queue):
    tw = implementation()
    from tweakwcs import imalign
    warnings.filterwarnings('ignore')
    ck.props()
    rng = ck.rng
    ck.rule = (
        'Helper level: sets of 2..6 axis-aligned rectangles with dyadic corners (streams chain / nested / '
        'disjoint_mix / mixed / random + the rectangles of finding F4), each set in EVERY permutation of its list '
        'order and with enforce_user_order in {False, True}, handed to imalign._max_overlap_pair as duck-typed '
        'footprints; then the session is continued with _max_overlap_image against a growing reference rectangle '
        'until the work list is empty (every permutation for n <= 4, every 5th/every permutation (quick/thorough) '
        'above). Sets whose largest overlap is attained by one pair only and whose two row sums differ go to the Coq '
        'correspondence (ties inside the reference row are compared up to the order of equal overlaps); sets with '
        'ties at the maximum / equal totals / all disjoint / identical rectangles are a separate stream checked '
        'against the property predicate only. A pair case is NON-TRIVIAL when the order is optimised (n >= 3, '
        'enforce_user_order=False), the largest overlap is positive and unique, the returned reference precedes the '
        'returned image in this list order (ref index < image index: the orientation on which finding F4 bites) AND '
        'another permutation of the same rectangles was evaluated in which the reference follows the image (both '
        'orientations are measured per set: input_distribution.orientation); distinct by content (rectangles in '
        'list order). End to end: align_wcs on real FITS-WCS correctors with a scripted matcher that records which '
        'images are aligned at every step: group-id patterns (None/1/2/3, length 2..6, incl. [a,g2,b,g2,c] of finding '
        'F9) with enforce_user_order=True, and optimised runs (expand_refcat=True) in which every choice is compared '
        'with the overlap areas of the real spherical footprints (margin 1e-3 relative, otherwise discarded).')
    ck.notes += [
        'exhaustive=true refers to the list ORDER: every permutation of every generated set of rectangles (and both '
        'values of enforce_user_order) is evaluated; the sets themselves are sampled (plus a fixed corpus)',
        'footprints at helper level are planar rectangles (duck-typed objects implementing intersection_area / '
        '_guarded_intersection_area); spherical_geometry polygon areas enter only in the end-to-end part and are '
        'trusted there',
        'np.argsort tie order is not part of the property: the correspondence compares the remaining work list up to '
        'the order of images with equal overlap; np.argmax tie-breaking (first maximum) is modelled but sets with '
        'ties at the maximum are only checked against the predicate',
        'MalformedPolygonError fall-back (area 0 + warning) is not exercised',
    ]
    ck.trusted += ['python predicate pred_pair/pred_image (exact Fractions) used for the tie stream and for deciding '
                   'whether a model disagreement is a failing input',
                   'scripted matcher + twin RefCatalog/WCSGroupCatalog footprints in the end-to-end part']
    ck.extra['exhaustive'] = True
    ck.extra['exhaustive_scope'] = 'all n! list orders x {enforce_user_order} of every generated rectangle set, n = 2..6'

    # ------------------------------------------------------------------ sets
    per_n = {2: ck.n(3, 8), 3: ck.n(6, 30), 4: ck.n(6, 40), 5: ck.n(3, 16), 6: ck.n(2, 9)}
    main_kinds = ['chain', 'nested', 'disjoint_mix', 'mixed', 'random']
    tie_kinds = ['ties_grid', 'ties_identical', 'all_disjoint']
    sets = list(CORPUS)
    for n in range(2, 7):
        for t in range(per_n[n]):
            kind = main_kinds[(t + n) % len(main_kinds)]
            for attempt in range(60):
                boxes = gen_set(rng, kind, n)
                if analyse(boxes)['unique'] or attempt == 59:
                    break
                ck.discard('generated set has ties at the largest overlap / equal totals / no overlap: regenerated')
            sets.append((kind, boxes))
    tie_sets = []
    for n in range(2, 7):
        for t in range(ck.n(2, 6) if n <= 5 else ck.n(1, 2)):
            kind = tie_kinds[(t + n) % len(tie_kinds)]
            tie_sets.append((kind, gen_set(rng, kind, n)))

    def report(rec, no_input=False):
        queue.append((rec, no_input))

    pcases, pmeta = [], []      # pair cases for Coq
    icases, imeta = [], []      # image cases for Coq
    nsample = 0

    def session(objs, boxes_in_order, enforce, out, work, every, tag, to_coq):
        """continue with _max_overlap_image until the work list is empty (+ one call on the empty list)."""
        if 'error' in out or out['ref'] is None or out['ref'] < 0:
            return
        refbox = boxes_in_order[out['ref']]
        step = 0
        while True:
            refobj = Rect('REF', *refbox)
            wboxes = [o.box for o in work]
            names = [o.name for o in work]
            iout, before, im = run_image(imalign, refobj, work, enforce)
            ok, why = pred_image(refbox, wboxes, enforce, iout)
            ck.search_evaluations += 1
            ck.count('image_calls', 'len=%d enforce=%s' % (len(wboxes), enforce))
            v = [exact_area(refbox, bx) for bx in wboxes]
            unique = len(wboxes) == 0 or enforce or v.count(max(v)) == 1
            rec = {'call': 'imalign._max_overlap_image(refimage, images, enforce_user_order)', 'set': tag,
                   'refimage_box(x0,x1,y0,y1)': refbox, 'images(name, box) in list order': list(zip(names, wboxes)),
                   'enforce_user_order': enforce, 'impl': clean(iout), 'session_step': step,
                   'overlaps_with_reference': [str(x) for x in v]}
            encodable = 'error' not in iout and (iout['img'] is None or iout['img'] >= 0) and \
                min(iout['rest'] or [0]) >= 0 and area_ok(iout['area'])
            if not ok and not (to_coq and unique and encodable):
                rec.update(kind='next-image-violates-property', predicate=why)
                report(rec)
            elif to_coq and unique and encodable:
                icases.append('{| i_refr := %s; i_rects := %s; i_enforce := %s; i_idx := %s; i_ar := %s; i_rs := %s |}'
                              % (coq_rect(refbox), lst([coq_rect(x) for x in wboxes]), b(enforce),
                                 coq_optnat(iout['img']), coq_optq(iout['area']), natlist(iout['rest'])))
                imeta.append((rec, ok, why))
                ck.case(('image', refbox, tuple(wboxes), enforce), (not enforce) and len(wboxes) >= 2 and max(v) > 0
                        and iout['img'] is not None and iout['img'] > 0)
            elif not unique:
                ck.discard('image step with equal largest overlaps: predicate only')
            if im is None or 'error' in iout:
                break
            refbox = bbox(refbox, im.box)
            step += 1

    def clean(o):
        return {k: (float(v) if isinstance(v, (np.floating, np.integer)) else v) for k, v in o.items()}

    for stream, allsets, to_coq in (('main', sets, True), ('ties', tie_sets, False)):
        for kind, boxes in allsets:
            n = len(boxes)
            info = analyse(boxes)
            use_coq = to_coq and info['unique']
            if to_coq and not info['unique']:
                ck.discard('generated set has ties at the largest overlap or equal totals: moved to predicate-only')
            ck.count('sets', '%s n=%d' % (kind, n))
            ck.count('set_relations', '+'.join(info['relations']))
            names = 'ABCDEF'[:n]
            pending = []
            orient = {'ref<img': 0, 'ref>img': 0}
            every = 1 if (n <= 4 or ck.thorough) else 5
            for pi, perm in enumerate(itertools.permutations(range(n))):
                if stream == 'ties' and n >= 5 and pi % (7 if n == 5 else 37):
                    continue
                for enforce in (False, True):
                    objs = [Rect(names[k], *boxes[k]) for k in perm]
                    pb = [boxes[k] for k in perm]
                    out, work = run_pair(imalign, objs, enforce)
                    ok, why = pred_pair(pb, enforce, out)
                    ck.search_evaluations += 1
                    ck.count('pair_calls', 'n=%d enforce=%s %s' % (n, enforce, stream))
                    rec = {'call': 'imalign._max_overlap_pair(images, enforce_user_order)', 'set': kind,
                           'images(name, box x0,x1,y0,y1) in list order': [(o.name, o.box) for o in objs],
                           'enforce_user_order': enforce, 'impl (positions in the input list)': clean(out),
                           'exact_overlap_matrix': [[str(exact_area(a, o)) if a is not o else '0' for o in pb]
                                                    for a in pb]}
                    encodable = 'error' not in out and min([out['ref'] or 0, out['sec'] or 0] + out['rest']) >= 0 \
                        and area_ok(out['area'])
                    if not ok and not (use_coq and encodable):
                        rec.update(kind='first-pair-violates-property', predicate=why)
                        report(rec)
                    elif use_coq:
                        pcases.append('{| c_rects := %s; c_enforce := %s; c_ref := %s; c_sec := %s; c_area := %s; '
                                      'c_rest := %s |}' % (lst([coq_rect(x) for x in pb]), b(enforce),
                                                           coq_optnat(out['ref']), coq_optnat(out['sec']),
                                                           coq_optq(out['area']), natlist(out['rest'])))
                        pmeta.append((rec, ok, why))
                        opt = (not enforce) and n >= 3 and out['ref'] is not None and out['sec'] is not None
                        if opt:
                            orient['ref<img' if out['ref'] < out['sec'] else 'ref>img'] += 1
                        pending.append((('pair', tuple(pb), enforce), opt and out['ref'] < out['sec']))
                        if nsample < 4 and opt and pi % 5 == 3:
                            nsample += 1
                            ck.sample({'images': [(o.name, o.box) for o in objs], 'enforce_user_order': enforce,
                                       'returned (positions)': clean(out)})
                    if ok and (pi % every == 0):
                        session(objs, pb, enforce, out, work, every, kind, use_coq)
            both = orient['ref<img'] > 0 and orient['ref>img'] > 0
            for key, lt in pending:
                ck.case(key, lt and both)
            ck.count('orientation', 'ref<img', orient['ref<img'])
            ck.count('orientation', 'ref>img', orient['ref>img'])
            if use_coq and n >= 3:
                ck.count('sets_with_both_orientations', both)

    # degenerate lengths 0 and 1 (predicate + Coq)
    for enforce in (False, True):
        for n in (0, 1):
            objs = [Rect('A', 0, 4, 0, 4)][:n]
            out, work = run_pair(imalign, objs, enforce)
            ok, why = pred_pair([o.box for o in objs], enforce, out)
            ck.search_evaluations += 1
            rec = {'call': 'imalign._max_overlap_pair', 'images': [(o.name, o.box) for o in objs],
                   'enforce_user_order': enforce, 'impl': clean(out)}
            if 'error' in out or not area_ok(out['area']) or min([out['ref'] or 0, out['sec'] or 0] + out['rest']) < 0:
                rec.update(kind='first-pair-violates-property', predicate=why)
                report(rec)
            else:
                pcases.append('{| c_rects := %s; c_enforce := %s; c_ref := %s; c_sec := %s; c_area := %s; '
                              'c_rest := %s |}' % (lst([coq_rect(o.box) for o in objs]), b(enforce),
                                                   coq_optnat(out['ref']), coq_optnat(out['sec']),
                                                   coq_optq(out['area']), natlist(out['rest'])))
                pmeta.append((rec, ok, why))
                ck.case(('pair-short', n, enforce), False)

    bad = set(ck.coq_agree('pair', ['OverlapModel', 'C15Corr'], 'case15p', 'agree15p', pcases, show='show15p',
                           shard=600))
    for i, (rec0, ok, why) in enumerate(pmeta):
        if ok and i not in bad:
            continue
        rec = dict(rec0)
        rec['model (pick with positions in the input list, table of exact areas)'] = ck.last_shown.get(i, 'n/a')
        rec['agree15p'] = i not in bad
        if not ok:
            rec.update(kind='first-pair-violates-property', predicate=why)
            report(rec)
        else:
            rec.update(kind='first-pair-disagrees-with-model',
                       predicate='the property predicate holds on this input; the implementation differs from the '
                                 'model (coq/Model/OverlapModel.v max_overlap_pair) in something the property does '
                                 'not fix')
            report(rec, no_input=True)
    bad = set(ck.coq_agree('image', ['OverlapModel', 'C15Corr'], 'case15i', 'agree15i', icases, show='show15i',
                           shard=800))
    for i, (rec0, ok, why) in enumerate(imeta):
        if ok and i not in bad:
            continue
        rec = dict(rec0)
        rec['model (ipick with positions in the work list, overlaps with the reference)'] = ck.last_shown.get(i, 'n/a')
        rec['agree15i'] = i not in bad
        if not ok:
            rec.update(kind='next-image-violates-property', predicate=why)
            report(rec)
        else:
            rec.update(kind='next-image-disagrees-with-model',
                       predicate='the property predicate holds (largest overlap, area of that image, exactly it '
                                 'removed); the implementation differs from the model in the order of the '
                                 'remaining work list')
            report(rec, no_input=True)

    # ------------------------------------------------------------------ groups with a gap between their members
    # two chips with a gap, an image H lying in the gap (true overlap 0 with the group) and an image K overlapping one
    # chip, for every bounding-box policy (the approximate footprint of a group must not enter overlap AREAS): the pair
    # with the largest true overlap is (G, K), the reported area is that overlap
    from tweakwcs.wcsimage import WCSImageCatalog, WCSGroupCatalog
    wide = Sky(ck.seed % 1000 + 11, 4000, 0.04)
    for t in range(ck.n(8, 60)):
        jit = [rng.uniform(-3e-4, 3e-4) for _ in range(4)]
        chips = [mkcorr(wide, 0, None, -0.0115 + jit[0], 0.0, 0.0), mkcorr(wide, 1, None, 0.0115 + jit[1], 0.0, 0.0)]
        h_ = mkcorr(wide, 2, None, jit[2], 0.0, 0.0)
        k_ = mkcorr(wide, 3, None, -0.0115 - 0.006 + jit[3], 0.001, 0.0)
        bbp = ['auto', 'exact', 0, 1, 2][t % 5]

        def cat(c):
            return WCSImageCatalog(c.meta['catalog'], c, name=c.meta['name'])
        G_ = WCSGroupCatalog([cat(c) for c in chips], name='G', bb_policy=bbp)
        H_ = WCSGroupCatalog([cat(h_)], name='H', bb_policy=bbp)
        K_ = WCSGroupCatalog([cat(k_)], name='K', bb_policy=bbp)
        # expectation from member polygons only (public API)
        def true_area(a, b_):
            tot = 0.0
            for ia in a:
                for ib_ in b_:
                    tot += abs(ia.polygon.intersection(ib_.polygon).area())
            return tot
        aGH, aGK, aHK = true_area(G_, H_), true_area(G_, K_), true_area(H_, K_)
        ck.search_evaluations += 1
        ck.count('gap_group_bb_policy', bbp)
        if not (aGH == 0.0 and aGK > 0.0 and aGK > aHK):
            ck.discard('gap-group scenario: generated footprints do not have the intended overlaps')
            continue
        order = [[G_, H_, K_], [H_, G_, K_], [K_, H_, G_]][t % 3]
        names_in = [o.name for o in order]
        lst_ = list(order)
        try:
            im1, im2, area = tw.imalign._max_overlap_pair(lst_, False)
        except Exception as e:   # noqa: BLE001
            report({'kind': 'gap-group: _max_overlap_pair raised', 'bb_policy': bbp, 'exception': repr(e)})
            continue
        ck.case(('gap-group', t, bbp), True)
        got = {im1.name, im2.name}
        if got != {'G', 'K'} or not abs(area - aGK) <= 1e-4 * aGK or [o.name for o in lst_] != ['H']:
            report({'kind': 'gap-group: pair with the largest true overlap not selected', 'bb_policy': repr(bbp),
                    'input order': names_in, 'selected': [im1.name, im2.name], 'reported_area_sr': float(area),
                    'true areas (member-wise polygon intersections, sr)': {'G-H': aGH, 'G-K': aGK, 'H-K': aHK},
                    'remaining work list': [o.name for o in lst_],
                    'geometry': 'G = two 1024 px chips 0.023 deg apart (gap 0.0128 deg), H a 1024 px image centred in the '
                                'gap, K overlapping the first chip; pixel scale 1e-5 deg'})

    # ------------------------------------------------------------------ end to end
    logging.disable(logging.CRITICAL)
    sky = Sky(ck.seed % 1000 + 5, 90, 0.012)
    pats = [[None, 2, None, 2, None], [1, None, 1], [None, None], [None, 1, None, None, 1, 2],
            [3, None, 2, 3, None, 2], [None, None, None]]
    for t in range(ck.n(14, 90)):
        n = rng.randrange(2, 7)
        pats.append([rng.choice([None, None, 1, 2, 3]) for _ in range(n)])
    gcases, gmeta = [], []
    seen = set()
    for t, gids in enumerate(pats):
        if tuple(gids) in seen:
            ck.discard('duplicate group-id pattern')
            continue
        seen.add(tuple(gids))
        if len(model_groups(gids)) < 2:
            ck.discard('group-id pattern with a single group (NotEnoughCatalogs)')
            continue
        expand = bool(t % 2)
        labels = [None, {1: 0, 2: '', 3: 7}, {1: 'a', 2: False, 3: (0,)}][t % 3]
        ck.count('e2e_group_labels', 'canonical numbers' if labels is None else 'mapped incl. falsy')
        res = e2e_user_order(ck, tw, sky, gids, expand, labels)
        ck.search_evaluations += 1
        ck.count('e2e_user_order', 'n=%d groups=%d' % (len(gids), len(model_groups(gids))))
        rec = {'call': 'align_wcs(correctors, match=<scripted>, enforce_user_order=True, expand_refcat=%s)' % expand,
               'group_id of the input correctors, in list order': gids, 'labels (canonical -> user label)': repr(labels), 'impl': res,
               'expected order of groups (input positions)': model_groups(gids)}
        ok = 'error' not in res and res['order'] == model_groups(gids)
        if 'error' in res:
            rec.update(kind='groups-not-aligned-in-order-of-first-member',
                       predicate='align_wcs raised')
            report(rec)
            continue
        gcases.append('{| g_gids := %s; g_order := %s |}' % (
            lst(['None' if g is None else 'Some %s' % nat(g) for g in gids]),
            lst([natlist(g) for g in res['order']])))
        gmeta.append((rec, ok))
        ck.case(('e2e-groups', tuple(gids), expand), legacy_groups(gids) != model_groups(gids))
        if t == 0:
            ck.sample({'group_ids': gids, 'aligned order (reference first)': res['order']})
    bad = set(ck.coq_agree('groups', ['OverlapModel', 'C15Corr'], 'case15g', 'agree15g', gcases, show='show15g'))
    for i, (rec0, ok) in enumerate(gmeta):
        if ok and i not in bad:
            continue
        rec = dict(rec0)
        rec['model (user_order gids: reference group, then the groups in alignment order)'] = ck.last_shown.get(i, 'n/a')
        rec['agree15g'] = i not in bad
        rec.update(kind='groups-not-aligned-in-order-of-first-member',
                   predicate='reference group, then aligned groups == groups in the order in which their first '
                             'member appears in the input list (python mirror says %s)' % ok)
        report(rec)

    # optimised order end to end (predicate, real spherical footprints)
    sky2 = Sky(ck.seed % 1000 + 11, 140, 0.02)
    for t in range(ck.n(8, 48)):
        n = rng.randrange(3, 6)
        offs = [(rng.randrange(-90, 91) * 0.0001, rng.randrange(-90, 91) * 0.0001, float(rng.randrange(0, 9) * 10))
                for _ in range(n)]
        res = e2e_optimised(ck, tw, sky2, offs)
        ck.search_evaluations += 1
        rec = {'call': 'align_wcs(correctors, match=<scripted>, enforce_user_order=False, expand_refcat=True)',
               'corrector offsets (dRA deg, dDec deg, rotation deg)': offs, 'impl': res}
        if 'error' in res:
            rec.update(kind='align_wcs-raised')
            report(rec)
            continue
        m = np.array(res['m'])
        flat = sorted(set(m[np.triu_indices(n, 1)].tolist()), reverse=True)
        i, j = [int(v) for v in np.unravel_index(np.argmax(m), m.shape)]
        si, sj = m[i].sum(), m[j].sum()
        margin = 1e-3
        if len(flat) < 2 or flat[0] <= 0 or flat[0] - flat[1] < margin * flat[0] or abs(si - sj) < margin * max(si, sj):
            ck.discard('e2e optimised: first pair not separated by the 1e-3 margin')
            continue
        exp_ref, exp_first = (i, j) if si > sj else (j, i)
        steps = res['steps']
        okp = res['ref'] == [exp_ref] and steps and steps[0][0] == [exp_first]
        fails = []
        if not okp:
            fails.append('reference/first image %s/%s, expected %d/%d' % (res['ref'], steps[0][0] if steps else None,
                                                                           exp_ref, exp_first))
        # step 0 is the image chosen together with the reference (largest pairwise overlap, checked above);
        # every later image must have the largest overlap with the reference footprint at that moment
        done = set(res['ref']) | set(steps[0][0] if steps else [])
        nchecked = 0
        for members, areas in steps[1:]:
            cand = [k for k in range(n) if k not in done]
            best = max(areas[k] for k in cand)
            second = sorted([areas[k] for k in cand], reverse=True)[1] if len(cand) > 1 else -1.0
            if best > 0 and best - second >= margin * best:
                nchecked += 1
                if areas[members[0]] != best:
                    fails.append('step aligning %s: overlaps of the work list with the current reference footprint '
                                 '%s' % (members, {k: areas[k] for k in cand}))
            done.update(members)
        ck.count('e2e_optimised', 'n=%d steps_checked=%d' % (n, nchecked))
        ck.case(('e2e-opt', tuple(offs)), nchecked >= 2)
        if fails:
            rec.update(kind='optimised-order-not-by-largest-overlap', predicate='; '.join(fails))
            report(rec)


def flush(ck, queue):
    """at most 8 replay files are written: every kind of failure gets its first two, model-backed ones first."""
    seen = {}
    ranked = []
    for pos, (rec, no_input) in enumerate(queue):
        has_model = any(key.startswith('model') and val != 'n/a' for key, val in rec.items())
        k = (rec.get('kind'), has_model)
        seen[k] = seen.get(k, 0) + 1
        ranked.append((seen[k] > 2, not has_model, pos, rec, no_input))
    ranked.sort(key=lambda t: t[:3])
    for _, _, _, rec, no_input in ranked:
        ck.violation(rec, no_input=no_input)


def run(ck):
    queue = []
    try:
        _run(ck, queue)
        expansion_sequences(ck)
    finally:
        flush(ck, queue)


# --------------------------------------------------------------------------- expansion sequences (real classes)
def expansion_sequences(ck):
    """multi-step history on ONE RefCatalog, as align_wcs does with expand_refcat: pick the next image, add its
    sources to the reference catalog (the footprint grows), pick again. After every step the chosen image must have
    the largest overlap with the CURRENT reference footprint and the reported area must be that of exactly this
    image - recomputed here on a freshly built RefCatalog (so a stale cached overlap is exposed)."""
    import gen_align as A
    from astropy.table import Table
    from tweakwcs import FITSWCSCorrector, imalign
    from tweakwcs.wcsimage import RefCatalog, WCSGroupCatalog, WCSImageCatalog
    rng = ck.rng
    nprng = np.random.default_rng(rng.randrange(2 ** 31))
    for t in range(ck.n(10, 120)):
        nim = rng.choice([3, 4, 5])
        ra, dec = A.separated_sources(nprng, 260, 0.02, 6e-5)
        step = 0.006
        # a chain / cluster of pointings: the reference sees the first one only
        offs = [(0.0, 0.0)]
        for k in range(nim):
            base = offs[rng.randrange(len(offs))]
            offs.append((base[0] + rng.choice([-1, 1]) * step * rng.uniform(0.5, 0.95),
                         base[1] + rng.choice([-1, 0, 1]) * step * rng.uniform(0.0, 0.9)))
        groups = []
        for k, (dx, dy_) in enumerate(offs):
            w = A.mkwcs(crval=(82.0 + dx / np.cos(np.deg2rad(12.0)), 12.0 + dy_), rot=rng.uniform(0, 360))
            x, y, sid = A.observe(w, ra, dec)
            if len(x) < 8:
                break
            c = FITSWCSCorrector(w, meta={'catalog': Table([x, y], names=('x', 'y')), 'name': 'im%d' % k})
            groups.append(WCSGroupCatalog(WCSImageCatalog(c.meta['catalog'], c, name='im%d' % k), name='im%d' % k))
        if len(groups) < 3:
            continue
        first = groups.pop(0)
        refcat = RefCatalog(Table([first.catalog['RA'], first.catalog['DEC']], names=('RA', 'DEC')), name='ref')
        work = list(groups)
        hist = []
        while work:
            before = list(work)
            im, area = imalign._max_overlap_image(refcat, work, enforce_user_order=False)
            fresh = RefCatalog(Table([refcat.catalog['RA'], refcat.catalog['DEC']], names=('RA', 'DEC')), name='fresh')
            areas = [float(fresh.intersection_area(g)) for g in before]
            best = max(areas)
            k = [i for i, g in enumerate(before) if g is im][0]
            ck.search_evaluations += 1
            ck.case(('expseq', t, len(hist), [round(a * 1e12) for a in areas]), len(hist) >= 1 and best > 0)
            hist.append({'picked': im.name, 'reported_area': float(area), 'fresh_areas': dict(zip([g.name for g in before], areas))})
            tol = 1e-3 * max(best, 1e-30)
            if areas[k] < best - tol or abs(float(area) - areas[k]) > tol or len(work) != len(before) - 1 or im in work:
                ck.violation({'kind': 'next-image-after-catalog-expansion-violates-property',
                              'history (each step: picked image, reported area, overlap of every candidate with the '
                              'current reference footprint recomputed on a fresh RefCatalog)': hist,
                              'pointing_offsets_deg': offs, 'predicate': 'picked image has the largest overlap with '
                              'the CURRENT reference footprint; reported area is the area of exactly that image'})
                break
            refcat.expand_catalog(Table([im.catalog['RA'], im.catalog['DEC']], names=('RA', 'DEC')))
        ck.count('expansion_sequence_length', len(hist))
