"""Builders and generators shared by the corrector checks (C02, C03, C04, C18, C20).

FITS WCSs (astropy.wcs.WCS: TAN, CD or PC+CDELT, optional SIP) and mock JWST gWCSs (the repository's own test helper
tweakwcs/tests/helper_correctors.py), random geometries, random near-identity corrections, histories of operations,
and small numerical helpers.  Every generated number is a dyadic rational (exact as float and as Coq Q)."""
import math
import warnings

import numpy as np

from common import dy, frac, q, lst

warnings.filterwarnings('ignore')

ARCSEC = 3600.0


def imports():
    from astropy import wcs as fitswcs
    from astropy.wcs import Sip
    from tweakwcs import correctors
    from tweakwcs.correctors import FITSWCSCorrector, JWSTWCSCorrector
    from tweakwcs.tests.helper_correctors import make_mock_jwst_wcs
    return dict(fitswcs=fitswcs, Sip=Sip, correctors=correctors, FITS=FITSWCSCorrector, JWST=JWSTWCSCorrector,
                mock=make_mock_jwst_wcs)


# ------------------------------------------------------------------------------------------------ geometry
def dyr(rng, lo, hi, bits=10):
    """dyadic in [lo, hi] with `bits` fractional bits."""
    a, b = int(math.ceil(lo * 2 ** bits)), int(math.floor(hi * 2 ** bits))
    return rng.randint(a, b) / float(2 ** bits)


def rot_scale_matrix(rot_deg, sx, sy, parity=1):
    a = math.radians(rot_deg)
    m = np.array([[math.cos(a), math.sin(a)], [-math.sin(a), math.cos(a)]])
    return np.dot(m, np.diag([parity * sx, sy]))


def gen_pointing(rng, t):
    kind = ['ra0', 'ra360', 'polar_n', 'polar_s', 'equator', 'any', 'any', 'any'][t % 8]
    if kind == 'ra0':
        ra, dec = dyr(rng, 0.0, 0.01, 14), dyr(rng, -70, 70)
    elif kind == 'ra360':
        ra, dec = 360.0 - dyr(rng, 2.0 ** -14, 0.01, 14), dyr(rng, -70, 70)
    elif kind == 'polar_n':
        ra, dec = dyr(rng, 0, 359.9), dyr(rng, 80, 89)
    elif kind == 'polar_s':
        ra, dec = dyr(rng, 0, 359.9), -dyr(rng, 80, 89)
    elif kind == 'equator':
        ra, dec = dyr(rng, 0, 359.9), dyr(rng, -0.01, 0.01, 14)
    else:
        ra, dec = dyr(rng, 0, 359.9), dyr(rng, -80, 80)
    return kind, ra, dec


def gen_fits_geom(rng, t, sip=None, pc=None):
    """random TAN geometry.  scale 1e-6..1e-4 deg/px, field radius kept below 0.45 deg so that the pole is never inside
    the image at |dec| <= 89."""
    kind, ra, dec = gen_pointing(rng, t)
    scale = 10.0 ** rng.uniform(-6, -4)
    scale = float(np.float32(scale))            # short mantissa
    nmax = int(min(4096, 0.6 / scale))
    nx = rng.choice([n for n in (256, 512, 1024, 2048, 4096) if n <= max(256, nmax)])
    ny = rng.choice([n for n in (256, 512, 1024, 2048, 4096) if n <= max(256, nmax)])
    where = rng.choice(['centre', 'centre', 'offcentre', 'corner'])
    if where == 'centre':
        crpix = [nx / 2 + 0.5, ny / 2 + 0.5]
    elif where == 'offcentre':
        crpix = [dyr(rng, 0.2 * nx, 0.8 * nx, 2), dyr(rng, 0.2 * ny, 0.8 * ny, 2)]
    else:
        crpix = [dyr(rng, 1, 0.1 * nx, 2), dyr(rng, 0.9 * ny, ny, 2)]
    g = dict(kind='fits', pointing=kind, crval=[ra, dec], rot=dyr(rng, -180, 180, 6), scale=scale,
             ratio=rng.choice([1.0, 1.0, 1.0 + dyr(rng, -0.05, 0.05, 10)]), parity=rng.choice([1, -1]),
             crpix=crpix, shape=[nx, ny], pc=bool(rng.random() < 0.5) if pc is None else pc,
             sip=bool(rng.random() < 0.4) if sip is None else sip, refpix=where)
    if g['sip']:
        # second / third order terms giving up to ~ a pixel of distortion at the field edge; no constant / linear terms
        r = max(nx, ny) / 2.0
        g['sip_a'] = [[2, 0, dyr(rng, -1, 1, 8) / r ** 2], [1, 1, dyr(rng, -1, 1, 8) / r ** 2],
                      [0, 2, dyr(rng, -1, 1, 8) / r ** 2], [3, 0, dyr(rng, -1, 1, 8) / r ** 3]]
        g['sip_b'] = [[2, 0, dyr(rng, -1, 1, 8) / r ** 2], [1, 1, dyr(rng, -1, 1, 8) / r ** 2],
                      [0, 2, dyr(rng, -1, 1, 8) / r ** 2], [0, 3, dyr(rng, -1, 1, 8) / r ** 3]]
    return g


def build_fits_wcs(I, g):
    w = I['fitswcs'].WCS(naxis=2)
    m = rot_scale_matrix(g['rot'], 1.0, g['ratio'], g['parity'])
    if g['pc']:
        w.wcs.pc = m
        w.wcs.cdelt = [g['scale'], g['scale']]
    else:
        w.wcs.cd = m * g['scale']
    w.wcs.crval = list(g['crval'])
    w.wcs.crpix = list(g['crpix'])
    w.wcs.ctype = ['RA---TAN', 'DEC--TAN']
    w.pixel_shape = list(g['shape'])
    if g.get('sip'):
        a = np.zeros((4, 4))
        b = np.zeros((4, 4))
        for i, j, v in g['sip_a']:
            a[i, j] = v
        for i, j, v in g['sip_b']:
            b[i, j] = v
        w.sip = I['Sip'](a, b, None, None, w.wcs.crpix)
        w.wcs.ctype = ['RA---TAN-SIP', 'DEC--TAN-SIP']
    if g.get('lut'):
        # look-up-table distortions (CPDIS / DET2IM), smooth ramps that do not vanish at CRPIX:
        # g['lut'] = {'which': 'cpdis' | 'det2im' | 'both', 'a': offset, 'b': slope_i, 'c': slope_j}   (pixels)
        from astropy.wcs import DistortionLookupTable
        L = g['lut']
        nx, ny = g['shape']
        ii, jj = np.meshgrid(np.arange(5.0), np.arange(5.0), indexing='ij')
        tab = (L['a'] + L['b'] * (ii - 2.0) + L['c'] * (jj - 2.0)).astype(np.float32)

        def lt(tt):
            return DistortionLookupTable(tt.copy(), (3.0, 3.0), (nx / 2.0, ny / 2.0), (nx / 3.0, ny / 3.0))
        if L['which'] in ('cpdis', 'both', 'cpdis1'):
            w.cpdis1 = lt(tab)
        if L['which'] in ('cpdis', 'both', 'cpdis2'):
            w.cpdis2 = lt(-0.5 * tab.T)
        if L['which'] in ('det2im', 'both'):
            w.det2im1 = lt(0.5 * tab)
            w.det2im2 = lt(0.25 * tab.T)
    w.wcs.set()
    return w


def gen_lut(rng):
    return {'which': rng.choice(['cpdis', 'det2im', 'both', 'cpdis1', 'cpdis2']), 'a': dyr(rng, 0.1, 0.4, 6) * rng.choice([-1, 1]),
            'b': dyr(rng, -0.05, 0.05, 8), 'c': dyr(rng, -0.05, 0.05, 8)}


def fits_corrector(I, g):
    return I['FITS'](build_fits_wcs(I, g))


def gen_gwcs_geom(rng, t, vacorr=None):
    kind, ra, dec = gen_pointing(rng, t)
    # the mock helper's `cd` acts in radians-like units: tangent-plane pixel scale = cd * 206265 arcsec
    cd = float(np.float32(10.0 ** rng.uniform(-7, -5)))
    v2 = rng.choice([0.0, dyr(rng, -500, 500, 3), 123.0])
    v3 = rng.choice([0.0, dyr(rng, -700, 700, 3), 500.0])
    roll = rng.choice([0.0, dyr(rng, -180, 180, 4), 115.0])
    return dict(kind='gwcs', pointing=kind, crval=[ra, dec], v2ref=v2, v3ref=v3, roll=roll, cd=cd,
                crpix=[dyr(rng, 300, 700, 1), dyr(rng, 700, 1300, 1)],
                vacorr=bool(rng.random() < 0.6) if vacorr is None else vacorr, shape=[1024, 2048],
                va_scale=rng.choice([1.0, 1.0, 1.00008, 0.99995]))


_DISTORT = {}


def _distortion_models():
    """detector-plane shear that grows across the chip: (x, y) -> (x0 + (x - x0) (1 + a (y - y0)), y), with its exact
    inverse; makes the local scale of the detector -> tangent-plane map vary with y (sqrt(1 + a (y - y0)))."""
    if not _DISTORT:
        from astropy.modeling import Model, Parameter

        class ShearFwd(Model):
            n_inputs = 2
            n_outputs = 2
            a = Parameter(default=0.0)
            x0 = Parameter(default=0.0)
            y0 = Parameter(default=0.0)

            @staticmethod
            def evaluate(x, y, a, x0, y0):
                return x0 + (x - x0) * (1.0 + a * (y - y0)), y * 1.0

            @property
            def inverse(self):
                return ShearInv(a=self.a.value, x0=self.x0.value, y0=self.y0.value)

        class ShearInv(Model):
            n_inputs = 2
            n_outputs = 2
            a = Parameter(default=0.0)
            x0 = Parameter(default=0.0)
            y0 = Parameter(default=0.0)

            @staticmethod
            def evaluate(x, y, a, x0, y0):
                return x0 + (x - x0) / (1.0 + a * (y - y0)), y * 1.0

            @property
            def inverse(self):
                return ShearFwd(a=self.a.value, x0=self.x0.value, y0=self.y0.value)
        _DISTORT['fwd'], _DISTORT['inv'] = ShearFwd, ShearInv
    return _DISTORT['fwd']


def build_gwcs(I, g):
    if g.get('distort'):
        # a DISTORTED detector -> V2V3 map (the repository's mock is affine): local scale varies over the detector
        import gwcs
        from tweakwcs.tests.helper_correctors import make_mock_jwst_pipeline
        pipeline = make_mock_jwst_pipeline(g['v2ref'], g['v3ref'], g['roll'], list(g['crpix']),
                                           [[g['cd'], 0.0], [0.0, g['cd']]], list(g['crval']), g['vacorr'])
        shear = _distortion_models()(a=g['distort'], x0=g['crpix'][0], y0=g['crpix'][1])
        pipeline[0] = (pipeline[0][0], shear | pipeline[0][1])
        w = gwcs.wcs.WCS(pipeline)
        w.bounding_box = ((-0.5, g['shape'][0] - 0.5), (-0.5, g['shape'][1] - 0.5))
        w.array_shape = (g['shape'][1], g['shape'][0])
        return w
    va = g.get('va_scale', 1.0)
    if g['vacorr'] and va != 1.0:
        # a NON-trivial velocity-aberration step v2v3 -> v2v3vacorr (uniform scale about the reference point), as
        # real JWST pipelines have; the repository's mock uses the identity there
        import gwcs
        from astropy.modeling.models import Scale, Shift
        from tweakwcs.tests.helper_correctors import make_mock_jwst_pipeline
        pipeline = make_mock_jwst_pipeline(g['v2ref'], g['v3ref'], g['roll'], list(g['crpix']),
                                           [[g['cd'], 0.0], [0.0, g['cd']]], list(g['crval']), True)
        step = ((Shift(-g['v2ref']) & Shift(-g['v3ref'])) | (Scale(va) & Scale(va)) |
                (Shift(g['v2ref']) & Shift(g['v3ref'])))
        step.name = 'v2v3vacorr'
        assert pipeline[1][0].name == 'v2v3' and pipeline[2][0].name == 'v2v3vacorr'
        pipeline[1] = (pipeline[1][0], step)
        return gwcs.wcs.WCS(pipeline)
    return I['mock'](v2ref=g['v2ref'], v3ref=g['v3ref'], roll=g['roll'], crpix=list(g['crpix']),
                     cd=[[g['cd'], 0.0], [0.0, g['cd']]], crval=list(g['crval']), enable_vacorr=g['vacorr'])


def gwcs_info(g):
    return {'v2_ref': g['v2ref'], 'v3_ref': g['v3ref'], 'roll_ref': g['roll']}


def gwcs_corrector(I, g):
    return I['JWST'](build_gwcs(I, g), gwcs_info(g))


def make_corrector(I, g):
    return fits_corrector(I, g) if g['kind'] == 'fits' else gwcs_corrector(I, g)


def rewrap(I, c, g):
    if g['kind'] == 'fits':
        return I['FITS'](c.wcs)
    return I['JWST'](c.wcs, c.ref_angles)


def tan_scale_arcsec(g):
    """size of one tangent-plane unit in arcsec (FITS: a pixel, gWCS: an arcsec)."""
    return g['scale'] * ARCSEC if g['kind'] == 'fits' else 1.0


def pix_scale_arcsec(g):
    return g['scale'] * ARCSEC if g['kind'] == 'fits' else g['cd'] * 206264.80624709636


# ------------------------------------------------------------------------------------------------ corrections
def gen_matrix(rng, size):
    """near-identity dyadic matrix. size: 'small' (<= 1e-3), 'medium' (few percent / degrees), 'large' (tens of
    degrees, tens of percent), 'ident'."""
    if size == 'ident':
        return [[1.0, 0.0], [0.0, 1.0]]
    if size == 'tiny':
        # within 1e-5 of the identity (a few 2^-20): must be applied like any other correction
        j = [rng.choice([-8, -5, -2, -1, 1, 3, 6, 8]) for _ in range(4)]
        if rng.random() < 0.6:
            return [[1.0 + j[0] * 2.0 ** -20, 0.0], [0.0, 1.0 + j[0] * 2.0 ** -20]]
        return [[1.0 + j[0] * 2.0 ** -20, j[1] * 2.0 ** -21], [j[2] * 2.0 ** -21, 1.0 + j[3] * 2.0 ** -20]]
    amp = {'small': 2.0 ** -10, 'medium': 2.0 ** -5, 'large': 0.4}[size]
    while True:
        kind = rng.choice(['rot', 'rscale', 'general', 'general'])
        if kind in ('rot', 'rscale'):
            a = rng.uniform(-amp, amp)
            sc = 1.0 if kind == 'rot' else 1.0 + rng.uniform(-amp, amp) * 0.6
            m = [[sc * math.cos(a), sc * math.sin(a)], [-sc * math.sin(a), sc * math.cos(a)]]
        else:
            m = [[1.0 + rng.uniform(-amp, amp) * 0.6, rng.uniform(-amp, amp) * 0.6],
                 [rng.uniform(-amp, amp) * 0.6, 1.0 + rng.uniform(-amp, amp) * 0.6]]
        m = [[round(v * 2 ** 14) / 2.0 ** 14 for v in r] for r in m]
        det = m[0][0] * m[1][1] - m[0][1] * m[1][0]
        if abs(det) > 0.3:
            return m


def gen_shift(rng, size, unit):
    """dyadic shift in tangent-plane units; `unit` = size of a detector pixel in tangent-plane units."""
    px = {'zero': 0.0, 'small': 0.5, 'medium': 10.0, 'large': 300.0}[size]
    if px == 0.0:
        return [0.0, 0.0]
    e = math.floor(math.log2(unit)) if unit > 0 else 0
    stepq = 2.0 ** (e - 6)
    return [round(rng.uniform(-px, px) * unit / stepq) * stepq for _ in range(2)]


def gen_correction(rng, unit, t=None):
    msize = rng.choice(['ident', 'small', 'medium', 'medium', 'large', 'large', 'tiny'])
    ssize = rng.choice(['zero', 'small', 'medium', 'large', 'large'])
    if msize == 'ident' and ssize == 'zero':
        ssize = 'medium'
    if msize == 'tiny' and rng.random() < 0.7:
        ssize = 'zero'
    return dict(M=gen_matrix(rng, msize), s=gen_shift(rng, ssize, unit), msize=msize, ssize=ssize)


def mat_inv(m):
    d = m[0][0] * m[1][1] - m[0][1] * m[1][0]
    return [[m[1][1] / d, -m[0][1] / d], [-m[1][0] / d, m[0][0] / d]]


def corr_norm(M, s, rho):
    """size of the displacement a correction produces over a field of radius rho (tangent-plane units)."""
    M = np.asarray(M, dtype=float)
    return float(np.hypot(*s) + np.linalg.norm(M - np.eye(2), 2) * rho)


# ------------------------------------------------------------------------------------------------ sampling / metrics
def grid(g, n=5, margin=0.0):
    nx, ny = g['shape']
    xs = np.linspace(margin, nx - 1 - margin, n)
    ys = np.linspace(margin, ny - 1 - margin, n)
    X, Y = np.meshgrid(xs, ys)
    return X.ravel(), Y.ravel()


def random_pixels(rng, g, n):
    nx, ny = g['shape']
    return (np.array([dyr(rng, 0, nx - 1, 3) for _ in range(n)]), np.array([dyr(rng, 0, ny - 1, 3) for _ in range(n)]))


def sky_sep_arcsec(ra1, dec1, ra2, dec2):
    """great-circle separation (arcsec), accurate for tiny angles, wrap-safe."""
    r1, d1, r2, d2 = [np.radians(np.asarray(v, dtype=float)) for v in (ra1, dec1, ra2, dec2)]
    sdd = np.sin((d2 - d1) / 2.0)
    sdr = np.sin((r2 - r1) / 2.0)
    h = sdd * sdd + np.cos(d1) * np.cos(d2) * sdr * sdr
    return np.degrees(2.0 * np.arcsin(np.sqrt(np.clip(h, 0, 1)))) * 3600.0


def field_radius_px(g, crpix0=None):
    nx, ny = g['shape']
    cx, cy = (g['crpix'][0] - 1, g['crpix'][1] - 1) if crpix0 is None else crpix0
    return max(math.hypot(x - cx, y - cy) for x in (0, nx - 1) for y in (0, ny - 1))


# ------------------------------------------------------------------------------------------------ Coq literals
def qc_mat(m):
    m = np.asarray(m)
    return '(%s, %s, %s, %s)' % (q(m[0][0]), q(m[0][1]), q(m[1][0]), q(m[1][1]))


def qc_pt(p):
    return '(%s, %s)' % (q(p[0]), q(p[1]))


FRAME_COQ = {'detector': 'Fdet', 'v2v3': 'Fv2v3', 'v2v3vacorr': 'Fvacorr', 'v2v3corr': 'Fcorr', 'world': 'Fworld'}


def coq_frames(frs):
    out = []
    for i, f in enumerate(frs):
        out.append(FRAME_COQ.get(f, '(Fother %d)' % i))
    return lst(out)


# ------------------------------------------------------------------------------------------------ gWCS read-back
def read_tpcorr(c):
    """tp_affine / tp_affine_inv as stored in the pipeline step preceding 'v2v3corr' (None when absent)."""
    frs = list(c.wcs.available_frames)
    if 'v2v3corr' not in frs:
        return None
    i = frs.index('v2v3corr')
    tr = c.wcs.pipeline[i - 1].transform
    fwd = tr['tp_affine']
    inv = tr.inverse['tp_affine_inv']
    return dict(m=np.array(fwd.matrix.value, dtype=float), t=np.array(fwd.translation.value, dtype=float),
                im=np.array(inv.matrix.value, dtype=float), it=np.array(inv.translation.value, dtype=float))


# ------------------------------------------------------------------------------------------------ recording proxy
class RecRef:
    """A ref_tpwcs that forwards everything to a real corrector and records what set_correction / _tp2tp ask of it
    (arguments and results of world_to_tanp / tanp_to_world).  It is an argument of the public API, not a hook."""

    def __init__(self, inner):
        self.inner = inner
        self.calls = []

    def __getattr__(self, name):
        return getattr(self.inner, name)

    def world_to_tanp(self, ra, dec):
        out = self.inner.world_to_tanp(ra, dec)
        self.calls.append(('w2t', (np.array(ra, dtype=float), np.array(dec, dtype=float)),
                           (np.array(out[0], dtype=float), np.array(out[1], dtype=float))))
        return out

    def tanp_to_world(self, x, y):
        out = self.inner.tanp_to_world(x, y)
        self.calls.append(('t2w', (np.array(x, dtype=float), np.array(y, dtype=float)),
                           (np.array(out[0], dtype=float), np.array(out[1], dtype=float))))
        return out


def offset_pointing(crval, sep_deg, pa):
    ra, dec = crval
    d2 = max(-89.5, min(89.5, dec + sep_deg * math.cos(pa)))
    r2 = (ra + sep_deg * math.sin(pa) / max(math.cos(math.radians(dec)), 0.02)) % 360.0
    return [float(np.float32(r2)), float(np.float32(d2))]


def tangent_point(c, g):
    """sky position of the origin of the corrector's tangent plane."""
    if g['kind'] == 'fits':
        return [float(v) for v in c.wcs.wcs.crval]
    return [float(v) for v in c.tanp_to_world(0.0, 0.0)]


def gen_reference(I, rng, g, c0, t, mode=None):
    """a reference corrector for an image with geometry g: (mode, geometry, corrector).
    modes: 'self' (copy of the image corrector as built), 'rotated'/'scaled' (same tangent point, other axes / units),
    'offset' (another tangent point, up to a few field radii away)."""
    mode = mode or ['self', 'rotated', 'scaled', 'offset', 'offset'][t % 5]
    if mode == 'self':
        return mode, dict(g), c0.copy()
    tp = tangent_point(c0, g)
    if mode == 'rotated' and g['kind'] == 'gwcs':
        gr = dict(g)
        gr['roll'] = dyr(rng, -180, 180, 4)
        gr['cd'] = g['cd'] * rng.choice([1.0, 0.5, 2.0])
        return mode, gr, gwcs_corrector(I, gr)
    # a FITS plane (units: pixels) centred on the image's tangent point, or offset from it
    gr = gen_fits_geom(rng, t, sip=False)
    gr['crpix'] = [gr['shape'][0] / 2 + 0.5, gr['shape'][1] / 2 + 0.5]
    if mode == 'offset':
        fld = pix_scale_arcsec(g) * field_radius_px(g) / 3600.0
        sep = fld * rng.choice([rng.uniform(0.01, 0.5), rng.uniform(0.5, 3.0)])
        gr['crval'] = offset_pointing(tp, sep, rng.uniform(0, 2 * math.pi))
    else:
        gr['crval'] = tp
    return mode, gr, fits_corrector(I, gr)


# ------------------------------------------------------------------------------------------------ tolerances
DW = 360.0 * 2.0 ** -52 * 3600.0        # quantum of a sky coordinate held in degrees as float64, in arcsec
RAD = math.radians(1.0 / 3600.0)        # arcsec -> rad


def stencil_steps(g):
    nx, ny = g['shape']
    hx = max(1.0, min(10, (g['crpix'][0] - 1.0) / 100.0, (nx - g['crpix'][0]) / 100.0))
    hy = max(1.0, min(10, (g['crpix'][1] - 1.0) / 100.0, (ny - g['crpix'][1]) / 100.0))
    return hx, hy


def corr_tol_arcsec(g, old, M, s, ref, gr, x, y):
    """tolerance (arcsec on the sky) within which ONE set_correction(M, s, ref_tpwcs=ref) applied to `old` realises the
    requested map on the pixels (x, y) -- the C02 tolerances:
      gWCS own plane 1e-7;  gWCS via reference plane 8*DW*(1+rho)+1e-7 (+ 4*|corr|*r^2 when the tangent points differ);
      FITS 4*|corr|*r^2 + 8*(DW/scale)*(1+rho/h) px + 1e-9 px   (r = angular distance from the tangent point of the plane)"""
    M = np.asarray(M, dtype=float)
    s = np.asarray(s, dtype=float)
    own = ref is None
    gp = g if own else gr
    U = tan_scale_arcsec(gp)
    if own:
        qq = np.array(old.det_to_tanp(x, y))
    else:
        qq = np.array(ref.world_to_tanp(*old.det_to_world(x, y)))
    rmax = float(np.hypot(*qq).max())
    if g['kind'] == 'gwcs':
        if own:
            return 1e-7
        rho = field_radius_px(g, (g['shape'][0] / 2, g['shape'][1] / 2))
        floor = 8 * DW * (1 + rho) + 1e-7
        sep = float(sky_sep_arcsec(*tangent_point(old, g), *tangent_point(ref, gr)))
        if sep < 1e-6:
            return floor
        return 4 * corr_norm(M, s, rmax) * U * (rmax * U * RAD) ** 2 + floor
    ps = g['scale'] * 3600.0
    rho = field_radius_px(g)
    hx, hy = stencil_steps(g)
    delta = DW / ps
    rr = rho * ps * RAD if own else rmax * U * RAD
    cn = corr_norm(M, s, rho if own else rmax) * U
    return 4 * cn * rr ** 2 + (8 * delta * (1 + rho / min(hx, hy)) + 1e-9) * ps


def sky(c, x, y):
    ra, dec = c.det_to_world(x, y)
    return np.array(ra, dtype=float), np.array(dec, dtype=float)


def sky_diff(a, b):
    return float(np.max(sky_sep_arcsec(a[0], a[1], b[0], b[1])))


def snapshot_original(w0, g, x, y):
    """everything observable of the caller's WCS object."""
    if g['kind'] == 'fits':
        return (repr(w0.to_header(relax=True)), w0.wcs.crval.tobytes(), w0.wcs.crpix.tobytes(),
                (w0.wcs.pc if g['pc'] else w0.wcs.cd).tobytes(), np.array(w0.all_pix2world(x, y, 0)).tobytes(),
                tuple(w0.pixel_shape))
    return (tuple(w0.available_frames), np.array(w0(x, y)).tobytes(), len(w0.pipeline))
