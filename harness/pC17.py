"""C17 - matrix inversion accurate, total on regular input, loud on singular input."""
from fractions import Fraction

import numpy as np

from common import q, qmat, b, lst, dy, frac, implementation


def repr64(f):
    """is the rational exactly representable with a 64-bit significand (x87 extended)?"""
    if f == 0:
        return True
    d = f.denominator
    if d & (d - 1):
        return False
    n = abs(f.numerator)
    while n % 2 == 0:
        n //= 2
    return n.bit_length() <= 64


def exact_forward(A):
    """Exact mirror of the forward phase of linalg.inv (full pivoting, first maximum in row-major
    order). Returns (singular, all_representable, swapped)."""
    n = len(A)
    m = [[Fraction(x) for x in r] for r in A]
    rep = True
    swapped = False
    for k in range(n):
        best = None
        for i in range(k, n):
            for j in range(k, n):
                v = abs(m[i][j])
                if best is None or v > best[0]:
                    best = (v, i, j)
        v, im, jm = best
        if v == 0:
            return True, rep, swapped
        if im != k or jm != k:
            swapped = True
            m[k], m[im] = m[im], m[k]
            for r in m:
                r[k], r[jm] = r[jm], r[k]
        pv = m[k][k]
        for j in range(k, n):
            m[k][j] = m[k][j] / pv
            rep = rep and repr64(m[k][j])
        for l in range(k + 1, n):
            pv2 = m[l][k]
            for j in range(k + 1, n):
                pr = pv2 * m[k][j]
                rep = rep and repr64(pr)
                m[l][j] = m[l][j] - pr
                rep = rep and repr64(m[l][j])
            m[l][k] = Fraction(0)
    return False, rep, swapped


def gen_matrix(rng, kind, n):
    if kind == 'random':
        return [[dy(rng, 8, -16, 16) for _ in range(n)] for _ in range(n)]
    if kind == 'perm':
        p = list(range(n))
        rng.shuffle(p)
        a = [[0.0] * n for _ in range(n)]
        for i in range(n):
            a[i][p[i]] = rng.choice([-1, 1]) * 2.0 ** rng.randrange(-6, 7)
        if rng.random() < 0.5:
            for _ in range(n):
                a[rng.randrange(n)][rng.randrange(n)] += dy(rng, 6, -1, 1) / 8
        return a
    if kind == 'zero_diag':
        a = [[dy(rng, 6, -8, 8) for _ in range(n)] for _ in range(n)]
        for i in range(n):
            a[i][i] = 0.0
        return a
    if kind == 'bad_scale':
        a = [[dy(rng, 6, -8, 8) for _ in range(n)] for _ in range(n)]
        d1 = [2.0 ** rng.randrange(-20, 21) for _ in range(n)]
        d2 = [2.0 ** rng.randrange(-20, 21) for _ in range(n)]
        return [[d1[i] * a[i][j] * d2[j] for j in range(n)] for i in range(n)]
    if kind == 'near_singular':
        a = gen_singular(rng, n, small=True)
        a[rng.randrange(n)][rng.randrange(n)] += 2.0 ** -rng.randrange(8, 21)
        return a
    raise ValueError(kind)


def gen_singular(rng, n, small):
    """rank-deficient by construction: one row is an integer combination of two others
    (or zero / duplicated for n < 3)."""
    if small:
        a = [[float(rng.randrange(-2, 3)) for _ in range(n)] for _ in range(n)]
    else:
        a = [[dy(rng, 10, -4, 4) * rng.choice([1, 3, 5, 0.1 * 8]) for _ in range(n)] for _ in range(n)]
    i = rng.randrange(n)
    if n == 1:
        a[0][0] = 0.0
    elif n == 2:
        c = float(rng.choice([-2, -1, 1, 2, 0]))
        a[i] = [c * x for x in a[1 - i]]
    else:
        j, k = rng.sample([t for t in range(n) if t != i], 2)
        c1, c2 = float(rng.choice([-1, 1, 2])), float(rng.choice([-1, 0, 1]))
        a[i] = [c1 * x + c2 * y for x, y in zip(a[j], a[k])]
    if rng.random() < 0.3:   # same by columns
        a = [list(r) for r in zip(*a)]
    return a


def run(ck):
    tw = implementation()
    from tweakwcs import linalg, linearfit
    ck.props()
    ck.rule = ('matrices of order 1..8 from streams random/perm/zero_diag/bad_scale/near_singular (dyadic entries), '
               'exactly singular (rank-deficient by construction), non-square, nan/inf; fitters on collinear/'
               'coincident/too-few points. A case is non-trivial when n >= 2 and the exact elimination needs at '
               'least one row or column swap (regular), or the matrix is singular with n >= 2; distinct by content.')
    ck.notes += ['rounding error of x87 long double is outside the theorems: agreement with the exact inverse is '
                 'measured within 64*n*cond_inf*2^-52 (entrywise relative to |X|_inf and as residual |X*A-I|_max)',
                 'numpy.linalg.inv agreement is measured in python (double precision bound)']
    rng = ck.rng
    N = ck.n(240, 4000)
    kinds = ['random', 'perm', 'zero_diag', 'bad_scale', 'near_singular']
    cases, meta = [], []
    # corpus first: inputs of earlier findings
    corpus = [[[0.1, 0.3], [0.2, 0.6]], [[3.0, 1, 2], [1, 3, 2], [4, 4, 4]],
              [[0.0, 2.0], [1.0, 1.0]], [[1.0, 2.0], [2.0, 4.0]], [[0.0]], [[4.0]]]
    todo = [('corpus', m) for m in corpus]
    for t in range(N):
        kind = kinds[t % len(kinds)] if t % 6 else 'singular'
        n = 1 + (t * 7 + rng.randrange(8)) % 8
        if kind == 'singular':
            m = gen_singular(rng, n, small=rng.random() < 0.6)
        else:
            m = gen_matrix(rng, kind, n)
        todo.append((kind, m))
    for kind, m in todo:
        n = len(m)
        A = np.array(m, dtype=float)
        A0 = A.copy()
        try:
            X = linalg.inv(A)
            raised = False
        except np.linalg.LinAlgError:
            X, raised = None, True
        ck.count('stream', kind)
        ck.count('order', n)
        if not np.array_equal(A, A0) or A.tobytes() != A0.tobytes():
            ck.violation({'kind': 'argument-modified', 'call': 'linalg.inv', 'input': m})
        singular, rep, swapped = exact_forward(m)
        ck.case(('inv', m), n >= 2 and (swapped or singular))
        ck.count('singular', singular)
        if X is not None and not np.all(np.isfinite(X)):
            ck.violation({'kind': 'non-finite-result', 'call': 'linalg.inv', 'input': m})
            continue
        xs = [[frac(v) for v in r] for r in X] if X is not None else []
        cases.append('{| c_a := %s; c_raised := %s; c_x := %s |}' % (qmat(m), b(raised), qmat(xs)))
        meta.append((kind, m, raised, X, singular, rep))
        ck.sample({'stream': kind, 'A': m, 'raised': raised,
                   'X': None if X is None else [[float(v) for v in r] for r in X]})
        # numpy agreement (measured)
        if X is not None and not singular:
            ck.search_evaluations += 1
            try:
                Xn = np.linalg.inv(A)
            except np.linalg.LinAlgError:
                # numpy (double precision LU) gives up on a regular but ill-conditioned matrix: nothing to compare
                ck.discard('numpy.linalg.inv raised on a regular ill-conditioned matrix')
                continue
            cond = np.linalg.norm(A, np.inf) * np.linalg.norm(Xn, np.inf)
            if not np.all(np.abs(np.asarray(X, dtype=float) - Xn) <= 64 * n * cond * 2.0 ** -52 *
                          np.linalg.norm(Xn, np.inf)):
                ck.violation({'kind': 'disagrees-with-numpy.linalg.inv', 'input': m,
                              'impl': np.asarray(X, dtype=float).tolist(), 'numpy': Xn.tolist()})
    bad = ck.coq_agree('inv', ['C17Corr'], 'case17', 'agree17', cases, show='show17', shard=20)
    for i in bad:
        kind, m, raised, X, singular, rep = meta[i]
        rp = {'kind': 'inv-disagrees-with-exact-model', 'call': 'tweakwcs.linalg.inv(A)', 'A': m,
              'impl_raised': raised, 'impl_X': None if X is None else [[float(v) for v in r] for r in X],
              'model (exact inv_gj)': ck.last_shown.get(i, 'n/a'), 'exactly_singular': singular,
              'predicate': 'singular => LinAlgError; regular => |X - X_exact| and |X*A - I| <= 64 n cond eps'}
        if singular and not raised and not rep:
            ck.violation(rp, known_id='K1', corr=('inv', i))
        else:
            ck.violation(rp)

    # --- invalid input: non-square / non-finite -> LinAlgError (predicate on the implementation)
    for t in range(ck.n(30, 300)):
        n = rng.randrange(1, 7)
        kind = ['nonsquare', 'nan', 'inf', 'ndim'][t % 4]
        if kind == 'nonsquare':
            A = np.array([[dy(rng) for _ in range(n + 1 + t % 2)] for _ in range(n)])
        elif kind == 'ndim':
            A = np.array([dy(rng) for _ in range(n)]) if t % 8 < 4 else np.zeros((n, n, 2))
        else:
            A = np.array(gen_matrix(rng, 'random', n))
            A[rng.randrange(n), rng.randrange(n)] = np.nan if kind == 'nan' else rng.choice([np.inf, -np.inf])
        ck.search_evaluations += 1
        ck.count('stream', kind)
        try:
            linalg.inv(A)
            ck.violation({'kind': 'invalid-input-accepted', 'stream': kind, 'input': repr(A.tolist())})
        except np.linalg.LinAlgError:
            pass

    # --- the other implementation selected by long-double capability (linalg.py L99-104): on platforms whose long
    #     double is no wider than double, inv() defers to numpy.linalg.inv and detects singularity by non-finite
    #     output. The branch is selected the way the repository's own tests do it (module attribute).
    ncases, nmeta = [], []
    use_numpy = linalg._USE_NUMPY_LINALG_INV
    linalg._USE_NUMPY_LINALG_INV = True
    try:
        ntodo = [(k, m) for k, m in todo if k != 'singular'][:ck.n(120, 1500)]
        for t in range(ck.n(40, 400)):
            n = 1 + rng.randrange(6)
            m = gen_matrix(rng, 'random', n)
            kind = ['zero_row', 'dup_row', 'zero_col'][t % 3]
            if n == 1 or kind == 'zero_row':
                m[rng.randrange(n)] = [0.0] * n
            elif kind == 'dup_row':
                i, j = rng.sample(range(n), 2)
                m[i] = list(m[j])
            else:
                j = rng.randrange(n)
                for r in m:
                    r[j] = 0.0
            ntodo.append(('numpy:' + kind, m))
        for kind, m in ntodo:
            n = len(m)
            A = np.array(m, dtype=float)
            A0 = A.copy()
            ck.search_evaluations += 1
            ck.count('numpy_branch_stream', kind)
            try:
                X = linalg.inv(A)
                raised = False
            except np.linalg.LinAlgError:
                X, raised = None, True
            if A.tobytes() != A0.tobytes():
                ck.violation({'kind': 'argument-modified', 'call': 'linalg.inv (numpy branch)', 'input': m})
            if kind.startswith('numpy:'):
                # structurally singular: LAPACK meets an exactly zero pivot, inv must raise
                if not raised:
                    rp = {'kind': 'numpy-branch-singular-input-accepted', 'input': m, 'stream': kind,
                          'call': 'linalg._USE_NUMPY_LINALG_INV = True; linalg.inv(A)',
                          'result': np.asarray(X, dtype=float).tolist()}
                    big = (np.all(np.isfinite(X)) and
                           float(np.max(np.abs(X))) * float(np.max(np.abs(A))) >= 2.0 ** 45)
                    if kind == 'numpy:dup_row' and big:
                        # zero pivot hidden by rounding inside LAPACK: listed finding K1n
                        ck.violation(rp, known_id='K1n')
                    else:
                        ck.violation(rp)
                continue
            singular, rep, swapped = exact_forward(m)
            if singular:
                continue
            if raised:
                try:
                    Xn = np.linalg.inv(A)
                    legit = not np.all(np.isfinite(Xn))
                except np.linalg.LinAlgError:
                    legit = True
                if legit:
                    ck.discard('numpy branch: numpy.linalg.inv itself gives up on a regular ill-conditioned matrix')
                else:
                    ck.violation({'kind': 'numpy-branch-raises-on-regular-matrix', 'input': m,
                                  'call': 'linalg._USE_NUMPY_LINALG_INV = True; linalg.inv(A)'})
                continue
            if not np.all(np.isfinite(X)):
                ck.violation({'kind': 'non-finite-result', 'call': 'linalg.inv (numpy branch)', 'input': m})
                continue
            xs = [[frac(v) for v in r] for r in X]
            ncases.append('{| c_a := %s; c_raised := false; c_x := %s |}' % (qmat(m), qmat(xs)))
            nmeta.append((kind, m, X))
    finally:
        linalg._USE_NUMPY_LINALG_INV = use_numpy
    bad = ck.coq_agree('inv_numpy_branch', ['C17Corr'], 'case17', 'agree17', ncases, show='show17', shard=20)
    for i in bad:
        kind, m, X = nmeta[i]
        ck.violation({'kind': 'inv-numpy-branch-disagrees-with-exact-model', 'A': m,
                      'call': 'linalg._USE_NUMPY_LINALG_INV = True; tweakwcs.linalg.inv(A)',
                      'impl_X': [[float(v) for v in r] for r in X],
                      'model (exact inv_gj)': ck.last_shown.get(i, 'n/a'),
                      'predicate': 'regular => |X - X_exact| and |X*A - I| <= 64 n cond eps'})

    # --- fitters on degenerate configurations
    fcases, fmeta = [], []
    for t in range(ck.n(120, 1500)):
        n = rng.randrange(3, 12)
        fam = ['collinear', 'coincident', 'regular', 'collinear_weighted', 'collinear_inexact'][t % 5]
        a0, b0 = rng.randrange(-3, 4), rng.randrange(-3, 4)
        if a0 == 0 and b0 == 0:
            a0 = 1
        if fam == 'coincident':
            uv = [[float(a0), float(b0)]] * n
        elif fam == 'regular':
            uv = [[float(rng.randrange(-8, 9)), float(rng.randrange(-8, 9))] for _ in range(n)]
        elif fam == 'collinear_inexact':
            uv = []
            for _ in range(n):
                s = rng.random() * 10
                uv.append([0.1 + a0 * s, 0.3 + b0 * s])       # only collinear up to rounding
        else:
            ts = [rng.randrange(-6, 7) for _ in range(n)]
            if len(set(ts)) < 2:
                ts[0] += 1
            c0, d0 = rng.randrange(-4, 5), rng.randrange(-4, 5)
            uv = [[float(c0 + a0 * s), float(d0 + b0 * s)] for s in ts]
        xy = [[dy(rng, 4, -8, 8), dy(rng, 4, -8, 8)] for _ in range(n)]
        w = None
        if fam == 'collinear_weighted':
            # off-line points get zero weight: still degenerate
            w = [1.0] * n
            for k in range(rng.randrange(1, 3)):
                uv[k] = [uv[k][0] + 1.0, uv[k][1] - 2.5]
                w[k] = 0.0
            if sum(1 for x in w if x > 0) < 3:
                continue
        ck.count('fit_stream', fam)
        uva, xya = np.array(uv), np.array(xy)
        wa = None if w is None else np.array(w)
        try:
            fit = linearfit.fit_general(xya, uva, wxy=wa)
            raised = False
            finite = bool(np.all(np.isfinite(fit['matrix'])) and np.all(np.isfinite(fit['shift'])))
        except linearfit.SingularMatrixError:
            raised, fit, finite = True, None, True
        ck.case(('fitg', uv, xy, w), fam != 'regular')
        if fam == 'collinear_inexact':
            ck.search_evaluations += 1
            # degenerate only up to rounding: property demands an exception or at least finite, sane output
            big = fit is not None and float(np.max(np.abs(fit['matrix']))) > 1e8
            if not raised and (big or not finite):
                ck.violation({'kind': 'fit_general-returns-arbitrary-parameters-on-collinear-input', 'uv': uv,
                              'xy': xy, 'matrix': None if fit is None else fit['matrix'].tolist()}, known_id='K1')
            continue
        pts = []
        for k in range(n):
            pts.append('{| px := %s; py := %s; pu := %s; pv := %s; pw := %s |}' % (
                q(xy[k][0]), q(xy[k][1]), q(uv[k][0]), q(uv[k][1]), q(1.0 if w is None else w[k])))
        fcases.append('{| f_pts := %s; f_raised := %s |}' % (lst(pts), b(raised)))
        fmeta.append((fam, uv, xy, w, raised, fit))
    bad = ck.coq_agree('fit_general', ['LSQ', 'C17Corr'], 'case17f', 'agree17f', fcases, show='show17f')
    for i in bad:
        fam, uv, xy, w, raised, fit = fmeta[i]
        n = len(uv)
        ww = [1.0] * n if w is None else w
        # moment matrix, exact, for the K1 classification
        F = Fraction
        su = sum(F(ww[k]) * F(uv[k][0]) for k in range(n))
        sv = sum(F(ww[k]) * F(uv[k][1]) for k in range(n))
        sw = sum(F(ww[k]) for k in range(n))
        suu = sum(F(ww[k]) * F(uv[k][0]) ** 2 for k in range(n))
        svv = sum(F(ww[k]) * F(uv[k][1]) ** 2 for k in range(n))
        suv = sum(F(ww[k]) * F(uv[k][0]) * F(uv[k][1]) for k in range(n))
        singular, rep, _ = exact_forward([[su, sv, sw], [suu, suv, su], [suv, svv, sv]])
        rp = {'kind': 'fit_general-singularity-exit-disagrees-with-model', 'family': fam, 'uv': uv, 'xy': xy,
              'weights': w, 'impl_raised': raised, 'model': ck.last_shown.get(i, 'n/a'),
              'impl_matrix': None if fit is None else fit['matrix'].tolist()}
        if singular and not raised and not rep:
            ck.violation(rp, known_id='K1', corr=('fit_general', i))
        else:
            ck.violation(rp)

    # too few points / coincident points for the other geometries (predicate only)
    for geom, minobj in (('shift', 1), ('rshift', 2), ('rscale', 2), ('general', 3)):
        for n in range(0, minobj):
            ck.search_evaluations += 1
            uv = np.array([[float(k), float(2 * k)] for k in range(n)]).reshape(n, 2)
            try:
                linearfit.iter_linear_fit(uv.copy(), uv.copy(), fitgeom=geom, nclip=0)
                ck.violation({'kind': 'too-few-points-accepted', 'fitgeom': geom, 'n': n})
            except linearfit.NotEnoughPointsError:
                pass
    for t in range(ck.n(10, 100)):
        n = rng.randrange(2, 8)
        c = [dy(rng, 3, -8, 8), dy(rng, 3, -8, 8)]
        uv = np.array([c] * n)
        xy = np.array([[dy(rng, 3), dy(rng, 3)] for _ in range(n)])
        ck.search_evaluations += 1
        try:
            fit = linearfit.fit_rscale(xy, uv)
            ck.violation({'kind': 'rscale-on-coincident-points-did-not-raise', 'uv': uv.tolist(),
                          'matrix': fit['matrix'].tolist()})
        except linearfit.SingularMatrixError:
            pass
    # weighted rscale on coincident points: exactly degenerate (su2v2 == 0 in exact arithmetic); the code detects
    # it only if the weighted mean reproduces the common position exactly, i.e. if every normalised weight
    # w_i / sum(w) is representable (else rounding leaves su2v2 ~ 1e-38 > 0: known finding K1)
    for t in range(ck.n(60, 600)):
        n = rng.randrange(2, 9)
        c = [float(rng.randrange(-8, 9)), float(rng.randrange(-8, 9))]
        uv = np.array([c] * n)
        xy = np.array([[float(rng.randrange(-8, 9)), float(rng.randrange(-8, 9))] for _ in range(n)])
        if t % 2:
            w = [rng.choice([0.25, 0.5, 1.0, 2.0, 3.0]) for _ in range(n)]
        else:
            w = [1.0] * n if n in (2, 4, 8) else [2.0 ** rng.randrange(-2, 2)] * n   # exactly normalisable or not
        W = sum(Fraction(x) for x in w)
        rep = all(repr64(Fraction(x) / W) for x in w)
        ck.search_evaluations += 1
        ck.count('rscale_coincident_weighted', 'normalised weights representable' if rep else 'not representable')
        try:
            fit = linearfit.fit_rscale(xy, uv, wxy=np.array(w))
            rp = {'kind': 'weighted-rscale-on-coincident-points-did-not-raise', 'uv': uv.tolist(), 'xy': xy.tolist(),
                  'weights': w, 'matrix': np.asarray(fit['matrix']).tolist(),
                  'normalised_weights_representable': rep}
            if rep:
                ck.violation(rp)
            else:
                ck.violation(rp, known_id='K1')
        except linearfit.SingularMatrixError:
            pass
    # the same degenerate configurations through the public entry point iter_linear_fit, which centres the coordinates
    # on the plain mean of the retained sources first (exact for coincident dyadic positions, whatever the weights):
    # every geometry that needs two or more distinct sources must raise
    for t in range(ck.n(60, 600)):
        n = rng.randrange(3, 10) if t % 2 else rng.randrange(7, 12)
        c = [float(rng.randrange(-64, 65)) / 8.0, float(rng.randrange(-64, 65)) / 8.0]
        uv = np.array([c] * n)
        xy = np.array([[float(rng.randrange(-8, 9)), float(rng.randrange(-8, 9))] for _ in range(n)])
        # (rshift is not included: with the scale fixed a single position determines the shift and leaves only the
        #  rotation open; the code returns rotation 0, one of the optima - see C06)
        geom = ['rscale', 'general'][t % 2]
        wkind = ['wxy', 'wuv', 'both', 'none'][(t // 2) % 4]
        mk = lambda: np.array([rng.choice([1.0 / k_ for k_ in range(1, 8)] + [0.3, 0.7, 2.0, 3.0]) for _ in range(n)])  # noqa: E731
        wxy = mk() if wkind in ('wxy', 'both') else None
        wuv = mk() if wkind in ('wuv', 'both') else None
        ck.search_evaluations += 1
        ck.count('iter_linear_fit_coincident', '%s/%s' % (geom, wkind))
        try:
            fit = linearfit.iter_linear_fit(xy.copy(), uv.copy(), wxy, wuv, fitgeom=geom, nclip=0)
            ck.violation({'kind': 'iter_linear_fit-on-coincident-points-did-not-raise', 'fitgeom': geom, 'uv': uv.tolist(),
                          'xy': xy.tolist(), 'wxy': None if wxy is None else wxy.tolist(),
                          'wuv': None if wuv is None else wuv.tolist(), 'matrix': np.asarray(fit['matrix']).tolist(),
                          'expected': 'SingularMatrixError (all retained sources at one position)'})
        except linearfit.SingularMatrixError:
            pass
    ck.trusted += ['K1 classification of singular inputs uses a python exact-rational mirror of the forward '
                   'elimination (representability of intermediates with a 64-bit significand)']
