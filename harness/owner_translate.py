"""C19 translator: python `ast` of the CURRENT tweakwcs source -> ownership IR of coq/Model/OwnerIR.v.

Fail-closed: every statement / expression / call that is not in the tables below raises `Untranslatable`
(naming the construct and the line).  Nothing here decides safety: the generated terms are checked by the
Coq function `check` (proved sound in coq/Proofs/OwnerSound.v).

Abstraction (trusted, see ck.trusted in pC19.py):
  * one IR variable pair per reaching definition d of a python name:  2k = the object d is bound to
    (identity: the object itself or any view sharing its memory),  2k+1 = the objects stored inside it
    (dict / list / tuple slots, transitively);
  * strong update on straight-line code, union at joins, loops to a fixpoint, handlers see every
    environment reached inside the `try` body;
  * load  z = x[i] / x.attr / for z in x :   z.id <- x.id, x.c ; z.c <- x.c      (MayAlias)
    unless x is certainly a numpy array and i certainly a boolean array / python list (advanced index = copy);
  * store x[i] = v / x.attr = v :  Write x.id ;  every definition that may denote the container (or a
    container holding it) gets  .c <- v.id, v.c      (not for numpy arrays: they copy numbers);
  * calls: table of library calls (fresh / may-alias / container / in-place), summaries for functions of
    the package computed by the same analysis (which parameters are written, what the result may alias),
    a call of a caller-supplied callable returns something that may alias its arguments and may write them.
"""
import ast
import os


class Untranslatable(Exception):
    def __init__(self, line, what):
        super().__init__('line %s: %s' % (line, what))
        self.line = line
        self.what = what


# ------------------------------------------------------------------ classification tables (TRUSTED)
NP_FRESH = set('''array zeros ones empty eye identity arange linspace zeros_like ones_like empty_like full full_like
 dot vdot sum mean std var sqrt abs absolute fabs subtract add multiply divide true_divide floor_divide power square
 negative sign cos sin tan arctan2 arctan arcsin arccos hypot exp log log10 log2 rad2deg deg2rad degrees radians mod
 fmod remainder ceil floor rint round around trunc logical_and logical_or logical_not logical_xor isfinite isnan isinf
 count_nonzero any all vstack hstack dstack column_stack stack concatenate repeat tile where nonzero argwhere
 flatnonzero argmax argmin argsort sort unravel_index ravel_multi_index histogram histogram2d meshgrid indices delete
 insert append unique cumsum cumprod diff cross outer inner matmul trace max min amax amin nanmax nanmin median
 percentile size ndim shape isscalar array_equal allclose isclose finfo iinfo longdouble double float64 float32 float_
 int64 int32 int_ intp bool_ copy maximum minimum prod nansum nanmean triu tril linalg.norm linalg.inv linalg.det
 linalg.multi_dot linalg.lstsq linalg.solve linalg.pinv linalg.eig linalg.svd'''.split())
NP_MAYALIAS = set('''asarray asanyarray ascontiguousarray asfortranarray atleast_1d atleast_2d atleast_3d ravel
 squeeze transpose reshape swapaxes moveaxis rollaxis diag diagonal broadcast_to broadcast_arrays expand_dims real
 imag asfarray require flip fliplr flipud rot90 split array_split hsplit vsplit nan_to_num'''.split())
NP_WRITES_ARG0 = set('put copyto fill_diagonal place putmask'.split())
NP_BOOL = {'logical_and', 'logical_or', 'logical_not', 'logical_xor', 'isfinite', 'isnan', 'isinf'}
NP_NDARRAY = {'array', 'asarray', 'zeros', 'ones', 'empty', 'eye', 'identity', 'arange', 'linspace', 'dot', 'vstack',
              'hstack', 'concatenate', 'repeat', 'sqrt', 'abs', 'subtract', 'add', 'multiply', 'zeros_like',
              'ones_like', 'empty_like', 'ascontiguousarray', 'copy', 'sum', 'mean'}
LIB_CONSTRUCTORS = {'scipy.spatial.KDTree', 'scipy.spatial.cKDTree'}     # result holds references to arguments

BUILTIN_FRESH = set('''float int bool complex str repr len abs round isinstance issubclass hasattr callable id hash
 range print format divmod pow ord chr type any all'''.split())
BUILTIN_CONTAINER = set('list tuple set frozenset dict sorted reversed zip enumerate iter'.split())
BUILTIN_LOAD = set('min max sum next getattr'.split())        # may return (an element of) an argument
BUILTIN_EXC = set('''ValueError TypeError KeyError RuntimeError AssertionError IndexError NotImplementedError
 ZeroDivisionError ArithmeticError Exception AttributeError StopIteration'''.split())

M_INPLACE = set('sort fill resize itemset put partition setflags reverse clear remove'.split())
M_INPLACE_STORE = set('append extend insert update setdefault add'.split())      # write + store arguments
M_INPLACE_LOAD = set('pop popitem'.split())                                       # write + returns an element
M_FRESH = set('''copy astype mean sum std var dot all any tolist format flatten max min argmax argmin argsort
 startswith endswith lower upper strip split join nonzero cumsum prod round conj tobytes item count index
 query_ball_point query'''.split())
M_LOAD = set('get keys items values'.split())
M_VIEW = set('ravel reshape view squeeze transpose swapaxes diagonal'.split())
LOG_METHODS = set('debug info warning error critical exception log'.split())


def dotted(n):
    if isinstance(n, ast.Name):
        return n.id
    if isinstance(n, ast.Attribute):
        b = dotted(n.value)
        return None if b is None else b + '.' + n.attr
    return None


class Val:
    __slots__ = ('ids', 'cs', 'typ', 'funcs', 'lib', 'exact')

    def __init__(self, ids=(), cs=(), typ=None, funcs=None, lib=None, exact=False):
        self.ids = frozenset(ids)
        self.cs = frozenset(cs)
        self.typ = typ
        self.funcs = funcs
        self.lib = lib
        self.exact = exact

    def allv(self):
        return self.ids | self.cs

    def load(self, typ=None):
        return Val(self.ids | self.cs, self.cs, typ)


FRESH = Val()
ND = ('nd', 'ndbool')


class Module:
    """module-level name classification of one source file"""

    def __init__(self, pkg, name, src):
        self.pkg, self.name = pkg, name
        self.tree = ast.parse(src)
        self.libs = {}         # local name -> dotted library path
        self.sibling = {}      # local name -> (module, function)
        self.external = set()  # from X import Y (outside the package)
        self.funcs = {}        # top-level def name -> ast.FunctionDef
        self.excs = set()
        self.classes = set()
        self.loggers = set()
        self.data = set()
        for s in self.tree.body:
            if isinstance(s, ast.Import):
                for a in s.names:
                    self.libs[a.asname or a.name.split('.')[0]] = a.name if a.asname else a.name.split('.')[0]
            elif isinstance(s, ast.ImportFrom):
                for a in s.names:
                    nm = a.asname or a.name
                    if s.level >= 1:
                        if s.module:
                            self.sibling[nm] = (s.module, a.name)
                        else:
                            self.data.add(nm)
                    elif s.module in ('scipy',) and a.name == 'spatial':
                        self.libs[nm] = 'scipy.spatial'
                    else:
                        self.external.add(nm)
            elif isinstance(s, ast.FunctionDef):
                self.funcs[s.name] = s
            elif isinstance(s, ast.ClassDef):
                bases = [dotted(b) for b in s.bases]
                if any(b in BUILTIN_EXC or b in self.excs for b in bases):
                    self.excs.add(s.name)
                else:
                    self.classes.add(s.name)
            else:
                for n in ast.walk(s):
                    if isinstance(n, ast.Name) and isinstance(n.ctx, ast.Store):
                        self.data.add(n.id)
                if (isinstance(s, ast.Assign) and isinstance(s.value, ast.Call)
                        and dotted(s.value.func) == 'logging.getLogger'):
                    for t in s.targets:
                        if isinstance(t, ast.Name):
                            self.loggers.add(t.id)
        self.data -= self.loggers

    def lib_path(self, d):
        """dotted name -> library path ('numpy.array'), or None"""
        if d is None:
            return None
        head, _, rest = d.partition('.')
        if head in self.libs:
            return self.libs[head] + ('.' + rest if rest else '')
        return None


class Summary:
    def __init__(self):
        self.W = set()        # labels written
        self.ret_id = set()
        self.ret_c = set()
        self.ret_typ = None     # static type of every returned value when they all agree
        self.stores = {}      # label -> labels stored into its contents


class Fn:
    """analysis of one function definition"""

    def __init__(self, tr, mod, fdef, key, outer=None):
        self.tr, self.mod, self.f, self.key, self.outer = tr, mod, fdef, key, outer
        a = fdef.args
        self.params = [x.arg for x in a.posonlyargs + a.args + a.kwonlyargs]
        self.npos = len(a.posonlyargs + a.args)
        self.vararg = a.vararg.arg if a.vararg else None
        self.kwarg = a.kwarg.arg if a.kwarg else None
        if self.vararg:
            self.params.append(self.vararg)
        if self.kwarg:
            self.params.append(self.kwarg)
        self.defs = []          # (name, line, kind)
        self.memo = {}
        self.src = {}           # var -> set(src vars)
        self.exact = {}
        self.writes = {}        # var -> (line, why)
        self.calls = []         # (frozenset(vars), line, why)
        self.stores = set()     # (frozenset(target id vars), frozenset(value vars))
        self.typ = {}           # def idx -> typ
        self.dfuncs = {}        # def idx -> set of function keys
        self.nested = {}
        self.ret_typs = set()   # static types of the returned values (None = unknown)
        self.loops = []
        self.tries = []
        self.seeds = {}         # label -> def idx
        self.locals = self._locals()
        self.ret = self.newdef(('ret',), '<return>', fdef.lineno, 'ret')

    # ---- definitions / edges
    def _locals(self):
        out = set(self.params)
        for n in ast.walk(self.f):
            if n is not self.f and isinstance(n, (ast.FunctionDef, ast.Lambda, ast.ClassDef)):
                if isinstance(n, ast.FunctionDef):
                    out.add(n.name)
            if isinstance(n, ast.Name) and isinstance(n.ctx, (ast.Store, ast.Del)):
                out.add(n.id)
            if isinstance(n, ast.ExceptHandler) and n.name:
                out.add(n.name)
        return out

    def newdef(self, key, name, line, kind):
        if key not in self.memo:
            self.memo[key] = len(self.defs)
            self.defs.append((name, line, kind))
            k = self.memo[key]
            self.src.setdefault(2 * k, set())
            self.src.setdefault(2 * k + 1, set())
        return self.memo[key]

    def seed(self, label, name, line=0):
        if label not in self.seeds:
            self.seeds[label] = self.newdef(('seed', label), name, line, label[0])
        return self.seeds[label]

    def bind(self, key, name, node, val):
        k = self.newdef(key, name, getattr(node, 'lineno', 0), 'local')
        self.src[2 * k] |= val.ids
        self.src[2 * k + 1] |= val.cs
        self.exact[2 * k] = self.exact.get(2 * k, True) and val.exact
        if k in self.typ and self.typ[k] != val.typ:
            self.typ[k] = None
        else:
            self.typ.setdefault(k, val.typ)
        if val.funcs:
            self.dfuncs.setdefault(k, set()).update(val.funcs)
        elif k in self.dfuncs:
            self.dfuncs[k].add(None)
        return k

    def write(self, vs, node, why):
        for v in vs:
            self.writes.setdefault(v, (getattr(node, 'lineno', 0), why))

    def bad(self, node, what):
        raise Untranslatable(getattr(node, 'lineno', '?'), what)

    # ---- expressions
    def name_val(self, e, env):
        nm = e.id
        if nm in env:
            ds = env[nm]
            typs = {self.typ.get(k) for k in ds}
            typ = typs.pop() if len(typs) == 1 else None
            fs = None
            if all(k in self.dfuncs for k in ds):
                fs = set().union(*[self.dfuncs[k] for k in ds])
                if None in fs:
                    fs = None
            return Val({2 * k for k in ds}, {2 * k + 1 for k in ds}, typ, fs, exact=True)
        if nm in self.locals:
            return FRESH                      # local name not yet bound on this path (would raise at run time)
        if self.outer is not None and nm in self.outer.locals:
            # a sibling nested function that is bound exactly once (by its def) and never re-assigned is the same
            # function object whenever it is read: resolve it like a call target; any other enclosing variable is
            # not covered (fail closed)
            o = self.outer
            defs = [n for n in ast.walk(o.f) if isinstance(n, ast.FunctionDef) and n is not o.f and n.name == nm]
            stores = [n for n in ast.walk(o.f) if isinstance(n, ast.Name) and n.id == nm and
                      isinstance(n.ctx, (ast.Store, ast.Del))]
            if len(defs) == 1 and not stores and nm not in o.params and defs[0] in o.f.body:
                key = (o.key[0], o.key[1] + '.' + nm)
                self.tr.nested.setdefault(key, (o.mod, defs[0], o))
                return Val(funcs={key})
            self.bad(e, 'nested function %s reads variable %r of the enclosing function' % (self.f.name, nm))
        m = self.mod
        if nm in m.funcs:
            return Val(funcs={(m.name, nm)})
        if nm in m.sibling:
            sm, fn = m.sibling[nm]
            if fn in self.tr.module(sm).funcs:
                return Val(funcs={(sm, fn)})
            self.bad(e, 'name %r imported from .%s is not a function' % (nm, sm))
        if nm in m.libs:
            return Val(lib=m.libs[nm])
        if nm in m.excs or nm in BUILTIN_EXC:
            return Val(lib='exc')
        if nm in BUILTIN_FRESH | BUILTIN_CONTAINER | BUILTIN_LOAD | {'map', 'filter'}:
            return Val(lib='builtins.' + nm)
        if nm in m.data or nm in m.loggers:
            k = self.seed(('glob', m.name + '.' + nm), '<global %s>' % nm)
            return Val({2 * k}, {2 * k + 1}, exact=True)
        self.bad(e, 'unknown global name %r' % nm)

    def is_adv(self, base, sl, env):
        if base.typ not in ND:
            return False
        elts = sl.elts if isinstance(sl, ast.Tuple) else [sl]
        for x in elts:
            if isinstance(x, (ast.Slice, ast.Constant)):
                continue
            if self.expr(x, env).typ in ('ndbool', 'list'):
                return True
        return False

    def expr(self, e, env):
        if e is None or isinstance(e, ast.Constant):
            return FRESH
        if isinstance(e, ast.Name):
            return self.name_val(e, env)
        if isinstance(e, ast.Attribute):
            lp = self.mod.lib_path(dotted(e))
            if lp is not None:
                return Val(lib=lp)
            b = self.expr(e.value, env)
            if b.lib is not None:
                return Val(lib=b.lib + '.' + e.attr)
            return b.load(b.typ if e.attr == 'T' else None)
        if isinstance(e, ast.Subscript):
            b = self.expr(e.value, env)
            self.expr(e.slice, env)
            if b.lib is not None:                       # np.s_[...]
                return FRESH
            if self.is_adv(b, e.slice, env):
                return Val(typ=b.typ)
            typ = b.typ if b.typ in ND else ('list' if b.typ == 'list' and isinstance(e.slice, ast.Slice) else None)
            return b.load(typ)
        if isinstance(e, ast.Slice):
            for x in (e.lower, e.upper, e.step):
                self.expr(x, env)
            return FRESH
        if isinstance(e, ast.BinOp):
            a, b = self.expr(e.left, env), self.expr(e.right, env)
            cs = set()
            for v in (a, b):
                if v.typ not in ND:
                    cs |= v.cs
            if a.typ == 'ndbool' and b.typ == 'ndbool' and isinstance(e.op, (ast.BitAnd, ast.BitOr, ast.BitXor)):
                typ = 'ndbool'
            elif a.typ in ND or b.typ in ND:
                typ = 'nd'
            elif a.typ == 'list' and b.typ == 'list' and isinstance(e.op, ast.Add):
                typ = 'list'
            else:
                typ = None
            return Val((), cs, typ)
        if isinstance(e, ast.UnaryOp):
            a = self.expr(e.operand, env)
            if isinstance(e.op, ast.Invert) and a.typ == 'ndbool':
                return Val(typ='ndbool')
            return Val(typ='nd' if a.typ in ND and not isinstance(e.op, ast.Not) else None)
        if isinstance(e, ast.Compare):
            vs = [self.expr(x, env) for x in [e.left] + list(e.comparators)]
            elementwise = all(isinstance(o, (ast.Lt, ast.LtE, ast.Gt, ast.GtE, ast.Eq, ast.NotEq)) for o in e.ops)
            return Val(typ='ndbool' if elementwise and len(vs) == 2 and any(v.typ in ND for v in vs) else None)
        if isinstance(e, ast.BoolOp):
            vs = [self.expr(x, env) for x in e.values]
            return Val(set().union(*[v.ids for v in vs]), set().union(*[v.cs for v in vs]))
        if isinstance(e, ast.IfExp):
            self.expr(e.test, env)
            a, b = self.expr(e.body, env), self.expr(e.orelse, env)
            fs = (a.funcs | b.funcs) if a.funcs and b.funcs else None
            return Val(a.ids | b.ids, a.cs | b.cs, a.typ if a.typ == b.typ else None, fs)
        if isinstance(e, (ast.Tuple, ast.List, ast.Set)):
            cs = set()
            for x in e.elts:
                cs |= self.expr(x.value if isinstance(x, ast.Starred) else x, env).allv()
            return Val((), cs, 'list' if isinstance(e, ast.List) else ('tuple' if isinstance(e, ast.Tuple) else None))
        if isinstance(e, ast.Dict):
            cs = set()
            for x in list(e.keys) + list(e.values):
                cs |= self.expr(x, env).allv()
            return Val((), cs, 'dict')
        if isinstance(e, (ast.ListComp, ast.SetComp, ast.GeneratorExp, ast.DictComp)):
            env2 = dict(env)
            for g in e.generators:
                it = self.expr(g.iter, env2)
                self.assign(g.target, it.load(), env2, g.iter, None)
                for c in g.ifs:
                    self.expr(c, env2)
            if isinstance(e, ast.DictComp):
                v = Val((), self.expr(e.key, env2).allv() | self.expr(e.value, env2).allv())
            else:
                v = Val((), self.expr(e.elt, env2).allv())
            return Val((), v.cs, 'list' if isinstance(e, ast.ListComp) else None)
        if isinstance(e, ast.JoinedStr):
            for x in e.values:
                self.expr(x, env)
            return FRESH
        if isinstance(e, ast.FormattedValue):
            self.expr(e.value, env)
            self.expr(e.format_spec, env)
            return FRESH
        if isinstance(e, ast.Call):
            return self.call(e, env)
        self.bad(e, 'expression %s' % type(e).__name__)

    # ---- calls
    def call(self, e, env):
        for a in e.args:
            if isinstance(a, ast.Starred):
                self.bad(e, 'call with *args: %s' % ast.unparse(e.func))
        for k in e.keywords:
            if k.arg is None:
                self.bad(e, 'call with **kwargs: %s' % ast.unparse(e.func))
        args = [self.expr(a, env) for a in e.args]
        kws = {k.arg: self.expr(k.value, env) for k in e.keywords}
        allargs = args + list(kws.values())
        argv = set().union(*[v.allv() for v in allargs]) if allargs else set()
        kwnode = {k.arg: k.value for k in e.keywords}
        f = e.func
        fname = ast.unparse(f)
        # method of a logger
        if isinstance(f, ast.Attribute) and isinstance(f.value, ast.Name) and f.value.id in self.mod.loggers \
                and f.value.id not in env:
            if f.attr in LOG_METHODS:
                return FRESH
            self.bad(e, 'unknown logger method %s' % fname)
        fv = self.expr(f, env) if not isinstance(f, ast.Attribute) else None
        lp = self.mod.lib_path(dotted(f)) if isinstance(f, ast.Attribute) else (fv.lib if fv else None)
        if isinstance(f, ast.Attribute) and lp is None:
            bv = self.expr(f.value, env)
            if bv.lib is not None:
                lp = bv.lib + '.' + f.attr
            else:
                return self.method(e, f.attr, bv, args, kws, kwnode, argv)
        if lp is not None:
            return self.libcall(e, lp, args, kws, kwnode, argv)
        if fv.funcs:
            return self.usercall(e, fv.funcs, args, kws)
        if fv.ids or fv.cs:
            # call of a caller-supplied (or otherwise unknown) callable object
            if argv:
                self.calls.append((frozenset(argv), e.lineno, 'call of callable %s' % fname))
            return Val(argv, argv)
        self.bad(e, 'unknown call %s' % fname)

    def libcall(self, e, lp, args, kws, kwnode, argv):
        if 'out' in kws:
            self.bad(e, 'library call with out=: %s' % lp)
        if lp == 'exc' or lp.endswith('Error') and lp.startswith('numpy.'):
            return Val((), argv)
        if lp.startswith('builtins.'):
            nm = lp[9:]
            if nm in BUILTIN_FRESH:
                return FRESH
            if nm in BUILTIN_CONTAINER:
                return Val((), argv, {'list': 'list', 'sorted': 'list', 'tuple': 'tuple'}.get(nm))
            if nm in BUILTIN_LOAD:
                return Val(argv, argv)
            if nm in ('map', 'filter'):
                if not args or args[0].lib is None or self.lib_kind(args[0].lib) != 'fresh':
                    self.bad(e, '%s with a function that is not a known pure library function' % nm)
                return Val((), argv if nm == 'filter' else ())
            self.bad(e, 'unknown builtin %s' % nm)
        if lp in LIB_CONSTRUCTORS:
            return Val((), argv, 'libobj')
        if lp.startswith('numpy.'):
            nm = lp[6:]
            if 'copy' in kws and not (isinstance(kwnode['copy'], ast.Constant) and kwnode['copy'].value is True):
                if nm in NP_FRESH:
                    return Val(argv, (), 'nd')
            if nm in NP_WRITES_ARG0:
                if args:
                    self.write(args[0].ids, e, 'np.%s(..) writes its first argument' % nm)
                return FRESH
            if nm in NP_FRESH:
                typ = 'nd' if nm in NP_NDARRAY else None
                if nm in NP_BOOL:
                    typ = 'ndbool'
                dt = kwnode.get('dtype')
                if dt is not None and nm in NP_NDARRAY:
                    d = dotted(dt)
                    if (self.mod.lib_path(d) in ('numpy.bool_', 'numpy.bool')) or d == 'bool':
                        typ = 'ndbool'
                if nm in ('zeros_like', 'ones_like', 'empty_like') and args and 'dtype' not in kws:
                    typ = args[0].typ if args[0].typ in ND else 'nd'
                return Val(typ=typ)
            if nm in NP_MAYALIAS:
                ids = set()
                for v in args + list(kws.values()):
                    if v.typ not in ('list', 'tuple'):
                        ids |= v.allv()
                return Val(ids, ids, 'nd' if nm == 'asarray' else None)
            self.bad(e, 'unknown numpy call np.%s' % nm)
        self.bad(e, 'unknown library call %s' % lp)

    def lib_kind(self, lp):
        if lp.startswith('numpy.') and lp[6:] in NP_FRESH:
            return 'fresh'
        if lp.startswith('builtins.') and lp[9:] in BUILTIN_FRESH:
            return 'fresh'
        return None

    def method(self, e, m, b, args, kws, kwnode, argv):
        if 'out' in kws:
            self.bad(e, 'method call with out=: .%s' % m)
        if m in M_INPLACE or m in M_INPLACE_STORE or m in M_INPLACE_LOAD:
            self.write(b.ids, e, '.%s() modifies its object in place' % m)
            if m in M_INPLACE_STORE and argv and b.typ not in ND:
                self.stores.add((frozenset(b.ids), frozenset(argv)))
            if m in M_INPLACE_LOAD or m == 'setdefault':
                return Val(b.allv() | argv, b.cs | argv)
            return FRESH
        if m in M_FRESH:
            if 'copy' in kws and not (isinstance(kwnode['copy'], ast.Constant) and kwnode['copy'].value is True):
                return Val(b.ids, b.cs, b.typ)                 # astype(copy=False)
            if m == 'copy':
                return Val((), () if b.typ in ND else b.cs, b.typ)
            if m == 'flatten':
                return Val(typ=b.typ)
            if m == 'astype':
                return Val(typ='nd' if b.typ in ND else None)
            return Val(typ='nd' if b.typ in ND and m in ('mean', 'sum', 'std', 'max', 'min', 'dot') else None)
        if m in M_LOAD:
            return Val(b.allv() | argv, b.cs | argv)
        if m in M_VIEW:
            return Val(b.ids, b.cs, b.typ)
        self.bad(e, 'unknown method .%s()' % m)

    def usercall(self, e, fkeys, args, kws):
        ids, cs = set(), set()
        rtyps = set()
        for fk in sorted(fkeys):
            callee = self.tr.analyse(fk, self)
            sm = callee.summary
            if callee.vararg or callee.kwarg:
                self.bad(e, 'call of %s which has *args/**kwargs' % fk[1])
            actual = {}
            for i, v in enumerate(args):
                if i >= callee.npos:
                    self.bad(e, 'too many positional arguments for %s' % fk[1])
                actual[callee.params[i]] = v
            for k, v in kws.items():
                if k not in callee.params or k in actual:
                    self.bad(e, 'bad keyword %r for %s' % (k, fk[1]))
                actual[k] = v

            def vars_of(labels):
                out = set()
                for lab in labels:
                    if lab[0] == 'glob':
                        k = self.seed(lab, '<global %s>' % lab[1].split('.')[-1])
                        out.add(2 * k if lab[2] == 'id' else 2 * k + 1)
                    elif lab[1] in actual:
                        v = actual[lab[1]]
                        out |= v.ids if lab[2] == 'id' else v.cs
                return out
            w = vars_of(sm.W)
            if w:
                self.calls.append((frozenset(w), e.lineno, 'call of %s, which writes %s' % (
                    fk[1], ', '.join(sorted('%s%s' % (l[1], '' if l[2] == 'id' else ' (contents)') for l in sm.W)))))
            ids |= vars_of(sm.ret_id)
            cs |= vars_of(sm.ret_c)
            rtyps.add(getattr(sm, 'ret_typ', None))
            for lab, srcs in sm.stores.items():
                tv, sv = vars_of({(lab[0], lab[1], 'id')}), vars_of(srcs)
                if tv and sv:
                    self.stores.add((frozenset(tv), frozenset(sv)))
        rt = next(iter(rtyps)) if len(rtyps) == 1 else None
        return Val(ids, cs, rt if rt != 'none' else None)

    # ---- assignment targets
    def assign(self, t, val, env, node, valnode):
        if isinstance(t, ast.Name):
            k = self.bind((id(node), id(t), t.id), t.id, t if hasattr(t, 'lineno') else node, val)
            env[t.id] = frozenset([k])
        elif isinstance(t, (ast.Tuple, ast.List)):
            for x in t.elts:
                self.assign(x.value if isinstance(x, ast.Starred) else x, val.load(), env, node, None)
        elif isinstance(t, (ast.Subscript, ast.Attribute)):
            b = self.expr(t.value, env)
            if isinstance(t, ast.Subscript):
                self.expr(t.slice, env)
            if b.lib is not None:
                self.bad(t, 'store into library object %s' % ast.unparse(t))
            self.write(b.ids, t, 'store ' + ast.unparse(t))
            if val.allv() and b.typ not in ND:
                self.stores.add((frozenset(b.ids), frozenset(val.allv())))
        else:
            self.bad(node, 'assignment target %s' % type(t).__name__)

    # ---- statements
    @staticmethod
    def join(a, b):
        if a is None:
            return b
        if b is None:
            return a
        r = dict(a)
        for k, v in b.items():
            r[k] = r.get(k, frozenset()) | v
        return r

    def note(self, env):
        for fr in self.tries:
            fr[0] = self.join(fr[0], env)

    def block(self, stmts, env):
        for s in stmts:
            if env is None:
                break
            self.note(env)
            env = self.stmt(s, env)
        if env is not None:
            self.note(env)
        return env

    def stmt(self, s, env):
        if isinstance(s, ast.Assign):
            if (isinstance(s.value, (ast.Tuple, ast.List)) and len(s.targets) == 1
                    and isinstance(s.targets[0], (ast.Tuple, ast.List))
                    and len(s.targets[0].elts) == len(s.value.elts)
                    and not any(isinstance(x, ast.Starred) for x in s.targets[0].elts + s.value.elts)):
                vals = [self.expr(x, env) for x in s.value.elts]
                for t, v in zip(s.targets[0].elts, vals):
                    self.assign(t, v, env, s, None)
                return env
            v = self.expr(s.value, env)
            for t in s.targets:
                self.assign(t, v, env, s, s.value)
            return env
        if isinstance(s, ast.AnnAssign):
            if s.value is not None:
                self.assign(s.target, self.expr(s.value, env), env, s, s.value)
            return env
        if isinstance(s, ast.AugAssign):
            v = self.expr(s.value, env)
            if isinstance(s.target, ast.Name):
                tv = self.name_val(s.target, env)
                self.write(tv.ids, s, 'augmented assignment ' + ast.unparse(s)[:60])
                if v.allv() and tv.typ not in ND:
                    self.stores.add((frozenset(tv.ids), frozenset(v.allv())))
            elif isinstance(s.target, (ast.Subscript, ast.Attribute)):
                b = self.expr(s.target.value, env)
                if isinstance(s.target, ast.Subscript):
                    self.expr(s.target.slice, env)
                self.write(b.ids, s, 'augmented assignment ' + ast.unparse(s)[:60])
                if v.allv() and b.typ not in ND:
                    self.stores.add((frozenset(b.ids), frozenset(v.allv())))
            else:
                self.bad(s, 'augmented assignment target')
            return env
        if isinstance(s, ast.Expr):
            self.expr(s.value, env)
            return env
        if isinstance(s, ast.Return):
            v = self.expr(s.value, env)
            self.src[2 * self.ret] |= v.ids
            self.src[2 * self.ret + 1] |= v.cs
            self.ret_typs.add(v.typ if s.value is not None else 'none')
            return None
        if isinstance(s, ast.Raise):
            self.expr(s.exc, env)
            self.expr(s.cause, env)
            return None
        if isinstance(s, ast.Assert):
            self.expr(s.test, env)
            self.expr(s.msg, env)
            return env
        if isinstance(s, ast.Pass):
            return env
        if isinstance(s, ast.Break):
            if not self.loops:
                self.bad(s, 'break outside loop')
            self.loops[-1]['brk'] = self.join(self.loops[-1]['brk'], env)
            return None
        if isinstance(s, ast.Continue):
            if not self.loops:
                self.bad(s, 'continue outside loop')
            self.loops[-1]['cont'] = self.join(self.loops[-1]['cont'], env)
            return None
        if isinstance(s, ast.If):
            self.expr(s.test, env)
            ea, eb = dict(env), dict(env)
            t = s.test
            # `if x is None` / `if x is not None`: on the None side x denotes no object at all
            if (isinstance(t, ast.Compare) and len(t.ops) == 1 and isinstance(t.left, ast.Name)
                    and isinstance(t.comparators[0], ast.Constant) and t.comparators[0].value is None
                    and t.left.id in env):
                if isinstance(t.ops[0], ast.Is):
                    ea[t.left.id] = frozenset()
                elif isinstance(t.ops[0], ast.IsNot):
                    eb[t.left.id] = frozenset()
            a = self.block(s.body, ea)
            b = self.block(s.orelse, eb)
            return self.join(a, b)
        if isinstance(s, (ast.For, ast.While)):
            if isinstance(s, ast.For):
                it = self.expr(s.iter, env)
            head = env
            fr = {'brk': None, 'cont': None}
            self.loops.append(fr)
            exit_env = None
            for rnd in range(60):
                e2 = dict(head)
                if isinstance(s, ast.For):
                    self.assign(s.target, it.load(), e2, s, None)
                else:
                    self.expr(s.test, e2)
                exit_env = self.join(exit_env, head)        # loop condition false / iterator exhausted
                out = self.block(s.body, e2)
                nxt = self.join(self.join(head, out), fr['cont'])
                if nxt == head:
                    break
                head = nxt
            else:
                self.bad(s, 'loop analysis did not converge')
            self.loops.pop()
            after = self.block(s.orelse, dict(exit_env)) if s.orelse else exit_env
            return self.join(after, fr['brk'])
        if isinstance(s, ast.Try):
            if s.finalbody:
                self.bad(s, 'try/finally')
            fr = [dict(env)]
            self.tries.append(fr)
            a = self.block(s.body, dict(env))
            self.tries.pop()
            r = self.block(s.orelse, a) if (s.orelse and a is not None) else a
            for h in s.handlers:
                henv = dict(fr[0])
                self.expr(h.type, henv)
                if h.name:
                    k = self.bind((id(h), h.name), h.name, h, FRESH)
                    henv[h.name] = frozenset([k])
                r = self.join(r, self.block(h.body, henv))
            return r
        if isinstance(s, ast.With):
            for it in s.items:
                v = self.expr(it.context_expr, env)
                if it.optional_vars is not None:
                    self.assign(it.optional_vars, Val(v.allv(), v.allv()), env, s, None)
            return self.block(s.body, env)
        if isinstance(s, ast.FunctionDef):
            key = (self.key[0], self.key[1] + '.' + s.name)
            self.tr.nested[key] = (self.mod, s, self)
            k = self.bind((id(s), s.name), s.name, s, Val(funcs={key}))
            env[s.name] = frozenset([k])
            return env
        if isinstance(s, ast.Delete):
            for t in s.targets:
                if isinstance(t, ast.Name):
                    env.pop(t.id, None)
                else:
                    self.assign(t, FRESH, env, s, None)
            return env
        self.bad(s, 'statement %s' % type(s).__name__)

    # ---- whole function
    def run(self):
        env = {}
        for p in self.params:
            k = self.seed(('par', p), p, self.f.lineno)
            env[p] = frozenset([k])
        a = self.f.args
        for d in list(a.defaults) + [x for x in a.kw_defaults if x is not None]:
            if not isinstance(d, (ast.Constant, ast.Tuple)) or (
                    isinstance(d, ast.Tuple) and not all(isinstance(x, ast.Constant) for x in d.elts)):
                pass   # mutable default: the parameter is a seed (caller/global owned) anyway
        self.block(self.f.body, env)
        self.close_stores()
        self.labels = self.propagate()
        self.summary = self.summarise()
        return self

    def close_stores(self):
        """container stores: every definition that may denote the container, or an object holding it,
        may now reach the stored value through its contents variable."""
        changed = True
        while changed:
            changed = False
            for tgt, vals in self.stores:
                seen, todo = set(), list(tgt)
                while todo:
                    u = todo.pop()
                    if u in seen:
                        continue
                    seen.add(u)
                    todo.extend(self.src.get(u, ()))
                for u in seen:
                    c = (u // 2) * 2 + 1
                    new = vals - self.src[c] - {c}
                    if new:
                        self.src[c] |= new
                        changed = True

    def seed_vars(self):
        out = {}
        for lab, k in self.seeds.items():
            out[2 * k] = (lab[0], lab[1], 'id')
            out[2 * k + 1] = (lab[0], lab[1], 'c')
        return out

    def propagate(self):
        lab = {v: set() for v in self.src}
        for v, l in self.seed_vars().items():
            lab[v].add(l)
        changed = True
        while changed:
            changed = False
            for v, ss in self.src.items():
                for u in ss:
                    new = lab[u] - lab[v]
                    if new:
                        lab[v] |= new
                        changed = True
        return lab

    def summarise(self):
        sm = Summary()
        for v in self.writes:
            sm.W |= self.labels[v]
        for vs, _, _ in self.calls:
            for v in vs:
                sm.W |= self.labels[v]
        sm.ret_id = set(self.labels[2 * self.ret])
        sm.ret_c = set(self.labels[2 * self.ret + 1])
        sm.ret_typ = next(iter(self.ret_typs)) if len(self.ret_typs) == 1 else None
        for v, l in self.seed_vars().items():
            if l[2] == 'c':
                extra = self.labels[v] - {l}
                if extra:
                    sm.stores[l] = extra
        return sm

    # ---- output
    def describe(self, v):
        name, line, kind = self.defs[v // 2]
        what = {'par': 'parameter %s' % name, 'glob': name, 'ret': 'return value'}.get(kind, '%s (defined line %s)' % (name, line))
        return what + ('' if v % 2 == 0 else ' [contents]')

    def coq(self, ident):
        """Coq definitions a_<ident> (assignments), e_<ident> (effects), s_<ident> (seed variables)."""
        def lst(xs):
            return '[' + '; '.join(str(x) for x in sorted(xs)) + ']'
        asg = []
        for v in sorted(self.src):
            if v in self.seed_vars():
                continue
            ss = self.src[v] - {v}
            if not ss:
                asg.append('Assign %d Fresh' % v)
            elif self.exact.get(v, False):
                asg.append('Assign %d (Alias %s)' % (v, lst(ss)))
            else:
                asg.append('Assign %d (MayAlias %s)' % (v, lst(ss)))
        # contents variables of seeds that received stores
        for v, l in sorted(self.seed_vars().items()):
            ss = self.src[v] - {v}
            if ss:
                asg.append('Assign %d (MayAlias %s)' % (v, lst(ss)))
        eff = ['Write %d' % v for v in sorted(self.writes)]
        seen = set()
        for vs, _, _ in self.calls:
            if vs not in seen:
                seen.add(vs)
                eff.append('CallW %s' % lst(vs))
        out = 'Definition a_%s : prog := [%s].\n' % (ident, ';\n  '.join(asg))
        out += 'Definition e_%s : prog := [%s].\n' % (ident, '; '.join(eff))
        out += 'Definition s_%s : list var := %s.\n' % (ident, lst(self.seed_vars()))
        return out

    def label_vars(self, labels):
        inv = {l: v for v, l in self.seed_vars().items()}
        return sorted(inv[l] for l in labels if l in inv)

    def effects_on(self, v):
        out = []
        if v in self.writes:
            out.append('line %s: %s' % self.writes[v])
        for vs, line, why in self.calls:
            if v in vs:
                out.append('line %s: %s' % (line, why))
        return out

    def why_tainted(self, v):
        """a chain of definitions from a seed to v (for reports)"""
        seeds = self.seed_vars()
        prev, todo = {v: None}, [v]
        while todo:
            u = todo.pop(0)
            if u in seeds:
                chain = []
                while u is not None:
                    chain.append(self.describe(u))
                    u = prev[u]
                return ' -> '.join(chain)
            for w in sorted(self.src.get(u, ())):
                if w not in prev:
                    prev[w] = u
                    todo.append(w)
        return '?'


class Translator:
    def __init__(self, repo, pkg='tweakwcs'):
        self.repo, self.pkg = repo, pkg
        self.mods = {}
        self.done = {}
        self.nested = {}
        self.active = []

    def module(self, name):
        if name not in self.mods:
            path = os.path.join(self.repo, self.pkg, name + '.py')
            self.mods[name] = Module(self.pkg, name, open(path).read())
        return self.mods[name]

    def analyse(self, key, caller=None):
        if key in self.done:
            return self.done[key]
        if key in self.active:
            raise Untranslatable(0, 'recursive call of %s.%s' % key)
        if key in self.nested:
            mod, fdef, outer = self.nested[key]
        else:
            mod = self.module(key[0])
            if key[1] not in mod.funcs:
                raise Untranslatable(0, 'function %s not found in %s.py' % (key[1], key[0]))
            fdef, outer = mod.funcs[key[1]], None
        self.active.append(key)
        try:
            fn = Fn(self, mod, fdef, key, outer).run()
        finally:
            self.active.pop()
        self.done[key] = fn
        return fn


TARGETS = [('linearfit', ['iter_linear_fit', 'fit_shifts', 'fit_rscale', 'fit_rshift', 'fit_general', '_compute_stat',
                          '_build_fit', 'build_fit_matrix']),
           ('linalg', ['inv']),
           ('wcsimage', ['convex_hull']),
           ('matchutils', ['_xy_2dhist', '_estimate_2dhist_shift', '_find_peak'])]
HELPERS = {('linearfit', '_compute_stat'), ('linearfit', '_build_fit')}   # private helpers: summary obligation


def fmt_labels(ls):
    return sorted('%s%s' % (l[1], '' if l[2] == 'id' else '[contents]') for l in ls)


if __name__ == '__main__':
    import sys
    repo = sys.argv[1] if len(sys.argv) > 1 else os.environ.get('VERIF_REPO', '/repo')
    tr = Translator(repo)
    for modname, names in TARGETS:
        for nm in names:
            try:
                fn = tr.analyse((modname, nm))
                sm = fn.summary
                print('%s.%s: defs=%d writes=%d calls=%d  W=%s ret=%s/%s stores=%s' % (
                    modname, nm, len(fn.defs), len(fn.writes), len(fn.calls), fmt_labels(sm.W),
                    fmt_labels(sm.ret_id), fmt_labels(sm.ret_c), {k[1]: fmt_labels(v) for k, v in sm.stores.items()}))
                for v in sorted(set(fn.writes) | set().union(*[c[0] for c in fn.calls] or [set()])):
                    if fn.labels[v]:
                        print('    TAINTED %s: %s  <= %s' % (fn.describe(v), fn.effects_on(v), fn.why_tainted(v)))
            except Untranslatable as ex:
                print('%s.%s: FAIL-CLOSED %s' % (modname, nm, ex))
    for key, fn in tr.done.items():
        if key in tr.nested:
            print('nested %s.%s: W=%s ret=%s/%s' % (key[0], key[1], fmt_labels(fn.summary.W),
                                                    fmt_labels(fn.summary.ret_id), fmt_labels(fn.summary.ret_c)))


# ------------------------------------------------------------------ package-wide scan for writes to module state
def module_state_writes(repo, pkg='tweakwcs', modules=('linearfit', 'linalg', 'matchutils', 'imalign', 'wcsimage',
                                                        'correctors', 'wcsutils', 'tpwcs')):
    """Syntactic scan of EVERY function and method of the package (also the object-level ones that are not
    translated): statements that store into, augment, delete from or call an in-place method on a name that is
    module-level data (or declare it `global`).  Returns a list of (module, function, line, text)."""
    out = []
    for mn in modules:
        path = os.path.join(repo, pkg, mn + '.py')
        if not os.path.exists(path):
            continue
        mod = Module(pkg, mn, open(path).read())
        shared = set(mod.data) | set(mod.classes) | set(mod.excs)

        def scan(fdef, qual):
            local = set()
            a = fdef.args
            for x in a.posonlyargs + a.args + a.kwonlyargs + ([a.vararg] if a.vararg else []) + ([a.kwarg] if a.kwarg else []):
                local.add(x.arg)
            glob = set()
            for n in ast.walk(fdef):
                if isinstance(n, ast.Global):
                    glob |= set(n.names)
                if isinstance(n, ast.Name) and isinstance(n.ctx, (ast.Store, ast.Del)):
                    local.add(n.id)
                if isinstance(n, (ast.FunctionDef, ast.ClassDef)) and n is not fdef:
                    local.add(n.name)
                if isinstance(n, ast.ExceptHandler) and n.name:
                    local.add(n.name)
            local -= glob

            def base_name(t):
                while isinstance(t, (ast.Subscript, ast.Attribute)):
                    t = t.value
                return t.id if isinstance(t, ast.Name) else None

            def is_shared(nm):
                return nm is not None and nm not in local and (nm in shared or nm in glob)
            for n in ast.walk(fdef):
                hit = None
                if isinstance(n, ast.Global):
                    hit = 'global ' + ', '.join(n.names)
                elif isinstance(n, (ast.Assign, ast.AugAssign, ast.AnnAssign, ast.Delete)):
                    tg = n.targets if isinstance(n, (ast.Assign, ast.Delete)) else [n.target]
                    flat = []
                    for t in tg:
                        flat += list(t.elts) if isinstance(t, (ast.Tuple, ast.List)) else [t]
                    for t in flat:
                        if isinstance(t, (ast.Subscript, ast.Attribute)) and is_shared(base_name(t)):
                            hit = ast.unparse(n)[:100]
                        if isinstance(t, ast.Name) and t.id in glob:
                            hit = ast.unparse(n)[:100]
                elif isinstance(n, ast.Call) and isinstance(n.func, ast.Attribute):
                    if n.func.attr in (M_INPLACE | M_INPLACE_STORE | M_INPLACE_LOAD) and is_shared(base_name(n.func.value)):
                        hit = ast.unparse(n)[:100]
                if hit:
                    out.append((mn, qual, getattr(n, 'lineno', 0), hit))

        for s in mod.tree.body:
            if isinstance(s, ast.FunctionDef):
                scan(s, s.name)
            elif isinstance(s, ast.ClassDef):
                for m in s.body:
                    if isinstance(m, ast.FunctionDef):
                        scan(m, s.name + '.' + m.name)
    return out
