"""Helpers to build FITS-WCS correctors, catalogs and a scripted (ground-truth) matcher for
alignment-level checks (C01, C05, C09, ...)."""
import numpy as np
from astropy import wcs as fitswcs
from astropy.table import Table


def mkwcs(crval=(82.0, 12.0), rot=30.0, scale=1e-5, crpix=(512., 512.), shape=(1024, 1024), pc=False, sip=None):
    from tweakwcs.linearfit import build_fit_matrix
    w = fitswcs.WCS(naxis=2)
    if pc:
        w.wcs.pc = build_fit_matrix(rot, 1.0)
        w.wcs.cdelt = [scale, scale]
    else:
        w.wcs.cd = build_fit_matrix(rot, scale)
    w.wcs.crval = list(crval)
    w.wcs.crpix = list(crpix)
    w.wcs.ctype = ['RA---TAN-SIP', 'DEC--TAN-SIP'] if sip is not None else ['RA---TAN', 'DEC--TAN']
    w.pixel_shape = list(shape)
    if sip is not None:
        a = np.zeros((3, 3))
        b_ = np.zeros((3, 3))
        a[2, 0], a[1, 1], a[0, 2] = sip[0], sip[1], sip[2]
        b_[2, 0], b_[1, 1], b_[0, 2] = sip[3], sip[4], sip[5]
        w.sip = fitswcs.Sip(a, b_, None, None, list(crpix))
    w.wcs.set()
    return w


def separated_sources(rng, n, half_deg, minsep_deg, center=(82.0, 12.0)):
    """n sky positions in a box of +-half_deg around center, pairwise separated by > minsep_deg."""
    pts = []
    while len(pts) < n:
        p = np.array([rng.uniform(-half_deg, half_deg), rng.uniform(-half_deg, half_deg)])
        if all(np.hypot(*(p - q_)) > minsep_deg for q_ in pts):
            pts.append(p)
    pts = np.array(pts)
    return center[0] + pts[:, 0] / np.cos(np.deg2rad(center[1])), center[1] + pts[:, 1]


def observe(w_true, ra, dec, shape=(1024, 1024), margin=5):
    x, y = w_true.all_world2pix(ra, dec, 0)
    m = (x > margin) & (x < shape[0] - margin) & (y > margin) & (y < shape[1] - margin)
    return x[m], y[m], np.nonzero(m)[0]


def oracle_matcher(radius=3.0, seed=0):
    """a MatchCatalogs callable: nearest neighbour within `radius` tangent-plane units, returned in shuffled
    order (sources must be separated by more than 2*radius)."""
    from tweakwcs.matchutils import MatchCatalogs

    class OracleMatch(MatchCatalogs):
        def __call__(self, refcat, imcat, **kw):
            from scipy.spatial import cKDTree
            r = np.array([refcat['TPx'], refcat['TPy']]).T
            m = np.array([imcat['TPx'], imcat['TPy']]).T
            if len(r) == 0 or len(m) == 0:
                return np.array([], dtype=int), np.array([], dtype=int)
            d, j = cKDTree(r).query(m, distance_upper_bound=radius)
            ii = np.nonzero(np.isfinite(d))[0]
            ri = j[ii]
            p = np.random.default_rng(seed + len(ri)).permutation(len(ri))
            return np.array(ri, dtype=int)[p], np.array(ii, dtype=int)[p]
    return OracleMatch()
