"""C02 - set_correction applies exactly the requested affine map in the tangent plane."""
import math

import numpy as np

import gen_wcs as G
from common import q, b, lst, frac, implementation

DW = 360.0 * 2.0 ** -52 * 3600.0        # quantum of a sky coordinate held in degrees as float64, in arcsec


def track(ck, what, err, tol):
    """largest measured error relative to its tolerance, per category (written to the evidence file)."""
    m = ck.extra.setdefault('max_error_over_tolerance', {})
    r = err / tol if tol > 0 else (0.0 if err == 0 else float('inf'))
    if r >= m.get(what, -1.0):
        m[what] = r
    a = ck.extra.setdefault('max_error', {})
    a[what] = max(a.get(what, 0.0), err)


def qpts(xs, ys):
    return lst(['(%s, %s)' % (q(float(x)), q(float(y))) for x, y in zip(np.ravel(xs), np.ravel(ys))])


def fmt_hist(hist):
    return [{k: v for k, v in h.items() if k in ('op', 'M', 's', 'ref', 'ref_geometry', 'ref_history')} for h in hist]


# ------------------------------------------------------------------------------------------------ gWCS
def gwcs_case(ck, I, rng, t):
    """one history on a mock JWST gWCS; returns (coq_case, meta) and evaluates the identity after every correction."""
    g = G.gen_gwcs_geom(rng, t)
    c = G.gwcs_corrector(I, g)
    c_built = c.copy()
    k = float(I['correctors']._ARCSEC2RAD)
    frames0 = list(c.wcs.available_frames)
    nops = rng.choice([0, 1, 2, 3, 4, 5, 6])
    x, y = G.grid(g, 5)
    rho = G.field_radius_px(g, (g['shape'][0] / 2, g['shape'][1] / 2))
    unit = G.pix_scale_arcsec(g)                # one pixel in tangent-plane units (arcsec)
    hist, coq_steps = [], []
    ncorr = 0
    for j in range(nops):
        kind = rng.choice(['set', 'set', 'set', 'setref', 'setref', 'copy', 'rewrap'])
        rec = {'op': kind}
        if kind == 'copy':
            c = c.copy()
            op = 'HCopy'
        elif kind == 'rewrap':
            c = G.rewrap(I, c, g)
            op = 'HRewrap'
        else:
            old = c.copy()
            if kind == 'set':
                corr = G.gen_correction(rng, unit)
                M, s = np.array(corr['M']), np.array(corr['s'])
                c.set_correction(M, s)
                op = 'HSet %s %s' % (G.qc_mat(M), G.qc_pt(s))
                plane, U, mode, gr = old, 1.0, 'own', None
            else:
                mode, gr, ref = G.gen_reference(I, rng, g, c_built, rng.randrange(5))
                if mode in ('self', 'rotated') and rng.random() < 0.5:
                    # a reference corrector that has itself been corrected, repeatedly, as one object (e.g. the
                    # reference of a later align_wcs pass): its plane is an affine image of the plane it was built with
                    rh = []
                    for _ in range(rng.choice([2, 3])):
                        rc_ = G.gen_correction(rng, unit / G.tan_scale_arcsec(gr))
                        ref.set_correction(np.array(rc_['M']), np.array(rc_['s']))
                        rh.append({'M': rc_['M'], 's': rc_['s']})
                    rec['ref_history'] = rh
                    mode += '+corrected%d' % len(rh)
                U = G.tan_scale_arcsec(gr)
                corr = G.gen_correction(rng, unit / U)
                M, s = np.array(corr['M']), np.array(corr['s'])
                proxy = G.RecRef(ref)
                c.set_correction(M, s, ref_tpwcs=proxy)
                probes = [cl for cl in proxy.calls if cl[0] == 't2w']
                assert len(probes) == 1 and probes[0][1][0].shape == (4,), proxy.calls
                px, py = probes[0][1]
                ps = float(px[1] - px[0])
                ix, iy = old.world_to_tanp(*probes[0][2])
                op = 'HSetRef %s %s %s %s %s' % (q(ps), qpts(px, py), qpts(ix, iy), G.qc_mat(M), G.qc_pt(s))
                plane = ref
                rec['ref'] = mode
                rec['ref_geometry'] = gr
            rec.update(M=M.tolist(), s=s.tolist(), msize=corr['msize'], ssize=corr['ssize'])
            # ---- the identity, evaluated on the implementation
            ck.search_evaluations += 1
            sky_new = c.det_to_world(x, y)
            lhs = np.array(plane.world_to_tanp(*sky_new))
            if kind == 'set':
                qq = np.array(old.det_to_tanp(x, y))
            else:
                qq = np.array(plane.world_to_tanp(*old.det_to_world(x, y)))
            rhs = np.dot(M, qq) + s[:, None]
            err = float(np.hypot(*(lhs - rhs)).max()) * U            # arcsec
            if kind == 'set':
                tol = 1e-7
                what = 'own plane: <= 1e-7 arcsec'
            else:
                rr = float(np.hypot(*qq).max()) * U                  # arcsec from the reference tangent point
                cn = G.corr_norm(M, s, float(np.hypot(*qq).max())) * U
                sep = float(G.sky_sep_arcsec(*G.tangent_point(old, g), *G.tangent_point(ref, gr)))
                A = math.radians(1 / 3600.0)
                bound = cn * (rr * A) ** 2
                floor = 8 * DW * (1 + rho) + 1e-7
                same = sep < 1e-6
                tol = floor if same else 4 * bound + floor
                what = ('reference plane %s: <= %s8*%.3g*(1+rho) + 1e-7 arcsec (rounding of the numerical plane-to-plane '
                        'map)' % (mode, '' if same else '4*|corr|*r^2 + ', DW))
                ck.count('gwcs_ref_mode', mode)
                ck.count('gwcs_ref_same_tangent_point', same)
            ck.count('gwcs_identity_plane', 'own' if kind == 'set' else 'reference')
            ck.count('gwcs_corrections_before', min(ncorr, 4))
            ck.count('matrix_size', corr['msize'])
            ck.count('shift_size', corr['ssize'])
            nontriv = not (corr['msize'] == 'ident' and corr['ssize'] == 'zero')
            ck.case(('gwcs', g, fmt_hist(hist), rec.get('M'), rec.get('s'), rec.get('ref')), nontriv)
            rec['err_arcsec'] = err
            track(ck, 'gwcs own plane' if kind == 'set' else 'gwcs reference plane (%s tangent point)' % ('same' if same else 'other'),
                  err, tol)
            if not err <= tol:
                i = int(np.argmax(np.hypot(*(lhs - rhs))))
                ck.violation({'kind': 'C02-identity-fails-gwcs', 'geometry': g,
                              'history_before (applied in order to a fresh JWSTWCSCorrector)': fmt_hist(hist),
                              'correction': {'matrix': M.tolist(), 'shift': s.tolist(), 'ref_tpwcs': rec.get('ref', None),
                                             'ref_geometry': gr, 'ref_history (own-plane corrections applied to the reference first)': rec.get('ref_history')},
                              'pixel': [float(x[i]), float(y[i])],
                              'lhs old.world_to_tanp(new.det_to_world(p)) (in the plane of the correction)': lhs[:, i].tolist(),
                              'rhs matrix*old.det_to_tanp(p)+shift': rhs[:, i].tolist(),
                              'error_arcsec': err, 'tolerance_arcsec': tol, 'predicate': what})
            ncorr += 1
        tp = G.read_tpcorr(c)
        frs = list(c.wcs.available_frames)
        if tp is None:
            flds = ('false', '(0,0,0,0)', '(0,0)', '(0,0,0,0)', '(0,0)')
        else:
            flds = ('true', G.qc_mat(tp['m']), G.qc_pt(tp['t']), G.qc_mat(tp['im']), G.qc_pt(tp['it']))
        coq_steps.append('{| ho_op := %s; ho_has := %s; ho_m := %s; ho_t := %s; ho_im := %s; ho_it := %s; ho_frames := %s |}'
                         % ((op,) + flds + (G.coq_frames(frs),)))
        rec['frames_after'] = frs
        rec['tp_affine_after'] = None if tp is None else {'matrix': tp['m'].tolist(), 'translation': tp['t'].tolist()}
        hist.append(rec)
    case = ('{| c_frames := %s; c_info := (%s, %s, %s); c_k := %s; c_hist := %s |}'
            % (G.coq_frames(frames0), q(g['v2ref']), q(g['v3ref']), q(g['roll']), q(k), lst(coq_steps)))
    ck.count('gwcs_history_length', nops)
    ck.count('gwcs_vacorr_frame', g['vacorr'])
    ck.count('pointing', g['pointing'])
    return case, dict(geometry=g, history=hist)


# ------------------------------------------------------------------------------------------------ FITS
def fits_identity(ck, g, old, new, M, s, plane, gplane, hist, rec, own):
    """evaluate the identity at the reference pixel and on a grid; report failures."""
    ck.search_evaluations += 1
    U = G.tan_scale_arcsec(gplane)            # arcsec per unit of the plane in which (M, s) is given
    ps = g['scale'] * 3600.0
    nx, ny = g['shape']
    cx, cy = g['crpix'][0] - 1.0, g['crpix'][1] - 1.0
    x, y = G.grid(g, 6)
    x, y = np.append(x, cx), np.append(y, cy)
    lhs = np.array(plane.world_to_tanp(*new.det_to_world(x, y)))
    if own:
        qq = np.array(old.det_to_tanp(x, y))
    else:
        qq = np.array(plane.world_to_tanp(*old.det_to_world(x, y)))
    rhs = np.dot(M, qq) + s[:, None]
    d = np.hypot(*(lhs - rhs)) * U / ps        # in image pixels
    hx = max(1.0, min(10, (g['crpix'][0] - 1.0) / 100.0, (nx - g['crpix'][0]) / 100.0))
    hy = max(1.0, min(10, (g['crpix'][1] - 1.0) / 100.0, (ny - g['crpix'][1]) / 100.0))
    delta = DW / ps                            # sky-coordinate quantum in pixels
    rho = G.field_radius_px(g)
    A = math.radians(1 / 3600.0)
    rr = float(np.hypot(*qq).max()) * U * A if not own else rho * ps * A
    rr0 = float(np.hypot(*qq[:, -1])) * U * A if not own else 0.0
    cn = G.corr_norm(M, s, float(np.hypot(*qq).max()) if not own else rho) * U / ps     # px
    floor = 8 * delta * (1 + rho / min(hx, hy)) + 1e-9
    tol_grid = 4 * cn * rr ** 2 + floor
    tol_ref = max(1e-8, 4 * delta) + 4 * cn * rr0 ** 2
    e0, eg = float(d[-1]), float(d[:-1].max())
    track(ck, 'fits reference pixel (%s)' % ('own plane' if own else 'reference plane'), e0, tol_ref)
    track(ck, 'fits grid (%s)' % ('own plane' if own else 'reference plane'), eg, tol_grid)
    rec['err_refpix_px'], rec['err_grid_px'] = e0, eg
    bad = None
    if not e0 <= tol_ref:
        bad = ('at the reference pixel', e0, tol_ref, len(d) - 1)
    elif not eg <= tol_grid:
        bad = ('on the pixel grid', eg, tol_grid, int(np.argmax(d[:-1])))
    if bad:
        i = bad[3]
        ck.violation({'kind': 'C02-identity-fails-fits', 'where': bad[0], 'geometry': g,
                      'history_before (applied in order to a fresh FITSWCSCorrector)': fmt_hist(hist),
                      'correction': {'matrix': M.tolist(), 'shift': s.tolist(), 'ref_tpwcs': rec.get('ref'),
                                     'ref_geometry': None if own else gplane},
                      'pixel': [float(x[i]), float(y[i])], 'lhs': lhs[:, i].tolist(), 'rhs': rhs[:, i].tolist(),
                      'error_px': bad[1], 'tolerance_px': bad[2],
                      'predicate': 'old.world_to_tanp(new.det_to_world(p)) = matrix*old.det_to_tanp(p)+shift; reference pixel: '
                                   'max(1e-8, 4*quantum) px; elsewhere 4*(|s|+|M-I|*rho)*r^2 + 8*quantum*(1+rho/h) + 1e-9 px '
                                   '(r = angular distance from the tangent point of the plane, quantum = 360*2^-52 deg in px)'})
    return e0, eg, tol_ref, tol_grid


def fits_case(ck, I, rng, t):
    g = G.gen_fits_geom(rng, t)
    if t % 5 == 3:
        # look-up-table distortions that do not vanish at the reference pixel
        g = dict(g, lut=G.gen_lut(rng))
    ck.count('fits_lookup_table_distortion', (g.get('lut') or {}).get('which', 'none'))
    c = G.fits_corrector(I, g)
    c_built = c.copy()
    hist = []
    npre = rng.choice([0, 0, 1, 2, 3])
    for j in range(npre):
        kind = rng.choice(['set', 'set', 'copy', 'rewrap'])
        if kind == 'copy':
            c = c.copy()
            hist.append({'op': 'copy'})
        elif kind == 'rewrap':
            c = G.rewrap(I, c, g)
            hist.append({'op': 'rewrap'})
        else:
            corr = G.gen_correction(rng, 1.0)
            old = c.copy()
            c.set_correction(corr['M'], corr['s'])
            rec = {'op': 'set', 'M': corr['M'], 's': corr['s']}
            ck.case(('fits', g, fmt_hist(hist), corr['M'], corr['s'], None), True)
            fits_identity(ck, g, old, c, np.array(corr['M']), np.array(corr['s']), old, g, hist, rec, True)
            ck.count('fits_identity_plane', 'own')
            hist.append(rec)
    # the recorded call
    own = rng.random() < 0.5
    old = c.copy()
    if own:
        mode, gr = 'own', g
        ref = I['FITS'](c.wcs.deepcopy())
        unit = 1.0
    else:
        mode, gr, ref = G.gen_reference(I, rng, g, c_built, 1 + rng.randrange(4))
        unit = G.pix_scale_arcsec(g) / G.tan_scale_arcsec(gr)
    corr = G.gen_correction(rng, unit)
    M, s = np.array(corr['M']), np.array(corr['s'])
    proxy = G.RecRef(ref)
    lin0 = np.array(c.wcs.wcs.pc if g['pc'] else c.wcs.wcs.cd, dtype=float)
    crpix = [float(v) for v in c.wcs.wcs.crpix]
    c.set_correction(M, s, ref_tpwcs=proxy)
    rec = {'op': 'set', 'M': M.tolist(), 's': s.tolist(), 'ref': mode}
    if own:
        # ref_tpwcs=None must do exactly the same
        c2 = old.copy()
        c2.set_correction(M, s)
        ck.search_evaluations += 1
        same = (np.array_equal(c2.wcs.wcs.crval, c.wcs.wcs.crval) and
                np.array_equal(c2.wcs.wcs.pc if g['pc'] else c2.wcs.wcs.cd, c.wcs.wcs.pc if g['pc'] else c.wcs.wcs.cd))
        if not same:
            ck.violation({'kind': 'C02-own-plane-differs-from-explicit-own-reference', 'geometry': g,
                          'history_before': fmt_hist(hist), 'matrix': M.tolist(), 'shift': s.tolist(),
                          'crval_none': c2.wcs.wcs.crval.tolist(), 'crval_explicit': c.wcs.wcs.crval.tolist()})
    lin1 = np.array(c.wcs.wcs.pc if g['pc'] else c.wcs.wcs.cd, dtype=float)
    calls = proxy.calls
    assert [cl[0] for cl in calls] == ['w2t', 't2w', 'w2t', 't2w'], [cl[0] for cl in calls]
    a1 = [float(calls[0][2][0]), float(calls[0][2][1])]
    b1 = [float(calls[1][1][0]), float(calls[1][1][1])]
    a3, b4, out4 = calls[2][2], calls[3][1], calls[3][2]
    wmid = old.wcs.deepcopy()
    wmid.wcs.crval = c.wcs.wcs.crval
    wmid.wcs.set()
    p = wmid.wcs_world2pix(out4[0], out4[1], 0)
    case = ('{| f_crpix0 := %s; f_naxis0 := %s; f_M := %s; f_s := %s; f_own := %s; f_a1 := %s; f_b1 := %s; f_a3 := %s; '
            'f_b4 := %s; f_p := %s; f_lin0 := %s; f_lin1 := %s |}'
            % (G.qc_pt(crpix), G.qc_pt(g['shape']), G.qc_mat(M), G.qc_pt(s), b(own), G.qc_pt(a1), G.qc_pt(b1),
               qpts(*a3), qpts(*b4), qpts(*p), G.qc_mat(lin0), G.qc_mat(lin1)))
    ck.case(('fits', g, fmt_hist(hist), M.tolist(), s.tolist(), mode), True)
    e0, eg, t0, tg = fits_identity(ck, g, old, c, M, s, old if own else ref, gr, hist, rec, own)
    ck.count('fits_identity_plane', mode)
    ck.count('fits_repr', 'PC+CDELT' if g['pc'] else 'CD')
    ck.count('fits_sip', g['sip'])
    ck.count('fits_scale_decade', int(math.floor(math.log10(g['scale']))))
    ck.count('pointing', g['pointing'])
    ck.count('fits_refpix', g['refpix'])
    ck.count('matrix_size', corr['msize'])
    ck.count('shift_size', corr['ssize'])
    hist.append(rec)
    return case, dict(geometry=g, history=hist, lin0=lin0.tolist(), lin1=lin1.tolist(), crval_after=c.wcs.wcs.crval.tolist(),
                      err_refpix_px=e0, err_grid_px=eg, tol_refpix_px=t0, tol_grid_px=tg)


def run(ck):
    implementation()
    I = G.imports()
    ck.props()
    ck.rule = ('gWCS: mock JWST pipelines (repository test helper; pointing incl. RA~0/360 and |dec|<=89, v2/v3/roll '
               'reference angles, with/without v2v3vacorr frame, 0.02-2 arcsec/px) x histories of 0..6 operations from '
               '{set_correction own plane, set_correction via a reference plane (copy of itself / rotated gWCS / FITS plane '
               'with the same tangent point / FITS plane with another tangent point), copy(), re-wrapping}; FITS: TAN WCSs '
               '(CD or PC+CDELT, SIP on/off, 1e-6..1e-4 deg/px, reference pixel centred / off-centre / corner) with 0..3 '
               'earlier operations, then one correction in the own plane or a reference plane. Dyadic near-identity matrices '
               '(identity ... 0.4 rad / 24 percent), shifts 0..300 px. One evaluation = one set_correction call whose '
               'identity is evaluated on a pixel grid; non-trivial = the correction is not the identity; distinct by '
               '(geometry, earlier history, correction, reference).')
    ck.notes += ['external transforms (gwcs pipeline evaluation, astropy models, wcslib projections) are Section variables / '
                 'hypotheses of the theorems (mutually inverse pairs, P_c(0)=c); they are exercised numerically here',
                 'FITS identity away from the reference pixel is only bounded: measured constant <= 1.5 against the '
                 'tolerance constant 4 in 4*(|s|+|M-I|rho) r^2 (r in radians from the tangent point of the plane used); '
                 'rounding floor 8*(360*2^-52 deg / scale)*(1+rho/h) px comes from the numerical Jacobian (h = stencil step)',
                 'rounding error is outside the theorems: tp_affine compared within 2^-40 relative, translations within '
                 '2^-36 of a running magnitude bound']
    rng = ck.rng
    # ---- gWCS histories
    cases, metas = [], []
    for t in range(ck.n(45, 700)):
        case, meta = gwcs_case(ck, I, rng, t)
        cases.append(case)
        metas.append(meta)
        if t < 2:
            ck.sample({'kind': 'gwcs', 'geometry': meta['geometry'], 'history': fmt_hist(meta['history'])})
    bad = ck.coq_agree('gwcs', ['CorrModel', 'CorrObs', 'C02Corr'], 'case02', 'agree02', cases, show='show02', shard=12)
    for i in bad:
        ck.violation({'kind': 'gwcs-state-disagrees-with-model', 'geometry': metas[i]['geometry'],
                      'history (op, matrix, shift, reference, frames and tp_affine read back after the step)': metas[i]['history'],
                      'model (tp_affine matrix, translation, inverse, frames after each step)': ck.last_shown.get(i, 'n/a'),
                      'predicate': 'tp_affine = M.tp_affine_old (translation M.t_old + ARCSEC2RAD*s), tp_affine_inv its '
                                   'inverse, exactly one v2v3corr frame after the first correction'})
    # ---- FITS
    cases, metas = [], []
    for t in range(ck.n(60, 900)):
        case, meta = fits_case(ck, I, rng, t)
        cases.append(case)
        metas.append(meta)
        if t < 2:
            ck.sample({'kind': 'fits', 'geometry': meta['geometry'], 'history': fmt_hist(meta['history'])})
    bad = ck.coq_agree('fits', ['CorrModel', 'CorrObs', 'C02Corr'], 'case02f', 'agree02f', cases, show='show02f', shard=20)
    for i in bad:
        ck.violation({'kind': 'fits-set_correction-disagrees-with-model', 'case': metas[i],
                      'model (hx, hy, M.(a1-shift\'), U, lin0.U)': ck.last_shown.get(i, 'n/a'),
                      'predicate': "shift' = -M^-1 s; new reference position M.(ref.w2t(crval)-shift'); nine stencil points; "
                                   'U by the 5-point stencil; pc|cd := pc|cd . U'})
