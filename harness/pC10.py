"""C10 - reported rotation, scale, skew and statistics agree with the fitted matrix."""
import math

import numpy as np

import gen_fit as G
from common import q, b, lst, frac, implementation


def pairs(a):
    return lst(['(%s, %s)' % (q(frac(r[0])), q(frac(r[1]))) for r in a])


def optw(w):
    return 'None' if w is None else '(Some %s)' % lst([q(x) for x in w])


def coq_case(geom, fit, xy=None, uv=None, wxy=None, wuv=None, with_data=True):
    m = np.asarray(fit['matrix'], dtype=float)
    rx, ry = fit['rot']
    rot, prot, skew = fit['<rot>'], fit['proper_rot'], fit['skew']
    sx, sy = fit['scale']
    s = fit['<scale>']
    trig = [math.cos(math.radians(rx)), math.sin(math.radians(rx)), math.cos(math.radians(ry)),
            math.sin(math.radians(ry)), math.cos(math.radians(prot)), math.sin(math.radians(prot))]
    if with_data:
        mask = np.asarray(fit['fitmask'])
        xs, us = np.asarray(xy)[mask], np.asarray(uv)[mask]
        wx = None if wxy is None else list(np.asarray(wxy)[mask])
        wu = None if wuv is None else list(np.asarray(wuv)[mask])
        cen, sh, res = fit['center'], fit['shift'], fit['resids']
        stats = [fit['rmse'], fit['mae'], fit['std']]
    else:
        xs, us, wx, wu, cen, sh, res, stats = [], [], None, None, (0.0, 0.0), (0.0, 0.0), [], [0.0, 0.0, 0.0]
    return ('{| d_geom := %s; d_m := %s; d_rot := %s; d_scale := %s; d_proper := %s; d_trig := %s; d_xy := %s; '
            'd_uv := %s; d_wxy := %s; d_wuv := %s; d_cen := (%s, %s); d_shift := (%s, %s); d_res := %s; '
            'd_stats := %s |}' % (
                G.COQ_GEOM[geom], lst([q(m[0, 0]), q(m[0, 1]), q(m[1, 0]), q(m[1, 1])]),
                lst([q(v) for v in (rx, ry, rot, prot, skew)]), lst([q(v) for v in (sx, sy, s)]),
                b(bool(fit['proper'])), lst([q(v) for v in trig]), pairs(xs), pairs(us), optw(wx), optw(wu),
                q(cen[0]), q(cen[1]), q(sh[0]), q(sh[1]), pairs(res), lst([q(v) for v in stats])))


def special_matrix(rng, t):
    """matrices from all quadrants, reflections about either axis, anisotropic scales, skews, special angles"""
    ang = [0, 30, 45, 90, 135, 180, -180, -90, -45, 225, 270, 359.5, 1e-9, 179.999999][t % 14] \
        if t % 3 else rng.uniform(-360, 360)
    sx, sy = rng.choice([(1, 1), (2, 0.5), (0.25, 3), (1.5, 1.5), (1e-3, 2e-3)])
    skew = rng.choice([0, 0, 10, -35, 80])
    rx, ry = math.radians(ang), math.radians(ang + skew)
    m = np.array([[sx * math.cos(rx), sy * math.sin(ry)], [-sx * math.sin(rx), sy * math.cos(ry)]])
    refl = rng.choice([None, None, 'x', 'y'])
    if refl == 'x':
        m = m @ np.diag([1.0, -1.0])
    elif refl == 'y':
        m = np.diag([-1.0, 1.0]) @ m
    return m, {'angle': ang, 'scale': (sx, sy), 'skew': skew, 'reflection': refl}


def run(ck):
    implementation()
    from tweakwcs import linearfit as lf
    ck.props()
    ck.rule = ('(a) _build_fit on matrices from all quadrants, reflections about either axis, anisotropic scales, '
               'skews and special angles (0, +-45, +-90, 135, +-180, ...), for general and (similarity matrices) '
               'rshift/rscale; (b) iter_linear_fit results for all fitgeom and weight modes with and without '
               'clipping: decomposition, residual identity and statistics recomputed from the reported residuals and '
               'weights, all evaluated in exact arithmetic in Coq; (c) build_fit_matrix(rot, scale) == matrix on '
               'the implementation. Non-trivial: determinant non-zero and rotation not a multiple of 360; distinct '
               'by content.')
    ck.notes += ['cos/sin of the REPORTED angles are taken from libm (python math) and checked to be unit vectors; '
                 'arctan2/cos/sin themselves are external', 'the theorems over R depend on the standard library\'s '
                 'real-number axioms (see print_assumptions in details)']
    rng = ck.rng
    cases, meta = [], []
    # (a) _build_fit directly
    for t in range(ck.n(150, 2000)):
        m, info = special_matrix(rng, t)
        geom = 'general'
        if t % 4 == 3:
            # similarity matrix for the rshift/rscale code path
            a, b_ = m[0, 0], m[0, 1]
            flip = rng.random() < 0.4
            m = np.array([[a, b_], [b_, -a]]) if flip else np.array([[a, b_], [-b_, a]])
            geom = rng.choice(['rscale', 'rshift'])
            if abs(a) + abs(b_) < 1e-12:
                continue
        # overall unit of the matrix (e.g. pixel -> degree fits have |det| ~ 1e-10): an exact power of two, nothing
        # in the decomposition may depend on it
        lg = [0, 0, -17, -30, 12, -8][t % 6]
        m = m * 2.0 ** lg
        ck.count('matrix_unit_log2', lg)
        p = np.array([m[0, 0], m[0, 1], rng.uniform(-5, 5)], dtype=np.longdouble)
        qv = np.array([m[1, 0], m[1, 1], rng.uniform(-5, 5)], dtype=np.longdouble)
        fit = lf._build_fit(p, qv, geom)
        ck.count('stream', '_build_fit/' + geom)
        ck.count('reflection', info['reflection'])
        det = float(np.linalg.det(m))
        ck.case(('bf', m.tolist(), geom), abs(det) > 0 and abs(math.remainder(info['angle'], 360.0)) > 1e-6)
        cases.append(coq_case(geom, fit, with_data=False))
        meta.append(('_build_fit', geom, m.tolist(), fit))
        ck.search_evaluations += 1
        M2 = lf.build_fit_matrix(fit['rot'], fit['scale'])
        if not np.allclose(M2, np.asarray(fit['matrix'], dtype=float), rtol=1e-9, atol=1e-12 * (1 + np.abs(m).max())):
            ck.violation({'kind': 'build_fit_matrix(rot, scale) != matrix', 'matrix': m.tolist(), 'fitgeom': geom,
                          'rot': fit['rot'], 'scale': fit['scale'], 'rebuilt': M2.tolist()})
        # the documented scalar forms: a single rotation / a single scale stand for both axes, and the
        # similarity-fit reports (<rot>, <scale>) rebuild the matrix of a proper similarity
        ck.search_evaluations += 1
        r0, s0 = float(fit['rot'][0]), float(fit['scale'][0])
        forms = {'(rot, scale) scalars': (lf.build_fit_matrix(r0, s0), lf.build_fit_matrix((r0, r0), (s0, s0))),
                 'scalar rot, tuple scale': (lf.build_fit_matrix(r0, fit['scale']), lf.build_fit_matrix((r0, r0), fit['scale'])),
                 'tuple rot, scalar scale': (lf.build_fit_matrix(fit['rot'], s0), lf.build_fit_matrix(fit['rot'], (s0, s0))),
                 'defaults': (lf.build_fit_matrix(r0), lf.build_fit_matrix((r0, r0), (1.0, 1.0)))}
        for fname, (ma, mb) in forms.items():
            if not np.array_equal(np.asarray(ma), np.asarray(mb)):
                ck.violation({'kind': 'build_fit_matrix scalar form differs from the tuple form', 'form': fname,
                              'rot': fit['rot'], 'scale': fit['scale'], 'scalar_form': np.asarray(ma).tolist(),
                              'tuple_form': np.asarray(mb).tolist()})
        if geom in ('rshift', 'rscale') and fit['proper']:
            M3 = lf.build_fit_matrix(fit['<rot>'], fit['<scale>'])
            if not np.allclose(M3, np.asarray(fit['matrix'], dtype=float), rtol=1e-9, atol=1e-12 * (1 + np.abs(m).max())):
                ck.violation({'kind': 'build_fit_matrix(<rot>, <scale>) != matrix of a proper similarity fit',
                              'matrix': m.tolist(), 'fitgeom': geom, '<rot>': fit['<rot>'], '<scale>': fit['<scale>'],
                              'rebuilt': M3.tolist()})
        if t < 3:
            ck.sample({'matrix': m.tolist(), 'fitgeom': geom, 'rot': fit['rot'], 'scale': fit['scale'],
                       'skew': fit['skew'], '<rot>': fit['<rot>'], 'proper': bool(fit['proper'])})
    # (b) full fits
    for t in range(ck.n(120, 1500)):
        geom = G.GEOMS[t % 4]
        n = rng.choice([G.MINOBJ[geom] + 1, 5, 9, 16, 30])
        pr = G.problem(rng, geom, n=n, noise=rng.choice([1, 2]), outliers=rng.choice([0, 0, 1, 2]))
        # positive weights for at least minobj + 1 pairs
        for key in ('wxy', 'wuv'):
            if pr[key] is not None:
                for k in range(min(n, G.MINOBJ[geom] + 1)):
                    pr[key][k] = max(pr[key][k], 0.5)
        xy, uv = np.array(pr['xy']), np.array(pr['uv'])
        wdt = 'float64'
        if t % 3 == 0:
            # integer-typed weight arrays (counts, flags): same numbers, the statistics must not depend on the dtype
            wdt = ['int64', 'uint8', 'int32'][(t // 3) % 3]
            for key in ('wxy', 'wuv'):
                if pr[key] is not None:
                    pr[key] = [float(max(0, min(200, int(round(4 * w))))) for w in pr[key]]
                    for k in range(min(n, G.MINOBJ[geom] + 1)):
                        pr[key][k] = max(pr[key][k], 1.0)
        ck.count('weight_dtype', wdt if pr['wmode'] != 'none' else 'no weights')
        wxy = None if pr['wxy'] is None else np.array(pr['wxy']).astype(wdt)
        wuv = None if pr['wuv'] is None else np.array(pr['wuv']).astype(wdt)
        nclip = rng.choice([0, 0, 2, 3])
        cen = None if rng.random() < 0.6 else [float(rng.randrange(-20, 20)), float(rng.randrange(-20, 20))]
        try:
            fit = lf.iter_linear_fit(xy, uv, wxy, wuv, fitgeom=geom, nclip=nclip, sigma=(2.5, 'rmse'), center=cen)
        except (lf.SingularMatrixError, lf.NotEnoughPointsError, ValueError):
            ck.discard('implementation rejected generated data')
            continue
        ck.count('stream', 'iter_linear_fit/' + geom)
        ck.count('weights', pr['wmode'])
        ck.case(('fit', pr['xy'], pr['uv'], pr['wxy'], pr['wuv'], nclip), True)
        cases.append(coq_case(geom, fit, xy, uv, wxy, wuv))
        meta.append(('iter_linear_fit', geom, {k: pr[k] for k in ('xy', 'uv', 'wxy', 'wuv')}, fit))
        ck.search_evaluations += 1
        M2 = lf.build_fit_matrix(fit['rot'], fit['scale'])
        if not np.allclose(M2, fit['matrix'], rtol=1e-9, atol=1e-12):
            ck.violation({'kind': 'build_fit_matrix(rot, scale) != matrix', 'fitgeom': geom,
                          'matrix': np.asarray(fit['matrix']).tolist(), 'rot': fit['rot'], 'scale': fit['scale']})
    bad = ck.coq_agree('decomp', ['GJModel', 'LSQ', 'LinearFit', 'ClipModel', 'C10Corr'], 'case10', 'agree10', cases,
                       show='show10', shard=ck.n(40, 200))
    for i in bad:
        what, geom, inp, fit = meta[i]
        ck.violation({'kind': 'reported-quantities-inconsistent-with-matrix-or-residuals', 'call': what,
                      'fitgeom': geom, 'input': inp,
                      'reported': {k: (np.asarray(fit[k]).tolist() if k in fit else None) for k in
                                   ('matrix', 'shift', 'center', 'rot', '<rot>', 'proper_rot', 'scale', '<scale>',
                                    'skew', 'proper', 'rmse', 'mae', 'std')},
                      'model (decomposition ok, statistics ok)': ck.last_shown.get(i, 'n/a')})
