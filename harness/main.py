import argparse
import importlib
import logging
import os
import sys
import traceback

sys.path.insert(0, os.path.dirname(os.path.abspath(__file__)))
import common  # noqa: E402


def main():
    ap = argparse.ArgumentParser()
    ap.add_argument('pid')
    ap.add_argument('--tier', default=os.environ.get('VERIF_TIER', 'quick'))
    ap.add_argument('--replay', default=None)
    a = ap.parse_args()
    tier = a.tier if a.tier in ('quick', 'thorough') else 'quick'
    try:
        seed = int(os.environ.get('VERIF_SEED', '20260930'))
    except ValueError:
        seed = 20260930
    if a.replay:
        # a replay file records the seed and tier of the run that produced it: every random choice derives from
        # Random("<pid>-<seed>"), so re-running with them reproduces the reported case (checks that can also re-run
        # the single recorded input do so through ck.replay_in)
        import json
        try:
            rp = json.load(open(a.replay))
            seed = int(rp.get('seed', seed))
            tier = rp.get('tier', tier) if rp.get('tier') in ('quick', 'thorough') else tier
            print('replaying %s (kind: %s) with seed %d, tier %s' % (a.replay, rp.get('kind'), seed, tier))
        except (OSError, ValueError) as e:
            print('cannot read replay file: %s' % e, file=sys.stderr)
    logging.disable(logging.CRITICAL)
    ck = common.Check(a.pid, tier, seed, a.replay)
    mod = importlib.import_module('p' + a.pid)
    try:
        mod.run(ck)
    except Exception:
        tb = traceback.format_exc()
        print(tb, file=sys.stderr)
        p = ck.write_replay({'kind': 'check-crashed', 'traceback': tb[-4000:]})
        ck.violations.append((p, True))
    sys.exit(ck.finish())


if __name__ == '__main__':
    main()
