import argparse
import importlib
import logging
import os
import sys
import traceback

sys.path.insert(0, os.path.dirname(os.path.abspath(__file__)))
import common  # noqa: E402


def main():
    ap = argparse.ArgumentParser()
    ap.add_argument('pid')
    ap.add_argument('--tier', default=os.environ.get('VERIF_TIER', 'quick'))
    ap.add_argument('--replay', default=None)
    a = ap.parse_args()
    tier = a.tier if a.tier in ('quick', 'thorough') else 'quick'
    try:
        seed = int(os.environ.get('VERIF_SEED', '20260930'))
    except ValueError:
        seed = 20260930
    logging.disable(logging.CRITICAL)
    ck = common.Check(a.pid, tier, seed, a.replay)
    mod = importlib.import_module('p' + a.pid)
    try:
        mod.run(ck)
    except Exception:
        tb = traceback.format_exc()
        print(tb, file=sys.stderr)
        p = ck.write_replay({'kind': 'check-crashed', 'traceback': tb[-4000:]})
        ck.violations.append((p, True))
    sys.exit(ck.finish())


if __name__ == '__main__':
    main()
