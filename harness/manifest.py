"""Regenerates /verif/MANIFEST.json from the table below (run: /venv/bin/python harness/manifest.py)."""
import json
import os

ROOT = os.path.dirname(os.path.dirname(os.path.abspath(__file__)))
ALL = ['C%02d' % i for i in range(1, 21)]

# pid -> (technique, level text, level note, design ref)
CHECKS = {
 'C01': ('Coq proof (composition "exact recovery of the family member by the fit" o "the applied correction maps '
         'every pixel to its reference", for gWCS in any state / through a reference plane and for the flat FITS '
         'model) + correspondence in Coq of the fit reported by fit_wcs/align_wcs with the exact model + landing '
         'measured',
         'Machine-checked composition theorems over arbitrary histories (refutation witness for pre-F7). Each run '
         'builds exact affine errors in the tangent plane of FITS (CD/PC/SIP, RA wrap, high dec) and mock-gWCS '
         'correctors with 0-2 earlier alignments, all fitgeom and weightings, fit_wcs and align_wcs (scripted '
         'shuffled matcher); compares the reported matrix/shift in Coq with the exact model fit of the true pairs '
         '(agree06) and measures that every catalog pixel lands on its reference (gWCS <= 1e-7 arcsec; FITS within '
         '4 D rho^2 scale^2 px, measured constant <= 1.0), reported rmse = residual through the corrected WCS on '
         'noisy data, fit_RA/fit_DEC = corrected positions. Tables may carry foreign columns (stale RA/DEC in image '
         'tables, x/y in reference tables).',
         'PARTIAL: the FITS second-order reprojection bound is measured, not proved; external transforms (wcslib, '
         'gwcs) enter as Section hypotheses. Rounding outside the theorems. Known finding K6 (clipping of '
         'rounding-level residuals down to two sources loses the handedness of a reflected true map).',
         'DESIGN.md section 6 (corrector algebra)'),
 'C02': ('Coq proof (gWCS pipeline state machine: requested affine applied exactly in every reachable state, own '
         'and reference plane; _tp2tp exact on affine maps; FITS exact at the reference pixel for every projection '
         'with P_c(0)=c and everywhere in the flat instance; stencil exact to degree 4) + correspondence in Coq of '
         'tp_affine read back from the pipeline after every step + measured identity on the implementation',
         'Machine-checked theorems by induction over arbitrary correction histories (copy / re-wrap included), with '
         'a refutation witness for the pre-F7 code. Each run compares the affine matrices/translations of the gWCS '
         'pipeline with the exact model after every step of random dyadic histories, and evaluates the C02 identity '
         'on gWCS (<= 1e-7 arcsec) and FITS correctors (bound 4(|s|+|M-I|rho) r^2 + quantum terms, measured '
         'constant <= 1.6) over geometries incl. RA wrap, high declination, SIP, CD/PC, reference planes. '
         'References that carry 2-3 own-plane corrections of their own are included. FITS geometries include '
         'look-up-table distortions that do not vanish at CRPIX.',
         'PARTIAL for FITS off the reference pixel and for reference planes with another tangent point: the '
         'second/first-order curvature bounds are measured, not proved. wcslib/gwcs/astropy.modeling are external '
         '(Section hypotheses: inverse pairs, P_c(0)=c).',
         'DESIGN.md section 6 (corrector algebra)'),
 'C03': ('Coq proof (six conversions coherent - mutual inverses and commuting triangle - in every reachable gWCS '
         'state and after every FITS flat history) + round trips / triangle on all input shapes measured on the '
         'implementation',
         'Machine-checked invariant over arbitrary histories of the corrector state machine (invertibility of the '
         'accumulated affine preserved); each run exercises round trips and the triangle on shapes (), (1,), (n,), '
         '(n,m) for fresh, corrected, copied and re-wrapped FITS and gWCS correctors and compares pipeline '
         'observables with the model in Coq. FITS geometries include CPDIS / DET2IM look-up-table distortions.',
         'Array shapes and the external transforms are measured. Known finding K4 (gwcs outside_footprint makes '
         'world_to_det NaN for some in-image positions).',
         'DESIGN.md section 6 (corrector algebra)'),
 'C04': ('Coq proof (identity, inverse, both composition orders, re-wrap = live for any continuation, exactly one '
         'correction frame, original WCS untouched; FITS flat group laws) + correspondence in Coq of pipeline '
         'observables over histories 0..6 with copy()/re-wrap + group laws measured on a pixel grid',
         'Machine-checked theorems by induction over histories, refutation witness for the pre-F7 code. Each run '
         'replays random dyadic histories on live / copied / re-wrapped correctors and compares tp_affine and the '
         'frame list with the model in Coq (own-plane and copy/re-wrap variants exactly, reference-plane variants '
         'within 2^-40), and checks the group laws on the sky for FITS and gWCS. Reference correctors with their '
         'own correction history; a live reference equals the corrector rebuilt from its corrected WCS.',
         'Independence of copies and "caller\'s FITS WCS object never modified" are measured (the model is purely '
         'functional). External transforms as Section hypotheses.',
         'DESIGN.md section 6 (corrector algebra)'),
 'C05': ('Coq proof (the conjugation used by set_correction equals R o G o R^-1; _tp2tp exact on affine '
         'plane-to-plane maps; affine maps agreeing on three non-collinear points are equal, hence plane '
         'independence; one sky-level map for all members of a group) + group alignments through different '
         'reference planes measured',
         'Machine-checked theorems for affine plane-to-plane maps (refutation witness for pre-F7). Each run aligns '
         'groups of 1..4 FITS / gWCS images with distinct tangent points, orientations and scales through several '
         'reference planes (member, non-member, rotated/scaled/offset) and compares the resulting sky positions: '
         'rounding level when planes coincide, otherwise within 10 corr sep L rad (measured <= 3.9); all members '
         'land on the reference; correspondence of the conjugated affines in Coq. A mosaic stream aligns two images '
         'in one align_wcs(expand_refcat=True) call through three planes (the second image is matched to rows '
         'appended from the first). The live corrector object of a member is among the reference planes.',
         'PARTIAL: the first-order plane-to-plane bound is measured, not proved. Mixed FITS/gWCS groups not driven.',
         'DESIGN.md section 6 (corrector algebra)'),
 'C06': ('Coq proof (weighted least-squares optimality of fit_shifts / fit_rscale incl. reflections / fit_rshift / '
         'fit_general for every list and weighting; exact recovery) + per-run correspondence evaluated inside Coq',
         'Machine-checked optimality theorems for an exact-rational model of each single-shot fitter (all list '
         'lengths, all non-negative weights, both reflection branches; rshift via a root-free Cauchy-Schwarz '
         'argument; general through the proved Gauss-Jordan inverse), exact point-by-point recovery of noise-free '
         'data, refutation witnesses for the pre-fix code (F1, F12). The model is tied to the current source by '
         'evaluating `agree06` in Coq on the outputs of the private fitters and of iter_linear_fit(nclip=0).',
         'x87 rounding is outside the theorems (parameters compared within 2^-28). Exactly degenerate inputs are '
         "C17's domain. Trusted: Coq kernel + vm_compute, python harness (generators, marshalling).",
         'DESIGN.md section 6 (C06)'),
 'C07': ('Coq proof (clipping loop over an abstract fit/statistic: retained-set characterisation, no untested '
         're-entry, accumulation monotone, stop reasons, prefix consistency, result spec) + per-run trace '
         'validation of iter_linear_fit histories (nclip = 0..K) evaluated inside Coq',
         'Machine-checked theorems about the loop for EVERY fit function, statistic, sigma, nclip and mask; the '
         'concrete three-valued step used for validation is proved to coincide with the abstract step outside the '
         "tolerance band; refutation witness for the pre-fix loop (F2). Each run validates the implementation's "
         'histories step by step (retained set, stop condition, eff_nclip, fit = exact optimum of the retained '
         'points, statistics recomputed exactly) in Coq. Constant and piecewise-constant weight streams (weighted '
         'std estimator).',
         'Cut-off decisions within a 2^-20 relative band are accepted either way (rounding); mae through a rational '
         'sqrt enclosure. Trusted: Coq kernel + vm_compute, python harness.',
         'DESIGN.md section 6 (C07)'),
 'C08': ('Coq proof (objectives invariant under permutation / scaled by weight scaling / conjugated by '
         'translations, centres, rotations x scale and reflections; clipping loop commutes with relabelling for '
         'every nclip) + metamorphic pairs on the implementation + correspondence in Coq on the transformed inputs',
         'Machine-checked objective-level equivariance theorems for all lists, parameters and transforms, the '
         'closed-form shift fit at parameter level, and the theorem that the whole sigma-clipping loop commutes '
         'with any relabelling (fitmask permuted, fit and eff_nclip unchanged). Each run applies permutations, '
         'weight scalings, uniform weights, other centres, exact lattice similarities (both sets / xy alone) to '
         'iter_linear_fit with clipping and checks the induced conjugation, and compares the transformed runs with '
         'the exact model in Coq. Parameter-level theorems (through uniqueness of the minimiser) for permutation, '
         'weight scaling (similarity family), translation / centre and similarity conjugation (general family). One '
         'set of caller-owned longdouble arrays is shared by all calls of a case.',
         'Parameter-level equalities are proved for permutations (shift, general, similarity families, via '
         'uniqueness of the optimum); for weight scaling, centres and similarity transforms the PARTIAL part is '
         'that only the objective-level statements are proved (parameter equality needs the same uniqueness '
         'argument for those transforms); covered numerically. Rounding outside the theorems.',
         'DESIGN.md section 6 (C08/C09)'),
 'C09': ('Coq proof (objectives ignore zero-weight pairs whatever their coordinates; masked sources cannot change '
         'iter_linear_fit (Leibniz equality); harmonic weight law; weights follow sources through concatenation) + '
         'correspondence in Coq of corrupted-coordinate runs and of align_wcs fits with the exact model fit of the '
         'true pairs with the true weights',
         'Machine-checked theorems for all lists/weights/coordinates; each run feeds corrupted zero-weight inputs '
         '(+-2^40) through the fitters and iter_linear_fit and compares with the exact model in Coq, checks '
         'corrupt/drop invariance and the harmonic law on the implementation, and drives align_wcs (1..3 images per '
         'group, weight columns in image/reference catalogs, shuffled scripted matcher) comparing the reported fit '
         'in Coq with the exact fit of the true pairs carrying the true weights. A clipping stream runs the same '
         'variants (plus zero-weight sources moved by a fraction of the unit) through iter_linear_fit with nclip=3 '
         "in both clip_accum modes; an expand_refcat stream compares the second image's fit with the exact weighted "
         "fit when appended reference rows carry the first image's weights. Integer weight dtypes.",
         'Rounding outside the theorems. The matcher is scripted (ground truth). Trusted: Coq kernel + vm_compute, '
         'python harness, astropy/wcslib transforms used to compute expected tangent-plane coordinates.',
         'DESIGN.md section 6 (C08/C09)'),
 'C10': ('Coq proof over R (build_fit_matrix applied to the decomposition reproduces the matrix for every matrix '
         'with non-zero columns; angle ranges; skew wrap; <scale>^2 = |det|; similarity scales) + correspondence in '
         'Coq of every reported quantity, the residual identity and the statistics recomputed from reported '
         'residuals',
         'Machine-checked theorems about the literal decomposition of _build_fit (atan2 defined from atan; hyp; '
         'numpy floor-mod) for all matrices; each run evaluates, in exact rational arithmetic inside Coq, the '
         'identities matrix = [[sx cos rx, sy sin ry], [-sx sin rx, sy cos ry]], skew/<rot>/<scale>/proper/ranges '
         'on the values REPORTED by _build_fit (all quadrants, reflections, special angles) and by iter_linear_fit, '
         'the residual identity xy - (F (uv - c) + s + c), and rmse/mae/std recomputed from the reported residuals '
         'and weights. Statistics theorems over Q: rmse^2 value, std^2 decomposition with a proved-positive '
         'denominator, mae enclosure ordered and <= rmse; similarity fits: proper-rotation shortcut = general '
         'decomposition, reflected similarity reports skew -180. Matrix units 2^-30..2^12, integer weight dtypes, '
         'scalar calling forms of build_fit_matrix; constant weights: std factor n/(n-1) (theorem).',
         'Theorems depend on the standard library real-number axioms (sig_forall_dec, sig_not_dec, '
         'functional_extensionality_dep, classic). arctan2/cos/sin are libm (cos/sin of reported angles taken from '
         'python math). The left-inverse direction (decomposition of a built matrix) is proved too.',
         'DESIGN.md section 6 (C10)'),
 'C11': ('Coq proof about the SPECIFICATION matcher (equals ground truth under unambiguity, partial bijection, '
         'indices in range, no repeats, row-order independent; combined with the half-bin theorem of C12) + '
         'correspondence of XYXYMatch / match2ref pair sets with it, evaluated in Coq',
         'Machine-checked theorems about the specification matcher `true_pairs`; each run feeds well-separated '
         'fields (extras 0-60 %, row permutations, use2dhist on/off, xoffset/yoffset, pixel scales 0.01..10) '
         'through XYXYMatch.__call__ and WCSGroupCatalog.match2ref and compares the SET of returned pairs with the '
         'specification inside Coq; index ranges, order of the two arrays, repeats are checked on the '
         'implementation. Also through the deprecated tp_wcs= calling form, and with one matcher object reused in '
         'user-offset mode over catalogs on both sides of the estimate. One reference Table object re-assigned in '
         'place between calls; get_unmatched_cat is the complement of the matches, also after re-matching.',
         'PARTIAL: the matcher itself (stsci.stimage.xyxymatch, C code) is external - the theorem is about the '
         'specification matcher, the glue is tied by correspondence. Rounding outside the theorems.',
         'DESIGN.md section 6 (C12/C11)'),
 'C12': ('Coq proof (half-bin theorem for every pscale/searchrad; no pair in the search box => (0,0); peak locator '
         'inside histogram and fit box with status in the vocabulary for EVERY coefficient vector / histogram / '
         'mask / box size; exact vertex) + correspondence of _xy_2dhist, _estimate_2dhist_shift and _find_peak in '
         'Coq',
         'Machine-checked theorems about executable models of the histogram binning, the bin->offset conversion '
         '(after fix F3, with a refutation witness for the old one) and the whole control flow of _find_peak with '
         'the least-squares coefficients as an arbitrary oracle; the LSQ solution used for execution is computed in '
         'Coq by the proved Gauss-Jordan inverse. Each run compares the integer histogram, the estimate and '
         '_find_peak triples (exhaustive over small histograms in the thorough tier) with the model inside Coq.',
         'The search region of the code is the Chebyshev box of half-width searchrad + pscale/2 (outermost bins), '
         'so "no pair within the search radius" is read as "no pair in the search box". numpy.linalg.lstsq, KDTree '
         'are external. Cases within 1e-8 bins of a bin edge are discarded (counted).',
         'DESIGN.md section 6 (C12/C11)'),
 'C13': ('Coq proof (align_wcs as a state machine over arbitrary matcher/fit/ordering oracles: status trichotomy, '
         'one REFERENCE iff no refcat, group members equal, corrected exactly once iff SUCCESS, raise => nothing '
         'changed, NotEnoughCatalogs iff too few non-empty groups) + correspondence of scripted scenarios in Coq',
         'Machine-checked theorems for every input list, option vector and oracle (incl. fit-raises outcomes after '
         'fix F17 and the unconditional fitgeom check after F16), refutation witnesses for F8, F16, F17. Each run '
         'drives the real align_wcs through scenarios (1..5 correctors, group-id assignments, '
         'good/junk/empty/coincident catalogs, refcat none/table/corrector, expand x enforce x minobj x fitgeom, '
         'scripted matcher, counting correctors) and compares statuses, correction counts, exception class with the '
         'model in Coq; sky grids of REFERENCE/FAILED inputs must be bit-identical. Scenarios include a world-scale '
         'dimension (fields of ~15 arcsec whose overlaps are < 1e-8 sr). Direct-predicate streams: 3-4 mutually '
         'disjoint fields; invalid sigma rejected before any change.',
         'Known findings K13a (match=None length mismatch raises mid-run) and K13c (singular fitted matrix makes '
         'set_correction raise mid-run). Only FITS-WCS correctors are driven. Trusted: Coq kernel, python harness.',
         'DESIGN.md section 6 (C13/C14)'),
 'C14': ('Coq proof (reference-catalog growth: original rows an unchanged prefix at every step, fresh consecutive '
         'ids, only unmatched rows of SUCCESS or zero-overlap groups, each once, never without expand_refcat) + '
         'correspondence in Coq + measured sky agreement of real-matcher mosaics',
         'Machine-checked loop-invariant theorems for every input and oracle, refutation witness for F5. Each run '
         'compares number / ids / order / provenance of returned catalog rows of scripted scenarios with the model '
         'in Coq, checks original rows bit-identical, and aligns synthetic overlapping mosaics with the real '
         'XYXYMatch measuring that common sources agree on the sky (<= 1e-6 arcsec, measured max 5.7e-8). Scenarios '
         'include a world-scale dimension (fields of ~15 arcsec whose overlaps are < 1e-8 sr). Image catalogs may '
         'carry stale RA/DEC columns.',
         'PARTIAL: the numerical sky agreement is measured, not proved (only the triangle-inequality lemma). '
         'Trusted: Coq kernel, python harness, astropy/wcslib.',
         'DESIGN.md section 6 (C13/C14)'),
 'C15': ('Coq proof (arg-max pair, reference choice, true area, exact removal, sorted remainder, next image, '
         'grouping order; all list lengths) + correspondence in Coq on every permutation of generated footprint '
         'sets',
         'Machine-checked theorems about executable models of _max_overlap_pair, _max_overlap_image and the '
         'align_wcs grouping block for every matrix / list length, with refutation witnesses for the pre-fix code '
         '(F4, F5, F9); each run calls the private helpers with duck-typed rectangles in EVERY permutation of each '
         'generated set (2..6 footprints, both enforce_user_order values) and compares indices, areas and the '
         'remaining work list with the model in Coq; align_wcs end to end for the grouping order. Groups with a gap '
         'between members under every bb_policy (areas are member-wise); falsy group labels.',
         'Spherical overlap areas are external (rectangles with exact areas are used at helper level). Ties are '
         'checked against the property predicate only. Trusted: Coq kernel + vm_compute, python harness.',
         'DESIGN.md section 6 (C15)'),
 'C16': ('Coq proof (whole convex_hull: vertices are input points, start/closure at the lexicographic minimum, '
         'containment w.r.t. every edge, strict left turns incl. chain junctions, merging post-condition, totality; '
         'RefCatalog 1-/2-source boxes) + exact correspondence of convex_hull outputs in Coq + catalog-level '
         'predicates on spherical polygons',
         'Machine-checked theorems about an executable model of the WHOLE convex_hull (dedup + lexicographic sort, '
         'both monotone chains, concatenation, small-input exits, merging after fixes F10/F14, closing vertex), '
         'including a literal index-list transcription proved equal to the structural model, with refutation '
         'witnesses for the pre-fix code (F6 direction, F10, F14). Each run compares convex_hull outputs on '
         'integer/dyadic point sets EXACTLY with the model in Coq and evaluates containment / box extent / overlap '
         'symmetry and bounds on image, group and reference catalogs across the sky. RefCatalog growth histories '
         '(constructor on 1..5 sources, then expand_catalog steps) are checked after every step. Degenerate-row '
         'reference catalogs (repeated positions, collinear runs; defect F20 fixed); union fall-back path with a '
         'simulated library fault.',
         'Spherical geometry (polygons, union, intersection, areas; the arcsec->radian half of F6) is external: '
         'measured only (the F11 rotation order is modelled and proved in SkyRot.v). Known findings K2 and K3 '
         '(spherical_geometry multi_union; summed member-wise overlaps). Trusted: Coq kernel + vm_compute, python '
         'harness.',
         'DESIGN.md section 6 (C16)'),
 'C17': ('Coq proof (Gauss-Jordan inverse correct for every order n; null vector => Singular) + per-run '
         'correspondence of the exact model with linalg.inv evaluated inside Coq',
         'Machine-checked theorems about an exact-rational model of the Gauss-Jordan algorithm (left and right '
         'inverse for every order; Singular IF AND ONLY IF the input has a non-trivial null vector, hence total on '
         'regular input; collinear points => singular fit), closed under the global context; the model is tied to '
         'the current source by evaluating `agree` (entrywise and residual bound 64 n cond eps against the exact '
         'inverse; raised <-> Singular) in Coq on inputs run through the implementation on every run. Both '
         'implementations selected by long-double capability are run (the numpy branch is switched on through the '
         "module attribute, as the repository's tests do); known finding K1n for that branch. Degenerate "
         'configurations also through iter_linear_fit.',
         'Floating-point rounding is outside the theorems (bound measured, not proved). Trusted: Coq kernel + '
         'vm_compute, the python harness, the K1 classifier. Known finding K1 (rounding hides zero pivots).',
         'DESIGN.md section 6 (C17)'),
 'C18': ('Coq proof (set_correction is a record update: only crval and the linear matrix change; diag(cdelt).(pc.U) '
         '= (diag(cdelt).pc).U; CD/PC twins agree for every projection family) + attribute diff, header round trip, '
         'CD/PC twins and ValueError exits on the implementation, FITS state compared with the model in Coq',
         'Machine-checked theorems about the FITS correction model; each run corrects celestial TAN WCSs (CD and '
         'PC, SIP on/off, pointings/orientations/scales), compares CRVAL and the linear matrix with the flat model '
         'where applicable, checks every other attribute unchanged, header round trip, and that CD and PC+CDELT '
         'twins give identical corrected sky mappings; non-celestial / missing WCS rejected with ValueError. '
         'Reference pixel off the detector; explicit non-default LONPOLE.',
         'Header I/O and wcslib are external (measured). LATPOLE tracks CRVAL by wcslib default and is excluded '
         'from the attribute diff.',
         'DESIGN.md section 6 (corrector algebra)'),
 'C19': ('Coq proof (soundness of an ownership/alias checker incl. helper-call summaries) + translator regenerating '
         'the ownership IR of the array-level entry points from the current source on every run (checked by '
         'vm_compute) + byte-level runtime monitor of all entry points',
         "Machine-checked soundness: `check params prog = true` implies no run of prog's statements (any order, any "
         'multiplicity, any resolution of may-alias, helper calls abstracted by proved summaries) writes a '
         'caller-owned location. On every run a fail-closed python-ast translator re-derives the IR of 13 '
         'array-level functions (+ nested helpers) of linearfit/linalg/matchutils/wcsimage from /repo and Coq '
         'evaluates the checker on it; a monitor snapshots every argument byte-for-byte around calls of ALL entry '
         'points (incl. fit_wcs, align_wcs, XYXYMatch, set_correction; dtypes float32/64/longdouble; sequences of '
         '1..3 calls; repeated calls) and searches for the concrete failing input when an obligation breaks. Caller '
         'tables that already carry TPx/TPy columns; translator resolves sibling nested helpers and return types.',
         'PARTIAL: object-level entry points (tables, correctors, deep copies) and repeatability are monitored, not '
         'proved. Trusted: the translator and its numpy/builtin classification table, the container encoding; a '
         'caller-supplied callable is assumed not to return retained state.',
         'DESIGN.md section 6 (C19)'),
 'C20': ('Coq proof (shoelace area of the image of the unit square under an affine map = |det J|; scales by |det M| '
         'under a correction in every gWCS state) + comparison with a finite-difference Jacobian on the '
         'implementation',
         'Machine-checked theorems about tanp_pixel_scale on the corrector model; each run compares '
         'tanp_pixel_scale(x, y)^2 with |det J| of a finite-difference Jacobian of det_to_tanp for FITS (CD/PC/SIP) '
         'and gWCS correctors over positions and correction histories, tanp_center_pixel_scale with the value at '
         'the detector position of the tangent point, and the units. Repeated identical corrections; mock gWCS with '
         'a distorted detector map.',
         'Square root, units and non-affine (distorted) maps are measured; the theorem covers affine det->tanp '
         'maps.',
         'DESIGN.md section 6 (corrector algebra)'),
}


def main():
    checks = []
    for pid in ALL:
        if pid not in CHECKS:
            continue
        tech, text, note, ref = CHECKS[pid]
        checks.append({
            'property_id': pid,
            'quick_cmd': './check %s --tier quick' % pid,
            'thorough_cmd': './check %s --tier thorough' % pid,
            'evidence_file': '/verif/evidence/%s.json' % pid,
            'replay_cmd_template': './check %s --replay {path}' % pid,
            'engine': 'coq-proof+correspondence',
            'level_claimed': {'category': 'proof', 'text': text, 'design_ref': ref},
            'level_note': note,
            'technique': tech,
        })
    m = {
        'version': 1,
        'setup_cmd': 'cd /verif/coq && coq_makefile -f _CoqProject -o Makefile && timeout 3000 make -j16',
        'hooks': {
            'guard': 'TWEAKWCS_VERIF',
            'enable': 'no hooks are used: checks import tweakwcs from /repo\'s working tree (PYTHONPATH=/repo), '
                      'private helpers are importable, matchers/correctors are subclassed in the harness',
            'baseline_off_cmd': 'cd /repo && /venv/bin/python -m pytest -ra -q -p no:cacheprovider --timeout=900 '
                                '--continue-on-collection-errors',
            'source_commits': [],
            'add_only': True,
        },
        'engines': [{'name': 'coq-proof+correspondence', 'path': '/verif/check',
                     'serves_properties': sorted(CHECKS),
                     'kind_free_text': 'Coq 8.16 theorems about hand-written exact models (coq/Model, coq/Proofs, '
                                       'coq/Props) + per-run correspondence of model and implementation evaluated '
                                       'inside Coq (coq/Corr, harness/)'}],
        'checks': checks,
        'notes': 'See DESIGN.md. known_findings.json lists fixed defects (fix: commits in /repo) and known findings.',
        'not_applicable': [{'property_id': p, 'reason': 'check not yet registered in this round (under construction; '
                            'see DESIGN.md section 6 for its design)'} for p in ALL if p not in CHECKS],
    }
    with open(os.path.join(ROOT, 'MANIFEST.json'), 'w') as f:
        json.dump(m, f, indent=1)


if __name__ == '__main__':
    main()
