"""Scenario engine shared by harness/pC13.py and harness/pC14.py.

A *scenario* (`spec`, a plain dict) describes a call of tweakwcs.align_wcs in a scripted world:
  * two sky fields, NEAR (82, 12) and FAR (86, 12), each with a jittered 6x6 lattice of sources; a source has an
    identity `sid` (NEAR 1..36, FAR 5001..5036); rows of 'junk' catalogs get unique negative sids;
  * every image is a FITS-WCS corrector (subclass counting `set_correction` calls) with a slightly wrong WCS and
    a catalog of pixel positions computed with its true WCS (good), scattered positions (junk), no rows (empty),
    or scattered positions plus 2..4 identical rows of one core source (coin: all matched pairs coincide, so the
    rscale/general fit is exactly singular);
  * the matcher is SCRIPTED: it pairs a reference row with an image row iff both carry the same sid (identity
    is recovered from the 'sid' column of the caller's reference catalog or from (cat_name, x, y) of image rows);
  * every good catalog contains the field's CORE sources (those visible from all image slots), so any two
    catalogs of one field overlap and catalogs of different fields never do.
`run_spec` executes the scenario against the implementation and returns plain observations; `coq_case13/14` build
the Coq literals (world + options + observations) for Corr/C13Corr.v and Corr/C14Corr.v."""
import os
import sys

import numpy as np

from common import nat, z, b, lst, implementation

NEAR = (82.0, 12.0)
FAR = (86.0, 12.0)
NPIX = 2048
SCALE = 1.0e-5
SLOTS = [(-0.0020, -0.0015, 0.0), (0.0020, -0.0010, 17.0), (0.0000, 0.0020, 35.0),
         (-0.0015, 0.0015, 52.0), (0.0018, 0.0018, 71.0), (0.0005, -0.0020, 88.0)]
REFSLOT = (0.0004, 0.0003, 5.0)
GEOM_MIN = {'shift': 1, 'rshift': 2, 'rscale': 2, 'general': 3}
_cache = {}


def _tw():
    if 'tw' not in _cache:
        implementation()
        import warnings
        import logging
        warnings.filterwarnings('ignore')
        logging.disable(logging.CRITICAL)
        from astropy import wcs as fitswcs
        from astropy.table import Table
        import tweakwcs
        from tweakwcs import FITSWCSCorrector, align_wcs
        from tweakwcs.imalign import NotEnoughCatalogs
        from tweakwcs.linearfit import build_fit_matrix
        from tweakwcs.matchutils import MatchCatalogs

        class Counting(FITSWCSCorrector):
            ncorr = 0

            def set_correction(self, *a, **k):
                r = super().set_correction(*a, **k)
                self.ncorr += 1          # completed corrections
                return r

        class Scripted(MatchCatalogs):
            """pairs rows carrying the same source identity; records the order of calls"""

            def __init__(self, key2sid):
                self.key2sid = key2sid
                self.calls = []

            def sids(self, cat):
                n = len(cat)
                out = np.arange(n, dtype=np.int64) + 10 ** 7
                cols = cat.colnames
                if 'sid' in cols:
                    sm = np.ma.getmaskarray(cat['sid'])
                    sd = np.asarray(np.ma.getdata(cat['sid']))
                else:
                    sm, sd = np.ones(n, dtype=bool), None
                have_key = 'cat_name' in cols and 'x' in cols and 'y' in cols
                if have_key:
                    nm = [str(v) for v in np.ma.getdata(cat['cat_name'])]
                    xs = np.asarray(np.ma.getdata(cat['x']), dtype=float)
                    ys = np.asarray(np.ma.getdata(cat['y']), dtype=float)
                    km = np.ma.getmaskarray(cat['x'])
                for i in range(n):
                    if not sm[i]:
                        out[i] = int(sd[i])
                    elif have_key and not km[i]:
                        out[i] = self.key2sid.get((nm[i], float(xs[i]), float(ys[i])), 10 ** 7 + i)
                return out

            def __call__(self, refcat, imcat, **kw):
                self.calls.append(str(imcat['cat_name'][0]))
                rs = self.sids(refcat)
                ms = self.sids(imcat)
                first = {}
                for i, s in enumerate(rs.tolist()):
                    first.setdefault(s, i)
                ri, ii = [], []
                for j, s in enumerate(ms.tolist()):
                    if s in first:
                        ri.append(first[s])
                        ii.append(j)
                # hand the pairs back in reverse order: nothing may depend on the order of the pairs
                return np.array(ri[::-1], dtype=int), np.array(ii[::-1], dtype=int)

        _cache['tw'] = dict(fitswcs=fitswcs, Table=Table, tweakwcs=tweakwcs, Counting=Counting, Scripted=Scripted,
                            FITSWCSCorrector=FITSWCSCorrector, align_wcs=align_wcs,
                            NotEnoughCatalogs=NotEnoughCatalogs, build_fit_matrix=build_fit_matrix)
    return _cache['tw']


def mkwcs(crval, rot, scale=SCALE):
    T = _tw()
    w = T['fitswcs'].WCS(naxis=2)
    w.wcs.cd = T['build_fit_matrix'](rot, scale)
    w.wcs.crval = list(crval)
    w.wcs.crpix = [NPIX / 2.0, NPIX / 2.0]
    w.wcs.ctype = ['RA---TAN', 'DEC--TAN']
    w.pixel_shape = [NPIX, NPIX]
    w.wcs.set()
    return w


def field(wseed, far, ws=1.0):
    """sources of one field: (ra, dec, sid) and, per slot, visible indices; core = visible from all slots."""
    key = ('field', wseed, far, ws)
    if key in _cache:
        return _cache[key]
    c = FAR if far else NEAR
    rng = np.random.default_rng(1000 * wseed + (7 if far else 3))
    g = (np.arange(6) - 2.5) * 0.0034 * ws
    X, Y = np.meshgrid(g, g)
    X = X.ravel() + rng.uniform(-0.0007, 0.0007, X.size) * ws
    Y = Y.ravel() + rng.uniform(-0.0007, 0.0007, Y.size) * ws
    ra = c[0] + X / np.cos(np.deg2rad(c[1]))
    dec = c[1] + Y
    sid = np.arange(1, 37) + (5000 if far else 0)
    vis = []
    for (dx, dy, rot) in SLOTS + [REFSLOT]:
        wt = mkwcs((c[0] + ws * dx / np.cos(np.deg2rad(c[1])), c[1] + ws * dy), rot, scale=SCALE * ws)
        x, y = wt.all_world2pix(ra, dec, 0)
        m = (x > 8) & (x < NPIX - 8) & (y > 8) & (y < NPIX - 8)
        vis.append((wt, x, y, m))
    core = np.ones(36, dtype=bool)
    for (_, _, _, m) in vis:
        core &= m
    out = dict(ra=ra, dec=dec, sid=sid, vis=vis, core=core, center=c)
    _cache[key] = out
    return out


def build(spec):
    """-> dict(cors, refcat, key2sid, rows (sids per image), ids (per image), ref_rows, ref_ids, args...)"""
    T = _tw()
    Table = T['Table']
    wseed = spec['wseed']
    # world scale: every angular size of the scenario (pixel scale, source lattice, pointing offsets, WCS errors) is
    # multiplied by ws; pixel coordinates are unchanged. ws = 0.2 gives ~15 arcsec fields (overlaps < 1e-8 sr)
    ws = float(spec.get('ws', 1.0))
    key2sid = {}
    cors, rows, ids = [], [], []
    for i, im in enumerate(spec['images']):
        F = field(wseed, im['far'], ws)
        wt, x, y, m = F['vis'][im['slot']]
        rng = np.random.default_rng(spec['wseed'] * 7919 + 31 * i + im['slot'] + 1000 * im.get('cseed', 0))
        c = F['center']
        dx, dy, rot = SLOTS[im['slot']]
        e = im.get('err', (1.0, -1.5, 0.01, 1.0))
        wg = mkwcs((c[0] + ws * (dx / np.cos(np.deg2rad(c[1])) + e[0] * SCALE), c[1] + ws * (dy + e[1] * SCALE)),
                   rot + e[2], scale=SCALE * e[3] * ws)
        name = 'im%d' % i
        if im['kind'] == 'good':
            keep = m & (F['core'] | (rng.random(36) < im.get('keep', 0.7)))
            if im.get('core_only'):
                keep = F['core'].copy()
            xs, ys, ss = x[keep], y[keep], F['sid'][keep]
            if not im.get('core_only'):
                p = rng.permutation(len(xs))
                xs, ys, ss = xs[p], ys[p], ss[p]
            if im.get('nrows') is not None:
                xs, ys, ss = xs[:im['nrows']], ys[:im['nrows']], ss[:im['nrows']]
        elif im['kind'] in ('junk', 'coin'):
            cell = (NPIX - 200) / 4.0
            gx, gy = np.meshgrid(np.arange(4), np.arange(4))
            xs = 100 + (gx.ravel() + 0.5) * cell + rng.uniform(-0.3, 0.3, 16) * cell + 0.123
            ys = 100 + (gy.ravel() + 0.5) * cell + rng.uniform(-0.3, 0.3, 16) * cell + 0.321
            base = (5000 if im['far'] else 0) + 100 * (i + 1)
            ss = -(base + np.arange(16))
            if im['kind'] == 'coin':
                # 16 unmatched rows (they give the catalog a proper hull) + `ncopies` identical rows of ONE core
                # source: every matched pair is the same point -> the rscale/general fit is exactly singular
                k0 = int(np.nonzero(F['core'])[0][im.get('coin_src', 0) % int(F['core'].sum())])
                m_ = int(im.get('ncopies', 2))
                xs = np.concatenate([xs, np.full(m_, x[k0])])
                ys = np.concatenate([ys, np.full(m_, y[k0])])
                ss = np.concatenate([ss, np.full(m_, F['sid'][k0])])
        else:
            xs, ys, ss = x[:0], y[:0], F['sid'][:0]
        cat = Table([xs, ys], names=('x', 'y'))
        if spec.get('stale_radec') and i % 2 == 0:
            # extra columns a caller's catalog may carry: sky positions from an older WCS solution (not input data)
            cat['RA'] = 200.0 + 1e-3 * np.arange(len(xs))
            cat['DEC'] = np.full(len(xs), -45.0)
        if im.get('custom_ids') and len(xs):
            cid = rng.choice(np.arange(-20, 900), size=len(xs), replace=False)
            cat['id'] = cid
            ids.append([int(v) for v in cid])
        else:
            ids.append(list(range(1, len(xs) + 1)))
        for k in range(len(xs)):
            key2sid[(name, float(xs[k]), float(ys[k]))] = int(ss[k])
        meta = {'catalog': cat, 'name': name}
        if im['gid'] is not None:
            # the canonical group number is mapped to an arbitrary (hashable) user label, including falsy but
            # valid ones such as 0 or '' (a label is only "no group" when it is None)
            meta['group_id'] = spec.get('gid_labels', {}).get(im['gid'], im['gid'])
        cors.append(T['Counting'](wg, meta=meta))
        rows.append([int(s) for s in ss])
    # reference
    ref = spec['ref']
    refcat, ref_rows, ref_ids, ref_extra = None, [], [], {}
    mode = ref['mode']
    if mode != 'none':
        rng = np.random.default_rng(spec['wseed'] * 104729 + ref.get('rseed', 0))
        sel_ra, sel_dec, sel_sid = [], [], []
        for far in ([False] if ref['field'] == 'near' else [True] if ref['field'] == 'far' else [False, True]):
            F = field(wseed, far, ws)
            keep = F['core'] | (rng.random(36) < ref.get('keep', 0.5))
            if ref.get('core_only'):
                keep = F['core'].copy()
            if mode in ('corr', 'corr_nocat'):
                keep &= F['vis'][len(SLOTS)][3]
            sel_ra += list(F['ra'][keep])
            sel_dec += list(F['dec'][keep])
            sel_sid += list(F['sid'][keep])
        p = np.arange(len(sel_sid)) if ref.get('core_only') else rng.permutation(len(sel_sid))
        sel_ra, sel_dec, sel_sid = np.array(sel_ra)[p], np.array(sel_dec)[p], np.array(sel_sid)[p]
        n0 = len(sel_sid)
        if ref.get('ids') == 'custom':
            rid = [int(v) for v in rng.choice(np.arange(-50, 5000), size=n0, replace=False)]
        else:
            rid = list(range(1, n0 + 1))
        if mode in ('table', 'table_noradec', 'table_empty'):
            if mode == 'table_empty':
                sel_ra, sel_dec, sel_sid, rid = sel_ra[:0], sel_dec[:0], sel_sid[:0], []
            cols, names = [sel_ra, sel_dec, sel_sid], ['RA', 'DEC', 'sid']
            if mode == 'table_noradec':
                cols, names = [sel_ra, sel_sid], ['RA', 'sid']
            refcat = Table(cols, names=names)
            if ref.get('ids') in ('custom', 'seq'):
                refcat['id'] = np.array(rid, dtype=int)
            ref_extra['table0'] = refcat.copy()
        elif mode in ('corr', 'corr_nocat'):
            far = ref['field'] == 'far'
            F = field(wseed, far, ws)
            wt = F['vis'][len(SLOTS)][0]
            x, y = wt.all_world2pix(sel_ra, sel_dec, 0)
            cat = Table([x, y, sel_sid], names=('x', 'y', 'sid'))
            if ref.get('ids') in ('custom', 'seq'):
                cat['id'] = np.array(rid, dtype=int)
            meta = {'catalog': cat, 'name': 'refim'}
            if mode == 'corr_nocat':
                meta = {'name': 'refim'}
            refcat = T['FITSWCSCorrector'](wt, meta=meta)
            ref_extra['radec0'] = refcat.det_to_world(x, y)
        elif mode == 'bad_type':
            refcat = 5
        ref_rows = [int(s) for s in sel_sid]
        ref_ids = rid
    return dict(cors=cors, refcat=refcat, key2sid=key2sid, rows=rows, ids=ids, ref_rows=ref_rows, ref_ids=ref_ids,
                ref_extra=ref_extra)


def group_keys(spec):
    keys = []
    for i, im in enumerate(spec['images']):
        keys.append(('u', i) if im['gid'] is None else ('g', im['gid']))
    groups = {}
    for i, k in enumerate(keys):
        groups.setdefault(k, []).append(i)
    return keys, list(groups.values())


GX, GY = np.meshgrid(np.linspace(0, NPIX, 5), np.linspace(0, NPIX, 5))


def sky(c):
    return np.array(c.det_to_world(GX.ravel(), GY.ravel())).tobytes()


def exc_code(e, T):
    if isinstance(e, T['NotEnoughCatalogs']):
        return 4
    if isinstance(e, TypeError):
        return 1
    if isinstance(e, KeyError):
        return 3
    if isinstance(e, ValueError):
        return 2
    return 9


def exc_stage(e):
    m = str(e)
    if "Input 'wcscat' must be" in m:
        return 1
    if "must have a valid catalog" in m:
        return 2
    if "Unsupported 'fitgeom'" in m:
        return 3
    if 'eference' in m or "'refcat'" in m:
        return 4
    if 'Too few input images' in m:
        return 5
    return 0


def st_code(s):
    if s is None:
        return 0
    if s == 'REFERENCE':
        return 1
    if s == 'SUCCESS':
        return 2
    if s == 'FAILED: empty source catalog':
        return 3
    if s == 'FAILED: not enough matches':
        return 4
    if isinstance(s, str) and s.startswith('FAILED:') and len(s) > 8:
        return 5
    return 6


def same_fit_info(a, bb):
    if set(a.keys()) != set(bb.keys()):
        return False
    for k in a:
        va, vb = a[k], bb[k]
        if isinstance(va, np.ndarray) or isinstance(vb, np.ndarray):
            if not np.array_equal(np.asarray(va), np.asarray(vb)):
                return False
        elif isinstance(va, (tuple, list)):
            if not np.array_equal(np.asarray(va, dtype=object), np.asarray(vb, dtype=object)):
                return False
        else:
            try:
                if va != vb and not (va != va and vb != vb):
                    return False
            except ValueError:
                return False
    return True


def run_spec(spec):
    """execute the scenario; returns observations (plain python objects only)."""
    T = _tw()
    B = build(spec)
    cors = B['cors']
    n = len(cors)
    before = [sky(c) for c in cors]
    matcher = T['Scripted'](B['key2sid'])
    kw = dict(refcat=B['refcat'], expand_refcat=spec['expand'], enforce_user_order=spec['enforce'],
              fitgeom=spec['fitgeom'], minobj=spec['minobj'], nclip=spec.get('nclip', 3),
              match=(matcher if spec['match'] == 'scripted' else None))
    wcscat = list(cors)
    inv = spec.get('invalid')
    if inv == 'wcscat_elem':
        wcscat[spec.get('inv_pos', 0) % n] = 5
    elif inv == 'wcscat_type':
        wcscat = 5
    elif inv == 'missing_catalog':
        del cors[spec.get('inv_pos', 0) % n].meta['catalog']
    elif inv == 'single':
        wcscat = cors[0]
    out, exc = None, None
    try:
        out = T['align_wcs'](wcscat, **kw)
    except Exception as e:  # noqa
        exc = e
    obs = dict(n=n, exc=0 if exc is None else exc_code(exc, T), stage=0 if exc is None else exc_stage(exc),
               exc_text=None if exc is None else '%s: %s' % (type(exc).__name__, str(exc)[:160]))
    infos = [c.meta.get('fit_info') for c in cors]
    status = [None if fi is None else fi.get('status') for fi in infos]
    obs['status'] = status
    obs['st'] = [st_code(s) for s in status]
    obs['ncorr'] = [int(c.ncorr) for c in cors]
    obs['moved'] = [sky(c) != b0 for c, b0 in zip(cors, before)]
    keys, groups = group_keys(spec)
    obs['groups'] = groups
    share = True
    for g in groups:
        f0 = infos[g[0]]
        for j in g[1:]:
            fj = infos[j]
            if (f0 is None) != (fj is None) or (f0 is not None and not same_fit_info(f0, fj)):
                share = False
    obs['members_share'] = share
    # observed order: reference group first, then matcher calls
    order = []
    refg = [g for g in groups if all(status[i] == 'REFERENCE' for i in g)]
    if exc is None and spec['ref']['mode'] == 'none' and len(refg) == 1:
        order.append(refg[0])
    name2g = {}
    for g in groups:
        for i in g:
            name2g['im%d' % i] = g
    for nm in matcher.calls:
        order.append(name2g.get(nm, [99]))
    obs['order'] = order
    obs['rows'], obs['ids'], obs['ref_rows'], obs['ref_ids'] = B['rows'], B['ids'], B['ref_rows'], B['ref_ids']
    # returned catalog
    if out is not None:
        sids = [int(v) for v in matcher.sids(out)]
        obs['cat_sids'] = sids
        obs['cat_ids'] = [int(v) for v in np.asarray(out['id'])]
        obs['cat_len'] = len(out)
        n0 = len(B['ref_rows']) if spec['ref']['mode'] != 'none' else None
        ok_rows = True
        if spec['ref']['mode'] == 'table':
            t0 = B['ref_extra']['table0']
            ok_rows = (len(out) >= n0 and np.asarray(out['RA'][:n0]).tobytes() == np.asarray(t0['RA']).tobytes() and
                       np.asarray(out['DEC'][:n0]).tobytes() == np.asarray(t0['DEC']).tobytes())
            if 'id' in t0.colnames:
                ok_rows = ok_rows and np.array_equal(np.asarray(out['id'][:n0]), np.asarray(t0['id']))
            # the caller's table itself must be untouched
            tb = B['refcat']
            ok_rows = ok_rows and tb.colnames == t0.colnames and all(
                np.asarray(tb[cn]).tobytes() == np.asarray(t0[cn]).tobytes() for cn in t0.colnames)
        elif spec['ref']['mode'] == 'corr':
            r0, d0 = B['ref_extra']['radec0']
            ok_rows = (len(out) >= n0 and np.asarray(out['RA'][:n0]).tobytes() == np.asarray(r0).tobytes() and
                       np.asarray(out['DEC'][:n0]).tobytes() == np.asarray(d0).tobytes())
        obs['orig_rows_unchanged'] = bool(ok_rows)
        # appended rows sit at the (final) sky position of their source image
        nfirst = n0 if n0 is not None else (sum(len(B['rows'][i]) for i in order[0]) if order else 0)
        worst = 0.0
        bad_src = False
        names = [str(v) for v in out['cat_name']] if 'cat_name' in out.colnames else [''] * len(out)
        for r in range(nfirst, len(out)):
            nm = names[r]
            if not nm.startswith('im') or np.ma.is_masked(out['x'][r]):
                bad_src = True
                continue
            c = cors[int(nm[2:])]
            ra, dec = c.det_to_world(float(out['x'][r]), float(out['y'][r]))
            worst = max(worst, abs(float(ra) - float(out['RA'][r])) * np.cos(np.deg2rad(12.0)) * 3600,
                        abs(float(dec) - float(out['DEC'][r])) * 3600)
        obs['appended_from'] = sorted(set(names[nfirst:]))
        obs['cat_names'] = names
        obs['nfirst'] = nfirst
        obs['appended_pos_err_arcsec'] = worst
        obs['appended_bad_source'] = bad_src
    return obs


# --------------------------------------------------------------------------- Coq literals
def zlist(xs):
    return lst([z(x) for x in xs])


def glist(gs):
    return lst([lst([nat(i) for i in g]) for g in gs])


def minobj_eff(spec):
    if spec['minobj'] is not None:
        return spec['minobj']
    return GEOM_MIN.get(spec['fitgeom'].lower(), 0)


def coq_world(spec, obs):
    ims = []
    for i, im in enumerate(spec['images']):
        ims.append('{| w_gid := %s; w_rows := %s; w_ids := %s; w_far := %s |}' % (
            'None' if im['gid'] is None else 'Some %s' % nat(im['gid']), zlist(obs['rows'][i]), zlist(obs['ids'][i]),
            b(im['far'])))
    mode = spec['ref']['mode']
    geom = {'shift': 0, 'rshift': 1, 'rscale': 2, 'general': 3}.get(spec['fitgeom'].lower(), 3)
    return ('{| w_ims := %s; w_ref_rows := %s; w_minobj := %s; w_geom := %s; w_nomatch := %s; w_order := %s |}' % (
        lst(ims), zlist(obs['ref_rows'] if mode in ('table', 'corr') else []), nat(minobj_eff(spec)), nat(geom),
        b(spec['match'] != 'scripted'), glist(obs['order'])))


def coq_opts(spec, obs):
    mode = spec['ref']['mode']
    ids = zlist(obs['ref_ids'])
    ref = {'none': 'RefNone', 'table': 'RefTable true %s' % ids, 'table_noradec': 'RefTable false %s' % ids,
           'table_empty': 'RefTable true []', 'corr': 'RefCorr true %s' % ids, 'corr_nocat': 'RefCorr false []',
           'bad_type': 'RefBadType'}[mode]
    inv = spec.get('invalid')
    return ('{| o_wcscat_ok := %s; o_cats_ok := %s; o_fitgeom_ok := %s; o_minobj := %s; o_ref := %s; '
            'o_expand := %s; o_enforce := %s |}' % (
                b(inv not in ('wcscat_elem', 'wcscat_type')), b(inv != 'missing_catalog'),
                b(spec['fitgeom'].lower() in GEOM_MIN),
                'None' if spec['minobj'] is None else 'Some %s' % nat(spec['minobj']), ref,
                b(spec['expand']), b(spec['enforce'])))


def order_observed(spec):
    return spec['match'] == 'scripted'


def coq_case13(spec, obs):
    return ('{| k_world := %s; k_opts := %s; k_exc := %s; k_stage := %s; k_st := %s; k_corr := %s; '
            'k_order_obs := %s |}' % (coq_world(spec, obs), coq_opts(spec, obs), nat(obs['exc']), nat(obs['stage']),
                                      lst([nat(v) for v in obs['st']]), lst([nat(v) for v in obs['ncorr']]),
                                      b(order_observed(spec))))


def coq_case14(spec, obs):
    return ('{| q_world := %s; q_opts := %s; q_exc := %s; q_sids := %s; q_ids := %s; q_order_obs := %s |}' % (
        coq_world(spec, obs), coq_opts(spec, obs), nat(obs['exc']), zlist(obs.get('cat_sids', [])),
        zlist(obs.get('cat_ids', [])), b(order_observed(spec))))


# --------------------------------------------------------------------------- running many scenarios
def _worker(spec):
    try:
        return run_spec(spec)
    except Exception:  # harness failure, reported by the caller
        import traceback
        return {'harness_error': traceback.format_exc()[-1500:]}


def run_many(specs, nproc):
    if nproc <= 1 or len(specs) < 8:
        return [_worker(s) for s in specs]
    import multiprocessing as mp
    _tw()
    ctx = mp.get_context('fork')
    with ctx.Pool(nproc) as pool:
        return pool.map(_worker, specs, chunksize=max(1, len(specs) // (nproc * 8)))


def nproc_default(thorough):
    try:
        n = len(os.sched_getaffinity(0))
    except AttributeError:
        n = os.cpu_count() or 2
    want = int(os.environ.get('VERIF_NPROC', '14' if thorough else '8'))
    return max(1, min(n, want))


# --------------------------------------------------------------------------- scenario generators
def canon_gids(n):
    """all assignments of group ids from {None, 1, 2, 3} to n images up to renaming of the ids."""
    out = []

    def rec(prefix, used):
        if len(prefix) == n:
            out.append(list(prefix))
            return
        rec(prefix + [None], used)
        for gidv in range(1, min(used + 1, 3) + 1):
            rec(prefix + [gidv], max(used, gidv))
    rec([], 0)
    return out


def mk_image(rng, kind, gid, far, slot):
    err = (rng.uniform(-3, 3), rng.uniform(-3, 3), rng.uniform(-0.03, 0.03), 1.0 + rng.uniform(-2e-4, 2e-4))
    if rng.random() < 0.12:
        # a WCS error within 1e-5 of nothing: pure scale about the reference pixel (still has to be corrected)
        err = (0.0, 0.0, 0.0, 1.0 + rng.choice([-8e-6, 6e-6, 8e-6]))
    return dict(kind=kind, gid=gid, far=far, slot=slot, keep=rng.choice([0.3, 0.6, 0.8]),
                custom_ids=rng.random() < 0.25, cseed=rng.randrange(1000), err=err)


def fix_group_fields(images):
    """members of one group lie in the same field (see module doc / Model/AlignWorld.v)."""
    seen = {}
    for im in images:
        if im['gid'] is not None:
            if im['gid'] in seen:
                im['far'] = seen[im['gid']]
            else:
                seen[im['gid']] = im['far']
    return images


def mk_spec(rng, kinds, gids, refmode, expand, enforce, far_prob=0.15, **kw):
    n = len(kinds)
    slots = rng.sample(range(len(SLOTS)), n) if n <= len(SLOTS) else [rng.randrange(len(SLOTS)) for _ in range(n)]
    images = [mk_image(rng, kinds[i], gids[i], rng.random() < far_prob, slots[i]) for i in range(n)]
    fix_group_fields(images)
    fitgeom = kw.get('fitgeom', rng.choice(['shift', 'rshift', 'rscale', 'general']))
    minobj = kw.get('minobj', rng.choice([None, None, 4, 10, 14, 19]))
    if minobj is not None and minobj < GEOM_MIN[fitgeom] and not kw.get('allow_low_minobj'):
        minobj = GEOM_MIN[fitgeom]
    ref = dict(mode=refmode, field=kw.get('ref_field', rng.choice(['near', 'near', 'near', 'far', 'both'])),
               ids=rng.choice(['none', 'seq', 'custom']), keep=rng.choice([0.2, 0.5, 0.8]), rseed=rng.randrange(1000))
    if refmode in ('corr', 'corr_nocat') and ref['field'] == 'both':
        ref['field'] = 'near'
    pool = rng.choice([[0, '', 7, 'g', 3.5, (1,)], [False, 'x', '', -1, (0,), 2], [1, 2, 3, 4, 5, 6]])
    labels = rng.sample(pool, 3)
    return dict(wseed=rng.randrange(4), images=images, ref=ref, expand=expand, enforce=enforce, fitgeom=fitgeom,
                minobj=minobj, match='scripted', nclip=rng.choice([0, 3]), ws=rng.choice([1.0, 1.0, 0.2]),
                stale_radec=rng.random() < 0.3,
                gid_labels={1: labels[0], 2: labels[1], 3: labels[2]})


def sanitize_coin(spec):
    """duplicate rows must never enter the reference catalog (two image sources matched to one reference position
    give a singular fitted matrix - known finding K13c): a 'coin' image is never the reference image and never has
    zero overlap with the reference."""
    ims = spec['images']
    coin = [i for i, im in enumerate(ims) if im['kind'] == 'coin']
    if not coin:
        return spec
    ref = spec['ref']
    user_order = spec['enforce'] or not spec['expand']
    first_live = next((i for i, im in enumerate(ims) if im['kind'] != 'empty'), None)
    if ref['mode'] == 'none' and not (user_order and first_live is not None and ims[first_live]['kind'] == 'good'
                                      and ims[first_live]['gid'] is None):
        ref['mode'] = 'table'
    if ref['mode'] == 'none':
        for i in coin:
            ims[i]['far'] = ims[first_live]['far']
    else:
        for i in coin:
            if ref['field'] == 'near':
                ims[i]['far'] = False
            elif ref['field'] == 'far':
                ims[i]['far'] = True
    for i in coin:           # a coin image shares its group only with empty images
        if ims[i]['gid'] is not None:
            for j, other in enumerate(ims):
                if j != i and other['gid'] == ims[i]['gid']:
                    other['far'] = ims[i]['far']
                    if other['kind'] != 'empty':
                        other['gid'] = None
    return spec


def spec_key(spec):
    return repr(sorted(spec.items(), key=lambda kv: kv[0]))
