"""Self-test corpus for the C19 translator + checker: small functions that DO write a caller-owned object
through some aliasing route (names u_*, must be rejected by the Coq checker or fail closed) and functions
that only write their own copies (names s_*, must be accepted).  Run on every check; the corpus is
translated by the same code and checked in the same generated owner_cases.v."""

SOURCE = '''
import numpy as np

_STATE = {}


def _h(a):
    a[0] = 1


def _ident(a):
    return a


def _wrap(a):
    return {'k': a}


def u_asarray(x, m):
    x = np.asarray(x, dtype=np.longdouble)
    x[m] -= 1.0


def u_view(x):
    y = x[:, 0]
    y += 1


def u_ravel(x):
    y = x.ravel()
    y[0] = 0


def u_transpose(x):
    x.T[0, 0] = 1


def u_alias_chain(x):
    a = x
    b = a
    c = b.reshape(-1)
    c.sort()


def u_container(x):
    d = {'a': x}
    d['a'][0] = 1


def u_list_append(x):
    lst = []
    lst.append(x)
    lst[0][0] = 2


def u_tuple_unpack(x, y):
    a, b = x, y
    b *= 2


def u_loop_target(xs):
    for x in xs:
        x[0] = 0


def u_branch(x, flag):
    if flag:
        y = np.array(x)
    else:
        y = x
    y[0] = 1


def u_loop_carried(x, n):
    y = np.zeros(3)
    for i in range(n):
        y[0] = 1
        y = x


def u_helper(x):
    _h(x)


def u_helper_kw(x):
    _h(a=x)


def u_helper_ret(x):
    y = _ident(x)
    y[0] = 1


def u_helper_ret_contents(x):
    y = _wrap(x)
    y['k'][0] = 1


def u_astype_nocopy(x):
    y = x.astype(float, copy=False)
    y[0] = 1


def u_array_nocopy(x):
    y = np.array(x, copy=False)
    y += 1


def u_global():
    _STATE['k'] = 1


def u_try(x):
    y = np.zeros(2)
    try:
        y = x
        raise ValueError('a')
    except ValueError:
        y[0] = 1


def u_break(x, n):
    y = np.zeros(2)
    for i in range(n):
        y = x
        if i:
            break
        y = np.zeros(2)
    y[0] = 1


def u_continue(x, n):
    y = np.zeros(2)
    for i in range(n):
        y[0] = 1
        y = x
        if i:
            continue
        y = np.zeros(2)


def u_ifexp(x):
    y = x if len(x) else np.zeros(2)
    y[0] = 1


def u_boolop(x):
    y = x or [0]
    y[0] = 1


def u_callable(x, f):
    f(x)


def u_callable_result(x, f):
    y = f(x)
    y[0] = 1


def u_dictget(d):
    d.get('a')[0] = 1


def u_nested_store(d):
    d['a']['b'] = 1


def u_store_then_load(x):
    c = {}
    c['k'] = x
    v = c['k']
    v[0] = 1


def u_store_through_alias(x):
    c = {}
    e = c
    c['k'] = x
    e['k'][0] = 1


def u_store_into_earlier_alias(x):
    c = {}
    e = c
    e['k'] = x
    c['k'][0] = 1


def u_container_in_container(x):
    inner = []
    outer = [inner]
    inner.append(x)
    outer[0][0][0] = 1


def u_np_put(x):
    np.put(x, [0], 1)


def u_fill(x):
    x.fill(0)


def u_row_view(x):
    y = x[0]
    y[0] = 1


def u_unknown_index(x, i):
    y = np.asarray(x)[i]
    y[0] = 1


def u_while(x):
    y = None
    while y is None:
        y = x
    y[0] = 1


def u_aug_name(x):
    x += 1


def u_slice_assign(x):
    x[:] = 0


def u_comprehension(xs):
    ys = [x for x in xs]
    ys[0][0] = 1


def u_zip(xs, ys):
    for a, b in zip(xs, ys):
        a[0] = b[0]


def u_sorted(xs):
    s = sorted(xs)
    s[0][0] = 1


def u_attr_store(o):
    o.value = 1


def u_swap(x, n):
    a = np.zeros(2)
    b = x
    for i in range(n):
        a, b = b, a
    a[0] = 1


def u_nested_function(x):
    def inner(q):
        q[0] = 1
    inner(x)


def u_pop(lst):
    lst.pop()


def u_setdefault(d, x):
    v = d.setdefault('k', x)
    v[0] = 1


def u_squeeze(x):
    y = np.squeeze(x)
    y[0] = 1


def u_atleast(x):
    y = np.atleast_2d(x)
    y[0, 0] = 1


def u_starred(x, ys):
    a, *rest = x, ys
    rest[0][0] = 1


def u_del_item(d):
    del d['k']


def s_copy(x, m):
    x = np.array(x, dtype=np.longdouble)
    x[m] -= 1


def s_boolmask(x, w):
    x = np.asarray(x)
    m = np.asarray(w) > 0
    y = x[m]
    y[0] = 1


def s_fancy_list(x):
    x = np.asarray(x)
    y = x[[0, 1]]
    y[0] = 1


def s_arith(x):
    y = x * 2
    y += 1


def s_copy_method(x):
    y = np.asarray(x).copy()
    y.sort()


def s_astype(x):
    y = x.astype(float)
    y[0] = 1


def s_helper_fresh(x):
    f = {}
    _h(f)


def s_dict_store(x):
    d = {}
    d['a'] = x
    d['b'] = 1


def s_loop_fresh(xs):
    out = []
    for x in xs:
        out.append(np.asarray(x) * 2)
    out[0][0] = 1


def s_rebind_before_write(x, n):
    x = np.array(x)
    for i in range(n):
        x[i] = 0
    return x


def s_none_refined(w, m):
    if w is not None:
        w = np.asarray(w)
    v = None if w is None else w[np.asarray(m) > 0]
    if v is not None:
        v /= 2
'''


def names():
    import ast
    t = ast.parse(SOURCE)
    fs = [s.name for s in t.body if isinstance(s, ast.FunctionDef)]
    return [f for f in fs if f.startswith('u_')], [f for f in fs if f.startswith('s_')]
