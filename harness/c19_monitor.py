"""C19 runtime monitor: byte-level snapshots of every argument around every call of every entry point,
call sequences of length 1..3 on the same objects, repeated calls with equal inputs.  This is testing
(predicate evaluation on the implementation), reported as such."""
import copy
import inspect
import pickle
import time

import numpy as np

MAXSHOW = 6


# ----------------------------------------------------------------------------- snapshots
def _arr(a):
    a = np.asarray(a)
    if a.dtype == object:
        return ('objarr', a.shape, tuple(snap(x) for x in a.ravel().tolist()))
    if a.dtype.kind == 'f' and a.dtype.itemsize == 16 and np.finfo(a.dtype).nmant == 63:
        # x87 extended: 10 significant bytes + 6 padding bytes of arbitrary content; the padding is not data
        raw = np.frombuffer(np.ascontiguousarray(a).tobytes(), dtype=np.uint8).reshape(-1, 16).copy()
        raw[:, 10:] = 0
        return ('nd', a.dtype.str, a.shape, raw.tobytes())
    return ('nd', a.dtype.str, a.shape, a.tobytes())


def snap(o, seen=None):
    """deterministic deep snapshot (nested tuples; leaves carry raw bytes)"""
    if seen is None:
        seen = set()
    if o is None or isinstance(o, (bool, int, str, bytes)):
        return ('py', type(o).__name__, repr(o))
    if isinstance(o, float):
        return ('py', 'float', o.hex())
    if isinstance(o, np.generic):
        return ('npscalar',) + _arr(np.asarray(o))[1:]
    if isinstance(o, (list, tuple, dict, set, frozenset)) or hasattr(o, '__dict__'):
        if id(o) in seen:
            return ('cycle',)
        seen = seen | {id(o)}
    from astropy.table import Table, Column
    from astropy import wcs as fitswcs
    if isinstance(o, Table):
        cols = []
        for n in o.colnames:
            c = o[n]
            m = getattr(c, 'mask', None)
            cols.append((n, _arr(getattr(c, 'data', c) if m is None else np.ma.getdata(c)),
                         None if m is None else _arr(np.ma.getmaskarray(c)),
                         repr(getattr(c, 'unit', None)), repr(getattr(c, 'format', None)),
                         snap(dict(getattr(c, 'meta', None) or {}), seen)))
        return ('table', type(o).__name__, bool(o.masked), tuple(cols), snap(dict(o.meta), seen))
    if isinstance(o, np.ma.MaskedArray):
        return ('ma', _arr(np.ma.getdata(o)), _arr(np.ma.getmaskarray(o)))
    if isinstance(o, np.ndarray):
        return _arr(o) + (bool(o.flags.writeable),)
    if isinstance(o, Column):
        return _arr(o.data)
    if isinstance(o, fitswcs.WCS):
        w = o.wcs
        parts = [('hdr', o.to_header_string(relax=True)), ('pixel_shape', repr(o.pixel_shape)),
                 ('crval', _arr(w.crval)), ('crpix', _arr(w.crpix)), ('cdelt', _arr(w.cdelt)),
                 ('ctype', repr(list(w.ctype))), ('naxis', repr(o.naxis))]
        for nm in ('cd', 'pc'):
            if getattr(w, 'has_' + nm)():
                parts.append((nm, _arr(getattr(w, nm))))
        if o.sip is not None:
            for nm in ('a', 'b', 'ap', 'bp', 'crpix'):
                v = getattr(o.sip, nm)
                parts.append(('sip_' + nm, None if v is None else _arr(v)))
        return ('fitswcs', tuple(parts))
    mod = type(o).__module__ or ''
    if mod.startswith('gwcs.wcs'):
        return gwcs_snap(o)
    try:
        from astropy.modeling import Model
        if isinstance(o, Model):
            return model_snap(o)
    except ImportError:
        pass
    if mod.startswith('gwcs') or mod.startswith('astropy.') or mod.startswith('asdf'):
        try:
            return ('gwcs', pickle.dumps(o))
        except Exception:
            return ('repr', repr(o))
    if isinstance(o, dict):
        items = sorted(((repr(k), snap(v, seen)) for k, v in o.items()), key=lambda t: t[0])
        return ('dict', tuple(items))
    if isinstance(o, (list, tuple)):
        return (type(o).__name__, tuple(snap(x, seen) for x in o))
    if isinstance(o, (set, frozenset)):
        return ('set', tuple(sorted(repr(x) for x in o)))
    if inspect.ismethod(o) or inspect.isfunction(o) or inspect.isbuiltin(o):
        return ('callable', getattr(o, '__qualname__', type(o).__name__))
    if callable(o) and not hasattr(o, '__dict__'):
        return ('callable', repr(o))
    if hasattr(o, '__dict__') and not inspect.isfunction(o) and not inspect.isclass(o) and mod.startswith('tweakwcs'):
        return ('obj', type(o).__name__, snap(dict(vars(o)), seen))
    try:
        return ('pickle', pickle.dumps(o))
    except Exception:
        return ('repr', repr(o))


_GRID = np.meshgrid(np.linspace(0.0, 1000.0, 5), np.linspace(0.0, 2000.0, 5))


def model_snap(tr):
    item = [('model', type(tr).__name__, getattr(tr, 'name', None), tuple(tr.param_names)),
            ('parameters', _arr(np.asarray(tr.parameters)))]
    try:
        item.append(('inverse parameters', _arr(np.asarray(tr.inverse.parameters))))
    except Exception as ex:      # noqa
        item.append(('inverse parameters', 'n/a: ' + type(ex).__name__))
    return ('modelobj', tuple(item))


def gwcs_snap(w):
    """pickles of gWCS objects embed memory addresses, so they are compared by content: frame names, the
    parameter vector of every pipeline transform (and of its inverse), bounding box, and the forward /
    backward evaluation on a pixel grid"""
    parts = []
    for st in w.pipeline:
        fr = st.frame if isinstance(st.frame, str) else getattr(st.frame, 'name', repr(st.frame))
        tr = st.transform
        item = [('frame', fr)]
        if tr is not None:
            item.append(('model', type(tr).__name__, getattr(tr, 'name', None), tuple(tr.param_names)))
            item.append(('parameters', _arr(np.asarray(tr.parameters))))
            try:
                item.append(('inverse parameters', _arr(np.asarray(tr.inverse.parameters))))
            except Exception as ex:      # noqa
                item.append(('inverse parameters', 'n/a: ' + type(ex).__name__))
        parts.append(tuple(item))
    try:
        parts.append(('bounding_box', repr(w.bounding_box)))
    except Exception:
        parts.append(('bounding_box', 'n/a'))
    x, y = _GRID[0].ravel(), _GRID[1].ravel()
    try:
        sky = w(x, y, with_bounding_box=False)
        parts.append(('forward grid', tuple(_arr(np.asarray(v, dtype=float)) for v in sky)))
        back = w.invert(*sky, with_bounding_box=False)
        parts.append(('backward grid', tuple(_arr(np.asarray(v, dtype=float)) for v in back)))
    except Exception as ex:      # noqa
        parts.append(('grid', 'n/a: ' + type(ex).__name__))
    return ('gwcsobj', tuple(parts))


def show(leaf):
    if isinstance(leaf, tuple) and leaf and leaf[0] == 'nd':
        try:
            a = np.frombuffer(leaf[3], dtype=np.dtype(leaf[1])).reshape(leaf[2])
            return {'dtype': str(np.dtype(leaf[1])), 'shape': list(leaf[2]),
                    'values': [repr(x) for x in a.ravel()[:24].tolist()]}
        except Exception:
            pass
    s = repr(leaf)
    return s if len(s) < 600 else s[:600] + '...'


def diff(a, b, path=''):
    """first difference between two snapshots: (path, before, after) or None"""
    if a == b:
        return None
    if isinstance(a, tuple) and isinstance(b, tuple) and a and b and a[0] == b[0]:
        if a[0] == 'dict':
            da, db = dict(a[1]), dict(b[1])
            if set(da) != set(db):
                return (path, {'keys': sorted(da)}, {'keys': sorted(db)})
            for k in sorted(da):
                d = diff(da[k], db[k], '%s[%s]' % (path, k))
                if d:
                    return d
        if a[0] == 'obj' and a[1] == b[1]:
            return diff(a[2], b[2], path + '.__dict__')
        if a[0] == 'table':
            ca, cb = [c[0] for c in a[3]], [c[0] for c in b[3]]
            if ca != cb:
                return (path + '.colnames', ca, cb)
            for x, y in zip(a[3], b[3]):
                d = diff(x[1], y[1], '%s[column %r]' % (path, x[0])) or diff(x[2:], y[2:], '%s[column %r attributes]' % (path, x[0]))
                if d:
                    return d
            d = diff(a[4], b[4], path + '.meta')
            if d:
                return d
        if a[0] == 'fitswcs':
            for x, y in zip(a[1], b[1]):
                if x != y:
                    return diff(x[1], y[1], '%s.%s' % (path, x[0])) or (path + '.' + x[0], show(x[1]), show(y[1]))
        if len(a) == len(b) and a[0] in ('gwcsobj', 'modelobj', 'ma', 'objarr', 'set'):
            for i, (x, y) in enumerate(zip(a[1:], b[1:])):
                if isinstance(x, tuple) and isinstance(y, tuple) and len(x) == len(y) and x != y:
                    for j, (u, v) in enumerate(zip(x, y)):
                        if u != v:
                            lab = u[0] if isinstance(u, tuple) and u and isinstance(u[0], str) else j
                            if isinstance(u, tuple) and isinstance(v, tuple) and len(u) == len(v) and len(u) >= 2:
                                for k2, (p, q) in enumerate(zip(u, v)):
                                    if p != q:
                                        lab2 = p[0] if isinstance(p, tuple) and p and isinstance(p[0], str) else k2
                                        return diff(p[-1] if isinstance(p, tuple) and len(p) == 2 else p,
                                                    q[-1] if isinstance(q, tuple) and len(q) == 2 else q,
                                                    '%s/%s/%s' % (path, lab, lab2))
                            return (path + '/%s' % lab, show(u), show(v))
        if len(a) == len(b) and a[0] in ('list', 'tuple'):
            for i, (x, y) in enumerate(zip(a[1], b[1])):
                d = diff(x, y, '%s[%d]' % (path, i))
                if d:
                    return d
    if isinstance(a, tuple) and isinstance(b, tuple) and a[:1] == ('nd',) and b[:1] == ('nd',) and a[1:3] == b[1:3]:
        x = np.frombuffer(a[3], dtype=np.dtype(a[1]))
        y = np.frombuffer(b[3], dtype=np.dtype(b[1]))
        idx = [i for i in range(len(x)) if x[i:i + 1].tobytes() != y[i:i + 1].tobytes()][:MAXSHOW]
        return (path, {'dtype': str(x.dtype), 'shape': list(a[2]), 'flat_index': idx,
                       'values': [repr(x[i]) for i in idx]},
                {'values': [repr(y[i]) for i in idx]})
    return (path, show(a), show(b))


def compact(o, depth=0):
    """human-readable rendering of an input for replay files"""
    from astropy.table import Table
    if isinstance(o, np.ndarray):
        return {'ndarray': str(o.dtype), 'shape': list(o.shape), 'c_contiguous': bool(o.flags.c_contiguous),
                'values': [repr(x) for x in o.ravel()[:200].tolist()]}
    if isinstance(o, Table):
        return {'table_columns': {n: compact(np.asarray(o[n])) for n in o.colnames},
                'meta': {str(k): compact(v, depth + 1) for k, v in o.meta.items()}}
    if isinstance(o, dict) and depth < 3:
        return {str(k): compact(v, depth + 1) for k, v in o.items()}
    if isinstance(o, (list, tuple)) and depth < 3:
        return [compact(x, depth + 1) for x in o[:40]]
    s = repr(o)
    return s if len(s) < 300 else s[:300] + '...'


# ----------------------------------------------------------------------------- monitor core
class Monitor:
    def __init__(self, ck):
        self.ck = ck
        self.found = []
        self.calls_by_entry = {}
        self.reported = {}
        self.t0 = time.time()

    def call(self, entry, fn, args, kwargs=None, watch=None, history=None, rows=0, result_of=None, note=None):
        """args: list of (label, object); kwargs: dict label -> object; watch: extra caller-owned objects.
        Returns (ok, result-or-exception, snapshot of the result)."""
        kwargs = kwargs or {}
        watched = dict(args)
        watched.update(kwargs)
        watched.update(watch or {})
        before = {k: snap(v) for k, v in watched.items()}
        pre = {k: compact(v) for k, v in watched.items()}
        try:
            r = fn(*[a for _, a in args], **kwargs)
            ok = True
        except Exception as ex:          # noqa
            r, ok = ex, False
        after = {k: snap(v) for k, v in watched.items()}
        ck = self.ck
        ck.search_evaluations += 1
        self.calls_by_entry[entry] = self.calls_by_entry.get(entry, 0) + 1
        ck.count('entry_point', entry)
        ck.count('outcome', 'returned' if ok else type(r).__name__)
        ck.case((entry, tuple(sorted((k, hash(v)) for k, v in before.items()))), ok and rows >= 3)
        for k in watched:
            d = diff(before[k], after[k], k)
            if d:
                rp = {'kind': 'argument-modified-by-call', 'call': entry, 'argument': k, 'where': d[0],
                      'before': d[1], 'after': d[2],
                      'all_inputs_before_call': pre, 'other_call_settings': repr(note),
                      'calls_made_before_on_same_objects': list(history or []),
                      'predicate': 'every caller-owned argument is byte-identical before and after the call'}
                self.report(rp)
                break
        if not ok and 'read-only' in str(r):
            self.report({'kind': 'call-attempted-to-write-read-only-argument', 'call': entry, 'error': repr(r),
                         'inputs': pre, 'other_call_settings': repr(note),
                         'predicate': 'arguments with writeable=False are accepted (nothing writes to them)'})
        if history is not None:
            history.append(entry)
        rs = None
        if ok:
            rs = snap(result_of(r) if result_of else r)
        else:
            rs = ('exc', type(r).__name__, str(r)[:200])
        return ok, r, rs

    def same_result(self, entry, what, rs1, rs2, inputs, history=None):
        self.ck.search_evaluations += 1
        d = diff(rs1, rs2, 'result')
        if d:
            self.report({'kind': 'repeated-call-gives-different-result', 'call': entry, 'repetition': what,
                         'where': d[0], 'first': d[1], 'second': d[2],
                         'inputs': repr({k: compact(v) for k, v in inputs.items()})[:4000],
                         'calls_made': list(history or []),
                         'predicate': 'a call repeated with equal inputs in the same process gives a byte-identical result'})
            return False
        return True

    def report(self, rp):
        self.found.append(rp)
        key = (rp.get('kind'), rp.get('call'), rp.get('argument'))
        self.reported[key] = self.reported.get(key, 0) + 1
        self.ck.count('monitor_reports', '%s | %s | %s' % key)
        if self.reported[key] == 1:          # one replay per (kind, entry point, argument); the rest is counted
            self.ck.violation(rp)


# ----------------------------------------------------------------------------- array-level sessions
DT_QUICK = ['float32', 'float64', 'longdouble']
DT_MORE = ['float16', 'int64', 'int32', '>f8']


def layout(a, how):
    if how == 'C':
        return np.ascontiguousarray(a)
    if how == 'F':
        return np.asfortranarray(a)
    if how == 'strided':
        big = np.zeros(tuple(2 * s for s in a.shape), dtype=a.dtype)
        v = big[tuple(slice(None, None, 2) for _ in a.shape)]
        v[...] = a
        return v
    if how == 'readonly':
        b = np.array(a)
        b.flags.writeable = False
        return b
    raise ValueError(how)


def dyadic(rng, shape, lo, hi, bits=6):
    n = int(np.prod(shape))
    v = [rng.randrange(int(lo * 2 ** bits), int(hi * 2 ** bits)) / float(2 ** bits) for _ in range(n)]
    return np.array(v, dtype=float).reshape(shape)


def fit_sessions(mon, ck, boost):
    from tweakwcs import linearfit as lf
    rng = ck.rng
    dts = DT_QUICK + (DT_MORE if ck.thorough else [])
    lays = ['C', 'F', 'strided', 'readonly']
    nses = ck.n(4, 12) * (3 if boost & {'iter_linear_fit', 'fit_shifts', 'fit_rscale', 'fit_rshift', 'fit_general',
                                       '_compute_stat', '_build_fit'} else 1)
    fitters = {'fit_shifts': lf.fit_shifts, 'fit_rscale': lf.fit_rscale, 'fit_rshift': lf.fit_rshift,
               'fit_general': lf.fit_general}
    for dt in dts:
        for lay in lays:
            for wmode in ('none', 'wxy', 'wuv', 'both'):
                for _ in range(nses if wmode != 'none' else max(1, nses // 2)):
                    n = rng.randrange(4, 40)
                    uv0 = dyadic(rng, (n, 2), -64, 64)
                    th = rng.choice([0.0, 0.01, 0.3, 2.0])
                    m = np.array([[np.cos(th), np.sin(th)], [-np.sin(th), np.cos(th)]]) * rng.choice([1.0, 1.01, 0.5])
                    xy0 = uv0 @ m.T + dyadic(rng, (1, 2), -8, 8) + dyadic(rng, (n, 2), -1, 1, 8) / 16.0
                    for k in range(rng.randrange(0, 3)):
                        xy0[rng.randrange(n)] += rng.choice([-9.0, 7.0, 25.0])
                    with np.errstate(all='ignore'):
                        xy = layout(xy0.astype(dt), lay)
                        uv = layout(uv0.astype(dt), lay)
                        w1 = w2 = None
                        if wmode in ('wxy', 'both'):
                            w0 = dyadic(rng, (n,), 0, 4, 3)
                            w0[rng.randrange(n)] = 0.0
                            w1 = layout(w0.astype(dt), lay)
                        if wmode in ('wuv', 'both'):
                            w0 = dyadic(rng, (n,), 0.25, 4, 3)
                            if rng.random() < 0.5:
                                w0[rng.randrange(n)] = 0.0
                            w2 = layout(w0.astype(dt), lay)
                    cen = rng.choice(['none', 'none', 'array', 'list'])
                    center = None
                    if cen == 'array':
                        center = np.array([1.5, -2.25]).astype(dt if np.dtype(dt).kind == 'f' else float)
                    elif cen == 'list':
                        center = [0.5, 4.0]
                    ck.count('dtype', str(np.dtype(dt)))
                    ck.count('layout', lay)
                    ck.count('weights', wmode)
                    hist = []
                    done = []
                    for step in range(rng.randrange(1, 4)):
                        which = rng.choice(['iter_linear_fit', 'iter_linear_fit'] + list(fitters))
                        if which == 'iter_linear_fit':
                            kw = dict(fitgeom=rng.choice(['shift', 'rshift', 'rscale', 'general']),
                                      nclip=rng.choice([0, 1, 3, None]),
                                      sigma=rng.choice([(2.0, 'rmse'), (3.0, 'mae'), 2.5, (2.0, 'std')]),
                                      clip_accum=rng.random() < 0.5)
                            entry = 'linearfit.iter_linear_fit(%s)' % kw['fitgeom']
                            fn = lambda xy, uv, wxy, wuv, center, _kw=kw: lf.iter_linear_fit(  # noqa: E731
                                xy, uv, wxy, wuv, center=center, **_kw)
                            args = [('xy', xy), ('uv', uv), ('wxy', w1), ('wuv', w2), ('center', center)]
                            extra = {'sigma': kw['sigma']}
                        else:
                            entry = 'linearfit.' + which
                            fn = fitters[which]
                            args = [('xy', xy), ('uv', uv), ('wxy', w1), ('wuv', w2)]
                            extra = {}
                        with np.errstate(all='ignore'):
                            ok, r, rs = mon.call(entry, fn, args, watch=extra, history=hist, rows=n,
                                                 note=kw if which == 'iter_linear_fit' else None)
                        done.append((entry, fn, args, rs))
                        if step == 0:
                            ck.sample({'session': 'array-level fit', 'dtype': str(np.dtype(dt)), 'layout': lay,
                                       'weights': wmode, 'n': n, 'first_call': entry,
                                       'xy[:3]': [repr(v) for v in np.asarray(xy)[:3].ravel().tolist()]}, limit=2)
                    # the same calls again on the same (unchanged) objects: identical results
                    for entry, fn, args, rs in done:
                        with np.errstate(all='ignore'):
                            ok, r, rs2 = mon.call(entry, fn, args, history=hist, rows=n)
                        mon.same_result(entry, 'same objects, after %d other call(s)' % (len(done) - 1), rs, rs2,
                                        dict(args), hist)


def small_sessions(mon, ck, boost):
    """inv, build_fit_matrix, convex_hull, histogram helpers"""
    from tweakwcs import linalg, linearfit as lf, matchutils as mu
    from tweakwcs.wcsimage import convex_hull
    rng = ck.rng
    dts = DT_QUICK + (DT_MORE if ck.thorough else [])
    rep = ck.n(5, 20)
    for dt in dts:
        for lay in ('C', 'F', 'strided', 'readonly', 'list'):
            for _ in range(rep * (3 if 'inv' in boost else 1)):
                n = rng.randrange(1, 6)
                a0 = dyadic(rng, (n, n), -8, 8, 4)
                if rng.random() < 0.15 and n > 1:
                    a0[0] = a0[1]
                with np.errstate(all='ignore'):
                    a = a0.astype(dt).tolist() if lay == 'list' else layout(a0.astype(dt), lay)
                hist = []
                res = []
                for k in range(rng.randrange(1, 4)):
                    ok, r, rs = mon.call('linalg.inv', linalg.inv, [('m', a)], history=hist, rows=3 if n >= 2 else 0)
                    res.append(rs)
                for rs in res[1:]:
                    mon.same_result('linalg.inv', 'same object', res[0], rs, {'m': a}, hist)
            # build_fit_matrix
            for _ in range(rep):
                mode = rng.choice(['scalar', 'tuple', 'list', 'array'])
                rv = [rng.randrange(-720, 720) / 4.0, rng.randrange(-720, 720) / 4.0]
                sv = [rng.randrange(1, 64) / 16.0, rng.randrange(1, 64) / 16.0]
                fdt = dt if np.dtype(dt).kind == 'f' else 'float64'
                if mode == 'scalar':
                    rot, scale = rv[0], sv[0]
                elif mode == 'tuple':
                    rot, scale = tuple(rv), tuple(sv)
                elif mode == 'list':
                    rot, scale = list(rv), list(sv)
                else:
                    rot, scale = np.array(rv).astype(fdt), np.array(sv).astype(fdt)
                hist = []
                ok, r, rs1 = mon.call('linearfit.build_fit_matrix', lf.build_fit_matrix, [('rot', rot), ('scale', scale)],
                                      history=hist, rows=3)
                ok, r, rs2 = mon.call('linearfit.build_fit_matrix', lf.build_fit_matrix, [('rot', rot), ('scale', scale)],
                                      history=hist, rows=3)
                mon.same_result('linearfit.build_fit_matrix', 'same objects', rs1, rs2, {'rot': rot, 'scale': scale})
            # convex_hull
            for _ in range(rep * (3 if 'convex_hull' in boost else 1)):
                n = rng.randrange(0, 30)
                x0 = dyadic(rng, (n,), -16, 16, 2)
                y0 = dyadic(rng, (n,), -16, 16, 2)
                with np.errstate(all='ignore'):
                    if lay == 'list':
                        x, y = x0.astype(dt).tolist(), y0.astype(dt).tolist()
                    else:
                        x, y = layout(x0.astype(dt), lay), layout(y0.astype(dt), lay)
                wk = rng.choice(['none', 'identity', 'affine'])
                wcsf = None
                if wk == 'identity':
                    wcsf = lambda a, b: (a, b)                      # noqa: E731  returns its arguments
                elif wk == 'affine':
                    wcsf = lambda a, b: (np.asarray(a) * 2.0 + 1.0, np.asarray(b) * 0.5)   # noqa: E731
                sep = rng.choice([None, 0.0, 0.5, 3.0])
                hist, res = [], []
                for k in range(rng.randrange(1, 4)):
                    ok, r, rs = mon.call('wcsimage.convex_hull', lambda x, y, s=sep, w=wcsf: convex_hull(
                        x, y, wcs=w, min_separation=s), [('x', x), ('y', y)], history=hist, rows=n)
                    res.append(rs)
                for rs in res[1:]:
                    mon.same_result('wcsimage.convex_hull', 'same objects', res[0], rs, {'x': x, 'y': y, 'sep': sep})
            if lay == 'list':
                continue
            # histogram helpers of the matcher
            for _ in range(rep * (3 if boost & {'_xy_2dhist', '_estimate_2dhist_shift', '_find_peak'} else 1)):
                n = rng.randrange(3, 60)
                ref0 = dyadic(rng, (n, 2), -32, 32, 3)
                sh = dyadic(rng, (1, 2), -3, 3, 3)
                img0 = ref0[rng.sample(range(n), max(2, n // 2))] + sh
                with np.errstate(all='ignore'):
                    img, ref = layout(img0.astype(dt), lay), layout(ref0.astype(dt), lay)
                hist = []
                r_ = rng.choice([2.0, 3.0, 4.5])
                ps = rng.choice([1.0, 0.5, 2.0])
                ok, r, a1 = mon.call('matchutils._xy_2dhist', mu._xy_2dhist, [('imgxy', img), ('refxy', ref)],
                                     {'r': r_}, history=hist, rows=n)
                ok, r, b1 = mon.call('matchutils._estimate_2dhist_shift', mu._estimate_2dhist_shift,
                                     [('imgxy', img), ('refxy', ref)], {'searchrad': r_, 'pscale': ps},
                                     history=hist, rows=n)
                # interleave calls with OTHER inputs of the same shapes (state carried between calls would show)
                with np.errstate(all='ignore'):
                    img_b = layout((img0[::-1] * 0.5 + 3.0).astype(dt), lay)
                    ref_b = layout((ref0[::-1] * 0.5 - 1.0).astype(dt), lay)
                mon.call('matchutils._xy_2dhist', mu._xy_2dhist, [('imgxy', img_b), ('refxy', ref_b)], {'r': r_},
                         watch={'earlier imgxy': img, 'earlier refxy': ref}, history=hist, rows=n)
                mon.call('matchutils._estimate_2dhist_shift', mu._estimate_2dhist_shift,
                         [('imgxy', img_b), ('refxy', ref_b)], {'searchrad': r_, 'pscale': ps}, history=hist, rows=n)
                ok, r, a2 = mon.call('matchutils._xy_2dhist', mu._xy_2dhist, [('imgxy', img), ('refxy', ref)],
                                     {'r': r_}, history=hist, rows=n)
                mon.same_result('matchutils._xy_2dhist', 'same objects after _estimate_2dhist_shift', a1, a2,
                                {'imgxy': img, 'refxy': ref, 'r': r_}, hist)
                ok, r, b2 = mon.call('matchutils._estimate_2dhist_shift', mu._estimate_2dhist_shift,
                                     [('imgxy', img), ('refxy', ref)], {'searchrad': r_, 'pscale': ps},
                                     history=hist, rows=n)
                mon.same_result('matchutils._estimate_2dhist_shift', 'same objects', b1, b2,
                                {'imgxy': img, 'refxy': ref, 'searchrad': r_, 'pscale': ps}, hist)
                # _find_peak on small count images (sparse ones exercise the centre-of-mass branch)
                sz = rng.randrange(3, 10)
                d0 = np.zeros((sz, sz))
                for k in range(rng.choice([1, 3, 8, 30])):
                    d0[rng.randrange(sz), rng.randrange(sz)] += rng.randrange(1, 6)
                if rng.random() < 0.2:
                    d0[rng.randrange(sz), rng.randrange(sz)] = np.nan
                with np.errstate(all='ignore'):
                    data = layout(d0.astype(dt if np.dtype(dt).kind == 'f' else 'float64'), lay)
                mask = None if rng.random() < 0.4 else layout(np.asarray(d0 > 0), lay)
                box = rng.choice([1, 3, 5, 7])
                ok, r, c1 = mon.call('matchutils._find_peak', mu._find_peak, [('data', data)],
                                     {'peak_fit_box': box, 'mask': mask}, history=hist, rows=sz)
                ok, r, c2 = mon.call('matchutils._find_peak', mu._find_peak, [('data', data)],
                                     {'peak_fit_box': box, 'mask': mask}, history=hist, rows=sz)
                mon.same_result('matchutils._find_peak', 'same objects', c1, c2, {'data': data, 'mask': mask, 'box': box})


# ----------------------------------------------------------------------------- object-level sessions
def mkwcs(crval=(82.0, 12.0), rot=30.0, scale=1e-5, crpix=(512., 512.), shape=(1024, 1024)):
    from astropy import wcs as fitswcs
    from tweakwcs.linearfit import build_fit_matrix
    w = fitswcs.WCS(naxis=2)
    w.wcs.cd = build_fit_matrix(rot, scale)
    w.wcs.crval = list(crval)
    w.wcs.crpix = list(crpix)
    w.wcs.ctype = ['RA---TAN', 'DEC--TAN']
    w.pixel_shape = list(shape)
    w.wcs.set()
    return w


def sky_sources(nr, n, half=0.004):
    ra = 82.0 + nr.uniform(-half, half, n) / np.cos(np.deg2rad(12.0))
    dec = 12.0 + nr.uniform(-half, half, n)
    return ra, dec


def observe(w, ra, dec):
    x, y = w.all_world2pix(ra, dec, 0)
    m = (x > 5) & (x < 1019) & (y > 5) & (y < 1019)
    return x[m], y[m], np.nonzero(m)[0]


def default_matcher():
    from tweakwcs import align_wcs
    f = inspect.unwrap(align_wcs)
    return inspect.signature(f).parameters['match'].default


def match_sessions(mon, ck, boost):
    from astropy.table import Table
    from tweakwcs import XYXYMatch
    rng = ck.rng
    shared = default_matcher()
    dts = DT_QUICK
    nses = ck.n(4, 12) * (3 if boost else 1)

    def build(seed, dt):
        nr = np.random.RandomState(seed)
        n = int(nr.randint(25, 80))
        ref = np.round(nr.uniform(-400, 400, (n, 2)) * 8) / 8
        keep = nr.permutation(n)[: max(12, n * 2 // 3)]
        sh = np.round(nr.uniform(-2, 2, 2) * 8) / 8
        im = ref[keep] + sh + np.round(nr.normal(0, 0.05, (len(keep), 2)) * 64) / 64
        with np.errstate(all='ignore'):
            refcat = Table([ref[:, 0].astype(dt), ref[:, 1].astype(dt), np.arange(n), nr.uniform(0, 1, n).astype('float32')],
                           names=('TPx', 'TPy', 'id', 'flux'))
            imcat = Table([im[:, 0].astype(dt), im[:, 1].astype(dt), np.arange(len(keep))[::-1].copy()],
                          names=('TPx', 'TPy', 'srcno'))
        refcat.meta.update({'name': 'ref%d' % seed, 'history': [1, 2, 3], 'arr': np.arange(4.0)})
        imcat.meta.update({'name': 'im%d' % seed, 'nested': {'k': np.ones(2)}})
        return refcat, imcat

    for dt in dts:
        for mk in ('shared-default', 'own-2dhist', 'own-nohist'):
            for _ in range(nses):
                s1, s2 = rng.randrange(10 ** 6), rng.randrange(10 ** 6)
                m = shared if mk == 'shared-default' else (
                    XYXYMatch(searchrad=4.0, separation=0.2, tolerance=1.0, use2dhist=True) if mk == 'own-2dhist'
                    else XYXYMatch(searchrad=4.0, separation=0.2, tolerance=1.5, use2dhist=False))
                ref1, im1 = build(s1, dt)
                ref2, im2 = build(s2, dt)
                ck.count('matcher', mk)
                ck.count('table_dtype', str(np.dtype(dt)))
                hist = []
                ps = rng.choice([1.0, 0.5])
                call = lambda r, i: m(r, i, tp_pscale=ps, tp_units='pix')   # noqa: E731
                ok, r, a1 = mon.call('XYXYMatch.__call__[%s]' % mk, call, [('refcat', ref1), ('imcat', im1)],
                                     watch={'matcher': m}, history=hist, rows=len(im1))
                nxt = rng.randrange(3)
                if nxt >= 1:    # interleave a call with other inputs on the same matcher
                    mon.call('XYXYMatch.__call__[%s]' % mk, call, [('refcat', ref2), ('imcat', im2)],
                             watch={'matcher': m, 'first refcat': ref1, 'first imcat': im1}, history=hist, rows=len(im2))
                ok, r, a2 = mon.call('XYXYMatch.__call__[%s]' % mk, call, [('refcat', ref1), ('imcat', im1)],
                                     watch={'matcher': m}, history=hist, rows=len(im1))
                mon.same_result('XYXYMatch.__call__[%s]' % mk, 'same tables, %d call(s) in between' % (1 if nxt else 0),
                                a1, a2, {'refcat': ref1, 'imcat': im1, 'tp_pscale': ps}, hist)
                if nxt == 2:    # fresh equal tables
                    ref3, im3 = build(s1, dt)
                    ok, r, a3 = mon.call('XYXYMatch.__call__[%s]' % mk, call, [('refcat', ref3), ('imcat', im3)],
                                         watch={'matcher': m}, history=hist, rows=len(im3))
                    mon.same_result('XYXYMatch.__call__[%s]' % mk, 'fresh equal tables', a1, a3,
                                    {'refcat': ref1, 'imcat': im1, 'tp_pscale': ps}, hist)


def corr_result(c):
    return {'wcs': c.wcs, 'fit_info': c.meta.get('fit_info'), 'matrix': c.meta.get('matrix'), 'shift': c.meta.get('shift')}


def user_meta(c):
    return {k: v for k, v in c.meta.items() if k not in ('fit_info', 'matrix', 'shift', 'fitgeom')}


def fitwcs_sessions(mon, ck, boost):
    from astropy.table import Table
    from tweakwcs import fit_wcs, FITSWCSCorrector
    rng = ck.rng
    nses = ck.n(8, 40) * (2 if boost else 1)

    def build(seed, dt, use_ref, wts):
        nr = np.random.RandomState(seed)
        wtrue = mkwcs(rot=float(nr.choice([0.0, 30.0, 200.0])))
        ra, dec = sky_sources(nr, int(nr.randint(30, 90)))
        x, y, idx = observe(wtrue, ra, dec)
        x = x + nr.normal(0, 0.03, len(x))
        bad = nr.randint(len(x))
        x[bad] += 15.0
        with np.errstate(all='ignore'):
            cols = [x.astype(dt), y.astype(dt), np.arange(len(x))]
            names = ['x', 'y', 'srcid']
            rcols = [ra[idx].astype(dt if dt != 'float32' else 'float64'), dec[idx].astype(dt if dt != 'float32' else 'float64'),
                     nr.uniform(0, 1, len(x))]
            rnames = ['RA', 'DEC', 'mag']
            if wts:
                cols.append(nr.uniform(0.5, 2, len(x)).astype(dt))
                names.append('weight')
                rcols.append(nr.uniform(0.5, 2, len(x)).astype(dt))
                rnames.append('weight')
        imcat = Table(cols, names=names)
        imcat.meta.update({'name': 'im', 'arr': np.arange(3.0)})
        if seed % 2:
            # a reference table that was used before (e.g. returned by an earlier align_wcs, or prepared for a direct
            # XYXYMatch call): it already carries tangent-plane columns of ANOTHER plane - still caller-owned data
            rcols += [nr.uniform(-500, 500, len(x)), nr.uniform(-500, 500, len(x))]
            rnames += ['TPx', 'TPy']
            cols += [nr.uniform(-500, 500, len(x)), nr.uniform(-500, 500, len(x))]
            names += ['TPx', 'TPy']
        refcat = Table(rcols, names=rnames)
        refcat.meta.update({'name': 'ref', 'lst': [1.5, 2.5]})
        w0 = mkwcs(crval=(82.0 + 2e-5, 12.0 - 1e-5), rot=float(wtrue.wcs.cd[0, 0] * 0 + nr.choice([0.02, 0.0])) +
                   float(np.rad2deg(np.arctan2(wtrue.wcs.cd[0, 1], wtrue.wcs.cd[0, 0]))))
        corr = FITSWCSCorrector(w0, meta={'user': np.array([1.0, 2.0]), 'name': 'c'})
        reft = None
        if use_ref:
            reft = FITSWCSCorrector(mkwcs(rot=77.0), meta={'name': 'reftp', 'tbl': Table([[1.0, 2.0]], names=['a'])})
        return refcat, imcat, w0, corr, reft

    for dt in DT_QUICK:
        for _ in range(nses):
            seed = rng.randrange(10 ** 6)
            use_ref = rng.random() < 0.5
            wts = rng.random() < 0.5
            ncalls = rng.randrange(1, 4)
            geoms = [rng.choice(['shift', 'rshift', 'rscale', 'general']) for _ in range(ncalls)]
            finals = []
            ck.count('fit_wcs_dtype', str(np.dtype(dt)))
            ck.count('fit_wcs_ref_tpwcs', use_ref)
            for rep in range(2):            # two builds with equal inputs: identical results
                try:
                    refcat, imcat, w0, corr, reft = build(seed, dt, use_ref, wts)
                except Exception as ex:     # noqa
                    ck.discard('fit_wcs scenario could not be built: %s' % type(ex).__name__)
                    break
                hist = []
                for g in geoms:
                    ok, r, rs = mon.call('imalign.fit_wcs(%s)' % g,
                                         lambda refcat, imcat, ref_tpwcs, g=g: fit_wcs(
                                             refcat, imcat, corr, ref_tpwcs=ref_tpwcs, fitgeom=g, nclip=2,
                                             sigma=(2.5, 'rmse')),
                                         [('refcat', refcat), ('imcat', imcat), ('ref_tpwcs', reft)],
                                         watch={'corrector.original_wcs': corr.original_wcs, 'caller wcs object': w0,
                                                'corrector.meta (user entries)': user_meta(corr)},
                                         history=hist, rows=len(imcat), result_of=lambda r: corr_result(r),
                                         note={'scenario': 'fitwcs_sessions.build', 'seed': seed, 'dtype': dt,
                                               'ref_tpwcs': use_ref, 'weights': wts, 'fitgeom': g, 'nclip': 2,
                                               'sigma': (2.5, 'rmse')})
                finals.append(rs)
                if rep == 0:
                    ck.sample({'session': 'fit_wcs', 'dtype': str(np.dtype(dt)), 'ref_tpwcs': use_ref, 'weights': wts,
                               'fitgeoms': geoms, 'rows': len(imcat)}, limit=3)
            if len(finals) == 2:
                mon.same_result('imalign.fit_wcs', 'fresh equal objects, same %d-call sequence' % ncalls, finals[0],
                                finals[1], {'seed': seed, 'dtype': dt, 'fitgeoms': geoms, 'ref_tpwcs': use_ref})


def align_sessions(mon, ck, boost):
    from astropy.table import Table
    from tweakwcs import align_wcs, fit_wcs, FITSWCSCorrector, XYXYMatch
    rng = ck.rng
    nses = ck.n(5, 30) * (2 if boost else 1)

    def build(seed, dt, refmode, use_ref, groups):
        nr = np.random.RandomState(seed)
        ra, dec = sky_sources(nr, 260)
        cors, ws = [], []
        nim = int(nr.randint(2, 4))
        for k in range(nim):
            wt = mkwcs(crval=(82.0 + 0.0012 * k, 12.0 + 0.0007 * k), rot=5.0 * k)
            x, y, idx = observe(wt, ra, dec)
            with np.errstate(all='ignore'):
                cat = Table([x.astype(dt), y.astype(dt), idx, nr.uniform(0.5, 2, len(x)).astype(dt)],
                            names=('x', 'y', 'sid', 'weight' if k % 2 else 'flux'))
            cat.meta.update({'name': 'cat%d' % k, 'arr': np.arange(2.0) + k})
            w0 = mkwcs(crval=(82.0 + 0.0012 * k + 1.5e-5, 12.0 + 0.0007 * k - 1e-5), rot=5.0 * k + 0.004)
            meta = {'catalog': cat, 'name': 'im%d' % k, 'user': np.array([k, 1.0])}
            if groups and k >= 1:
                meta['group_id'] = 7
            cors.append(FITSWCSCorrector(w0, meta=meta))
            ws.append(w0)
        refcat = None
        if refmode == 'table':
            refcat = Table([ra, dec, np.arange(len(ra))], names=('RA', 'DEC', 'id'))
            if seed % 2:
                # already carries tangent-plane columns of another plane (see fitwcs_sessions)
                refcat['TPx'] = nr.uniform(-500, 500, len(ra))
                refcat['TPy'] = nr.uniform(-500, 500, len(ra))
            refcat.meta.update({'name': 'gaia', 'arr': np.ones(3)})
        elif refmode == 'corr':
            rw = mkwcs(crval=(82.0005, 12.0003), rot=2.0)
            rx, ry, ridx = observe(rw, ra, dec)
            refcat = FITSWCSCorrector(rw, meta={'catalog': Table([rx, ry, ridx], names=('x', 'y', 'sid')), 'name': 'refim'})
        reft = FITSWCSCorrector(mkwcs(rot=77.0), meta={'name': 'reftp'}) if use_ref else None
        return cors, ws, refcat, reft

    shared = default_matcher()
    for dt in DT_QUICK:
        for _ in range(nses):
            seed = rng.randrange(10 ** 6)
            refmode = rng.choice(['none', 'table', 'corr'])
            use_ref = rng.random() < 0.4
            groups = rng.random() < 0.3
            expand = rng.random() < 0.5
            mk = rng.choice(['default', 'default', 'own'])
            ncalls = rng.randrange(1, 3) if not ck.thorough else rng.randrange(1, 4)
            geoms = [rng.choice(['shift', 'rscale', 'general']) for _ in range(ncalls)]
            ck.count('align_refcat', refmode)
            ck.count('align_matcher', mk)
            finals = []
            for rep in range(2):
                try:
                    cors, ws, refcat, reft = build(seed, dt, refmode, use_ref, groups)
                except Exception as ex:     # noqa
                    ck.discard('align_wcs scenario could not be built: %s' % type(ex).__name__)
                    break
                own = XYXYMatch(searchrad=5.0, separation=0.1, tolerance=1.0)
                hist = []
                watch = {'default matcher (shared)': shared}
                for k, c in enumerate(cors):
                    watch['wcscat[%d].meta[catalog]' % k] = c.meta['catalog']
                    watch['wcscat[%d].original_wcs' % k] = c.original_wcs
                    watch['wcscat[%d] caller wcs object' % k] = ws[k]
                    watch['wcscat[%d].meta (user entries)' % k] = user_meta(c)
                for g in geoms:
                    kw = dict(refcat=refcat, ref_tpwcs=reft, expand_refcat=expand, fitgeom=g, nclip=2,
                              enforce_user_order=rng.random() < 0.5)
                    if mk == 'own':
                        kw['match'] = own
                    eo = kw.pop('enforce_user_order')
                    ok, r, rs = mon.call('imalign.align_wcs(refcat=%s)' % refmode,
                                         lambda refcat, ref_tpwcs, **k2: align_wcs(cors, refcat=refcat, ref_tpwcs=ref_tpwcs,
                                                                                    enforce_user_order=True, **k2),
                                         [], kwargs=kw, watch=watch, history=hist, rows=len(cors[0].meta['catalog']),
                                         result_of=lambda r: {'returned': r, 'correctors': [corr_result(c) for c in cors]},
                                         note={'scenario': 'align_sessions.build', 'seed': seed, 'dtype': dt,
                                               'refcat': refmode, 'ref_tpwcs': use_ref, 'groups': groups,
                                               'expand_refcat': expand, 'matcher': mk, 'fitgeom': g, 'nclip': 2})
                finals.append(rs)
                if rep == 0:
                    ck.sample({'session': 'align_wcs', 'dtype': str(np.dtype(dt)), 'refcat': refmode, 'ref_tpwcs': use_ref,
                               'groups': groups, 'expand_refcat': expand, 'matcher': mk, 'fitgeoms': geoms,
                               'images': len(cors)}, limit=4)
            if len(finals) == 2:
                mon.same_result('imalign.align_wcs', 'fresh equal objects, same %d-call sequence (matcher %s)' % (ncalls, mk),
                                finals[0], finals[1], {'seed': seed, 'dtype': dt, 'refcat': refmode, 'fitgeoms': geoms,
                                                       'expand_refcat': expand, 'ref_tpwcs': use_ref, 'groups': groups})


def setcorr_sessions(mon, ck, boost):
    from tweakwcs import FITSWCSCorrector, JWSTWCSCorrector
    rng = ck.rng
    nses = ck.n(5, 20) * (2 if boost else 1)
    try:
        from tweakwcs.tests.helper_correctors import make_mock_jwst_wcs
    except Exception as ex:      # noqa
        make_mock_jwst_wcs = None
        ck.discard('JWST mock gWCS helper not importable: %r' % ex)
    info = {'v2_ref': 123.0, 'v3_ref': 500.0, 'roll_ref': 115.0}

    def build(kind, use_ref, rewrap=False):
        """rewrap: the corrector is built from a WCS object that was ALREADY corrected once (second round of
        alignment): the caller's corrected WCS object must not be modified either."""
        if kind == 'fits':
            w = mkwcs(rot=12.0)
            if rewrap:
                c0 = FITSWCSCorrector(w)
                c0.set_correction(matrix=[[1.0, 1e-4], [-1e-4, 1.0]], shift=[0.25, -0.5])
                w = c0.wcs
            c = FITSWCSCorrector(w, meta={'user': np.arange(3.0)})
            reft = FITSWCSCorrector(mkwcs(rot=77.0), meta={'name': 'reftp'}) if use_ref else None
        else:
            w = make_mock_jwst_wcs(v2ref=123.0, v3ref=500.0, roll=115.0, crpix=[512.0, 512.0],
                                   cd=[[1.0e-5, 0.0], [0.0, 1.0e-5]], crval=[82.0, 12.0])
            if rewrap:
                c0 = JWSTWCSCorrector(w, dict(info))
                c0.set_correction(matrix=[[1.0, 1e-4], [-1e-4, 1.0]], shift=[0.25, -0.5])
                w = c0.wcs
            c = JWSTWCSCorrector(w, dict(info), meta={'user': np.arange(3.0)})
            reft = None
            if use_ref:
                w2 = make_mock_jwst_wcs(v2ref=120.0, v3ref=498.0, roll=100.0, crpix=[512.0, 512.0],
                                        cd=[[1.0e-5, 0.0], [0.0, 1.0e-5]], crval=[82.0, 12.0])
                reft = JWSTWCSCorrector(w2, {'v2_ref': 120.0, 'v3_ref': 498.0, 'roll_ref': 100.0}, meta={'name': 'reftp'})
        return w, c, reft

    kinds = ['fits'] + (['jwst'] if make_mock_jwst_wcs else [])
    for kind in kinds:
        for dt in DT_QUICK + ['list']:
            for _ in range(nses if kind == 'fits' else max(1, nses // 2)):
                use_ref = rng.random() < 0.5
                rewrap = rng.random() < 0.5
                ncalls = rng.randrange(1, 4)
                steps = []
                for k in range(ncalls):
                    th = rng.choice([0.0, 1e-4, -3e-4])
                    m0 = np.array([[np.cos(th), np.sin(th)], [-np.sin(th), np.cos(th)]]) * rng.choice([1.0, 1.0001])
                    s0 = np.array([rng.randrange(-64, 64) / 128.0, rng.randrange(-64, 64) / 128.0])
                    steps.append((m0, s0))
                finals = []
                ck.count('set_correction', '%s/%s%s' % (kind, dt, '/rewrapped' if rewrap else ''))
                for rep in range(2):
                    w, c, reft = build(kind, use_ref, rewrap)
                    hist = []
                    for m0, s0 in steps:
                        if dt == 'list':
                            mat, sh = m0.tolist(), s0.tolist()
                        else:
                            mat, sh = m0.astype(dt), s0.astype(dt)
                        meta = {'note': 'x', 'arr': np.array([1.0, 2.0])}
                        ok, r, rs = mon.call('%s.set_correction' % type(c).__name__,
                                             lambda matrix, shift, ref_tpwcs, meta: c.set_correction(
                                                 matrix=matrix, shift=shift, ref_tpwcs=ref_tpwcs, meta=meta, extra_kw=1),
                                             [('matrix', mat), ('shift', sh), ('ref_tpwcs', reft), ('meta', meta)],
                                             watch={'original_wcs': c.original_wcs, 'caller wcs object': w},
                                             history=hist, rows=3, result_of=lambda r: {'wcs': c.wcs},
                                             note={'scenario': 'setcorr_sessions.build', 'corrector': kind,
                                                   'ref_tpwcs': use_ref, 'dtype': dt,
                                                   'built_from_already_corrected_wcs': rewrap})
                    finals.append(rs)
                mon.same_result('%s.set_correction' % type(c).__name__, 'fresh equal objects, same %d-call sequence' % ncalls,
                                finals[0], finals[1], {'steps': [(m.tolist(), s.tolist()) for m, s in steps], 'dtype': dt,
                                                       'ref_tpwcs': use_ref})


def run_monitor(ck, broken):
    boost = set()
    for b in broken:
        boost.add(b['function'].split('.')[-1])
    mon = Monitor(ck)
    t = {}
    for name, f in (('fit', fit_sessions), ('small', small_sessions), ('match', match_sessions),
                    ('fit_wcs', fitwcs_sessions), ('align_wcs', align_sessions), ('set_correction', setcorr_sessions)):
        t0 = time.time()
        f(mon, ck, boost)
        t[name] = round(time.time() - t0, 1)
    ck.extra['monitor_seconds'] = t
    ck.extra['monitored_calls_by_entry_point'] = mon.calls_by_entry
    return mon.found
