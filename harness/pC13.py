"""C13 - align_wcs leaves a complete, truthful status on every input and no half-updates."""
import itertools
import re

import numpy as np

import align1314 as A

KINDS = ['good', 'junk', 'empty']


def summary(spec):
    return dict(images=[(im['kind'], im['gid'], 'far' if im['far'] else 'near', im.get('nrows')) for im in spec['images']],
                ref=(spec['ref']['mode'], spec['ref']['field'], spec['ref'].get('ids')), expand=spec['expand'],
                enforce=spec['enforce'], minobj=spec['minobj'], fitgeom=spec['fitgeom'], match=spec['match'],
                invalid=spec.get('invalid'))


def corpus(rng):
    """inputs of the design-phase findings e9 (F8), e6 (F5), e21 (F9)."""
    out = []

    def S(kinds, gids, ref='none', expand=False, enforce=True, **kw):
        s = A.mk_spec(rng, kinds, gids, ref, expand, enforce, far_prob=0.0, ref_field='near', **kw)
        s['tag'] = 'corpus'
        return s
    g, e, j = 'good', 'empty', 'junk'
    out += [S([g, e], [None, None]), S([e, g], [None, None]), S([e, g, g], [None] * 3), S([g, e, g], [None] * 3),
            S([g, e, g], [None] * 3, expand=True, enforce=False), S([g], [None]), S([e], [None], ref='table'),
            S([e, e, g], [1, 1, 2], ref='table'), S([e, g, g], [None] * 3, expand=True, enforce=False),
            S([g, g, e], [None] * 3, expand=True, enforce=False), S([e], [None]), S([e, e], [None, None])]
    for pos in (1, 2, 3):
        for enforce in (True, False):
            k = [g] * 4
            k[pos] = j
            out.append(S(k, [None] * 4, expand=True, enforce=enforce, minobj=12, fitgeom='rscale'))
    out.append(S([g] * 5, [None, 2, None, 2, None]))
    out.append(S([g] * 5, [None, 2, None, 2, None], ref='table', expand=True))
    return out


def invalid_specs(rng, count):
    out = []
    kinds_ref = ['bad_type', 'table_noradec', 'table_empty', 'corr_nocat']
    for t in range(count):
        n = rng.randint(1, 4)
        kinds = [rng.choice(KINDS) for _ in range(n)]
        gids = [rng.choice([None, None, 1, 2]) for _ in range(n)]
        what = ['wcscat_type', 'wcscat_elem', 'missing_catalog', 'fitgeom', 'ref', 'fitgeom+ref', 'missing+fitgeom',
                'elem+missing', 'ref+fewcats', 'single'][t % 10]
        refmode = rng.choice(['none', 'table', 'corr'])
        kw = {}
        if 'ref' in what:
            refmode = kinds_ref[(t // 10) % 4]
        if 'fitgeom' in what:
            kw['fitgeom'] = 'shift'
        if what == 'ref+fewcats':
            kinds = ['empty'] * n
        if what == 'single':
            n, kinds, gids = 1, [rng.choice(['good', 'junk'])], [rng.choice([None, 1])]
            refmode = rng.choice(['table', 'corr'])
        s = A.mk_spec(rng, kinds, gids, refmode, rng.random() < 0.5, rng.random() < 0.5, minobj=None, **kw)
        if 'fitgeom' in what:
            s['fitgeom'] = rng.choice(['bogus', 'affine', ''])
            s['minobj'] = rng.choice([None, 5, 1])       # F16: rejected up front whether or not minobj is given
            if t % 3 == 0:                              # ... also when no group would ever reach the fit
                for im in s['images']:
                    if im['kind'] == 'good':
                        im['kind'] = 'junk'
        if what in ('wcscat_type',):
            s['invalid'] = 'wcscat_type'
        elif what in ('wcscat_elem', 'elem+missing'):
            s['invalid'] = 'wcscat_elem'
            s['inv_pos'] = rng.randrange(n)
        elif what in ('missing_catalog', 'missing+fitgeom'):
            s['invalid'] = 'missing_catalog'
            s['inv_pos'] = rng.randrange(n)
        elif what == 'single':
            s['invalid'] = 'single'
        if what == 'fitgeom' and t % 20 >= 10:
            s['fitgeom'] = s['fitgeom'].upper() if s['fitgeom'] not in ('bogus', 'affine', '') else 'RSCALE'
        s['tag'] = 'invalid:' + what
        out.append(s)
    return out


def nomatch_specs(rng, count):
    """match=None: every non-empty group lists exactly the core sources in the same order as the reference."""
    out = []
    for t in range(count):
        n = rng.randint(1, 4)
        kinds = [rng.choice(['good', 'good', 'empty']) for _ in range(n)]
        # groups: ungrouped, or a good image grouped with empty ones only
        gids, gcount = [], {}
        for k in kinds:
            if k == 'empty' and rng.random() < 0.5:
                gids.append(rng.choice([1, 2]))
            else:
                gids.append(None)
        s = A.mk_spec(rng, kinds, gids, rng.choice(['none', 'table', 'table']), rng.random() < 0.5,
                      rng.random() < 0.5, far_prob=0.0, ref_field='near', minobj=rng.choice([None, 4]))
        for im in s['images']:
            im['core_only'] = True
            im['custom_ids'] = False
        # a grouped empty image may only join a group that stays empty or has one good member: keep as generated
        s['ref']['core_only'] = True
        s['match'] = 'none'
        s['tag'] = 'nomatch'
        out.append(s)
    return out


def main_specs(ck, rng):
    specs = []
    if ck.thorough:
        # exhaustive bounded family: n <= 3, every group-id assignment up to renaming, every kind pattern,
        # refcat none/table/corrector, expand x enforce
        for n in (1, 2, 3):
            for gids in A.canon_gids(n):
                for kinds in itertools.product(KINDS, repeat=n):
                    for refmode in ('none', 'table', 'corr'):
                        for expand in (False, True):
                            for enforce in (False, True):
                                s = A.mk_spec(rng, list(kinds), gids, refmode, expand, enforce)
                                s['tag'] = 'exhaustive'
                                specs.append(s)
        ck.extra['exhaustive_family'] = ('n<=3 x group ids {None,1,2,3} up to renaming x {good,junk,empty}^n x '
                                         'refcat {none,table,corrector} x expand x enforce: %d scenarios' % len(specs))
    nrand = ck.n(420, 4200)
    for t in range(nrand):
        n = rng.choice([2, 3, 4, 5, 5, 4]) if ck.thorough else rng.randint(1, 5)
        kinds = [rng.choice(['good', 'good', 'junk', 'empty']) for _ in range(n)]
        if t % 5 == 0:   # junk at every position of an otherwise good list
            kinds = ['good'] * n
            kinds[(t // 5) % n] = 'junk'
        gids = [rng.choice([None, None, 1, 2, 3]) for _ in range(n)]
        s = A.mk_spec(rng, kinds, gids, rng.choice(['none', 'none', 'table', 'corr']), rng.random() < 0.6,
                      rng.random() < 0.5)
        s['tag'] = 'random'
        specs.append(s)
    return specs


def fitfail_specs(rng, count):
    """the fit of one group raises: explicit minobj below the minimum of the geometry with too few matches
    (NotEnoughPointsError), or all matched pairs coincide (SingularMatrixError) - F17: that group FAILED:<reason>,
    everything else as usual."""
    out = []
    geoms = ['general', 'rscale', 'rshift', 'shift']
    for t in range(count):
        n = rng.randint(2, 5)
        kinds = [rng.choice(['good', 'good', 'good', 'junk', 'empty']) for _ in range(n)]
        pos = t % n
        gids = [rng.choice([None, None, None, 1, 2]) for _ in range(n)]
        fitgeom = geoms[(t // 2) % 4]
        s = A.mk_spec(rng, kinds, gids, rng.choice(['none', 'none', 'table', 'corr']), rng.random() < 0.6,
                      rng.random() < 0.5, far_prob=0.0, ref_field='near', fitgeom=fitgeom,
                      minobj=rng.choice([0, 1, 1, 2, 3, None]), allow_low_minobj=True)
        # (all catalogs in ONE sky field: a 1-2 row catalog appended to a reference 4 degrees away would make the
        # reference footprint a degenerate sliver whose overlap areas are decided by spherical_geometry's handling
        # of degenerate polygons, which the model's zero-overlap oracle does not describe)
        im = s['images'][pos]
        if t % 2 == 0:
            im['kind'] = 'coin'
            im['ncopies'] = rng.choice([2, 4]) if fitgeom != 'general' else rng.choice([2, 4, 4])
            im['coin_src'] = rng.randrange(9)
        else:
            im['kind'] = 'good'
            im['core_only'] = True
            im['nrows'] = rng.choice([1, 2, 2, 3])
        # at most one degenerate image per group, and never two of them in one group (2 distinct matched sources
        # would be exactly collinear: rounding decides whether `inv` notices - known finding K1 of C17)
        if im['gid'] is not None:
            for j, other in enumerate(s['images']):
                if j != pos and other['gid'] == im['gid'] and other['kind'] != 'empty':
                    other['gid'] = None
        if t % 3 == 0 and n < 5:     # the failing image shares its group with an empty image: both must get the status
            im['gid'] = 3
            extra = A.mk_image(rng, 'empty', 3, im['far'], (im['slot'] + 1) % len(A.SLOTS))
            s['images'].insert(rng.randrange(n + 1), extra)
        A.fix_group_fields(s['images'])
        A.sanitize_coin(s)
        s['tag'] = 'fitfail:' + ('coincident' if t % 2 == 0 else 'too-few-for-geometry')
        out.append(s)
    return out


def known_deviation_specs(rng):
    """inputs on which the unchanged code is known to deviate (see known_findings.json K13a)."""
    out = []
    # K13a: match=None with catalogs of different lengths
    for short in (5, 3):
        s = A.mk_spec(rng, ['good', 'good', 'good'], [None] * 3, 'none', False, True, far_prob=0.0, minobj=None)
        for im in s['images']:
            im['core_only'] = True
            im['custom_ids'] = False
        s['images'][2]['nrows'] = short
        s['match'] = 'none'
        s['tag'] = 'K13a:nomatch'
        out.append(s)
    # K13c: the reference holds one source several times (here: the reference image lists it 4x); the two members
    # of group 1 are both matched to that one reference position -> fitted matrix is singular -> LinAlgError from
    # set_correction escapes
    for fitgeom in ('rscale',):
        s = A.mk_spec(rng, ['coin', 'good', 'good', 'good'], [None, 1, 1, None], 'none', False, True, far_prob=0.0,
                      minobj=None, fitgeom=fitgeom)
        s['images'][0]['ncopies'] = 4
        s['tag'] = 'K13c:singular-correction'
        out.append(s)
    return out


def predicates(spec, o):
    """the property evaluated directly on the implementation's observations; returns list of failures."""
    bad = []
    n = o['n']
    keys, groups = A.group_keys(spec)
    nonempty_groups = [g for g in groups if any(len(o['rows'][i]) for i in g)]
    need = 2 if spec['ref']['mode'] == 'none' else 1
    args_ok = (spec.get('invalid') in (None, 'single') and spec['fitgeom'].lower() in A.GEOM_MIN and
               spec['ref']['mode'] in ('none', 'table', 'corr'))
    if spec.get('invalid') == 'single':
        groups = groups[:1]
        nonempty_groups = [g for g in groups if any(len(o['rows'][i]) for i in g)]
    if o['exc']:
        if any(o['ncorr']) or any(o['moved']):
            bad.append('exception raised after a WCS was modified')
        if o['exc'] == 4 and (not args_ok or len(nonempty_groups) >= need):
            bad.append('NotEnoughCatalogs although there are enough non-empty groups / invalid arguments')
        if o['exc'] != 4 and args_ok:
            bad.append('unexpected exception for valid arguments: %s' % o['exc_text'])
        return bad
    if not args_ok:
        bad.append('invalid arguments did not raise')
        return bad
    if len(nonempty_groups) < need:
        bad.append('too few non-empty catalogs did not raise NotEnoughCatalogs')
    idx = range(n) if spec.get('invalid') != 'single' else range(1)
    for i in idx:
        if o['st'][i] not in (1, 2, 3, 4, 5):
            bad.append('input %d has no valid status: %r' % (i, o['status'][i]))
    refgroups = [g for g in groups if all(o['st'][i] == 1 for i in g)]
    anyref = any(o['st'][i] == 1 for i in idx)
    if spec['ref']['mode'] == 'none':
        if len(refgroups) != 1 or sum(1 for i in idx if o['st'][i] == 1) != len(refgroups[0]):
            bad.append('not exactly one REFERENCE group although no reference catalog was given')
    elif anyref:
        bad.append('REFERENCE status although a reference catalog was given')
    if not o['members_share']:
        bad.append('members of a group do not share identical fit results')
    for i in idx:
        if o['st'][i] == 2:
            if o['ncorr'][i] != 1:
                bad.append('SUCCESS input %d corrected %d times' % (i, o['ncorr'][i]))
        elif o['ncorr'][i] != 0 or o['moved'][i]:
            bad.append('input %d (%s) was corrected/moved' % (i, o['status'][i]))
    return bad


def run(ck):
    A._tw()
    ck.props()
    rng = ck.rng
    ck.rule = ('scenarios = list of 1..5 FITS-WCS correctors x group ids {None,1,2,3} x catalogs {good, junk, empty} '
               '(+ near/far field) x refcat {none, table, corrector; near/far/both fields; with/without id column} x '
               'expand x enforce x minobj {None,4,10,14,19} x fitgeom x nclip {0,3}, scripted matcher; plus streams of '
               'invalid arguments (every check, alone and combined, in code order; unsupported fitgeom with and '
               'without explicit minobj), match=None, fits that raise (minobj 0..3 below the minimum of the geometry '
               'with 1..3 matches; 2..4 coincident matched pairs for every geometry) at every position, the corpus of findings '
               'e6/e9/e21. quick: random sample; thorough: exhaustive over n<=3 (see details.exhaustive_family) + '
               'random n=2..5. A case is non-trivial when it has >= 2 inputs and (an exception is raised, or two '
               'different status classes occur, or a group has >= 2 members); distinct by full scenario content.')
    ck.notes += ['set_correction counts and sky grids (5x5 det_to_world, compared bit for bit) are taken with a '
                 'FITSWCSCorrector subclass; JWST/gWCS correctors are not driven here (C01-C05 cover them)',
                 'alignment order under enforce_user_order=False is not re-derived (property C15): the model is driven '
                 'with the order observed on the implementation (matcher call sequence) and checks only that it is a '
                 'valid order; under user order the model predicts the order and it is compared',
                 'the scripted matcher pairs rows by source identity; overlap area 0 <=> different sky field is a '
                 'construction of the scenario generator (two fields 4 degrees apart; every good catalog contains '
                 'the core sources of its field; members of a group lie in one field)',
                 'match=None scenarios use equal-length, equally ordered catalogs; unequal lengths are known finding '
                 'K13a. Exactly degenerate matched sets other than coincident points (e.g. 2 distinct collinear '
                 'sources for general) are not generated: whether linalg.inv notices them is C17 / K1']
    specs = (corpus(rng) + main_specs(ck, rng) + invalid_specs(rng, ck.n(60, 600)) + nomatch_specs(rng, ck.n(30, 300)) +
             fitfail_specs(rng, ck.n(96, 1200)))
    kd = known_deviation_specs(rng)
    if ck.replay_in:      # ./check C13 --replay <file>: re-run exactly the scenario stored in the replay
        import json
        rp = json.load(open(ck.replay_in))
        if 'spec' in rp:
            rs = rp['spec']
            rs.setdefault('tag', 'replay')
            specs, kd = ([], [rs]) if rp.get('kind') == 'known-deviation-stream' else ([rs], [])
    obs = A.run_many(specs + kd, A.nproc_default(ck.thorough))
    obs, obs_kd = obs[:len(specs)], obs[len(specs):]
    cases, keep, pred_fail = [], [], []
    for s, o in zip(specs, obs):
        if 'harness_error' in o:
            ck.violation({'kind': 'harness-error', 'scenario': summary(s), 'traceback': o['harness_error']}, no_input=True)
            continue
        if s['match'] == 'none':
            # domain of match=None: all live groups have as many rows as the reference
            keys, groups = A.group_keys(s)
            lens = set(sum(len(o['rows'][i]) for i in g) for g in groups) - {0}
            if len(lens) > 1:
                ck.discard('match=None scenario with unequal catalog lengths')
                continue
        if (any(im.get('nrows') is not None and im['nrows'] <= 3 for im in s['images'])
                and any(im['kind'] == 'junk' for im in s['images'])):
            # a 1..3-row catalog has a footprint so small that it may miss the (smaller than a chip) footprint of a
            # junk catalog in the SAME field: zero overlap there is outside the model's "zero overlap <=> other field"
            ck.discard('small (<= 3 rows) catalog together with a junk catalog in one field (outside the zero-overlap oracle)')
            continue
        ck.count('stream', s.get('tag', '?'))
        ck.count('n_inputs', len(s['images']))
        ck.count('refcat', s['ref']['mode'])
        ck.count('expand/enforce', '%s/%s' % (s['expand'], s['enforce']))
        ck.count('outcome', 'exc%d' % o['exc'] if o['exc'] else 'st' + ''.join(sorted(set(str(v) for v in o['st']))))
        keys, groups = A.group_keys(s)
        nontriv = len(s['images']) >= 2 and (o['exc'] != 0 or len(set(o['st'])) >= 2 or any(len(g) > 1 for g in groups))
        ck.case(A.spec_key(s), nontriv)
        if len(ck.samples) < 4 and nontriv:
            ck.sample({'scenario': summary(s), 'exception': o['exc_text'], 'status': o['status'],
                       'set_correction_calls': o['ncorr'], 'order': o['order']})
        ck.search_evaluations += 1
        pred_fail.append(list(dict.fromkeys(predicates(s, o))))
        cases.append(A.coq_case13(s, o))
        keep.append((s, o))
    bad = ck.coq_agree('scripted', ['AlignModel', 'AlignWorld', 'C13Corr'], 'case13', 'agree13', cases, show='show13')
    shown = dict(ck.last_shown)
    order_only = set()
    if bad:
        # is the disagreement in the order only (C15's domain, no C13 failure)?
        sub = [A.coq_case13(keep[i][0], keep[i][1]).replace('k_order_obs := true', 'k_order_obs := false') for i in bad]
        still = set(ck.coq_agree('recheck_without_order', ['AlignModel', 'AlignWorld', 'C13Corr'], 'case13', 'agree13', sub))
        order_only = set(bad[k] for k in range(len(bad)) if k not in still)
        for sh in ck._shards:
            if sh[0] == 'recheck_without_order':
                sh[2].clear()
    # known finding K13c, exact input class: the model says the fit of the group that was being aligned is degenerate
    # (status code 5 for its members) and the implementation let LinAlgError('Singular matrix.') escape instead
    k13c = set()
    for i in bad:
        s, o = keep[i]
        if 'LinAlgError: Singular matrix' in (o['exc_text'] or '') and o['order'] and i in shown:
            m = re.search(r'\[([^\]]*)\]', shown[i])
            codes = [int(v) for v in re.findall(r'\d+', m.group(1))] if m else []
            g = o['order'][-1]
            if codes and all(j < len(codes) and codes[j] == 5 for j in g):
                k13c.add(i)
    for i, msgs in enumerate(pred_fail):
        s, o = keep[i]
        for msg in msgs:
            ck.violation({'kind': 'property-predicate-failed', 'what': msg, 'scenario': summary(s), 'spec': s,
                          'observed': {k: o[k] for k in ('exc_text', 'status', 'ncorr', 'moved', 'order', 'members_share')},
                          'predicate': 'C13 text evaluated on the implementation (harness/pC13.py predicates())'},
                         known_id='K13c' if i in k13c else None)
    for i in bad:
        s, o = keep[i]
        rp = {'kind': 'implementation-disagrees-with-model', 'scenario': summary(s), 'spec': s,
              'observed': {'exception': o['exc_text'], 'exc_class': o['exc'], 'stage': o['stage'], 'status': o['status'],
                           'status_codes': o['st'], 'set_correction_calls': o['ncorr'], 'order': o['order']},
              'model (exc, stage, status codes, corrections, order)': shown.get(i, 'n/a'),
              'predicate': 'agree13 of coq/Corr/C13Corr.v (codes documented there)'}
        if i in k13c:
            ck.violation(rp, known_id='K13c', corr=('scripted', i))
        else:
            ck.violation(rp, no_input=(i in order_only))

    # ---- inputs on which the unchanged code is known to deviate
    for s, o in zip(kd, obs_kd):
        if 'harness_error' in o:
            ck.violation({'kind': 'harness-error', 'scenario': summary(s), 'traceback': o['harness_error']}, no_input=True)
            continue
        ck.search_evaluations += 1
        ck.count('stream', s['tag'])
        rp = {'kind': 'known-deviation-stream', 'scenario': summary(s), 'spec': s,
              'observed': {k: o[k] for k in ('exc_text', 'status', 'ncorr', 'moved')}}
        if o['exc']:
            txt = o['exc_text'] or ''
            kid = None
            if s['tag'].startswith('K13a') and s['match'] == 'none' and o['exc'] == 2 and 'equal lengths' in txt:
                kid = 'K13a'
            elif s['tag'].startswith('K13c') and 'LinAlgError: Singular matrix' in txt:
                kid = 'K13c'
            rp['what'] = ('exception escaped align_wcs for valid arguments (%s); inputs already corrected: %s; inputs '
                          'without fit_info: %s' % (txt, [i for i, m in enumerate(o['moved']) if m],
                                                    [i for i, v in enumerate(o['st']) if v == 0]))
            ck.violation(rp, known_id=kid)
        elif not o['exc'] and any(v not in (1, 2, 3, 4, 5) for v in o['st']):
            rp['what'] = 'input without valid status'
            ck.violation(rp)
    ck.trusted += ['scenario engine harness/align1314.py: scripted matcher (source identities), counting corrector '
                   'subclass, mapping of exception messages to check stages, two-field construction of zero overlap']

    extra_streams(ck)
    tiny_correction_stream(ck)


def extra_streams(ck):
    """two streams evaluated with direct predicates only (outside the two-field world of the Coq model):
    (1) three or four images in mutually DISJOINT sky fields without a reference catalog: exactly one whole group is
        the REFERENCE, nothing is corrected, everything else FAILED;
    (2) an invalid `sigma` argument: align_wcs raises and no input has been modified - also when the first group to be
        aligned has exactly the minimum number of matched sources for the fit geometry."""
    import gen_align as GA
    from astropy.table import Table
    T = A._tw()
    rng = ck.rng
    nprng = np.random.default_rng(rng.randrange(2 ** 31))
    # (1)
    for t in range(ck.n(16, 160)):
        n = 3 + t % 2
        cors = []
        for k in range(n):
            cen = (60.0 + 7.0 * k, -20.0 + 9.0 * k)
            ra, dec = GA.separated_sources(nprng, 25, 0.004, 14e-5, center=cen)
            wt = GA.mkwcs(crval=cen, rot=float(nprng.uniform(0, 360)))
            x, y, _ = GA.observe(wt, ra, dec)
            wg = GA.mkwcs(crval=(cen[0] + 1e-5, cen[1] - 1e-5), rot=float(nprng.uniform(0, 360)))
            meta = {'catalog': Table([x, y], names=('x', 'y')), 'name': 'im%d' % k}
            if t % 4 == 3 and k >= n - 2:
                meta['group_id'] = 'g'
            cors.append(T['Counting'](wg, meta=meta))
        if t % 4 == 3:
            # members of the group share a field
            cors[-1] = T['Counting'](cors[-2].wcs.deepcopy(), meta={'catalog': cors[-2].meta['catalog'].copy(),
                                                                   'name': 'im%d' % (n - 1), 'group_id': 'g'})
        expand, enforce = bool(t % 2), bool((t // 2) % 2)
        before = [A.sky(c) for c in cors]
        ck.search_evaluations += 1
        ck.count('stream', 'disjoint fields')
        rp = {'stream': 'disjoint fields, refcat=None', 'n_images': n, 'expand_refcat': expand, 'enforce_user_order': enforce,
              'group_of_last_two': t % 4 == 3,
              'how': 'align_wcs(n FITS correctors in sky fields ~10 degrees apart, refcat=None, match=nearest-neighbour oracle)'}
        try:
            T['align_wcs'](cors, refcat=None, expand_refcat=expand, enforce_user_order=enforce, fitgeom='rscale',
                           match=GA.oracle_matcher(3.0, seed=t))
        except Exception as e:   # noqa: BLE001
            rp.update(kind='align_wcs-raised-on-valid-input', exception=repr(e))
            ck.violation(rp)
            continue
        st = [c.meta.get('fit_info', {}).get('status') for c in cors]
        nref = sum(1 for v in st if v == 'REFERENCE')
        groups_ref = nref == (2 if (t % 4 == 3 and st[-1] == 'REFERENCE') else 1)
        okst = all(isinstance(v, str) and (v == 'REFERENCE' or v.startswith('FAILED')) for v in st)
        untouched = all(c.ncorr == 0 for c in cors) and all(A.sky(c) == b0 for c, b0 in zip(cors, before))
        ck.case(('disjoint', t), True)
        if not (groups_ref and okst and untouched):
            rp.update(kind='disjoint-fields-statuses', status=st, set_correction_calls=[c.ncorr for c in cors],
                      predicate='exactly one whole group REFERENCE; every other input FAILED; no WCS changed')
            ck.violation(rp)
    # (2)
    for t in range(ck.n(18, 180)):
        geom = ['shift', 'rscale', 'general'][t % 3]
        kmin = {'shift': 1, 'rscale': 2, 'general': 3}[geom]
        bad_sigma = [(3.0, 'median'), (0.0, 'rmse'), (-2.0, 'mae'), (3.0, 'RMS')][(t // 3) % 4]
        spec = {'wseed': t % 4, 'images': [
            dict(kind='good', gid=None, far=False, slot=0, core_only=True, nrows=(kmin if t % 2 == 0 else None)),
            dict(kind='good', gid=None, far=False, slot=1, keep=0.8, cseed=t)],
            'ref': dict(mode='table', field='near', ids='none', core_only=True), 'expand': bool(t % 2), 'enforce': True,
            'fitgeom': geom, 'minobj': None, 'match': 'scripted', 'nclip': 3}
        B = A.build(spec)
        cors = B['cors']
        before = [A.sky(c) for c in cors]
        matcher = T['Scripted'](B['key2sid'])
        ck.search_evaluations += 1
        ck.count('stream', 'invalid sigma')
        exc = None
        try:
            T['align_wcs'](list(cors), refcat=B['refcat'], expand_refcat=spec['expand'], enforce_user_order=True,
                           fitgeom=geom, minobj=None, nclip=3, sigma=bad_sigma, match=matcher)
        except Exception as e:   # noqa: BLE001
            exc = e
        moved = [A.sky(c) != b0 for c, b0 in zip(cors, before)]
        ck.case(('invalid-sigma', t), True)
        if exc is None or any(moved) or any(c.ncorr for c in cors):
            ck.violation({'kind': 'invalid-sigma-not-rejected-before-any-change', 'sigma': list(bad_sigma), 'fitgeom': geom,
                          'first_image_matched_sources': kmin if t % 2 == 0 else 'all core sources',
                          'exception': None if exc is None else repr(exc), 'inputs_modified': moved,
                          'set_correction_calls': [c.ncorr for c in cors],
                          'status': [c.meta.get('fit_info', {}).get('status') for c in cors],
                          'predicate': 'align_wcs raises for an invalid sigma and no input WCS has been modified',
                          'spec': spec})


def tiny_correction_stream(ck):
    """a fitted correction within 1e-5 of the identity is a correction like any other: every member of the group gets
    exactly one set_correction call and moves by the requested amount (WCSGroupCatalog.apply_affine_to_wcs, the step
    align_to_ref performs for a SUCCESS)."""
    import gen_align as GA
    from astropy.table import Table
    from tweakwcs.wcsimage import WCSImageCatalog, WCSGroupCatalog
    T = A._tw()
    rng = ck.rng
    for t in range(ck.n(12, 120)):
        nmem = 1 + t % 3
        ims, cors = [], []
        for k in range(nmem):
            c = T['Counting'](GA.mkwcs(crval=(82.0 + 0.002 * k, 12.0 - 0.001 * k), rot=17.0 * k + t),
                              meta={'name': 'm%d' % k})
            cors.append(c)
            ims.append(WCSImageCatalog(Table([[10.0, 900.0, 400.0], [20.0, 100.0, 950.0]], names=('x', 'y')), c, name='m%d' % k))
        grp = WCSGroupCatalog(ims, name='grp')
        tp = cors[0].copy()
        j = rng.choice([-8, -5, 3, 6, 8])
        kind = ['pure scale', 'tiny shift only', 'tiny general'][t % 3]
        if kind == 'pure scale':
            M, s = [[1.0 + j * 2.0 ** -20, 0.0], [0.0, 1.0 + j * 2.0 ** -20]], [0.0, 0.0]
        elif kind == 'tiny shift only':
            M, s = [[1.0, 0.0], [0.0, 1.0]], [j * 2.0 ** -30, -j * 2.0 ** -31]
        else:
            M, s = [[1.0 + j * 2.0 ** -20, 2.0 ** -22], [-2.0 ** -21, 1.0 - j * 2.0 ** -21]], [2.0 ** -30, 0.0]
        before = [A.sky(c) for c in cors]
        x = np.array([0.0, 1023.0, 512.0])
        y = np.array([0.0, 0.0, 1023.0])
        exp = []
        for c in cors:
            px, py = tp.world_to_tanp(*c.det_to_world(x, y))
            q_ = np.dot(np.array(M), np.array([px, py])) + np.array(s)[:, None]
            exp.append(tp.tanp_to_world(q_[0], q_[1]))
        ck.search_evaluations += 1
        ck.count('stream', 'tiny correction')
        grp.apply_affine_to_wcs(tp, np.array(M), np.array(s))
        ck.case(('tiny-correction', t), True)
        calls = [c.ncorr for c in cors]
        err = 0.0
        for c, (era, edec) in zip(cors, exp):
            ra, dec = c.det_to_world(x, y)
            err = max(err, float(np.max(np.hypot((np.asarray(ra) - era) * np.cos(np.deg2rad(12.0)), np.asarray(dec) - edec))) * 3600.0)
        want = float(max(abs(j) * 2.0 ** -20 * 1023 * 1.5 * 0.036, 1e-9)) if kind != 'tiny shift only' else 0.0
        if calls != [1] * nmem or (kind != 'tiny shift only' and not err <= 0.02 * want + 1e-7):
            ck.violation({'kind': 'correction close to the identity not applied exactly once to every member',
                          'matrix': M, 'shift': s, 'members': nmem, 'set_correction_calls': calls,
                          'largest distance (arcsec) between the corrected and the requested corner positions': err,
                          'size of the requested displacement at the corners (arcsec), about': want,
                          'call': 'WCSGroupCatalog(members).apply_affine_to_wcs(ref_tpwcs, matrix, shift)'})
