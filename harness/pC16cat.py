"""C16 part (ii): bounding polygons of WCSImageCatalog / WCSGroupCatalog / RefCatalog and overlap areas,
measured on the implementation (spherical_geometry is external: predicate evaluation only)."""
import math

import numpy as np

ARCSEC = math.pi / 180.0 / 3600.0
INWARD = 1e-6          # sources are moved this (relative) amount toward the centroid of their own member
OUTWARD = 1e-3         # probe points are placed this (relative) amount outside the hull of the sources
AREA_RTOL = 1e-4
BOX_RTOL = 0.25
MIN_WIDTH_PX = 10.0   # thinner hulls are below the resolution of spherical_geometry (declared degenerate)

# (ra, dec) of the field centres: RA wrap at 0/360 and at 180, |dec| up to 89 deg
SKY = [(82.0, 12.0), (0.0, 0.0), (359.9999, 10.0), (0.0001, -20.0), (180.0, 0.0), (179.999, 45.0),
       (180.001, -60.0), (180.0, 88.5), (170.0, 88.5), (200.0, -88.5), (180.0, 80.0), (180.0, 60.0),
       (10.0, 89.0), (300.0, -89.0), (0.0, 85.0), (359.99, -85.0), (270.0, 30.0), (45.0, -45.0),
       (181.0, 30.0), (179.9, -10.0), (90.0, 0.0), (0.0, 45.0)]


# ------------------------------------------------------------------------------------------- geometry helpers
def s2c(ra, dec):
    ra, dec = np.deg2rad(np.asarray(ra, dtype=float)), np.deg2rad(np.asarray(dec, dtype=float))
    return np.stack([np.cos(dec) * np.cos(ra), np.cos(dec) * np.sin(ra), np.sin(dec)], axis=-1)


def c2s(v):
    v = np.asarray(v, dtype=float)
    ra = np.rad2deg(np.arctan2(v[..., 1], v[..., 0])) % 360.0
    dec = np.rad2deg(np.arctan2(v[..., 2], np.hypot(v[..., 0], v[..., 1])))
    return ra, dec


def unit(v):
    return v / np.linalg.norm(v, axis=-1, keepdims=True)


def centroid(v):
    return unit(np.mean(v, axis=0))


def inward(v, c, f=INWARD):
    return unit((1.0 - f) * v + f * c)


def angsep(a, b):
    return float(np.arctan2(np.linalg.norm(np.cross(a, b)), np.dot(a, b)))


def gnomonic(v, c):
    """plane coordinates of unit vectors v in the plane tangent at c (great circles -> straight lines)"""
    z = np.array([0.0, 0.0, 1.0]) if abs(c[2]) < 0.9 else np.array([1.0, 0.0, 0.0])
    e1 = unit(np.cross(z, c))
    e2 = np.cross(c, e1)
    d = v @ c
    return np.stack([(v @ e1) / d, (v @ e2) / d], axis=-1), (e1, e2)


def ungnomonic(xy, c, basis):
    e1, e2 = basis
    return unit(c[None, :] + xy[:, :1] * e1[None, :] + xy[:, 1:] * e2[None, :])


def _cr(o, a, p):
    return (a[0] - o[0]) * (p[1] - o[1]) - (a[1] - o[1]) * (p[0] - o[0])


def planar_hull(xy):
    """reference monotone chain (floats), CCW, not closed"""
    P = sorted(set((float(x), float(y)) for x, y in xy))
    if len(P) <= 2:
        return P
    lo, up = [], []
    for p in P:
        while len(lo) >= 2 and _cr(lo[-2], lo[-1], p) <= 0:
            lo.pop()
        lo.append(p)
    for p in reversed(P):
        while len(up) >= 2 and _cr(up[-2], up[-1], p) <= 0:
            up.pop()
        up.append(p)
    return lo[:-1] + up[:-1]


def convex_overlap(P, Q, eps=0.0):
    """do two convex CCW polygons (lists of points) overlap? separating axis test over the edges of both"""
    if len(P) < 3 or len(Q) < 3:
        return False
    for A, B in ((P, Q), (Q, P)):
        n = len(A)
        for i in range(n):
            a, b2 = A[i], A[(i + 1) % n]
            if all(_cr(a, b2, q) <= eps for q in B):
                return False
    return True


def outside_probes(v_all, c):
    """points just outside the convex hull of the sources (beyond every hull vertex and edge mid-point)"""
    xy, basis = gnomonic(v_all, c)
    H = planar_hull(xy)
    if len(H) < 3:
        return np.zeros((0, 3)), H
    cx, cy = np.mean([h[0] for h in H]), np.mean([h[1] for h in H])
    pts = []
    for i, h in enumerate(H):
        g = H[(i + 1) % len(H)]
        for px, py in (h, ((h[0] + g[0]) / 2, (h[1] + g[1]) / 2)):
            pts.append((cx + (1 + OUTWARD) * (px - cx), cy + (1 + OUTWARD) * (py - cy)))
    return ungnomonic(np.array(pts), c, basis), H


def contains(poly, v):
    ra, dec = c2s(v)
    return bool(poly.contains_radec(float(ra), float(dec)))


def poly_vertices(poly):
    out = []
    for ra, dec in poly.to_radec():
        out.append([list(map(float, ra)), list(map(float, dec))])
    return out


# ------------------------------------------------------------------------------------------- object builders
def mkwcs(crval, rot, scale=1e-5, shape=(1024, 1024)):
    from astropy import wcs as fitswcs
    from tweakwcs.linearfit import build_fit_matrix
    w = fitswcs.WCS(naxis=2)
    w.wcs.cd = build_fit_matrix(rot, scale)
    w.wcs.crval = [float(crval[0]) % 360.0, float(crval[1])]
    w.wcs.crpix = [shape[0] / 2.0, shape[1] / 2.0]
    w.wcs.ctype = ['RA---TAN', 'DEC--TAN']
    w.pixel_shape = list(shape)
    w.wcs.set()
    return w


def rand_xy(rng, n, lo=1.0, hi=1022.0):
    return ([lo + (hi - lo) * rng.random() for _ in range(n)], [lo + (hi - lo) * rng.random() for _ in range(n)])


def offset_crval(crval, dx_deg, dy_deg):
    """shift a field centre by (dx, dy) degrees on the sky (dx along RA measured as true angle)"""
    dec = max(-89.5, min(89.5, crval[1] + dy_deg))
    return ((crval[0] + dx_deg / max(math.cos(math.radians(crval[1])), 1e-3)) % 360.0, dec)


def hull_width(xy):
    """smallest width of the convex hull of the points (0 for collinear sets)"""
    H = planar_hull(xy)
    if len(H) < 3:
        return 0.0
    best = float('inf')
    for i in range(len(H)):
        a, b2 = H[i], H[(i + 1) % len(H)]
        L = math.hypot(b2[0] - a[0], b2[1] - a[1])
        best = min(best, max(_cr(a, b2, p) for p in H) / L)
    return best


class Member:
    """one image catalog with its sources on the sky"""
    slivers = 0

    def __init__(self, rng, crval, n, name, rot=None):
        from astropy.table import Table
        from tweakwcs import FITSWCSCorrector
        from tweakwcs.wcsimage import WCSImageCatalog
        self.crval = crval
        self.rot = rng.random() * 360.0 if rot is None else rot
        self.x, self.y = rand_xy(rng, n)
        while 3 <= n <= 6 and hull_width(list(zip(self.x, self.y))) < MIN_WIDTH_PX:
            Member.slivers += 1
            self.x, self.y = rand_xy(rng, n)
        self.im = WCSImageCatalog(Table([self.x, self.y], names=('x', 'y')),
                                  FITSWCSCorrector(mkwcs(crval, self.rot)), name=name)
        ra, dec = self.im.det_to_world(np.array(self.x), np.array(self.y))
        self.v = s2c(ra, dec)
        self.c = centroid(self.v)
        self.nhull = (len(self.im.bb_radec[0]) - 1) if n >= 3 else None

    def describe(self):
        return {'crval': list(self.crval), 'rot_deg': self.rot, 'scale_deg_per_pix': 1e-5, 'shape': [1024, 1024],
                'x': self.x, 'y': self.y}


# ------------------------------------------------------------------------------------------- the checks
def check_containment(ck, kind, poly, members_v, replay, classify=None):
    """every source, moved INWARD toward the centroid of its own member's sources, is inside `poly`;
    probe points just outside the hull of all sources are not. Returns True when the predicate holds."""
    ck.search_evaluations += 1
    n_out, n_tot = 0, 0
    for v in members_v:
        c = centroid(v)
        for k in range(len(v)):
            n_tot += 1
            if not contains(poly, inward(v[k], c) if len(v) > 1 else v[k]):
                n_out += 1
    v_all = np.concatenate(members_v, axis=0)
    n_far = 0
    if replay.get('tightness', True) and len(v_all) >= 3:
        probes, H = outside_probes(v_all, centroid(v_all))
        for p in probes:
            if contains(poly, p):
                n_far += 1
    if n_out == 0 and n_far == 0:
        return True
    rp = dict(replay)
    rp.update({'kind': 'bounding-polygon-' + kind,
               'observed': '%d of %d sources outside the bounding polygon; %d probe points %.0e (relative) outside '
                           'the hull of the sources are inside it' % (n_out, n_tot, n_far, OUTWARD),
               'polygon_area_sr': float(abs(poly.area())), 'polygon_radec': poly_vertices(poly)[:3],
               'predicate': 'contains_radec(source moved 1e-6 toward the centroid of its own member) for every '
                            'source; not contains_radec(point 1e-3 outside the convex hull of all sources)'})
    known = classify() if classify else None
    if known:
        rp['known_class'] = known
        ck.violation(rp, known_id='K2')
    else:
        ck.violation(rp)
    return False


def part_images(ck, rng):
    from astropy.table import Table  # noqa: F401
    N = ck.n(60, 700)
    pool = []
    for t in range(N):
        crval = SKY[t % len(SKY)]
        n = [3, 4, 5, 8, 20, 60, 1, 2, 3, 6][t % 10]
        m = Member(rng, crval, n, 'im%d' % t)
        ck.count('catalog_kind', 'image')
        ck.count('image_sources', n)
        ck.count('sky', '%g,%g' % crval)
        rp = {'object': 'WCSImageCatalog', 'member': m.describe(), 'tightness': n >= 3,
              'how': "WCSImageCatalog(Table([x, y], names=('x','y')), FITSWCSCorrector(<TAN wcs: crval, "
                     "CD=build_fit_matrix(rot, scale), crpix=(512,512), pixel_shape=(1024,1024)>))"}
        ok = check_containment(ck, 'image', m.im.polygon, [m.v], rp)
        ck.case(('image', m.x, m.y, crval, m.rot), n >= 3)
        if n >= 3:
            pool.append(m)
        if t < 2:
            ck.sample({'object': 'WCSImageCatalog', 'crval': list(crval), 'sources': n, 'hull_vertices': m.nhull,
                       'all_sources_inside': ok})
    return pool


def part_groups(ck, rng):
    from tweakwcs.wcsimage import WCSGroupCatalog
    N0 = ck.n(60, 800)
    N = N0 + ck.n(40, 300)
    policies = ['auto', 'exact', 0, 1, 2, 3, 100]
    pool = []
    for t in range(N):
        crval = SKY[(t * 5 + 1) % len(SKY)]
        k = [1, 2, 3, 3, 4, 5, 2, 3, 6, 8][t % 10] if ck.thorough else [1, 2, 3, 3, 4, 2, 3, 5][t % 8]
        layout = ['overlap', 'mosaic', 'overlap', 'mosaic', 'far'][t % 5]
        small = (t % 7 == 3)          # the K2 input class: members with 3 or 4 sources
        bp = policies[t % len(policies)]
        if t >= N0:                   # dedicated K2 stream (probe e27): three overlapping 3-source images
            k, layout, small, bp = 3, 'overlap', True, ['exact', 'auto', 100][t % 3]
        members = []
        for i in range(k):
            if layout == 'overlap' and t >= N0:
                cv = offset_crval(crval, 0.003 * i, 0.002 * i)
            elif layout == 'overlap':
                cv = offset_crval(crval, 0.003 * i * rng.random(), 0.002 * i * rng.random())
            elif layout == 'mosaic':       # side by side like detector chips (1024 px * 1e-5 deg = 0.01024 deg)
                cv = offset_crval(crval, 0.0125 * (i % 3), 0.0125 * (i // 3))
            else:
                cv = offset_crval(crval, 0.05 * i, -0.03 * i)
            n = (3 if t >= N0 else rng.choice([3, 4])) if small else rng.choice([6, 8, 10, 15, 30])
            rot = rng.random() * 360.0 if layout != 'mosaic' else 20.0
            members.append(Member(rng, cv, n, 'g%d_%d' % (t, i), rot=rot))
        g = WCSGroupCatalog([m.im for m in members], name='g%d' % t, bb_policy=bp)
        thr = {'auto': 50, 'exact': float('inf')}.get(bp, bp)
        exact_path = not (len(members) > thr)
        ck.count('catalog_kind', 'group')
        ck.count('bb_policy', bp)
        ck.count('group_size', k)
        ck.count('group_layout', layout)
        ck.count('group_polygon_path', 'multi_union' if exact_path else 'approximate (hull of member polygons)')

        def overlap_info():
            v_all = np.concatenate([m.v for m in members], axis=0)
            c = centroid(v_all)
            hulls = []
            for m in members:
                xy, _ = gnomonic(m.v, c)
                hulls.append(planar_hull(xy))
            return any(convex_overlap(hulls[i], hulls[j]) for i in range(k) for j in range(i + 1, k))

        def classify():
            # K2: group catalog built by multi_union AND members overlap AND (some member hull has <= 4 vertices OR
            # the library itself, called directly on the member polygons, returns an inverted polygon - one that
            # contains the point antipodal to the sources)
            if not (exact_path and overlap_info()):
                return None
            if any(m.nhull is not None and m.nhull <= 4 for m in members):
                return ('WCSGroupCatalog via SphericalPolygon.multi_union; member hull vertex counts %s; member '
                        'hulls overlap' % [m.nhull for m in members])
            try:
                from spherical_geometry.polygon import SphericalPolygon
                u_ = SphericalPolygon.multi_union([m.im.polygon for m in members])
                anti = -centroid(np.concatenate([m.v for m in members], axis=0))
                if contains(u_, anti) and all(not contains(m.im.polygon, anti) for m in members):
                    return ('SphericalPolygon.multi_union called directly on the member polygons returns an inverted '
                            'polygon (contains the antipode of the sources, which no member polygon contains); member '
                            'hull vertex counts %s; member hulls overlap' % [m.nhull for m in members])
            except Exception:       # noqa: BLE001
                pass
            return None

        rp = {'object': 'WCSGroupCatalog', 'bb_policy': bp, 'members': [m.describe() for m in members],
              'member_hull_vertices': [m.nhull for m in members], 'layout': layout,
              'how': 'WCSGroupCatalog([WCSImageCatalog(...) for each member], bb_policy=bb_policy)'}
        ok = check_containment(ck, 'group', g.polygon, [m.v for m in members], rp, classify)
        ck.case(('group', bp, [(m.x, m.y, m.crval) for m in members]), k >= 2 and not small)
        pool.append((g, members, layout, ok))
        if t < 2:
            ck.sample({'object': 'WCSGroupCatalog', 'bb_policy': bp, 'members': k, 'layout': layout,
                       'member_hull_vertices': [m.nhull for m in members], 'all_sources_inside': ok})
    # --- the documented fall-back: when spherical_geometry gives up on the union (MalformedPolygonError) the group's
    #     footprint is the convex hull of its sources. The library fault is simulated (multi_union made to raise).
    from tweakwcs import wcsimage as _wi
    orig_union = _wi.SphericalPolygon.multi_union

    def _raise(*a, **k):
        raise _wi.MalformedPolygonError('simulated by the harness')
    _wi.SphericalPolygon.multi_union = staticmethod(_raise)
    try:
        for t in range(ck.n(12, 100)):
            crval = SKY[(t * 7 + 3) % len(SKY)]
            k = [2, 3, 4][t % 3]
            members = []
            for i in range(k):
                cv = (offset_crval(crval, 0.003 * i * rng.random(), 0.002 * i * rng.random()) if t % 2
                      else offset_crval(crval, 0.0125 * (i % 3), 0.0125 * (i // 3)))
                members.append(Member(rng, cv, rng.choice([6, 8, 10, 15]), 'f%d_%d' % (t, i)))
            ck.count('catalog_kind', 'group (union fall-back)')
            rp = {'object': 'WCSGroupCatalog', 'bb_policy': 'exact', 'members': [m.describe() for m in members],
                  'how': 'SphericalPolygon.multi_union patched to raise MalformedPolygonError; '
                         'WCSGroupCatalog([...], bb_policy="exact")'}
            try:
                g = WCSGroupCatalog([m.im for m in members], name='f%d' % t, bb_policy='exact')
            except Exception as e:       # noqa: BLE001
                rp.update(kind='group-footprint-fall-back-failed', exception=repr(e))
                ck.violation(rp)
                continue
            check_containment(ck, 'group-fall-back', g.polygon, [m.v for m in members], rp)
            ck.case(('group-fallback', [(m.x, m.y, m.crval) for m in members]), True)
    finally:
        _wi.SphericalPolygon.multi_union = orig_union
    return pool


def make_refcat(ra, dec, tol):
    from astropy.table import Table
    from tweakwcs.wcsimage import RefCatalog
    return RefCatalog(Table([list(ra), list(dec)], names=('RA', 'DEC')), name='ref', footprint_tol=tol)


def part_refcats(ck, rng):
    from astropy.table import Table
    N = ck.n(110, 1200)
    pool = []
    for t in range(N):
        crval = SKY[(t * 3 + 2) % len(SKY)]
        n = [1, 2, 3, 2, 10, 1, 2, 50, 4, 2][t % 10]
        tol = [1.0, 0.5, 10.0, 30.0, 1.0][t % 5]
        w = mkwcs(crval, rng.random() * 360.0)
        if n == 2:
            # separations from 0.02 to 40 arcsec (1 px = 0.036 arcsec), any direction incl. axis-aligned
            d = [0.5, 3.0, 30.0, 300.0, 1000.0][(t // 10) % 5] * (0.5 + rng.random())
            x0, y0 = 300 + 400 * rng.random(), 300 + 400 * rng.random()
            a = [0.0, 90.0, 180.0, 270.0, 360.0 * rng.random(), 360.0 * rng.random()][(t // 50) % 6]
            # direction chosen in the tangent plane of the field centre; axis-aligned means along RA / DEC
            a -= w_rot(w)
            x = [x0, x0 + d * math.cos(math.radians(a))]
            y = [y0, y0 + d * math.sin(math.radians(a))]
        else:
            x, y = rand_xy(rng, n)
        ra, dec = w.all_pix2world(np.array(x), np.array(y), 0)
        ck.count('catalog_kind', 'refcat')
        ck.count('refcat_sources', n)
        ck.count('footprint_tol_arcsec', tol)
        try:
            rc = make_refcat(ra, dec, tol)
        except Exception as e:       # noqa: BLE001
            ck.violation({'kind': 'RefCatalog-construction-failed', 'RA': list(map(float, ra)),
                          'DEC': list(map(float, dec)), 'footprint_tol': tol, 'exception': repr(e),
                          'expected': 'a bounding polygon containing the sources'})
            continue
        v = s2c(ra, dec)
        rp = {'object': 'RefCatalog', 'RA': list(map(float, ra)), 'DEC': list(map(float, dec)),
              'footprint_tol': tol, 'tightness': n >= 3,
              'how': "RefCatalog(Table([RA, DEC], names=('RA','DEC')), footprint_tol=footprint_tol)"}
        ok = check_containment(ck, 'refcat', rc.polygon, [v], rp)
        if n <= 2:
            ok = check_box(ck, rc, v, tol, rp) and ok
        ck.case(('refcat', list(map(float, ra)), list(map(float, dec)), tol), True)
        pool.append((rc, v, crval))
        if t < 3:
            ck.sample({'object': 'RefCatalog', 'crval': list(crval), 'sources': n, 'footprint_tol': tol,
                       'predicate_holds': ok})
    # --- wide reference catalogs (radius 0.5 .. 1.5 degrees): the curvature of the sky matters at the 0.1 .. 2 arcsec level
    for t in range(ck.n(18, 200)):
        crval = SKY[(t * 13 + 6) % len(SKY)]
        R = [0.5, 1.0, 1.5][t % 3]
        w = mkwcs(crval, rng.random() * 360.0, scale=R / 512.0)
        n = [12, 30, 60][(t // 3) % 3]
        x, y = rand_xy(rng, n)
        ra, dec = w.all_pix2world(np.array(x), np.array(y), 0)
        ck.count('catalog_kind', 'refcat-wide')
        ck.count('refcat_wide_radius_deg', R)
        rp = {'object': 'RefCatalog', 'RA': list(map(float, ra)), 'DEC': list(map(float, dec)), 'footprint_tol': 1.0,
              'tightness': True, 'field_radius_deg': R,
              'how': "RefCatalog(Table([RA, DEC], names=('RA','DEC')), footprint_tol=1.0) with sources spread over a "
                     "field of this radius"}
        try:
            rc = make_refcat(ra, dec, 1.0)
        except Exception as e:       # noqa: BLE001
            rp.update(kind='RefCatalog-construction-failed', exception=repr(e))
            ck.violation(rp)
            continue
        check_containment(ck, 'refcat-wide', rc.polygon, [s2c(ra, dec)], rp)
        ck.case(('refcat-wide', list(map(float, ra)), list(map(float, dec))), True)
    # --- three or more ROWS but only two distinct positions (repeated sources), and exactly collinear runs: the hull
    #     degenerates to a segment and the footprint is the box of the two-source case
    for t in range(ck.n(30, 300)):
        crval = SKY[(t * 11 + 4) % len(SKY)]
        tol = [1.0, 10.0, 0.5][t % 3]
        kind = ['ABB', 'AABB', 'ABAB', 'A+expand(A,B)', 'equator run', 'meridian run'][t % 6]
        w = mkwcs(crval, rng.random() * 360.0)
        x0, y0 = 300 + 400 * rng.random(), 300 + 400 * rng.random()
        d = [3.0, 30.0, 300.0][(t // 6) % 3] * (0.5 + rng.random())
        a_ = 360.0 * rng.random()
        pa = w.all_pix2world(np.array([x0]), np.array([y0]), 0)
        pb = w.all_pix2world(np.array([x0 + d * math.cos(math.radians(a_))]), np.array([y0 + d * math.sin(math.radians(a_))]), 0)
        A_, B_ = (float(pa[0][0]), float(pa[1][0])), (float(pb[0][0]), float(pb[1][0]))
        grow = None
        if kind == 'ABB':
            rows = [A_, B_, B_]
        elif kind == 'AABB':
            rows = [A_, A_, B_, B_]
        elif kind == 'ABAB':
            rows = [A_, B_, A_, B_]
        elif kind == 'A+expand(A,B)':
            rows, grow = [A_], [A_, B_]
        elif kind == 'equator run':
            r0 = rng.choice([10.0, 359.9995, 180.0])
            rows = [((r0 + k * 1e-4 * (1 + t % 3)) % 360.0, 0.0) for k in range(4)]
        else:
            r0 = rng.choice([10.0, 0.0, 222.0])
            rows = [(r0, -0.0003 + k * 2e-4) for k in range(4)]
        ck.count('catalog_kind', 'refcat-degenerate')
        ck.count('refcat_degenerate_kind', kind)
        allrows = rows + (grow or [])
        ra = np.array([p_[0] for p_ in allrows])
        dec = np.array([p_[1] for p_ in allrows])
        rp = {'object': 'RefCatalog', 'RA': list(map(float, ra)), 'DEC': list(map(float, dec)), 'footprint_tol': tol,
              'tightness': False, 'rows': kind,
              'how': 'RefCatalog(Table([RA, DEC])) with repeated / collinear rows' + (
                  '; first row only, then expand_catalog(the other rows)' if grow else '')}
        try:
            rc = make_refcat(ra[:len(rows)], dec[:len(rows)], tol)
            if grow:
                rc.expand_catalog(Table([list(ra[len(rows):]), list(dec[len(rows):])], names=('RA', 'DEC')))
            poly = rc.polygon
        except Exception as e:       # noqa: BLE001
            rp.update(kind='RefCatalog-footprint-failed-for-degenerate-rows', exception=repr(e),
                      expected='a footprint_tol box around the distinct positions')
            ck.violation(rp)
            continue
        v = s2c(ra, dec)
        ok = check_containment(ck, 'refcat-degenerate-rows', poly, [v], rp)
        if kind in ('ABB', 'AABB', 'ABAB', 'A+expand(A,B)'):
            ok = check_box(ck, rc, s2c(np.array([A_[0], B_[0]]), np.array([A_[1], B_[1]])), tol, rp) and ok
        ck.case(('refcat-degenerate', kind, list(map(float, ra)), list(map(float, dec)), tol), True)
    # --- growth histories: a catalog that starts with 1..5 sources and is extended by expand_catalog (as align_wcs
    #     does with expand_refcat=True) has, after every step, the footprint of the sources it then holds
    for t in range(ck.n(40, 500)):
        crval = SKY[(t * 5 + 1) % len(SKY)]
        tol = [1.0, 10.0, 0.5, 30.0][t % 4]
        w = mkwcs(crval, rng.random() * 360.0)
        n0 = [1, 2, 1, 3, 2, 5][t % 6]
        steps = [[1], [3], [1, 4], [2, 2, 6], [8], [1, 1, 1]][(t // 6) % 6]
        ntot = n0 + sum(steps)
        x, y = rand_xy(rng, ntot)
        if t % 5 == 0:
            # the first sources end up on the rim of the final hull
            x[0], y[0] = 2.0, 2.0
            if n0 > 1:
                x[1], y[1] = 1021.0, 3.0
        ra, dec = w.all_pix2world(np.array(x), np.array(y), 0)
        ck.count('catalog_kind', 'refcat-growth')
        ck.count('refcat_growth_start', n0)
        hist = ['RefCatalog(first %d sources)' % n0]
        try:
            rc = make_refcat(ra[:n0], dec[:n0], tol)
            k = n0
            ok = True
            for st in steps:
                rc.expand_catalog(Table([list(ra[k:k + st]), list(dec[k:k + st])], names=('RA', 'DEC')))
                k += st
                hist.append('expand_catalog(next %d sources)' % st)
                v = s2c(ra[:k], dec[:k])
                rp = {'object': 'RefCatalog', 'RA': list(map(float, ra[:k])), 'DEC': list(map(float, dec[:k])),
                      'footprint_tol': tol, 'tightness': k >= 3, 'history': list(hist),
                      'how': 'RefCatalog on the first sources, then expand_catalog with the following ones'}
                ok = check_containment(ck, 'refcat-after-growth', rc.polygon, [v], rp) and ok
                if k <= 2:
                    ok = check_box(ck, rc, v, tol, rp) and ok
        except Exception as e:       # noqa: BLE001
            ck.violation({'kind': 'RefCatalog-growth-failed', 'RA': list(map(float, ra)), 'DEC': list(map(float, dec)),
                          'footprint_tol': tol, 'history': hist, 'exception': repr(e)})
            continue
        ck.case(('refcat-growth', list(map(float, ra)), list(map(float, dec)), tol, n0, tuple(steps)), True)
    return pool


def w_rot(w):
    cd = w.wcs.cd
    return math.degrees(math.atan2(cd[1][0], cd[0][0]))


def check_box(ck, rc, v, tol, replay):
    """1 source: square of side footprint_tol; 2 sources d apart: rectangle (d + footprint_tol) x footprint_tol,
    both within BOX_RTOL; box centred on the sources' mid-point."""
    ck.search_evaluations += 1
    ra, dec = list(rc.polygon.to_radec())[0]
    P = s2c(ra, dec)
    fails = []
    if len(P) != 5 or not np.all(np.isfinite(P)):
        fails.append('footprint is not a closed quadrilateral: %d vertices' % len(P))
    else:
        sides = sorted(angsep(P[i], P[i + 1]) / ARCSEC for i in range(4))
        d = angsep(v[0], v[1]) / ARCSEC if len(v) == 2 else 0.0
        want = [tol, tol, d + tol, d + tol]
        for s_, w_ in zip(sides, want):
            if not (1 - BOX_RTOL) * w_ <= s_ <= (1 + BOX_RTOL) * w_:
                fails.append('side %.6g arcsec, expected %.6g arcsec +- 25%%' % (s_, w_))
        off = angsep(centroid(P[:4]), centroid(v)) / ARCSEC
        if off > BOX_RTOL * tol:
            fails.append('box centre %.3g arcsec away from the mid-point of the sources' % off)
    if fails:
        rp = dict(replay)
        rp.update({'kind': 'refcat-small-footprint-extent', 'observed': fails, 'footprint_radec': poly_vertices(rc.polygon),
                   'predicate': '1 source: square of side footprint_tol arcsec; 2 sources d apart: rectangle '
                                '(d + footprint_tol) x footprint_tol arcsec; +-25%, centred on the sources'})
        ck.violation(rp)
        return False
    return True


def area_of(obj):
    return float(abs(obj.polygon.area()))


def part_overlaps(ck, rng, images, groups, refcats):
    """intersection_area(a, b) == intersection_area(b, a) <= min(area(a), area(b)), 1e-4 relative"""
    from spherical_geometry.polygon import MalformedPolygonError
    N = ck.n(90, 900)
    done = 0
    trials = 0
    while done < N and trials < 4 * N:
        trials += 1
        crval = SKY[trials % len(SKY)]
        combo = ['im-im', 'im-ref', 'im-grp', 'grp-grp', 'ref-grp', 'ref-ref', 'im-im', 'im-grp'][trials % 8]

        def new_image(shift):
            cv = offset_crval(crval, shift * (rng.random() - 0.5), shift * (rng.random() - 0.5))
            return Member(rng, cv, rng.choice([5, 8, 20]), 'o%d' % trials)

        def new_group(shift):
            from tweakwcs.wcsimage import WCSGroupCatalog
            cv = offset_crval(crval, shift * (rng.random() - 0.5), shift * (rng.random() - 0.5))
            k = rng.choice([2, 3, 4])
            # members side by side like detector chips; 1 group in 4 has members overlapping each other (K3 class)
            step = 0.0125 if trials % 4 else 0.004
            ms = [Member(rng, offset_crval(cv, step * (i % 2), step * (i // 2)), rng.choice([8, 12, 20]),
                         'og%d_%d' % (trials, i), rot=20.0) for i in range(k)]
            bp = rng.choice(['auto', 'exact', 0, 2, 100])
            return WCSGroupCatalog([m.im for m in ms], bb_policy=bp), ms, bp

        def new_ref(shift):
            cv = offset_crval(crval, shift * (rng.random() - 0.5), shift * (rng.random() - 0.5))
            w = mkwcs(cv, rng.random() * 360.0)
            n = rng.choice([1, 2, 5, 20])
            x, y = rand_xy(rng, n)
            ra, dec = w.all_pix2world(np.array(x), np.array(y), 0)
            return make_refcat(ra, dec, rng.choice([1.0, 30.0])), (list(map(float, ra)), list(map(float, dec)))

        shift = rng.choice([0.0, 0.004, 0.008, 0.02])
        desc = {'combo': combo, 'field': list(crval)}
        objs = []
        disjoint_members = True
        for kind in combo.split('-'):
            if kind == 'im':
                m = new_image(shift)
                objs.append(m.im)
                desc.setdefault('objects', []).append({'WCSImageCatalog': m.describe()})
            elif kind == 'grp':
                g, ms, bp = new_group(shift)
                objs.append(g)
                desc.setdefault('objects', []).append({'WCSGroupCatalog': [m.describe() for m in ms], 'bb_policy': bp})
                c = centroid(np.concatenate([m.v for m in ms], axis=0))
                hulls = [planar_hull(gnomonic(m.v, c)[0]) for m in ms]
                if any(convex_overlap(hulls[i], hulls[j]) for i in range(len(ms)) for j in range(i + 1, len(ms))):
                    disjoint_members = False
            else:
                r, radec = new_ref(shift)
                objs.append(r)
                desc.setdefault('objects', []).append({'RefCatalog': {'RA': radec[0], 'DEC': radec[1]}})
        a, b2 = objs
        try:
            ab = float(a.intersection_area(b2))
            ba = float(b2.intersection_area(a))
        except MalformedPolygonError as e:
            ck.discard('spherical_geometry raised %s while intersecting' % type(e).__name__)
            continue
        except Exception as e:       # noqa: BLE001
            done += 1
            ck.search_evaluations += 1
            ck.count('overlap_pair', combo)
            rp = dict(desc)
            rp.update({'kind': 'overlap-area-raised', 'exception': repr(e),
                       'call': 'a.intersection_area(b) and b.intersection_area(a) with a, b = the two objects',
                       'predicate': 'intersection_area(a,b) == intersection_area(b,a) <= min(area a, area b)'})
            ck.violation(rp)
            continue
        done += 1
        ck.search_evaluations += 1
        ck.count('overlap_pair', combo)
        A, B = area_of(a), area_of(b2)
        ck.count('overlap_fraction', 'zero' if ab <= 1e-6 * min(A, B) else ('full' if ab >= 0.999 * min(A, B)
                                                                             else 'partial'))
        ck.case(('overlap', repr(desc)), 1e-6 * min(A, B) < ab < 0.999 * min(A, B))
        fails = []
        exceeds = None
        scale = max(A, B)
        if not math.isfinite(ab) or not math.isfinite(ba):
            fails.append('non-finite overlap area')
        else:
            if abs(ab - ba) > AREA_RTOL * scale:
                fails.append('not symmetric: a.intersection_area(b) = %.9g sr, b.intersection_area(a) = %.9g sr'
                             % (ab, ba))
            if max(ab, ba) > min(A, B) * (1 + AREA_RTOL) + 1e-18:
                exceeds = 'overlap %.9g sr exceeds the smaller footprint area %.9g sr' % (max(ab, ba), min(A, B))
                if disjoint_members:
                    fails.append(exceeds)
            if ab < 0 or ba < 0:
                fails.append('negative overlap area')
        ck.count('overlap_group_members', 'no group' if 'grp' not in combo else
                 ('members disjoint' if disjoint_members else 'members overlap each other (K3 class)'))
        if exceeds and not disjoint_members:
            # K3: an operand is a group whose member footprints overlap each other; member-wise sums
            rp = dict(desc)
            rp.update({'kind': 'overlap-area-exceeds-footprint', 'observed': exceeds, 'area_a_sr': A, 'area_b_sr': B,
                       'known_class': 'operand is a WCSGroupCatalog whose member footprints overlap each other'})
            ck.violation(rp, known_id='K3')
        ga, na = a._guarded_intersection_area(b2)
        if na == 0 and abs(float(ga) - ab) > AREA_RTOL * scale:
            fails.append('_guarded_intersection_area %.9g differs from intersection_area %.9g' % (ga, ab))
        if fails:
            rp = dict(desc)
            rp.update({'kind': 'overlap-area', 'observed': fails, 'area_a_sr': A, 'area_b_sr': B,
                       'predicate': 'intersection_area(a,b) == intersection_area(b,a) <= min(area a, area b), '
                                    'relative tolerance 1e-4'})
            ck.violation(rp)


def part_catalogs(ck):
    rng = ck.rng
    ck.extra['catalog_rule'] = (
        'image catalogs with 1..60 random sources in TAN images (1024 px, 0.036 arcsec/px, random roll) at %d sky '
        'positions incl. RA 0/360 and 180 and |dec| up to 89; groups of 1..8 such images (overlapping / mosaic / '
        'far apart layouts; members with 3-4 sources = K2 input class in 1 of 7 groups) with bb_policy auto, exact, '
        '0, 1, 2, 3, 100; reference catalogs with 1, 2 (0.02..40 arcsec apart, axis-aligned and oblique), 3..50 '
        'sources and footprint_tol 0.5..30 arcsec; overlap areas for image/group/refcat pairs at relative shifts '
        '0..2 fields. Non-trivial: >= 3 sources (image), >= 2 members with >= 6 sources (group), any refcat, '
        'partial overlap (area pairs).' % len(SKY))
    ck.notes += ['part (ii) is measurement on the implementation: spherical_geometry (polygon construction, '
                 'containment, union, intersection, area) is external and not modelled',
                 'sources are moved a relative 1e-6 toward the centroid of their own member before contains_radec '
                 '(false on the boundary, hull vertices are sources); probe points 1e-3 (relative) outside the '
                 'convex hull of all sources must not be contained (tightness)',
                 '1- and 2-source image catalogs use the chip footprint shrunk by half a pixel; sources are '
                 'generated in [1, 1022] px, the outer half-pixel ring is not probed',
                 'hulls thinner than 10 px (0.36 arcsec) are not generated for 3..6-source members: spherical_geometry '
                 '1.4 treats such slivers as degenerate polygons (area 0.0, contains_radec False everywhere), e.g. '
                 'x=[368.67, 492.02, 491.70], y=[415.84, 321.72, 322.04]',
                 'exactly collinear catalogs (degenerate zero-area polygon, contains_radec cannot be measured) and '
                 'sources closer than the 1e-11 min_separation are not generated at catalog level',
                 'overlap pairs involving a group whose members overlap each other: exceeding min(area) is known '
                 'finding K3 (member-wise sums); symmetry is still required of them']
    ck.trusted += ['spherical_geometry %s (contains_radec, area, intersection) as the measuring instrument of part '
                   '(ii); K2 classifier: planar separating-axis test of member hulls in a gnomonic projection'
                   % __import__('spherical_geometry').__version__]
    Member.slivers = 0
    images = part_images(ck, rng)
    groups = part_groups(ck, rng)
    refcats = part_refcats(ck, rng)
    part_overlaps(ck, rng, images, groups, refcats)
    if Member.slivers:
        ck.discard('3..6-source member whose hull is thinner than %g px regenerated (spherical_geometry 1.4 declares '
                   'polygons with |triple product| < 1e-11 degenerate: area 0, contains nothing)' % MIN_WIDTH_PX,
                   Member.slivers)
