"""C18 - correcting a FITS WCS changes only CRVAL and the linear matrix."""
import math

import numpy as np

import gen_wcs as G
from common import q, b, lst, nat, qlist, implementation

CTYPES = {('RA---TAN', 'DEC--TAN'): 1, ('RA---TAN-SIP', 'DEC--TAN-SIP'): 2}


def track(ck, what, err, tol):
    m = ck.extra.setdefault('max_error_over_tolerance', {})
    r = err / tol
    if r >= m.get(what, -1.0):
        m[what] = r
    a = ck.extra.setdefault('max_error', {})
    a[what] = max(a.get(what, 0.0), err)


def add_lookup(I, w, g, rng):
    from astropy.wcs import DistortionLookupTable
    nx, ny = g['shape']
    tab = np.zeros((4, 4), dtype=np.float32)
    tab[1, 1], tab[2, 2], tab[1, 2] = G.dyr(rng, -0.05, 0.05, 8), G.dyr(rng, -0.05, 0.05, 8), G.dyr(rng, -0.05, 0.05, 8)
    w.cpdis1 = DistortionLookupTable(tab, (2.0, 2.0), (nx / 2.0, ny / 2.0), (nx / 4.0, ny / 4.0))
    w.cpdis2 = DistortionLookupTable(tab.T.copy() * 0.5, (2.0, 2.0), (nx / 2.0, ny / 2.0), (nx / 4.0, ny / 4.0))
    if rng.random() < 0.5:
        w.det2im1 = DistortionLookupTable(tab * 0.25, (2.0, 2.0), (nx / 2.0, ny / 2.0), (nx / 4.0, ny / 4.0))


def lookup_data(t):
    if t is None:
        return [-1.0]
    return [1.0] + [float(v) for v in np.ravel(t.data)] + [float(v) for v in t.crpix] + [float(v) for v in t.crval] + \
        [float(v) for v in t.cdelt]


def attributes(w):
    """everything the property says is preserved, plus what may change, as numbers."""
    ww = w.wcs
    has_cd, has_pc = bool(ww.has_cd()), bool(ww.has_pc())
    lin = np.array(ww.pc if not has_cd else ww.cd, dtype=float)
    sip = [-1.0]
    if w.sip is not None:
        sip = [1.0] + [float(v) for v in np.ravel(w.sip.a)] + [float(v) for v in np.ravel(w.sip.b)] + \
              [float(v) for v in w.sip.crpix] + [float(w.sip.a_order), float(w.sip.b_order)]
        for arr in (w.sip.ap, w.sip.bp):
            sip += [-1.0] if arr is None else [1.0] + [float(v) for v in np.ravel(arr)]
    aux = []
    for t in (w.cpdis1, w.cpdis2, w.det2im1, w.det2im2):
        aux += lookup_data(t)
    pb = w.pixel_bounds
    aux += [-1.0] if pb is None else [1.0] + [float(v) for pr in pb for v in pr]
    # LATPOLE is not recorded: wcslib defaults it to CRVAL2 (it tracks CRVAL and is unused by zenithal projections)
    aux += [float(ww.lonpole), float(ww.naxis)]
    aux += [float(v) for v in ww.cunit[0].to_string().encode()] + [float(v) for v in ww.cunit[1].to_string().encode()]
    aux += [float(v) for v in (ww.radesys or '').encode()] + [float(ww.equinox) if np.isfinite(ww.equinox) else -1.0]
    ct = tuple(str(c) for c in ww.ctype)
    return dict(crpix=[float(v) for v in ww.crpix], crval=[float(v) for v in ww.crval], lin=lin.tolist(),
                cdelt=[float(v) for v in ww.cdelt] if not has_cd else [1.0, 1.0], has_pc=has_pc and not has_cd, has_cd=has_cd,
                naxis=[float(v) for v in w.pixel_shape], ctype=CTYPES.get(ct, 0), ctype_str=list(ct), sip=sip, aux=aux,
                lookups=[t is not None for t in (w.cpdis1, w.cpdis2, w.det2im1, w.det2im2)])


def coq_attr(a):
    return ('{| a_crpix := %s; a_crval := %s; a_lin := %s; a_cdelt := %s; a_haspc := %s; a_hascd := %s; a_naxis := %s; '
            'a_ctype := %s; a_sip := %s; a_aux := %s |}'
            % (G.qc_pt(a['crpix']), G.qc_pt(a['crval']), G.qc_mat(a['lin']), G.qc_pt(a['cdelt']), b(a['has_pc']), b(a['has_cd']),
               G.qc_pt(a['naxis']), nat(a['ctype']), qlist(a['sip']), qlist(a['aux'])))


def diff_attrs(a0, a1):
    return [k for k in ('crpix', 'cdelt', 'has_pc', 'has_cd', 'naxis', 'ctype', 'ctype_str', 'sip', 'aux') if a0[k] != a1[k]]


def attr_case(ck, I, rng, t, cases, metas):
    from astropy.wcs import WCS
    g = G.gen_fits_geom(rng, t)
    if t % 5 == 2:
        # reference pixel off the detector (chips of a mosaic sharing one CRPIX): still a valid celestial WCS
        g = dict(g)
        nx_, ny_ = g['shape']
        g['crpix'] = [rng.choice([-60.5, float(nx_) + 52.0, g['crpix'][0]]), rng.choice([float(ny_) + 30.25, -17.0])]
        ck.count('crpix_off_detector', True)
    w = G.build_fits_wcs(I, g)
    extra = []
    if t % 7 == 4:
        # a header with an explicit, non-default native longitude of the celestial pole
        w.wcs.lonpole = [150.0, 0.0, 90.0, -120.5][(t // 7) % 4]
        w.wcs.set()
        extra.append('LONPOLE=%g' % w.wcs.lonpole)
        ck.count('explicit_lonpole', float(w.wcs.lonpole))
    if t % 3 == 0:
        add_lookup(I, w, g, rng)
        extra.append('lookup tables')
    if t % 4 == 1:
        w.pixel_bounds = [(-0.5, g['shape'][0] - 0.5), (-0.5, g['shape'][1] - 0.5)]
        extra.append('pixel_bounds')
    a_caller = attributes(w)
    c = I['FITS'](w)
    c_built = c.copy()
    hist = []
    x, y = G.grid(g, 5)
    # construction itself must not lose anything (the working WCS is a faithful copy of the caller's)
    ck.search_evaluations += 1
    a_built = attributes(c.wcs)
    lost = diff_attrs(a_caller, a_built) + [k for k in ('crval', 'lin') if a_caller[k] != a_built[k]]
    if lost:
        ck.violation({'kind': 'C18-working-wcs-differs-from-callers-wcs-after-construction', 'geometry': g, 'extras': extra,
                      'attributes': lost})
    for j in range(rng.choice([1, 1, 2, 3])):
        if rng.random() < 0.25:
            c = G.rewrap(I, c, g) if rng.random() < 0.5 else c.copy()
            hist.append({'op': 'rewrap/copy'})
        a0 = attributes(c.wcs)
        ref, mode, gr = None, 'own', None
        if rng.random() < 0.3:
            mode, gr, ref = G.gen_reference(I, rng, g, c_built, 1 + rng.randrange(4))
        corr = G.gen_correction(rng, 1.0 if ref is None else G.pix_scale_arcsec(g) / G.tan_scale_arcsec(gr))
        kw = {} if ref is None else {'ref_tpwcs': ref}
        rec = {'op': 'set', 'M': corr['M'], 's': corr['s'], 'ref': mode}
        hist.append(rec)
        try:
            c.set_correction(corr['M'], corr['s'], **kw)
        except Exception as e:      # noqa
            ck.search_evaluations += 1
            ck.violation({'kind': 'C18-set_correction-raised', 'geometry': g, 'extras': extra, 'history': [dict(h) for h in hist],
                          'representation': 'PC+CDELT' if g['pc'] else 'CD', 'exception': '%s: %s' % (type(e).__name__, str(e)[:300])})
            return g, hist
        a1 = attributes(c.wcs)
        ck.search_evaluations += 1
        ck.case(('attr', g, extra, [dict(h) for h in hist]), True)
        ck.count('representation', 'PC+CDELT' if g['pc'] else 'CD')
        ck.count('sip', g['sip'])
        ck.count('extras', ','.join(extra) or 'none')
        ck.count('plane', mode)
        changed = diff_attrs(a0, a1)
        ctx = {'geometry': g, 'extras': extra, 'history (applied in order to a fresh FITSWCSCorrector)': [dict(h) for h in hist]}
        if changed:
            ck.violation(dict(ctx, kind='C18-attribute-other-than-crval-and-matrix-changed', attributes=changed,
                              before={k: a0[k] for k in changed}, after={k: a1[k] for k in changed}))
        if ref is None:
            cases.append('{| k_before := %s; k_after := %s; k_M := %s; k_s := %s |}'
                         % (coq_attr(a0), coq_attr(a1), G.qc_mat(corr['M']), G.qc_pt(corr['s'])))
            metas.append(dict(ctx, before={k: a0[k] for k in ('crpix', 'crval', 'lin', 'cdelt', 'has_pc', 'has_cd', 'naxis', 'ctype_str')},
                              after={k: a1[k] for k in ('crpix', 'crval', 'lin', 'cdelt', 'has_pc', 'has_cd', 'naxis', 'ctype_str')}))
        # header round trip of the corrected WCS
        ck.search_evaluations += 1
        n = c.wcs
        try:
            hl = n.to_fits(relax=True)
            w2 = WCS(hl[0].header, hl)
            s1, s2 = n.all_pix2world(x, y, 0), w2.all_pix2world(x, y, 0)
            d = float(np.max(G.sky_sep_arcsec(s1[0], s1[1], s2[0], s2[1])))
            a2 = attributes_rt(w2, a1)
        except Exception as e:      # noqa
            ck.violation(dict(ctx, kind='C18-header-round-trip-failed', error='%s: %s' % (type(e).__name__, str(e)[:300])))
            continue
        tol = 5e-7
        track(ck, 'header round trip (arcsec)', d, tol)
        if not d <= tol or a2:
            ck.violation(dict(ctx, kind='C18-corrected-wcs-does-not-survive-header-round-trip', max_sky_difference_arcsec=d,
                              tolerance_arcsec=tol, attributes_lost=a2))
    return g, hist


def attributes_rt(w2, a1):
    """structure of the WCS read back from the header (values are rounded to 14 digits by wcslib, so only structure)."""
    lost = []
    # (astropy / wcslib write a CD matrix as PCi_j with CDELT = 1: the representation in the header is not the corrector's doing)
    if (w2.sip is not None) != (a1['sip'][0] > 0):
        lost.append('SIP')
    if tuple(str(c) for c in w2.wcs.ctype) != tuple(a1['ctype_str']):
        lost.append('CTYPE')
    if not np.allclose(w2.wcs.crpix, a1['crpix'], rtol=0, atol=1e-9):
        lost.append('CRPIX')
    for nm, t, had in (('CPDIS1', w2.cpdis1, a1['lookups'][0]), ('CPDIS2', w2.cpdis2, a1['lookups'][1]),
                       ('DET2IM1', w2.det2im1, a1['lookups'][2]), ('DET2IM2', w2.det2im2, a1['lookups'][3])):
        if (t is not None) != had:
            lost.append(nm)
    return lost


def twin_case(ck, I, rng, t, cases, metas):
    g = G.gen_fits_geom(rng, t, pc=False)
    gp = dict(g)
    gp['pc'] = True
    ccd, cpc = G.fits_corrector(I, g), G.fits_corrector(I, gp)
    x, y = G.grid(g, 5)
    a_cd0, a_pc0 = attributes(ccd.wcs), attributes(cpc.wcs)
    hist = []
    tol_sum = 0.0
    for j in range(rng.choice([1, 2, 3])):
        corr = G.gen_correction(rng, 1.0)
        hist.append({'op': 'set', 'M': corr['M'], 's': corr['s']})
        try:
            ccd.set_correction(corr['M'], corr['s'])
            cpc.set_correction(corr['M'], corr['s'])
        except Exception as e:      # noqa
            ck.search_evaluations += 1
            ck.violation({'kind': 'C18-set_correction-raised', 'geometry': g, 'history': [dict(h) for h in hist], 'twins': True,
                          'exception': '%s: %s' % (type(e).__name__, str(e)[:300])})
            return g, hist
        ck.search_evaluations += 1
        ck.case(('twins', g, [dict(h) for h in hist]), True)
        d = G.sky_diff(G.sky(ccd, x, y), G.sky(cpc, x, y))
        hx, hy = G.stencil_steps(g)
        ps = g['scale'] * 3600.0
        rho = G.field_radius_px(g)
        tol_sum += 16 * G.DW * (1 + rho / min(hx, hy)) + 1e-9
        track(ck, 'CD vs PC twins: corrected sky mapping (arcsec)', d, tol_sum)
        if not d <= tol_sum:
            ck.violation({'kind': 'C18-cd-and-pc-twins-differ', 'geometry': g, 'history': [dict(h) for h in hist],
                          'max_sky_difference_arcsec': d, 'tolerance_arcsec': tol_sum,
                          'cd_after': attributes(ccd.wcs)['lin'], 'pc_after': attributes(cpc.wcs)['lin'],
                          'cdelt': attributes(cpc.wcs)['cdelt']})
        if j == 0:
            amp = 1.0 / max(math.cos(math.radians(abs(g['crval'][1]) + 0.6)), 1e-3)
            cases.append('{| t_cd0 := %s; t_pc0 := %s; t_cd1 := %s; t_pc1 := %s; t_scale := %s; t_amp := %s |}'
                         % (coq_attr(a_cd0), coq_attr(a_pc0), coq_attr(attributes(ccd.wcs)), coq_attr(attributes(cpc.wcs)),
                            q(g['scale']), q(float(np.float32(amp * 1.01)))))
            metas.append({'geometry': g, 'correction': hist[0], 'cd_after': attributes(ccd.wcs)['lin'],
                          'pc_after': attributes(cpc.wcs)['lin'], 'cdelt': attributes(cpc.wcs)['cdelt'],
                          'crval_cd': attributes(ccd.wcs)['crval'], 'crval_pc': attributes(cpc.wcs)['crval']})
    ck.count('twins_corrections', len(hist))
    return g, hist


def rejection_cases(ck, I):
    """non-celestial / missing WCS must be rejected at construction with ValueError."""
    fw = I['fitswcs']
    bad = []
    bad.append(('None', lambda: None))

    def spectral_cube():
        w = fw.WCS(naxis=3)
        w.wcs.ctype = ['RA---TAN', 'DEC--TAN', 'FREQ']
        w.wcs.crval = [10.0, 20.0, 1.4e9]
        w.wcs.cdelt = [1e-4, 1e-4, 1e6]
        w.wcs.crpix = [50.0, 50.0, 1.0]
        w.pixel_shape = [100, 100, 10]
        w.wcs.set()
        return w

    def linear():
        w = fw.WCS(naxis=2)
        w.wcs.ctype = ['', '']
        w.wcs.crpix = [50.0, 50.0]
        w.pixel_shape = [100, 100]
        w.wcs.set()
        return w

    def spectral_pair():
        w = fw.WCS(naxis=2)
        w.wcs.ctype = ['WAVE', 'FREQ']
        w.wcs.crval = [5e-7, 1.4e9]
        w.wcs.cdelt = [1e-9, 1e6]
        w.wcs.crpix = [50.0, 50.0]
        w.pixel_shape = [100, 100]
        w.wcs.set()
        return w

    def one_celestial_axis():
        w = fw.WCS(naxis=2)
        w.wcs.ctype = ['RA---TAN', 'FREQ']
        w.wcs.crval = [10.0, 1.4e9]
        w.wcs.crpix = [50.0, 50.0]
        w.pixel_shape = [100, 100]
        return w

    def celestial_plus_time():
        w = fw.WCS(naxis=3)
        w.wcs.ctype = ['GLON-CAR', 'GLAT-CAR', 'TIME']
        w.wcs.crpix = [5.0, 5.0, 1.0]
        w.wcs.cdelt = [0.1, 0.1, 1.0]
        w.pixel_shape = [10, 10, 3]
        w.wcs.set()
        return w

    def cube_no_shape():
        w = fw.WCS(naxis=3)
        w.wcs.ctype = ['RA---TAN', 'DEC--TAN', 'FREQ']
        w.wcs.crval = [10.0, 20.0, 1.4e9]
        w.wcs.cdelt = [1e-4, 1e-4, 1e6]
        w.wcs.crpix = [50.0, 50.0, 1.0]
        w.wcs.set()
        return w

    def degenerate_axes():
        w = fw.WCS(naxis=4)
        w.wcs.ctype = ['RA---SIN', 'DEC--SIN', 'FREQ', 'STOKES']
        w.wcs.crval = [10.0, 20.0, 1.4e9, 1.0]
        w.wcs.cdelt = [-1e-4, 1e-4, 1e6, 1.0]
        w.wcs.crpix = [50.0, 50.0, 1.0, 1.0]
        w.wcs.set()
        return w

    bad += [('celestial + spectral axis, pixel_shape unset (naxis=3)', cube_no_shape),
            ('celestial + degenerate FREQ/STOKES axes, pixel_shape unset (naxis=4)', degenerate_axes)]
    bad += [('celestial + spectral axis (naxis=3)', spectral_cube), ('linear axes, no celestial pair', linear),
            ('two spectral axes', spectral_pair), ('celestial + time axis (naxis=3)', celestial_plus_time)]
    for name, mk in bad:
        ck.search_evaluations += 1
        ck.case(('reject', name), True)
        ck.count('rejected_structures', name)
        try:
            w = mk()
        except Exception as e:      # noqa  -- astropy itself refuses to build it: not a corrector matter
            ck.discard('astropy could not build the malformed WCS: ' + name)
            continue
        try:
            I['FITS'](w)
            ck.violation({'kind': 'C18-uncorrectable-wcs-accepted', 'structure': name})
        except ValueError:
            pass
        except Exception as e:      # noqa
            ck.violation({'kind': 'C18-uncorrectable-wcs-rejected-with-wrong-exception', 'structure': name,
                          'exception': '%s: %s' % (type(e).__name__, str(e)[:200]), 'expected': 'ValueError'})
    # and a good one must be accepted
    ck.search_evaluations += 1
    try:
        I['FITS'](G.build_fits_wcs(I, dict(kind='fits', crval=[10.0, 20.0], rot=0.0, scale=1e-5, ratio=1.0, parity=1,
                                         crpix=[50.0, 50.0], shape=[100, 100], pc=False, sip=False)))
    except Exception as e:      # noqa
        ck.violation({'kind': 'C18-plain-celestial-wcs-rejected', 'exception': '%s: %s' % (type(e).__name__, str(e)[:200])})


def run(ck):
    implementation()
    I = G.imports()
    ck.props()
    ck.rule = ('celestial TAN WCSs in CD or PC+CDELT form, with/without SIP, with/without lookup-table distortions (CPDIS, '
               'DET2IM) and pixel_bounds, over pointings / orientations / scales 1e-6..1e-4 deg/px; 1..3 corrections (own plane '
               'or reference plane, with copy / re-wrapping in between). After each correction: attribute diff (everything but '
               'CRVAL and the matrix must be bit-identical), header round trip (to_fits -> WCS) of the corrected WCS, and for CD / '
               'PC+CDELT twins the corrected sky mappings; malformed structures (None, non-celestial) must raise ValueError. '
               'One evaluation = one corrected WCS (or one rejected structure); distinct by (geometry, extras, history).')
    ck.notes += ['header cards carry 14 significant digits: the round trip is compared within 5e-7 arcsec on the sky',
                 'twins: corrected mappings compared within 16 quanta * (1 + rho/h) per correction (numerical Jacobian noise)',
                 'SIP / lookup-table contents are opaque data in the model; their preservation is an exact comparison of the arrays']
    rng = ck.rng
    cases, metas = [], []
    for t in range(ck.n(70, 1000)):
        g, hist = attr_case(ck, I, rng, t, cases, metas)
        if t < 2:
            ck.sample({'geometry': g, 'history': hist})
    bad = ck.coq_agree('attributes', ['CorrModel', 'CorrObs', 'C18Corr'], 'case18', 'agree18', cases, show='show18', shard=40)
    for i in bad:
        ck.violation({'kind': 'fits-attributes-disagree-with-record-update-model', 'case': metas[i],
                      'model (crpix, cdelt, has_pc, naxis, ctype, len sip, len aux, det(lin0) det(M), det(lin1))':
                          ck.last_shown.get(i, 'n/a'),
                      'predicate': 'set_correction = record update of crval and pc|cd only; representation unchanged; '
                                   'det(new matrix) = det(old matrix) det(M) within 2^-10'})
    tcases, tmetas = [], []
    for t in range(ck.n(40, 600)):
        twin_case(ck, I, rng, t, tcases, tmetas)
    bad = ck.coq_agree('twins', ['CorrModel', 'CorrObs', 'C18Corr'], 'case18t', 'agree18t', tcases, show='show18t', shard=40)
    for i in bad:
        ck.violation({'kind': 'cd-pc-twins-disagree', 'case': tmetas[i],
                      'model (effective CD of the CD twin, diag(cdelt).pc of the PC twin)': ck.last_shown.get(i, 'n/a'),
                      'predicate': 'diag(cdelt).pc_after = cd_after, CRVAL_after equal'})
    rejection_cases(ck, I)
