"""Shared machinery of the tweakwcs proof/correspondence checks.

Every check (harness/pCxx.py) receives a `Check` object and uses it to
  * compile its `Props/Cxx.v` (theorem statements closed by `exact`, with `Print Assumptions`),
  * evaluate correspondence cases inside Coq (`agree` booleans by vm_compute),
  * record predicate evaluations done on the implementation,
  * report violations / known findings and write the evidence file.
"""
import fcntl
import hashlib
import json
import os
import random
import re
import subprocess
import sys
import time
from concurrent.futures import ThreadPoolExecutor
from fractions import Fraction

ROOT = os.path.dirname(os.path.dirname(os.path.abspath(__file__)))
COQ = os.path.join(ROOT, 'coq')
WORK = os.path.join(ROOT, '_work')
REPO = os.environ.get('VERIF_REPO', '/repo')
SHARD = 400
FORBIDDEN = re.compile(
    r'\b(Admitted|admit|Axiom|Axioms|Parameter|Parameters|Conjecture|Conjectures|'
    r'Admit Obligations|bypass_check|native_compute)\b|Unset\s+Guard|Unset\s+Positivity|'
    r'Unset\s+Universe|type-in-type|impredicative-set')


# --------------------------------------------------------------------------- literals
def frac(x):
    """exact value of a python number (float -> its exact binary value)."""
    if isinstance(x, Fraction):
        return x
    if isinstance(x, bool):
        return Fraction(int(x))
    if isinstance(x, int):
        return Fraction(x)
    try:
        import numpy as np
        if isinstance(x, np.longdouble):
            # exact value of an x87 extended number
            m, e = np.frexp(x)
            hi = int(m * np.longdouble(2) ** 64)
            return Fraction(hi) * Fraction(2) ** (int(e) - 64)
        if isinstance(x, (np.floating, np.integer)):
            x = x.item()
            if isinstance(x, int):
                return Fraction(x)
    except ImportError:
        pass
    return Fraction(*float(x).as_integer_ratio())


def q(x):
    f = frac(x)
    return '(%d#%d)' % (f.numerator, f.denominator)


def z(x):
    x = int(x)
    return '(%d)%%Z' % x


def nat(x):
    x = int(x)
    assert 0 <= x < 100000
    return '%d%%nat' % x


def b(x):
    return 'true' if x else 'false'


def lst(items):
    return '[' + '; '.join(items) + ']'


def qlist(xs):
    return lst([q(x) for x in xs])


def qmat(m):
    return lst([qlist(r) for r in m])


def natlist(xs):
    return lst([nat(x) for x in xs])


def blist(xs):
    return lst([b(x) for x in xs])


def dy(rng, bits=10, lo=-64, hi=64):
    """random dyadic rational in [lo, hi) with `bits` fractional bits, as float."""
    k = rng.randrange(int(lo * 2 ** bits), int(hi * 2 ** bits))
    return k / float(2 ** bits)


def is_finite(x):
    import math
    try:
        return math.isfinite(float(x))
    except (OverflowError, TypeError, ValueError):
        return False


# --------------------------------------------------------------------------- coq
def _flocked_make():
    os.makedirs(WORK, exist_ok=True)
    with open(os.path.join(WORK, '.make.lock'), 'w') as lk:
        fcntl.flock(lk, fcntl.LOCK_EX)
        if not os.path.exists(os.path.join(COQ, 'Makefile')):
            subprocess.run('coq_makefile -f _CoqProject -o Makefile', shell=True, cwd=COQ,
                           check=True, stdout=subprocess.DEVNULL)
        r = subprocess.run('timeout 3000 make -j16', shell=True, cwd=COQ,
                           stdout=subprocess.PIPE, stderr=subprocess.STDOUT, text=True)
        return r.returncode, r.stdout


def hygiene_scan():
    """fail-closed scan of the whole development for anything that would declare an axiom
    or switch off a kernel check."""
    bad = []
    for d, _, fs in os.walk(COQ):
        for f in fs:
            if f.endswith('.v'):
                p = os.path.join(d, f)
                txt = open(p).read()
                txt_nc = re.sub(r'\(\*.*?\*\)', '', txt, flags=re.S)
                for m in FORBIDDEN.finditer(txt_nc):
                    bad.append('%s: %s' % (os.path.relpath(p, ROOT), m.group(0)))
    for line in open(os.path.join(COQ, '_CoqProject')):
        if re.search(r'type-in-type|impredicative|-vos|-vok|bypass', line):
            bad.append('_CoqProject: ' + line.strip())
    return bad


def run_coqc(path, timeout=600):
    t0 = time.time()
    r = subprocess.run(['timeout', str(timeout), 'coqc', '-R', COQ, 'TW', path],
                       stdout=subprocess.PIPE, stderr=subprocess.PIPE, text=True, cwd=COQ)
    return r.returncode, r.stdout, r.stderr, time.time() - t0


class Check:
    def __init__(self, pid, tier, seed, replay=None):
        self.pid = pid
        self.tier = tier
        self.seed = seed
        self.replay_in = replay
        self.rng = random.Random('%s-%d' % (pid, seed))
        self.t0 = time.time()
        self.violations = []       # (replay_path, no_input_found)
        self.known_hits = []
        self.obligations = []      # (name, ok)
        self.evaluations = 0
        self.nontrivial = set()
        self.samples = []
        self.rule = ''
        self.dist = {}
        self.search_evaluations = 0
        self.discarded = {}
        self.trusted = []
        self.assumption_text = ''
        self.extra = {}
        self.notes = []
        self.workdir = os.path.join(WORK, pid)
        os.makedirs(self.workdir, exist_ok=True)
        os.makedirs(os.path.join(ROOT, 'replays'), exist_ok=True)
        self.known = json.load(open(os.path.join(ROOT, 'known_findings.json')))
        self._printed_known = set()
        self._shards = []

    @property
    def thorough(self):
        return self.tier == 'thorough'

    def n(self, quick, thorough):
        return thorough if self.thorough else quick

    # ---- bookkeeping
    def count(self, table, key, k=1):
        t = self.dist.setdefault(table, {})
        t[str(key)] = t.get(str(key), 0) + k

    def discard(self, why, k=1):
        self.discarded[why] = self.discarded.get(why, 0) + k

    def case(self, key, nontrivial):
        """register one evaluated case; key = hashable description for distinctness."""
        self.evaluations += 1
        if nontrivial:
            self.nontrivial.add(hashlib.sha1(repr(key).encode()).hexdigest()[:16])

    def sample(self, s, limit=4):
        if len(self.samples) < limit:
            self.samples.append(s)

    def oblige(self, name, ok, detail=''):
        self.obligations.append((name, bool(ok), detail))

    # ---- proofs
    def props(self, extra_files=()):
        """(re)build the development and re-check Props/<pid>.v, capturing Print Assumptions."""
        bad = hygiene_scan()
        self.oblige('hygiene: no Admitted/admit/Axiom/Parameter/Conjecture/unset checks in coq/', not bad,
                    '; '.join(bad))
        rc, out = _flocked_make()
        self.oblige('coq build (make, full .vo) of the whole development', rc == 0, out[-2000:] if rc else '')
        path = os.path.join(COQ, 'Props', self.pid + '.v')
        rc, out, err, dt = run_coqc(path)
        thms = re.findall(r'^\s*(?:Theorem|Example|Corollary)\s+(\w+)', open(path).read(), flags=re.M)
        if rc != 0:
            for t in thms:
                self.oblige('Props/%s.v: %s' % (self.pid, t), False, (err or out)[-1500:])
            self.broken_proof(err or out)
        else:
            for t in thms:
                self.oblige('Props/%s.v: %s' % (self.pid, t), True)
        self.assumption_text = out.strip()
        axioms = sorted(set(re.findall(r'^([A-Za-z_][\w\.]*)\s*:', out, flags=re.M)) - {'Axioms'})
        self.axioms = axioms
        self.extra['print_assumptions'] = out.strip()[-6000:]
        self.extra['props_coqc_s'] = round(dt, 1)
        if self.thorough and rc == 0 and os.environ.get('VERIF_COQCHK', '1') == '1':
            r = subprocess.run('timeout 1500 coqchk -o -R . TW TW.Props.%s 2>&1 | tail -60' % self.pid,
                               shell=True, cwd=COQ, stdout=subprocess.PIPE, text=True)
            ok = 'Modules were successfully checked' in r.stdout
            self.oblige('coqchk -o TW.Props.%s (independent re-check of the compiled theorems)' % self.pid,
                        ok, r.stdout[-1500:])
            self.extra['coqchk'] = r.stdout[-3000:]
        return rc == 0

    def broken_proof(self, text):
        p = self.write_replay({'kind': 'proof-obligation-broken',
                               'file': 'coq/Props/%s.v' % self.pid,
                               'coq_output': text[-3000:],
                               'how': 'cd /verif/coq && make && coqc -R . TW Props/%s.v' % self.pid})
        self.violations.append((p, True))

    # ---- correspondence evaluated inside Coq
    def coq_agree(self, name, imports, ctor_type, agree, cases, show=None, shard=SHARD, timeout=900):
        """cases: list of Coq terms of type ctor_type. Returns sorted list of failing indices.
        Each shard is an obligation `forallb agree shard = true`."""
        if not cases:
            return []
        files = []
        for k in range(0, len(cases), shard):
            chunk = cases[k:k + shard]
            path = os.path.join(self.workdir, 'cases_%s_%s_%d.v' % (self.pid, name, k // shard))
            with open(path, 'w') as f:
                f.write('From Coq Require Import QArith ZArith List Bool.\nImport ListNotations.\n')
                f.write('From TW Require Import CorrUtil %s.\n' % ' '.join(imports))
                f.write('Open Scope Q_scope.\nSet Printing Width 1000000.\nSet Printing Depth 1000000.\n')
                f.write('Definition cases : list (%s) := [\n' % ctor_type)
                f.write(';\n'.join(chunk))
                f.write('\n].\n')
                f.write('Eval vm_compute in (bad_idx (%s) cases).\n' % agree)
            files.append((k, path))
        bad = []

        def one(kp):
            k, path = kp
            rc, out, err, dt = run_coqc(path, timeout)
            if rc != 0:
                return k, None, (err or out)[-1500:], dt
            m = re.search(r'=\s*\[(.*?)\]\s*(?:%nat)?\s*:\s*list nat', out, flags=re.S)
            if not m:
                return k, None, out[-1500:], dt
            idx = [int(t) for t in re.findall(r'\d+', m.group(1))]
            return k, idx, '', dt

        with ThreadPoolExecutor(max_workers=min(16, len(files))) as ex:
            results = list(ex.map(one, files))
        tot = 0.0
        for k, idx, msg, dt in results:
            tot += dt
            nm = ('correspondence %s shard %d (%d cases): agree = true for every case outside the listed known '
                  'findings' % (name, k // shard, min(shard, len(cases) - k)))
            if idx is None:
                self.oblige(nm, False, msg)
                p = self.write_replay({'kind': 'correspondence-file-rejected', 'shard': name, 'coq_output': msg})
                self.violations.append((p, True))
            else:
                self._shards.append([name, k, set(k + i for i in idx), nm])
                bad.extend(k + i for i in idx)
        self.extra.setdefault('coq_corr_s', 0)
        self.extra['coq_corr_s'] = round(self.extra['coq_corr_s'] + tot, 1)
        self.extra['traces_validated_against_impl'] = self.extra.get('traces_validated_against_impl', 0) + len(cases)
        shown = {}
        if bad and show:
            sel = bad[:400]
            path = os.path.join(self.workdir, 'show_%s_%s.v' % (self.pid, name))
            with open(path, 'w') as f:
                f.write('From Coq Require Import QArith ZArith List Bool.\nImport ListNotations.\n')
                f.write('From TW Require Import CorrUtil %s.\n' % ' '.join(imports))
                f.write('Open Scope Q_scope.\nSet Printing Width 1000000.\nSet Printing Depth 1000000.\n')
                for i in sel:
                    f.write('Eval vm_compute in (%s (%s)).\n' % (show, cases[i]))
            rc, out, err, dt = run_coqc(path, timeout)
            parts = re.split(r'\n(?=\s*=)', '\n' + out)
            parts = [p.strip() for p in parts if p.strip()]
            for i, p in zip(sel, parts):
                shown[i] = p[:4000]
        self.last_shown = shown
        return sorted(bad)

    # ---- reporting
    def write_replay(self, obj):
        obj = dict(obj)
        obj.setdefault('property', self.pid)
        obj.setdefault('seed', self.seed)
        obj.setdefault('tier', self.tier)
        obj.setdefault('rerun', './check %s --tier %s  (VERIF_SEED=%d)' % (self.pid, self.tier, self.seed))
        txt = json.dumps(obj, indent=1, default=str, sort_keys=True)
        h = hashlib.sha1(txt.encode()).hexdigest()[:10]
        path = os.path.join(ROOT, 'replays', '%s-%s.json' % (self.pid, h))
        with open(path, 'w') as f:
            f.write(txt)
        return path

    def known_match(self, finding_id):
        for k in self.known.get('known', []):
            if k['property'] == self.pid and k['id'] == finding_id:
                return k
        return None

    def violation(self, replay, no_input=False, known_id=None, corr=None):
        """report a failure of the property. If it belongs to a listed known finding, print that instead.
        corr=(shard_name, index): the correspondence case this report explains."""
        if known_id is not None:
            k = self.known_match(known_id)
            if k is not None:
                if corr is not None:
                    for sh in self._shards:
                        if sh[0] == corr[0]:
                            sh[2].discard(corr[1])
                self.known_hits.append(known_id)
                if known_id not in self._printed_known:
                    self._printed_known.add(known_id)
                    print('KNOWN-FINDING: property=%s %s' % (self.pid, k['what']), flush=True)
                return
        if len(self.violations) >= 8:
            self.violations.append((None, no_input))
            return
        p = self.write_replay(replay)
        self.violations.append((p, no_input))

    def finish(self, level='proof'):
        wall = time.time() - self.t0
        for name, k, left, nm in self._shards:
            self.oblige(nm, not left, 'unexplained disagreeing cases: %s' % sorted(left)[:20])
        nobl = len(self.obligations)
        ndis = sum(1 for o in self.obligations if o[1])
        for name, ok, detail in self.obligations:
            if not ok and not self.violations:
                p = self.write_replay({'kind': 'obligation-failed', 'obligation': name, 'detail': detail})
                self.violations.append((p, True))
        ev = {
            'property_id': self.pid, 'tier': self.tier, 'seed': self.seed, 'level': level,
            'coverage': {
                'obligations': nobl, 'discharged': ndis,
                'checker_cmd': 'cd /verif/coq && make -j16 && coqc -R . TW Props/%s.v   (+ coqc on generated '
                               '_work/%s/cases_*.v for the correspondence; thorough: coqchk -o)' % (self.pid, self.pid),
                'trusted_base': self.trusted_base(),
                'obligation_list': [{'name': n, 'ok': ok} for n, ok, _ in self.obligations][:80],
                'evaluations': self.evaluations,
                'distinct_nontrivial': len(self.nontrivial),
                'rule': self.rule,
                'samples': self.samples or ['(none)'],
                'traces_validated_against_impl': self.extra.get('traces_validated_against_impl', 0),
                'search_evaluations': self.search_evaluations,
                'input_distribution': self.dist,
                'discarded': self.discarded,
                'known_findings_hit': sorted(set(self.known_hits)),
                'exhaustive': bool(self.extra.get('exhaustive', False)),
                'details': {k: v for k, v in self.extra.items()
                            if k not in ('exhaustive', 'traces_validated_against_impl')},
            },
            'assumptions': self.notes,
            'wall_s': round(wall, 1),
            'violations': len(self.violations),
        }
        os.makedirs(os.path.join(ROOT, 'evidence'), exist_ok=True)
        with open(os.path.join(ROOT, 'evidence', self.pid + '.json'), 'w') as f:
            json.dump(ev, f, indent=1, default=str)
        seen = set()
        for p, noinp in self.violations:
            if p is None or p in seen:
                continue
            seen.add(p)
            print('VIOLATION property=%s replay=%s%s' % (self.pid, p, ' no-failing-input-found' if noinp else ''),
                  flush=True)
        print('%s %s: %d/%d obligations, %d evaluations (%d distinct non-trivial), %d search evaluations, '
              '%d violations, %.0fs' % (self.pid, self.tier, ndis, nobl, self.evaluations, len(self.nontrivial),
                                        self.search_evaluations, len(self.violations), wall), flush=True)
        return 1 if self.violations else 0

    def trusted_base(self):
        tb = ['Coq 8.16.1 kernel incl. vm_compute (used for Example witnesses and for evaluating `agree`); '
              'no native_compute; no extraction',
              'axioms reported by Print Assumptions for Props/%s.v: %s' % (
                  self.pid, ', '.join(getattr(self, 'axioms', [])) or 'none (all closed under the global context)'),
              'hand-written model coq/Model/*.v tied to /repo by the per-run correspondence (python harness: '
              'generators, float->exact rational marshalling, generated cases_*.v)']
        return tb + list(self.trusted)


def implementation():
    """import tweakwcs from REPO's working tree (never from an installed copy)."""
    if REPO not in sys.path:
        sys.path.insert(0, REPO)
    import tweakwcs
    assert os.path.realpath(tweakwcs.__file__).startswith(os.path.realpath(REPO)), tweakwcs.__file__
    return tweakwcs
