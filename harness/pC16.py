"""C16 - convex hulls, bounding polygons of catalogs, overlap areas.

(i)  convex_hull(x, y, wcs=None, min_separation) on dyadic point sets: the returned vertex arrays are compared
     EXACTLY with the Coq model `convex_hull_model` (coq/Model/HullFull.v, theorems in coq/Props/C16.v); the
     property predicates are also evaluated directly on the implementation's output (exact integer arithmetic).
(ii) catalog level (external spherical geometry, measured): containment of every source in the bounding polygon
     of WCSImageCatalog / WCSGroupCatalog (all bb_policy) / RefCatalog, tightness, 1- and 2-source boxes,
     symmetry and bound of the overlap areas.
"""
import math
from fractions import Fraction

import numpy as np

from common import q, b, lst, qlist, frac, implementation

F = Fraction


# =========================================================================== part (i): generators
def _ints(rng, n, lo, hi):
    return [(float(rng.randrange(lo, hi + 1)), float(rng.randrange(lo, hi + 1))) for _ in range(n)]


def gen_points(rng, fam):
    """returns (points, min_separation or None); every coordinate is a dyadic rational with |v| < 2^12 and at
    most 10 fractional bits, so the float cross products and differences inside convex_hull are exact."""
    sep = None
    if fam == 'random':
        n = rng.randrange(4, 40)
        r = rng.choice([3, 8, 50, 1000])
        pts = _ints(rng, n, -r, r)
    elif fam == 'dyadic':
        n = rng.randrange(4, 30)
        bits = rng.choice([1, 3, 10])
        pts = [(rng.randrange(-64 * 2 ** bits, 64 * 2 ** bits) / 2.0 ** bits,
                rng.randrange(-64 * 2 ** bits, 64 * 2 ** bits) / 2.0 ** bits) for _ in range(n)]
    elif fam == 'duplicates':
        pool = _ints(rng, rng.randrange(1, 8), -5, 5)
        pts = [rng.choice(pool) for _ in range(rng.randrange(1, 30))]
    elif fam == 'collinear':
        # a run of points on one line (any direction incl. vertical/horizontal) + 0..3 points off the line
        dx, dy = rng.choice([(1, 0), (0, 1), (1, 1), (2, -1), (3, 2), (-1, 3), (1, -2)])
        x0, y0 = rng.randrange(-20, 21), rng.randrange(-20, 21)
        ts = [rng.randrange(-12, 13) for _ in range(rng.randrange(2, 14))]
        pts = [(float(x0 + dx * t), float(y0 + dy * t)) for t in ts]
        pts += _ints(rng, rng.choice([0, 0, 1, 2, 3]), -30, 30)
        rng.shuffle(pts)
    elif fam == 'lattice':
        w, h = rng.randrange(1, 7), rng.randrange(1, 7)
        x0, y0, st = rng.randrange(-5, 6), rng.randrange(-5, 6), rng.choice([1, 2, 0.5])
        pts = [(x0 + st * i, y0 + st * j) for i in range(w) for j in range(h)]
        if rng.random() < 0.5:       # sheared lattice: many collinear boundary points in other directions
            sh = rng.choice([1, -1, 2])
            pts = [(x, y + sh * x) for x, y in pts]
        if rng.random() < 0.4:
            pts = [p for p in pts if rng.random() < 0.7]
        rng.shuffle(pts)
    elif fam == 'small':
        n = rng.randrange(0, 4)
        r = rng.choice([1, 2, 20])
        pts = _ints(rng, n, -r, r)
    elif fam == 'circle':
        # many hull vertices: integer points near a circle + interior points
        R = rng.choice([20, 100, 1000])
        n = rng.randrange(6, 40)
        pts = []
        for _ in range(n):
            a = rng.random() * 2 * math.pi
            pts.append((float(round(R * math.cos(a))), float(round(R * math.sin(a)))))
        pts += _ints(rng, rng.randrange(0, 10), -R // 2, R // 2)
    elif fam == 'near':
        # clusters of near-coincident points around the vertices of a polygon, with min_separation of the order
        # of the cluster size (below, equal, above) -- exercises the merging loop, F10 and F14
        k = rng.randrange(2, 8)
        R = rng.choice([16, 64, 512])
        e = rng.choice([1.0, 0.25, 2.0 ** -6, 2.0 ** -10])
        m = rng.choice([1, 2, 4])
        pts = []
        a0 = rng.random() * 2 * math.pi
        for i in range(k):
            a = a0 + 2 * math.pi * i / k
            cx, cy = float(round(R * math.cos(a))), float(round(R * math.sin(a)))
            for _ in range(rng.randrange(1, 5)):
                pts.append((cx + e * rng.randrange(-m, m + 1), cy + e * rng.randrange(-m, m + 1)))
        pts += _ints(rng, rng.randrange(0, 4), -R // 4, R // 4)
        rng.shuffle(pts)
        sep = e * rng.choice([0, 0.5, 1, 1, 2, 2, 3, 4, 8])
        if rng.random() < 0.1:
            sep = float(2 * R + 8 * e * m)      # everything within min_separation
    else:
        raise ValueError(fam)
    if sep is None:
        r = rng.random()
        if r < 0.35:
            sep = None
        elif r < 0.5:
            sep = 0.0
        else:
            sep = rng.choice([0.5, 1.0, 1.0, 2.0, 3.0, 4.0, 16.0, 2.0 ** -11])
    return pts, sep


CORPUS = [
    # F10 (e22.py, scaled to dyadic numbers): vertex 1 within min_separation of the start vertex
    ([(0.0, 0.0), (1.0, -1.0), (10.0, 0.0), (5.0, 10.0)], 2.0),
    ([(0.0, 0.0), (2.0 ** -10, -2.0 ** -10), (10.0, 0.0), (5.0, 10.0)], 2.0 ** -9),
    # F14: neighbour already removed, survivor adjacent to a vertex within min_separation
    ([(4.0, 2.0), (7.0, -4.0), (8.0, 1.0), (8.0, 6.0)], 4.0),
    ([(0.0, -4.0), (40.0, 0.0), (41.5, 0.5), (41.0, 1.0), (0.0, 20.0)], 1.0),
    # F14, start step needed twice
    ([(0.0, 0.0), (1.0, -3.0), (3.0, 0.5), (4.0, 30.0)], 3.0),
    # other merging situations: last vertex before the closing one, middle, everything close
    ([(0.0, 0.0), (10.0, 0.0), (11.0, 1.0), (5.0, 10.0)], 2.0),
    ([(0.0, 0.0), (10.0, 0.0), (5.0, 10.0), (1.0, 2.0), (0.0, 1.0)], 2.0),
    ([(0.0, 0.0), (1.0, 0.0), (0.0, 1.0)], 8.0),
    ([(0.0, 0.0), (1.0, 1.0)], 1.0),
    ([(0.0, 0.0), (1.0, 1.0)], 0.5),
    # hull corner cases
    ([], None), ([(3.0, 4.0)], 1.0), ([(3.0, 4.0)] * 5, None), ([(0.0, 0.0), (1.0, 1.0), (2.0, 2.0)], None),
    ([(0.0, 0.0), (0.0, 1.0), (0.0, 2.0), (0.0, 3.0)], 0.0),
    ([(0.0, 0.0), (1.0, 0.0), (2.0, 0.0), (2.0, 1.0), (2.0, 2.0), (1.0, 2.0), (0.0, 2.0), (0.0, 1.0), (1.0, 1.0)],
     None),
]


# =========================================================================== part (i): predicates on the output
def _cr(o, a, p):
    return (a[0] - o[0]) * (p[1] - o[1]) - (a[1] - o[1]) * (p[0] - o[0])


def _close(s, a, p):
    return abs(a[0] - p[0]) <= s and abs(a[1] - p[1]) <= s


def hull_predicate(pts, h):
    """property predicate for the unmerged hull `h` (list of exact points) of the input `pts`; returns the list
    of failed clauses."""
    bad = []
    S = sorted(set(pts))
    if len(S) == 0:
        return [] if h == [] else ['empty input must give an empty hull']
    if len(S) == 1:
        return [] if h == [S[0]] else ['single point must give that point']
    if len(h) < 3 or h[0] != h[-1]:
        return ['hull is not closed (first != last) or has < 3 entries']
    if h[0] != S[0]:
        bad.append('hull does not start at the lexicographically smallest point')
    if any(v not in set(S) for v in h):
        bad.append('hull vertex is not an input point')
    if any(_cr(h[i], h[i + 1], p) < 0 for i in range(len(h) - 1) for p in S):
        bad.append('an input point is strictly right of a directed hull edge (not contained / not CCW)')
    collinear = all(_cr(S[0], S[-1], p) == 0 for p in S)
    if collinear:
        if h != [S[0], S[-1], S[0]]:
            bad.append('collinear input must give [min, max, min]')
    else:
        cyc = h + [h[1]]
        if any(_cr(cyc[i], cyc[i + 1], cyc[i + 2]) <= 0 for i in range(len(cyc) - 2)):
            bad.append('consecutive hull vertices do not turn strictly left (collinear or repeated vertex kept)')
    return bad


def merge_predicate(h, m, s):
    """h: unmerged hull (>= 3 entries), m: merged output, s: min_separation"""
    bad = []
    if not m or m[0] != h[0] or m[-1] != h[-1] or len(m) < 2:
        return ['start vertex not kept / polygon not closed after merging']
    it = iter(h)
    if not all(any(v == w for w in it) for v in m):
        bad.append('merged vertices are not a subsequence of the hull')
    if len(m) > 2 and any(_close(s, m[i], m[i + 1]) for i in range(len(m) - 1)):
        bad.append('adjacent vertices within min_separation in both coordinates remain after merging')
    if len(m) == len(h) and len(m) > 2 and any(_close(s, h[i], h[i + 1]) for i in range(len(h) - 1)):
        bad.append('nothing merged although adjacent hull vertices are within min_separation')
    return bad


def call_hull(convex_hull, pts, sep, mode):
    xs, ys = [p[0] for p in pts], [p[1] for p in pts]
    if mode == 'ndarray':
        ax, ay = np.array(xs, dtype=float), np.array(ys, dtype=float)
    elif mode == 'mixed':
        ax, ay = xs, np.array(ys, dtype=float)
    elif mode == 'tuple':
        ax, ay = tuple(xs), tuple(ys)
    else:
        ax, ay = xs, ys
    try:
        hx, hy = convex_hull(ax, ay, wcs=None, min_separation=sep)
    except ValueError:
        return True, None, None, True
    type_ok = (isinstance(hx, np.ndarray) and isinstance(hy, np.ndarray)) if mode in ('ndarray', 'mixed') \
        else (isinstance(hx, list) and isinstance(hy, list))
    return False, [float(v) for v in hx], [float(v) for v in hy], type_ok


def part_hull(ck, convex_hull):
    rng = ck.rng
    fams = ['random', 'dyadic', 'duplicates', 'collinear', 'lattice', 'small', 'circle', 'near', 'near', 'near']
    N = ck.n(700, 12000)
    todo = [('corpus', pts, sep) for pts, sep in CORPUS]
    for t in range(N):
        fam = fams[t % len(fams)]
        pts, sep = gen_points(rng, fam)
        todo.append((fam, pts, sep))
    for t in range(ck.n(6, 40)):
        pts, _ = gen_points(rng, 'random')
        todo.append(('negative_sep', pts, -rng.choice([1.0, 0.5, 2.0 ** -20])))
    cases, meta = [], []
    modes = ['list', 'ndarray', 'mixed', 'tuple']
    for t, (fam, pts, sep) in enumerate(todo):
        mode = modes[t % 4] if t % 4 != 3 or t % 8 == 3 else 'list'
        raised, hx, hy, type_ok = call_hull(convex_hull, pts, sep, mode)
        ck.count('family', fam)
        ck.count('input_type', mode)
        ck.count('min_separation', 'None' if sep is None else ('0' if sep == 0 else ('<0' if sep < 0 else '>0')))
        S = sorted(set(pts))
        ck.count('distinct_points', min(len(S), 10) if len(S) < 10 else '10+')
        if not type_ok:
            ck.violation({'kind': 'convex_hull-return-type', 'points': pts, 'min_separation': sep, 'mode': mode,
                          'expected': 'ndarray pair if x or y is an ndarray, else two lists'}, no_input=True)
        xs, ys = [p[0] for p in pts], [p[1] for p in pts]
        cases.append('{| h_xs := %s; h_ys := %s; h_sep := %s; h_raised := %s; h_vx := %s; h_vy := %s |}' % (
            qlist(xs), qlist(ys), 'None' if sep is None else 'Some %s' % q(sep), b(raised),
            qlist(hx or []), qlist(hy or [])))
        # property predicate evaluated on the implementation, exactly
        P = [(F(x), F(y)) for x, y in pts]
        fails = []
        merged_any = False
        if raised:
            if sep is None or sep >= 0:
                fails.append('ValueError for a valid min_separation')
        elif sep is not None and sep < 0:
            fails.append('negative min_separation accepted')
        else:
            H = list(zip([F(v) for v in hx], [F(v) for v in hy]))
            ck.search_evaluations += 1
            if sep is None:
                fails = hull_predicate(P, H)
            else:
                r0, hx0, hy0, _ = call_hull(convex_hull, pts, None, mode)
                H0 = list(zip([F(v) for v in hx0], [F(v) for v in hy0]))
                fails = hull_predicate(P, H0)
                if len(H0) >= 3:
                    fails += merge_predicate(H0, H, F(sep))
                    merged_any = len(H) < len(H0)
                elif H != H0:
                    fails.append('0/1-point result changed by min_separation')
        nontrivial = (len(S) >= 3 and not all(_cr(S[0], S[-1], p) == 0 for p in S) and len(S) < len(pts) + 1
                      and (hx is not None and len(hx) >= 4)) and (sep is None or sep == 0 or merged_any
                                                                  or fam in ('near', 'corpus'))
        ck.case(('hull', pts, sep, mode), nontrivial)
        if merged_any:
            ck.count('merging', 'some vertex merged')
        meta.append((fam, pts, sep, mode, raised, hx, hy, fails))
        if len(pts) <= 8:
            ck.sample({'family': fam, 'points': pts, 'min_separation': sep, 'input_type': mode,
                       'hull': None if raised else list(zip(hx, hy))}, limit=6)
    bad = set(ck.coq_agree('hull', ['HullModel', 'HullFull', 'HullLiteral', 'C16Corr'], 'case16', 'agree16', cases,
                           show='show16', shard=ck.n(250, 800)))
    for i, (fam, pts, sep, mode, raised, hx, hy, fails) in enumerate(meta):
        if i not in bad and not fails:
            continue
        rp = {'kind': 'convex_hull', 'call': 'tweakwcs.wcsimage.convex_hull(x, y, wcs=None, min_separation=s)',
              'family': fam, 'input_type': mode, 'x': [p[0] for p in pts], 'y': [p[1] for p in pts],
              'min_separation': sep, 'impl_raised': raised,
              'impl_vertices': None if raised else list(zip(hx, hy)),
              'disagrees_with_model': i in bad,
              'model (convex_hull_model)': ck.last_shown.get(i, 'n/a') if i in bad else 'agrees',
              'failed_property_clauses': fails,
              'predicate': 'closed CCW strictly convex polygon starting at the lexicographic minimum, vertices are '
                           'input points, every input point on or left of every edge; after merging: subsequence, '
                           'start kept, closed, no adjacent pair within min_separation in both coordinates '
                           '(unless only [start, start] remains)'}
        # the unmerged hull is unique, so a disagreement there is a failing input even if the python predicate
        # above were too weak to see it; for merged output the model fixes WHICH vertex is dropped
        concrete = bool(fails) or sep is None or sep == 0
        ck.violation(rp, no_input=not concrete)


# =========================================================================== entry
def rotation_convention(ck):
    """ties tweakwcs.wcsutils.planar_rot_3d and the order used by RefCatalog._calc_cat_convex_hull to the Coq model
    (Proofs/SkyRot.v: rot_z, rot_y, euler = rot_y . rot_z): same matrices, and the product applied to the mean
    direction gives the +x axis; the source text of the method is checked to use that order."""
    import inspect
    import math
    import numpy as np
    from tweakwcs.wcsutils import planar_rot_3d
    from tweakwcs.wcsimage import RefCatalog
    rng = ck.rng
    for _ in range(ck.n(40, 400)):
        ra, dec = rng.uniform(0, 360), rng.uniform(-89.9, 89.9)
        a, d = math.radians(ra), math.radians(dec)
        c1, s1, c2, s2 = math.cos(a), math.sin(a), math.cos(d), math.sin(d)
        rz, ry = planar_rot_3d(a, 2), planar_rot_3d(d, 1)
        mz = np.array([[c1, s1, 0.0], [-s1, c1, 0.0], [0.0, 0.0, 1.0]])
        my = np.array([[c2, 0.0, s2], [0.0, 1.0, 0.0], [-s2, 0.0, c2]])
        ck.search_evaluations += 1
        v = np.dot(np.dot(ry, rz), [c2 * c1, c2 * s1, s2])
        if not (np.array_equal(rz, mz) and np.array_equal(ry, my) and np.allclose(v, [1.0, 0.0, 0.0], atol=1e-14)):
            ck.violation({'kind': 'planar_rot_3d differs from the modelled rotation matrices', 'ra': ra, 'dec': dec,
                          'planar_rot_3d(ra, 2)': rz.tolist(), 'planar_rot_3d(dec, 1)': ry.tolist(),
                          'rotated mean direction': v.tolist()})
            return
    src = inspect.getsource(RefCatalog._calc_cat_convex_hull)
    if 'multi_dot(rotm[::-1])' not in src.replace(' ', '').replace('np.linalg.', ''):
        # the order of the two rotations is what fix dfbfda6 repaired; the high-declination / RA ~ 180 stream of
        # pC16cat exposes a wrong order on the sky, this is only the textual tie of the model to the source
        ck.notes.append('RefCatalog._calc_cat_convex_hull no longer contains `multi_dot(rotm[::-1])`: the Coq model of '
                        'the rotation order (SkyRot.euler) is tied to the code only through the sky-level stream')


def run(ck):
    implementation()
    from tweakwcs.wcsimage import convex_hull
    ck.props()
    rotation_convention(ck)
    ck.rule = ('(i) point sets from families random / dyadic / duplicates / collinear runs (+ off-line points) / '
               'lattices (sheared, thinned) / 0..3 points / near-circle / clusters of near-coincident points around '
               'polygon vertices with min_separation below, at and above the cluster size; min_separation None, 0, '
               '>0, <0; inputs as list, ndarray, mixed, tuple. Non-trivial: >= 3 distinct non-collinear points, '
               'hull with >= 3 vertices, and (no merging requested, or a vertex was actually merged, or family '
               'near/corpus); distinct by content. (ii) see `catalog_rule` in details.')
    ck.notes += ['part (i): inputs are dyadic with < 2^12 magnitude and <= 10 fractional bits, so every float '
                 'operation of convex_hull is exact and the comparison with the model is exact equality; behaviour '
                 'under rounding of cross products (nearly collinear float input) is outside the theorems']
    part_hull(ck, convex_hull)
    import pC16cat
    pC16cat.part_catalogs(ck)
