"""C05 - the sky positions produced by an alignment do not depend on the tangent plane the fit was carried out
in; all members of a group receive one and the same sky-level correction and land on the reference."""
import math

import numpy as np

import gen_align as A
import gen_wcs2 as W
from common import q, lst, nat, frac, implementation
from pC06 import coq_case
from pC01 import flat, plane_unit_arcsec, tangent_point, GW_TOL, FITS_FLOOR, CFITS

CPL = 10.0         # constant of the first-order plane-to-plane bound  CPL * corr * sep * L  (measured <= 4)
RAD = math.pi / (180.0 * 3600.0)    # radians per arcsec
GRIDX = np.array([40.0, 512.0, 1000.0, 60.0, 990.0, 500.0, 250.0])
GRIDY = np.array([30.0, 900.0, 80.0, 1000.0, 1010.0, 480.0, 700.0])


def aff(m):
    return lst([]) if m is None else lst([q(frac(v)) for v in m])


def coq_member(gw, a2r, A0, A1, R, land, landtol, mp, maptol, cross, crosstol):
    ql = lambda v: lst([q(x) for x in v])   # noqa: E731
    return ('{| m_gw := %s; m_a2r := %s; m_A0 := %s; m_A1 := %s; m_R := %s; m_land := %s; m_landtol := %s; '
            'm_map := %s; m_maptol := %s; m_cross := %s; m_crosstol := %s |}'
            % (nat(gw), q(a2r), aff(A0), aff(A1), aff(R), ql(land), q(landtol), ql(mp), q(maptol), ql(cross),
               q(crosstol)))


def fits_plane(rng, crval, pxdeg, desc):
    rp = {'kind': 'fits', 'crval': [float(crval[0]), float(crval[1])], 'rot': rng.randrange(0, 360 * 4) / 4.0,
          'scale': pxdeg * rng.choice([0.5, 0.75, 1.5, 2.0]), 'pc': rng.random() < 0.5, 'sip': None,
          'crpix': [rng.choice([512.0, 100.0, 900.5]), rng.choice([512.0, 77.25, 1000.0])]}
    return {'desc': desc, 'par': rp, 'c': W.build(rp)}


def scenario(rng, t):
    kind = ['fits', 'gwcs'][t % 2]
    coincident = (t // 2) % 5 == 4            # one image, all reference planes share its tangent point
    ng = 1 if coincident else 1 + (t // 2) % 4
    base = rng.choice(W.POINTINGS)
    if kind == 'fits':
        scl = rng.choice([3e-6, 1e-5, 7e-5, 1e-4])
        pxdeg = scl
    else:
        cdv = rng.choice([2.4e-7, 5.5e-7, 1.5e-6, 1e-5])
        pxdeg = math.degrees(cdv)
    anchor = W.build({'kind': 'fits', 'crval': list(base), 'rot': 0.0, 'scale': pxdeg, 'pc': False, 'sip': None,
                      'crpix': [512.0, 512.0]})
    members = []
    for k in range(ng):
        par = W.fits_params(rng, [scl * rng.choice([1.0, 1.25, 0.8])]) if kind == 'fits' else W.gwcs_params(rng, [cdv])
        off = (rng.randrange(-600, 601), rng.randrange(-600, 601))
        cv = anchor.det_to_world(511.0 + off[0], 511.0 + off[1])
        par['crval'] = [float(cv[0]), float(cv[1])]
        c = W.build(par)
        nh = rng.choice([0, 1, 2])
        c, steps = W.apply_history(rng, c, par, nh, [rng.choice(['set', 'setref', 'fit']) for _ in range(2)])
        members.append({'par': par, 'c': c, 'steps': steps, 'nh': nh})
    m0 = members[0]
    tp0 = tangent_point(m0['c'], m0['par'])
    planes = [{'desc': 'member 0 (copy)', 'par': dict(m0['par']), 'c': m0['c'].copy()},
              fits_plane(rng, tp0, pxdeg, 'non-member FITS plane, tangent point of member 0, rotated/scaled/CRPIX moved')]
    if kind == 'gwcs':
        rp = dict(m0['par'])
        rp['roll'] = (rp['roll'] + rng.choice([33.0, 180.0, 271.5])) % 360.0
        r = W.build(rp)
        r, _ = W.apply_history(rng, r, rp, 1, ['set'])
        planes.append({'desc': 'non-member gWCS plane, tangent point of member 0, other roll, own history',
                       'par': rp, 'c': r})
    if not coincident:
        planes.append(fits_plane(rng, base, pxdeg, 'non-member FITS plane at the group centre'))
        cv = anchor.det_to_world(511.0 + rng.choice([-900, 900]), 511.0 + rng.choice([-700, 700]))
        planes.append(fits_plane(rng, cv, pxdeg, 'non-member FITS plane, tangent point ~1100 px off the group centre'))
        if ng > 1:
            ml = members[-1]
            planes.append({'desc': 'member %d (copy)' % (ng - 1), 'par': dict(ml['par']), 'c': ml['c'].copy()})
    primary = rng.randrange(len(planes))
    geom = W.GEOMS[(t // 3) % 4]
    entry = 'align_wcs' if t % 3 == 2 else 'align_to_ref'
    return dict(kind=kind, ng=ng, coincident=coincident, base=list(base), pxdeg=pxdeg, members=members, planes=planes,
                primary=primary, geom=geom, entry=entry)


def build_catalogs(rng, sc):
    """catalog pixels of every member and reference sky positions := B0.t2w(G(B0.w2t(current sky))), B0 primary."""
    B0 = sc['planes'][sc['primary']]
    pu0 = plane_unit_arcsec(B0['par'])
    unit = sc['pxdeg'] * 3600.0 / pu0                         # image pixel in primary-plane units
    M, s = W.affine(rng, sc['geom'], unit, big=False)
    if sc['entry'] == 'align_to_ref':
        s = s * 6.0
    total = 0
    for attempt in range(30):
        allra, alldec = [], []
        # now and then one member (not the first) has NO sources at all: it must still receive the group's correction
        empty = rng.randrange(1, len(sc['members'])) if len(sc['members']) >= 2 and rng.random() < 0.3 else None
        sc['empty_member'] = empty
        for km, mb in enumerate(sc['members']):
            n = 0 if km == empty else rng.choice([2, 3, 5, 8])
            if n == 0:
                x, y = np.zeros(0), np.zeros(0)
            else:
                x, y = W.grid_pixels(rng, n, W.shape_of(mb['par']))
            mb['x'], mb['y'] = x, y
            ra, dec = mb['c'].det_to_world(x, y)
            mb['ra0'], mb['dec0'] = np.asarray(ra, dtype=float), np.asarray(dec, dtype=float)
            allra += list(mb['ra0'])
            alldec += list(mb['dec0'])
        allra, alldec = np.array(allra), np.array(alldec)
        total = len(allra)
        if total < 4:
            continue
        tt = np.array(B0['c'].world_to_tanp(allra, alldec), dtype=float)
        if W.spread_min(tt[0], tt[1]) < 24.0 * unit:
            continue
        dmin = min(W.sep_arcsec(allra[i], alldec[i], np.delete(allra, i), np.delete(alldec, i)).min()
                   for i in range(total))
        if dmin > 40.0 * sc['pxdeg'] * 3600.0:
            break
    else:
        return False
    for mb in sc['members']:
        t0 = np.array(B0['c'].world_to_tanp(mb['ra0'], mb['dec0']), dtype=float)
        g = M @ t0 + s[:, None]
        rra, rdec = B0['c'].tanp_to_world(g[0], g[1])
        mb['t0'], mb['g0'] = t0, g
        mb['rra'], mb['rdec'] = np.asarray(rra, dtype=float), np.asarray(rdec, dtype=float)
        gra, gdec = mb['c'].det_to_world(GRIDX, GRIDY * (2.0 if mb['par']['kind'] == 'gwcs' else 1.0))
        mb['gra0'], mb['gdec0'] = np.asarray(gra, dtype=float), np.asarray(gdec, dtype=float)
    sc['M'], sc['s'], sc['unit0'] = np.array(M), np.array(s), unit
    sc['weights'] = rng.random() < 0.3
    for mb in sc['members']:
        mb['w'] = np.array([rng.choice([0.5, 1.0, 2.0, 3.0]) for _ in mb['x']]) if sc['weights'] else None
    return True


def align_once(ck, rng, sc, j, t):
    """align fresh copies of the members through plane j; returns dict of observables or None."""
    from astropy.table import Table
    from tweakwcs import align_wcs
    from tweakwcs.wcsimage import WCSImageCatalog, WCSGroupCatalog, RefCatalog
    from tweakwcs.correctors import _tp2tp
    pl = sc['planes'][j]
    # the conjugate of a similarity by a non-similarity plane-to-plane map is not a similarity: fit 'general'
    # in the secondary planes
    geom = sc['geom'] if j == sc['primary'] else 'general'
    cors, before = [], []
    for k, mb in enumerate(sc['members']):
        cc = mb['c'].copy()
        cat = Table([mb['x'], mb['y']], names=('x', 'y'))
        if mb['w'] is not None:
            cat['weight'] = mb['w']
        cc.meta['catalog'] = cat
        cc.meta['name'] = 'member%d' % k
        cc.meta['group_id'] = 5
        st = {'A0': None, 'R': None}
        if mb['par']['kind'] == 'gwcs':
            st['A0'] = flat(*W.affine_state(cc))
            r, tt = _tp2tp(pl['c'], cc)
            st['R'] = flat(np.asarray(r, dtype=float), np.asarray(tt, dtype=float))
        cors.append(cc)
        before.append(st)
    rra = np.concatenate([mb['rra'] for mb in sc['members']])
    rdec = np.concatenate([mb['rdec'] for mb in sc['members']])
    ntot = len(rra)
    try:
        if sc['entry'] == 'align_wcs':
            perm = np.array(rng.sample(range(ntot), ntot))
            refcat = Table([rra[perm], rdec[perm]], names=('RA', 'DEC'))
            radius = 14.0 * sc['pxdeg'] * 3600.0 / plane_unit_arcsec(pl['par'])
            align_wcs(cors, refcat=refcat, ref_tpwcs=pl['c'], fitgeom=geom, nclip=0, minobj=None,
                      match=A.oracle_matcher(radius, seed=t + j), expand_refcat=False)
        else:
            ims = [WCSImageCatalog(cc.meta['catalog'], cc, name=cc.meta['name']) for cc in cors]
            grp = WCSGroupCatalog(ims, name='group')
            grp.align_to_ref(RefCatalog(Table([rra, rdec], names=('RA', 'DEC')), name='ref'), ref_tpwcs=pl['c'],
                             match=None, minobj=None, fitgeom=geom, nclip=0)
            for im, cc in zip(ims, cors):
                cc.meta['fit_info'] = im.fit_info
    except Exception as e:   # noqa
        return {'error': repr(e), 'geom': geom}
    fi = cors[0].meta.get('fit_info', {})
    out = {'geom': geom, 'status': [c.meta.get('fit_info', {}).get('status') for c in cors], 'fi': fi, 'cors': cors,
           'before': before}
    if any(s != 'SUCCESS' for s in out['status']):
        return out
    if sc['entry'] == 'align_wcs' and len(fi.get('matched_input_idx', [])) != ntot:
        out['status'] = ['MATCHER']
        return out
    out['same_fit'] = all(np.array_equal(c.meta['fit_info']['matrix'], fi['matrix']) and
                          np.array_equal(c.meta['fit_info']['shift'], fi['shift']) for c in cors)
    out['sky'] = []
    out['land'] = []
    for mb, cc in zip(sc['members'], cors):
        gy = GRIDY * (2.0 if mb['par']['kind'] == 'gwcs' else 1.0)
        ra, dec = cc.det_to_world(GRIDX, gy)
        out['sky'].append((np.asarray(ra, dtype=float), np.asarray(dec, dtype=float)))
        if len(mb['x']):
            out['land'].append(W.sep_arcsec(*cc.det_to_world(mb['x'], mb['y']), mb['rra'], mb['rdec']))
        else:
            out['land'].append(np.zeros(1))     # member without sources: nothing to land (its map is checked on the grid)
    return out


def bounds(sc, j, Mu, su):
    """allowed deviation (arcsec) for every member after the alignment through plane j (see ck.notes)."""
    pl = sc['planes'][j]
    B0 = sc['planes'][sc['primary']]
    tps = [tangent_point(pl['c'], pl['par']), tangent_point(B0['c'], B0['par'])] + \
          [tangent_point(mb['c'], mb['par']) for mb in sc['members']]
    sep = max(float(W.sep_arcsec(a[0], a[1], c_[0], c_[1])) for a in tps for c_ in tps)
    if sep < 1e-6:
        sep = 0.0            # common tangent point: plane-to-plane maps are exactly affine
    corr = max(float(W.sep_arcsec(mb['ra0'], mb['dec0'], mb['rra'], mb['rdec']).max()) for mb in sc['members']
               if len(mb['ra0']))
    L = 0.0
    for mb in sc['members']:
        for a in tps:
            L = max(L, float(W.sep_arcsec(mb['gra0'], mb['gdec0'], a[0], a[1]).max()))
            if len(mb['ra0']):
                L = max(L, float(W.sep_arcsec(mb['ra0'], mb['dec0'], a[0], a[1]).max()))
    first = CPL * (corr * RAD) * (sep * RAD) * (L * RAD) / RAD
    dM = float(np.linalg.norm(Mu - np.eye(2), 2))
    tol = []
    for mb in sc['members']:
        if mb['par']['kind'] == 'gwcs':
            tol.append(first + GW_TOL * max(1.0, 10.0 * dM))
        else:
            par = mb['par']
            pxas = par['scale'] * 3600.0
            tpm = tangent_point(mb['c'], par)
            sep_px = float(W.sep_arcsec(tpm[0], tpm[1], tps[0][0], tps[0][1])) / pxas
            rho = float(np.hypot(GRIDX - (par['crpix'][0] - 1), GRIDY - (par['crpix'][1] - 1)).max())
            scale = math.radians(par['scale'])
            disp = 2.0 * corr / pxas
            tol.append(first + CFITS * disp * (rho + sep_px) ** 2 * scale ** 2 * pxas + FITS_FLOOR)
    return tol, {'sep_arcsec': sep, 'corr_arcsec': corr, 'L_arcsec': L, 'first_order_term_arcsec': first / CPL}


def describe(sc):
    return {'corrector_class': sc['kind'], 'group_size': sc['ng'], 'entry': sc['entry'],
            'members': [{'parameters': mb['par'], 'earlier_alignments': mb['steps'],
                         'catalog_pixels': [mb['x'].tolist(), mb['y'].tolist()],
                         'weights': None if mb['w'] is None else mb['w'].tolist()} for mb in sc['members']],
            'reference_planes': [{'description': p['desc'], 'parameters': p['par']} for p in sc['planes']],
            'primary_plane(error is exactly affine there)': sc['primary'],
            'true_error(matrix, shift; primary-plane units)': [sc['M'].tolist(), sc['s'].tolist()],
            'fitgeom(primary plane; secondary planes use general)': sc['geom'],
            'construction': 'reference sky of every member := P.tanp_to_world(G(P.world_to_tanp(member.det_to_world('
                            'pixels)))), P the primary plane'}


def mosaic_stream(ck, rng):
    """two images (two groups) aligned in one align_wcs call with expand_refcat=True: the second image is matched
    partly to original reference sources and partly to sources appended from the first image. The whole run is repeated
    through several reference planes (the SAME plane object serves both images, as in align_wcs)."""
    from astropy.table import Table
    from tweakwcs import align_wcs
    from tweakwcs.correctors import FITSWCSCorrector
    measured = ck.extra.setdefault('measured', {})
    TOL = 1e-4       # arcsec; measured <= 1e-7; second-order terms 4*corr*r^2 <= ~3e-7 for these fields
    for t in range(ck.n(10, 120)):
        base = [(82.0, 12.0), (0.002, -30.0), (359.998, 45.0), (200.0, 70.0), (15.0, -0.001)][t % 5]
        scale = rng.choice([1e-5, 3e-5, 5e-6])
        rotA, rotB, sclB = rng.uniform(0, 360), rng.uniform(0, 360), scale * rng.choice([1.0, 1.1])
        wA_true = A.mkwcs(crval=base, rot=rotA, scale=scale)
        cB = wA_true.all_pix2world(511.0 + rng.uniform(300, 380), 511.0 + rng.uniform(-120, 120), 0)
        wB_true = A.mkwcs(crval=(float(cB[0]), float(cB[1])), rot=rotB, scale=sclB)
        mid = wA_true.all_pix2world(511.0 + 170, 511.0, 0)
        ra, dec = A.separated_sources(rng, 170, 900 * scale, 32 * scale, center=(float(mid[0]), float(mid[1])))
        xa, ya, ia = A.observe(wA_true, ra, dec)
        xb, yb, ib = A.observe(wB_true, ra, dec)
        ref_idx = ia[xa < 620.0]
        n_ref_b = len(set(ref_idx) & set(ib))
        n_app_b = len((set(ia) - set(ref_idx)) & set(ib))
        if n_ref_b < 4 or n_app_b < 6 or len(ref_idx) < 8:
            ck.discard('mosaic: second image does not see enough original / appended reference sources')
            continue

        def with_error(w_true, rot, scl, e):
            return A.mkwcs(crval=(w_true.wcs.crval[0] + e[0] * scale / math.cos(math.radians(w_true.wcs.crval[1])),
                                  w_true.wcs.crval[1] + e[1] * scale), rot=rot + e[2], scale=scl * (1 + e[3]))
        eA = (rng.uniform(-3, 3), rng.uniform(-3, 3), rng.uniform(-0.02, 0.02), rng.uniform(-1e-4, 1e-4))
        eB = (rng.uniform(-3, 3), rng.uniform(-3, 3), rng.uniform(-0.02, 0.02), rng.uniform(-1e-4, 1e-4))
        planes = [('default (None)', None, scale),
                  ('rotated/scaled FITS plane at the mosaic centre',
                   {'crval': (float(mid[0]), float(mid[1])), 'rot': rng.uniform(0, 360), 'scale': scale * rng.choice([0.5, 2.0])}, None),
                  ('FITS plane ~900 px off', None, None)]
        off = wA_true.all_pix2world(511.0 + rng.uniform(-900, -700), 511.0 + rng.uniform(600, 900), 0)
        planes[2] = (planes[2][0], {'crval': (float(off[0]), float(off[1])), 'rot': rng.uniform(0, 360), 'scale': scale * 1.25}, None)
        # the live corrector object of the first image itself (its WCS - hence the plane - changes during the call)
        planes.append(('the live corrector object of image A', 'live-A', None))
        desc = {'stream': 'mosaic with expand_refcat', 'true_wcs_A': {'crval': list(map(float, wA_true.wcs.crval)), 'cd': wA_true.wcs.cd.tolist()},
                'true_wcs_B': {'crval': list(map(float, wB_true.wcs.crval)), 'cd': wB_true.wcs.cd.tolist()},
                'errors (dx px, dy px, drot deg, dscale) A, B': [list(eA), list(eB)],
                'sources_radec': [list(map(float, ra)), list(map(float, dec))], 'reference_rows': [int(i) for i in ref_idx],
                'call': "align_wcs([A, B], refcat=Table(RA, DEC of reference_rows), ref_tpwcs=plane, expand_refcat=True, "
                        "enforce_user_order=True, fitgeom='general', nclip=0, match=nearest-neighbour oracle)"}
        skies = {}
        for name, par, _ in planes:
            cA = FITSWCSCorrector(with_error(wA_true, rotA, scale, eA), meta={'catalog': Table([xa, ya], names=('x', 'y')), 'name': 'A'})
            cBc = FITSWCSCorrector(with_error(wB_true, rotB, sclB, eB), meta={'catalog': Table([xb, yb], names=('x', 'y')), 'name': 'B'})
            if par is None:
                plane, unit = None, float(np.sqrt(abs(np.linalg.det(cA.wcs.wcs.cd))))
            elif par == 'live-A':
                plane, unit = cA, float(np.sqrt(abs(np.linalg.det(cA.wcs.wcs.cd))))
            else:
                plane = FITSWCSCorrector(A.mkwcs(crval=par['crval'], rot=par['rot'], scale=par['scale']))
                unit = par['scale']
            ck.search_evaluations += 1
            ck.count('mosaic_plane', name)
            rp = dict(desc)
            rp['plane'] = {'name': name, 'parameters': par}
            # with the live member as the plane the reference catalog is not expanded (it holds every source): the
            # catalog object then lives through the whole call while its plane changes under it
            live = par == 'live-A'
            rows = np.arange(len(ra)) if live else ref_idx
            try:
                align_wcs([cA, cBc], refcat=Table([ra[rows], dec[rows]], names=('RA', 'DEC')), ref_tpwcs=plane,
                          expand_refcat=not live, enforce_user_order=True, fitgeom='general', nclip=0, minobj=None,
                          match=A.oracle_matcher(14.0 * scale / unit, seed=t))
            except Exception as e:   # noqa
                rp.update(kind='alignment-raised', error=repr(e))
                ck.violation(rp)
                continue
            st = [c.meta.get('fit_info', {}).get('status') for c in (cA, cBc)]
            if st != ['SUCCESS', 'SUCCESS']:
                rp.update(kind='status-is-not-SUCCESS', status=st)
                ck.violation(rp)
                continue
            nmB = len(cBc.meta['fit_info'].get('matched_input_idx', []))
            if nmB != (len(ib) if live else n_ref_b + n_app_b):
                ck.discard('mosaic: matcher did not return every true pair of the second image')
                continue
            landA = float(np.max(W.sep_arcsec(*cA.det_to_world(xa, ya), ra[ia], dec[ia])))
            landB = float(np.max(W.sep_arcsec(*cBc.det_to_world(xb, yb), ra[ib], dec[ib])))
            measured['mosaic landing arcsec'] = max(measured.get('mosaic landing arcsec', 0.0), landA, landB)
            ck.case(('mosaic', t, name, tuple(eA), tuple(eB)), True)
            if not max(landA, landB) <= TOL:
                rp.update(kind='mosaic-image-does-not-land-on-the-reference', landing_error_arcsec={'A': landA, 'B': landB},
                          tolerance_arcsec=TOL, pairs_of_B={'original reference rows': n_ref_b, 'rows appended from A': n_app_b})
                ck.violation(rp)
            skies[name] = cBc.det_to_world(GRIDX, GRIDY)
        ref_sky = skies.get('default (None)')
        for name, sk in skies.items():
            if ref_sky is None or name == 'default (None)':
                continue
            d = float(np.max(W.sep_arcsec(sk[0], sk[1], ref_sky[0], ref_sky[1])))
            measured['mosaic cross-plane arcsec'] = max(measured.get('mosaic cross-plane arcsec', 0.0), d)
            if not d <= 2 * TOL:
                rp = dict(desc)
                rp.update(kind='mosaic-result-depends-on-the-reference-plane', plane=name, versus='default (None)',
                          difference_arcsec=d, tolerance_arcsec=2 * TOL)
                ck.violation(rp)


def run(ck):
    implementation()
    from tweakwcs.correctors import _ARCSEC2RAD
    ck.props()
    ck.rule = ('groups of 1..4 images (all FITS: CD/PC, SIP on/off, scales 3e-6..1e-4 deg/px x {0.8, 1, 1.25}; or all '
               'mock JWST gWCS: several v2/v3/roll, 4 pixel scales), tangent points up to +-600 px apart around 10 '
               'pointings (RA 0/360, |dec| to 89), any orientation, 0/1/2 earlier alignments per member; the true error '
               'is ONE affine map G (family of fitgeom) of a primary plane drawn from the list of reference planes: a '
               'member (copy), the last member, a rotated/scaled FITS plane with the tangent point of member 0, a '
               'gWCS plane with other roll and its own history, a FITS plane at the group centre, a FITS plane ~1100 px '
               'off; every 5th scenario is one image with reference planes that all share its tangent point. Every '
               'scenario is aligned once through EVERY plane (WCSGroupCatalog.align_to_ref with pre-matched catalogs, '
               'or align_wcs with the scripted shuffled matcher) on fresh copies. Non-trivial: G is not the identity '
               'and the plane differs from the member planes or the group has > 1 member; distinct by content.')
    ck.notes += ['deviation bound per alignment: first = 10 * corr * sep * L [rad] (corr: largest sky displacement of a '
                 'source; sep: largest separation between the tangent points of the plane used, the primary plane and '
                 'the members; L: largest distance of an evaluated position from any of these tangent points; measured '
                 'constant <= 3.5); FITS members add 4 * (2 corr) * (rho + sep_px)^2 * scale^2 px and the 2e-6 arcsec '
                 'floor of the numerical differentiation; gWCS members add 1e-7 arcsec (x 10 |M - I| beyond 0.1); '
                 'with a common tangent point (sep < 1e-6 arcsec) first = 0: rounding level',
                 'cross-plane comparison: sky positions of a 7-point pixel grid of every member after the alignment '
                 'through plane j versus through the primary plane, tolerance = bound(j) + bound(primary)',
                 'one sky-level map: | P_j.world_to_tanp(new sky) - F(P_j.world_to_tanp(old sky)) | <= bound on the '
                 'grid of every member with the SAME reported F; for gWCS members the pipeline\'s tp_affine after the '
                 'alignment is compared in Coq with the model\'s conjugation by the (r, t) that _tp2tp returns',
                 'secondary planes are fitted with fitgeom=general (a similarity conjugated by a non-similarity '
                 'plane-to-plane map leaves the family)',
                 'mixed FITS/gWCS groups are not generated']
    ck.trusted += ['astropy.wcs (wcslib) and gwcs/astropy.modeling evaluation of the external transforms; the mock '
                   'JWST pipeline of tweakwcs/tests/helper_correctors.py']
    rng = ck.rng
    cases, meta = [], []
    measured = ck.extra.setdefault('measured', {})
    for t in range(ck.n(24, 150)):
        sc = scenario(rng, t)
        if not build_catalogs(rng, sc):
            ck.discard('could not draw a separated non-collinear group catalog')
            continue
        desc = describe(sc)
        results = {}
        order = [sc['primary']] + [j for j in range(len(sc['planes'])) if j != sc['primary']]
        for j in order:
            res = align_once(ck, rng, sc, j, t)
            ck.search_evaluations += 1
            rp = dict(desc)
            rp['plane_used'] = j
            if 'error' in res:
                rp.update(kind='alignment-raised', error=res['error'])
                ck.violation(rp)
                continue
            if res['status'] == ['MATCHER']:
                ck.discard('scripted matcher did not return every true pair')
                continue
            if any(s != 'SUCCESS' for s in res['status']):
                rp.update(kind='status-is-not-SUCCESS', status=res['status'])
                ck.violation(rp)
                continue
            if not res['same_fit']:
                rp.update(kind='members-of-one-group-report-different-fits')
                ck.violation(rp)
                continue
            results[j] = res
            if sc['primary'] not in results:
                continue
            fi = res['fi']
            Mr, sr = np.asarray(fi['matrix'], dtype=float), np.asarray(fi['shift'], dtype=float)
            tolj, geo = bounds(sc, j, Mr, sr)
            fi0 = results[sc['primary']]['fi']
            tol0, _ = bounds(sc, sc['primary'], np.asarray(fi0['matrix'], dtype=float), np.asarray(fi0['shift']))
            pl = sc['planes'][j]
            pu = plane_unit_arcsec(pl['par'])
            # true pairs of the whole group in plane j
            if j == sc['primary']:
                xy = np.concatenate([mb['g0'] for mb in sc['members']], axis=1)
                uv = np.concatenate([mb['t0'] for mb in sc['members']], axis=1)
            else:
                xy = np.concatenate([np.array(pl['c'].world_to_tanp(mb['rra'], mb['rdec']), dtype=float)
                                     for mb in sc['members']], axis=1)
                uv = np.concatenate([np.array(pl['c'].world_to_tanp(mb['ra0'], mb['dec0']), dtype=float)
                                     for mb in sc['members']], axis=1)
            wuv = None if not sc['weights'] else [float(v) for mb in sc['members'] for v in mb['w']]
            pr = {'geom': res['geom'], 'xy': xy.T.tolist(), 'uv': uv.T.tolist(), 'wxy': None, 'wuv': wuv,
                  'n': xy.shape[1]}
            mems, mrep = [], []
            for k, (mb, cc) in enumerate(zip(sc['members'], res['cors'])):
                gw = 2 if mb['par']['kind'] == 'gwcs' else 0
                A1 = flat(*W.affine_state(cc)) if gw else None
                old = np.array(pl['c'].world_to_tanp(mb['gra0'], mb['gdec0']), dtype=float)
                new = np.array(pl['c'].world_to_tanp(*res['sky'][k]), dtype=float)
                mp = np.hypot(*(new - (Mr @ old + sr[:, None])))
                cross = W.sep_arcsec(*res['sky'][k], *results[sc['primary']]['sky'][k])
                mems.append(coq_member(gw, _ARCSEC2RAD, res['before'][k]['A0'], A1, res['before'][k]['R'],
                                       res['land'][k], tolj[k], mp, tolj[k] / pu, cross, tolj[k] + tol0[k]))
                mrep.append({'member': k, 'max distance of sources from reference (arcsec)': float(res['land'][k].max()),
                             'max deviation from the reported sky-level map (arcsec)': float(mp.max() * pu),
                             'max cross-plane difference (arcsec)': float(cross.max()), 'allowed (arcsec)': tolj[k],
                             'tp_affine before/after': [res['before'][k]['A0'], A1],
                             'tp2tp(r,t)': res['before'][k]['R']})
                for name, val in (('landing', float(res['land'][k].max())), ('map', float(mp.max() * pu)),
                                  ('cross', float(cross.max()) / 2.0)):
                    key = '%s %s max deviation / allowed' % (mb['par']['kind'], name)
                    measured[key] = max(measured.get(key, 0.0), val / tolj[k])
                    if geo['first_order_term_arcsec'] * CPL > 10 * (tolj[k] - geo['first_order_term_arcsec'] * CPL):
                        key = 'max deviation / (corr sep L) where that term dominates (stated constant %g)' % CPL
                        measured[key] = max(measured.get(key, 0.0), val / geo['first_order_term_arcsec'])
                if geo['sep_arcsec'] == 0.0:
                    key = '%s common tangent point: max deviation (arcsec)' % mb['par']['kind']
                    measured[key] = max(measured.get(key, 0.0), float(res['land'][k].max()), float(cross.max()))
            eff = flat(Mr, sr)
            cases.append('{| v_fit := %s; v_members := %s |}' % (coq_case(pr, True, 0, eff), lst(mems)))
            rp.update({'geometry': geo, 'reported': {'matrix': Mr.tolist(), 'shift': sr.tolist(),
                                                    'rmse': float(fi['rmse'])},
                       'members_after': mrep, 'pairs(ref_tp, image_tp; plane used)': {'xy': pr['xy'], 'uv': pr['uv']}})
            meta.append(rp)
            nontrivial = bool((np.abs(sc['M'] - np.eye(2)).max() > 0 or np.abs(sc['s']).max() > 0) and
                              (sc['ng'] > 1 or j > 0))
            ck.case((sc['kind'], sc['ng'], j, pr['xy'], pr['uv'], wuv), nontrivial)
            ck.count('corrector', sc['kind'])
            ck.count('group_size', sc['ng'])
            ck.count('entry', sc['entry'])
            ck.count('plane_used', pl['desc'].split(',')[0])
            ck.count('plane_is_primary', j == sc['primary'])
            ck.count('common_tangent_point', geo['sep_arcsec'] == 0.0)
            ck.count('fitgeom', res['geom'])
            ck.count('earlier_alignments(max over members)', max(mb['nh'] for mb in sc['members']))
    for rp in meta[:2]:
        ck.sample({k: rp[k] for k in ('corrector_class', 'group_size', 'entry', 'reference_planes', 'plane_used',
                                     'primary_plane(error is exactly affine there)',
                                     'true_error(matrix, shift; primary-plane units)', 'geometry', 'reported')})
    imports = ['GJModel', 'LSQ', 'LinearFit', 'AlignFit', 'C06Corr', 'C01Corr', 'C05Corr']
    bad = ck.coq_agree('group', imports, 'case05', 'agree05', cases, show=None, shard=ck.n(10, 40))
    ck.last_shown = W.show_cases(ck, 'group', imports, 'show05', cases, bad)
    for i in bad:
        rp = dict(meta[i])
        rp['kind'] = 'alignment-depends-on-the-reference-plane-or-members-moved-differently'
        rp['model (agree06, exact fit, per member: tp_affine ok, landing ok, one-map ok, cross-plane ok, expected ' \
           'tp_affine)'] = ck.last_shown.get(i, 'n/a')
        rp['predicate'] = ('reported fit = exact optimum of the group\'s true pairs in the plane used; every member: '
                           'sources on the reference, new sky = F(old sky) in the plane used with the same F, sky '
                           'positions equal to those of the alignment through the primary plane, each within the '
                           'stated bound; gWCS: tp_affine_after = (r F r^-1) o tp_affine_before')
        ck.violation(rp)
    # ---- mosaics with an expanding reference catalog
    ck.rule += (' Mosaic stream: two FITS images (two groups), the second matched partly to sources appended from the '
                'first, aligned in one align_wcs(expand_refcat=True) call through the default plane, a rotated/scaled '
                'plane and a plane ~900 px off (same plane object for both images).')
    mosaic_stream(ck, rng)
