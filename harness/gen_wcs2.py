"""Geometry / history / affine-error generators shared by the C01 and C05 checks.

Everything is built from one python `random.Random` (the check's rng).  All numbers that reach Coq are the exact
binary values of the floats the implementation saw (common.frac)."""
import math

import numpy as np
from astropy.table import Table

import gen_align as A

ARCSEC = 3600.0 * 180.0 / math.pi          # arcsec per radian
POINTINGS = [(82.0, 12.0), (0.0003, -33.0), (359.9997, 45.0), (200.0, 88.0), (10.0, -87.5), (180.0, 70.0),
             (120.5, 89.0), (45.0, -89.0), (359.99995, 0.0002), (271.25, -0.5)]
FITS_SCALES = [1e-6, 3e-6, 1e-5, 1.4e-5, 7e-5, 1e-4]      # deg / px
GW_CD = [2.4e-7, 5.5e-7, 1.5e-6, 1e-5]                      # mock gWCS: tangent-plane scale = cd*206265 arcsec / px
REF_ANGLES = [(0.0, 0.0, 0.0), (123.0, 500.0, 115.0), (-86.25, -493.5, 0.0), (300.5, -600.0, 271.5),
              (-0.0625, 0.125, 359.0), (120.0, -527.0, 45.0)]
SIPS = [None, (2e-6, -1e-6, 3e-6, -1e-6, 1.5e-6, 2e-6), (-4e-7, 6e-7, 1e-7, 5e-7, -3e-7, -8e-7)]
GEOMS = ['shift', 'rshift', 'rscale', 'general']
MINOBJ = {'shift': 1, 'rshift': 2, 'rscale': 2, 'general': 3}
# rational rotations (cos, sin): exact Pythagorean pairs m^2-n^2, 2mn over m^2+n^2 (small and large angles)
PYTH = [(64, 1), (-64, 1), (181, 1), (33, -1), (1000, 1), (15, 1), (2, 1), (3, 2), (-5, 1)]


def sep_arcsec(ra1, de1, ra2, de2):
    """great-circle separation in arcsec (haversine formula in extended precision: no cancellation for small
    separations, RA wrap handled by the sine of the half difference)."""
    a1, d1, a2, d2 = [np.deg2rad(np.asarray(v, dtype=np.longdouble)) for v in (ra1, de1, ra2, de2)]
    h = np.sin((d1 - d2) / 2) ** 2 + np.cos(d1) * np.cos(d2) * np.sin((a1 - a2) / 2) ** 2
    return np.asarray(2 * np.arcsin(np.sqrt(h)) * ARCSEC, dtype=float)


# ----------------------------------------------------------------------------------------- correctors
def fits_params(rng, scales=None):
    return {'kind': 'fits', 'crval': list(rng.choice(POINTINGS)), 'rot': rng.randrange(0, 360 * 8) / 8.0,
            'scale': rng.choice(scales or FITS_SCALES), 'pc': rng.random() < 0.4, 'sip': rng.choice(SIPS),
            'crpix': [rng.choice([512.0, 500.5, 256.0, 700.25]), rng.choice([512.0, 520.5, 300.0])]}


def gwcs_params(rng, cds=None):
    v2, v3, roll = rng.choice(REF_ANGLES)
    return {'kind': 'gwcs', 'crval': list(rng.choice(POINTINGS)), 'v2': v2, 'v3': v3, 'roll': roll,
            'cd': rng.choice(cds or GW_CD), 'vacorr': rng.random() < 0.7,
            'crpix': [rng.choice([512.0, 500.5]), rng.choice([1024.0, 512.0])]}


def build(par):
    """corrector for a parameter dict (never corrected)."""
    from tweakwcs.correctors import FITSWCSCorrector, JWSTWCSCorrector
    if par['kind'] == 'fits':
        w = A.mkwcs(crval=tuple(par['crval']), rot=par['rot'], scale=par['scale'], crpix=tuple(par['crpix']),
                    pc=par['pc'], sip=par['sip'])
        return FITSWCSCorrector(w)
    from tweakwcs.tests.helper_correctors import make_mock_jwst_wcs
    gw = make_mock_jwst_wcs(v2ref=par['v2'], v3ref=par['v3'], roll=par['roll'], crpix=list(par['crpix']),
                            cd=[[par['cd'], 0.0], [0.0, par['cd']]], crval=list(par['crval']),
                            enable_vacorr=par['vacorr'])
    return JWSTWCSCorrector(gw, {'v2_ref': par['v2'], 'v3_ref': par['v3'], 'roll_ref': par['roll']})


def rewrap(c):
    """a fresh corrector around the (possibly corrected) WCS object of c."""
    from tweakwcs.correctors import FITSWCSCorrector, JWSTWCSCorrector
    if isinstance(c, FITSWCSCorrector):
        return FITSWCSCorrector(c.wcs.deepcopy())
    return JWSTWCSCorrector(c.wcs, c.ref_angles)


def shape_of(par):
    return (1024, 1024) if par['kind'] == 'fits' else (1024, 2048)


def unit_of(c, par):
    """size of one pixel in tangent-plane units of c (1 for FITS planes, arcsec/px for gWCS planes)."""
    return 1.0 if par['kind'] == 'fits' else par['cd'] * ARCSEC


def rad_per_unit(par):
    """radians on the sky per tangent-plane unit."""
    return math.radians(par['scale']) if par['kind'] == 'fits' else 1.0 / ARCSEC


# ----------------------------------------------------------------------------------------- affine maps
def rot_pair(rng):
    m, n = rng.choice(PYTH)
    d = float(m * m + n * n)
    return (m * m - n * n) / d, 2.0 * m * n / d


def affine(rng, geom, unit, big=True, flip_ok=True):
    """(M, s): member of the family `geom`; entries dyadic or exact Pythagorean quotients; shift in plane units.
    big=False keeps the displacement over a 1024 px field below ~6 px (for runs that include matching)."""
    sh = (20.0 if big else 2.0) * unit
    s = [unit * rng.randrange(-int(sh / unit * 64), int(sh / unit * 64) + 1) / 64.0 for _ in range(2)]
    if geom == 'shift':
        return np.eye(2), np.array(s)
    if geom in ('rshift', 'rscale'):
        if big:
            c, sn = rot_pair(rng)
        else:
            m = rng.choice([1000, -1000, 2048, 724])
            d = float(m * m + 1)
            c, sn = (m * m - 1) / d, 2.0 * m / d
        k = 1.0 if geom == 'rshift' else 1.0 + rng.randrange(-40, 41) / (4096.0 if big else 32768.0)
        M = k * np.array([[c, sn], [-sn, c]])
        if big and flip_ok and rng.random() < 0.2:
            M = M @ np.diag([1.0, -1.0])       # improper member of the family
        return M, np.array(s)
    den = 4096.0 if big else 32768.0
    M = np.array([[1.0 + rng.randrange(-40, 41) / den, rng.randrange(-40, 41) / den],
                  [rng.randrange(-40, 41) / den, 1.0 + rng.randrange(-40, 41) / den]])
    return M, np.array(s)


def small_affine(rng, unit):
    """a near-identity map used for the earlier alignments of a history."""
    den = 8192.0
    M = np.array([[1.0 + rng.randrange(-16, 17) / den, rng.randrange(-16, 17) / den],
                  [rng.randrange(-16, 17) / den, 1.0 + rng.randrange(-16, 17) / den]])
    s = np.array([unit * rng.randrange(-96, 97) / 32.0, unit * rng.randrange(-96, 97) / 32.0])
    return M, s


# ----------------------------------------------------------------------------------------- catalogs
def grid_pixels(rng, n, shape, cell=128, jitter=30):
    """n pixel positions in distinct cells of a `cell`-px grid, jittered by <= `jitter` px (dyadic, 1/16 px);
    pairwise separation >= cell - 2*jitter."""
    nx, ny = shape[0] // cell, shape[1] // cell
    cells = rng.sample([(i, j) for i in range(nx) for j in range(ny)], n)
    x = [i * cell + cell / 2 + rng.randrange(-jitter * 16, jitter * 16 + 1) / 16.0 for i, _ in cells]
    y = [j * cell + cell / 2 + rng.randrange(-jitter * 16, jitter * 16 + 1) / 16.0 for _, j in cells]
    return np.array(x), np.array(y)


def nondegenerate(x, y, tol=2.0 ** -8):
    """relative determinant of the centred second-moment matrix (0 = collinear)."""
    if len(x) < 3:
        return len(x) < 2 or (x[0] != x[1] or y[0] != y[1])
    dx, dy = x - x.mean(), y - y.mean()
    sxx, syy, sxy = (dx * dx).sum(), (dy * dy).sum(), (dx * dy).sum()
    return sxx * syy - sxy * sxy > tol * sxx * syy


def spread_min(x, y, w=None):
    """sqrt of the smallest eigenvalue of the (weighted) covariance of the points: the extent of the catalog
    across its thinnest direction (0 for collinear / single points)."""
    x, y = np.asarray(x, dtype=float), np.asarray(y, dtype=float)
    if len(x) < 2:
        return 0.0
    w = np.ones(len(x)) if w is None else np.asarray(w, dtype=float)
    w = w / w.sum()
    dx, dy = x - np.dot(w, x), y - np.dot(w, y)
    c = np.array([[np.dot(w, dx * dx), np.dot(w, dx * dy)], [np.dot(w, dx * dy), np.dot(w, dy * dy)]])
    return float(np.sqrt(max(np.linalg.eigvalsh(c)[0], 0.0)))


def weights(rng, n, mode, npos_min):
    """image / reference weight columns for a weighting mode in none|image|reference|both; some zeros allowed as
    long as >= npos_min pairs keep a positive combined weight (the first npos_min always do)."""
    vals = [0.0, 0.25, 0.5, 1.0, 1.0, 2.0, 3.0]

    def col():
        w = [rng.choice(vals) for _ in range(n)]
        for k in range(min(n, npos_min)):
            w[k] = rng.choice(vals[1:])
        return np.array(w)
    wim = col() if mode in ('image', 'both') else None
    wref = col() if mode in ('reference', 'both') else None
    return wim, wref


def combined(wim, wref, n):
    """effective weight of a pair (harmonic combination; None = unweighted)."""
    if wim is None and wref is None:
        return None
    if wim is None:
        return np.array(wref, dtype=float)
    if wref is None:
        return np.array(wim, dtype=float)
    out = np.zeros(n)
    m = (wim > 0) & (wref > 0)
    out[m] = wim[m] * wref[m] / (wim[m] + wref[m])
    return out


def tables(x, y, ra, dec, wim, wref, name='im', foreign=False):
    """matched image / reference tables. foreign=True: the image table also carries RA/DEC columns (stale sky
    positions from another WCS solution) and the reference table x/y columns - extra columns a caller's tables may
    well have; only x, y of the image and RA, DEC of the reference are the data of the fit."""
    im = Table([x, y], names=('x', 'y'))
    if wim is not None:
        im['weight'] = wim
    if foreign:
        im['RA'] = np.asarray(ra, dtype=float) + 1.25e-3
        im['DEC'] = np.asarray(dec, dtype=float) - 0.75e-3
    im.meta['name'] = name
    ref = Table([ra, dec], names=('RA', 'DEC'))
    if wref is not None:
        ref['weight'] = wref
    if foreign:
        ref['x'] = np.asarray(x, dtype=float)[::-1].copy()
        ref['y'] = np.asarray(y, dtype=float)[::-1].copy()
    return im, ref


def apply_history(rng, c, par, nhist, how):
    """apply `nhist` earlier alignments to corrector c (in place / re-wrapped). `how` chooses per step between
    set_correction in the own plane, set_correction through a foreign plane, a previous fit_wcs, and re-wrapping.
    Returns (corrector, list describing the steps)."""
    from tweakwcs import fit_wcs
    steps = []
    unit = unit_of(c, par)
    for h in range(nhist):
        kind = how[h % len(how)]
        M, s = small_affine(rng, unit)
        if kind == 'set':
            c.set_correction(M, s)
        elif kind == 'setref':
            ref = c.copy()
            c.set_correction(M, s, ref_tpwcs=ref)
        elif kind == 'fit':
            x, y = grid_pixels(rng, 6, shape_of(par))
            tx, ty = c.det_to_tanp(x, y)
            t = M @ np.array([tx, ty]) + s[:, None]
            ra, dec = c.tanp_to_world(t[0], t[1])
            im, ref = tables(x, y, ra, dec, None, None)
            c = fit_wcs(ref, im, c, fitgeom='general', nclip=0)
        steps.append({'step': kind, 'matrix': M.tolist(), 'shift': s.tolist()})
        if rng.random() < 0.5:
            c = rewrap(c)
            steps.append({'step': 'rewrap'})
    return c, steps


def affine_state(c):
    """(matrix 2x2, translation 2) of the tp_affine of a gWCS corrector's pipeline (identity if never corrected)."""
    tp = getattr(c, '_tpcorr', None)
    if tp is None:
        return np.eye(2), np.zeros(2)
    return np.array(tp['tp_affine'].matrix.value, dtype=float), np.array(tp['tp_affine'].translation.value, dtype=float)


# ----------------------------------------------------------------------------------------- slow path
def show_cases(ck, name, imports, show, cases, idx, limit=8, timeout=600):
    """model values for (at most `limit`) failing correspondence cases, one small coqc run per case, in parallel;
    rationals `a # b` are rendered as decimal floats to keep the replay readable. Returns {index: text}."""
    import os
    import re
    from concurrent.futures import ThreadPoolExecutor
    from common import run_coqc
    sel = list(idx)[:limit]
    if not sel:
        return {}

    def one(i):
        path = os.path.join(ck.workdir, 'show_%s_%s_%d.v' % (ck.pid, name, i))
        with open(path, 'w') as f:
            f.write('From Coq Require Import QArith ZArith List Bool.\nImport ListNotations.\n')
            f.write('From TW Require Import CorrUtil %s.\n' % ' '.join(imports))
            f.write('Open Scope Q_scope.\nSet Printing Width 1000000.\nSet Printing Depth 1000000.\n')
            f.write('Eval vm_compute in (%s (%s)).\n' % (show, cases[i]))
        rc, out, err, dt = run_coqc(path, timeout)
        txt = (out if rc == 0 else (err or out)).strip()

        def dec(m):
            try:
                return repr(int(m.group(1)) / int(m.group(2)))
            except (ZeroDivisionError, OverflowError):
                return m.group(0)
        txt = re.sub(r'(-?\d+) # (\d+)', dec, txt)
        return i, re.sub(r'\s+', ' ', txt)[:6000]
    with ThreadPoolExecutor(max_workers=min(8, len(sel))) as ex:
        return dict(ex.map(one, sel))
