"""C12 - 2-D histogram offset estimate (within half a bin, x/y not interchanged, (0,0) when nothing is in range)
and the sub-bin peak locator (finite, inside histogram and fit box, documented status, exact paraboloid vertex)."""
import itertools
import math
import os
import re
from concurrent.futures import ThreadPoolExecutor
from fractions import Fraction

import numpy as np

from common import q, z, b, lst, frac, implementation, run_coqc

VOC = ['SUCCESS', 'ERROR:NODATA', 'WARNING:EDGE', 'WARNING:BADFIT', 'WARNING:CENTER-OF-MASS']
IMPORTS = ['GJModel', 'Peak', 'Hist', 'C12Corr']


# --------------------------------------------------------------------------- coq literals / helpers
def qpts(a):
    return lst(['(%s, %s)' % (q(x), q(y)) for x, y in a])


def zmat(m):
    return lst([lst([z(v) for v in r]) for r in m])


def bmat(m):
    return lst([lst([b(v) for v in r]) for r in m])


def coq_codes(ck, name, ctor_type, fn, cases, shard):
    """evaluate `map fn cases` (nat codes) inside Coq; used only to classify cases for the evidence."""
    files = []
    for k in range(0, len(cases), shard):
        path = os.path.join(ck.workdir, 'codes_%s_%s_%d.v' % (ck.pid, name, k // shard))
        with open(path, 'w') as f:
            f.write('From Coq Require Import QArith ZArith List Bool.\nImport ListNotations.\n')
            f.write('From TW Require Import CorrUtil %s.\n' % ' '.join(IMPORTS))
            f.write('Open Scope Q_scope.\nSet Printing Width 1000000.\nSet Printing Depth 1000000.\n')
            f.write('Definition cases : list (%s) := [\n' % ctor_type)
            f.write(';\n'.join(cases[k:k + shard]))
            f.write('\n].\nEval vm_compute in (map (%s) cases).\n' % fn)
        files.append(path)

    def one(path):
        rc, out, err, dt = run_coqc(path, 900)
        m = re.search(r'=\s*\[(.*?)\]\s*:\s*list nat', out, flags=re.S)
        if rc != 0 or not m:
            return None
        return [int(t) for t in re.findall(r'(\d+)%nat', m.group(1))]

    with ThreadPoolExecutor(max_workers=min(16, max(1, len(files)))) as ex:
        res = list(ex.map(one, files))
    out = []
    for r, k in zip(res, range(0, len(cases), shard)):
        n = min(shard, len(cases) - k)
        out.extend(r if r is not None and len(r) == n else [None] * n)
    return out


# --------------------------------------------------------------------------- _find_peak
def clean_status(st):
    st = str(st)
    return st if re.fullmatch(r'[A-Z:\-]{1,40}', st) else 'INVALID-STATUS-STRING'


def peak_call(mu, data, box, maskmode, maskarr):
    """run the implementation; returns dict with outputs or an exception text."""
    arr = np.array(data, dtype=float)
    mask = None if maskmode == 'none' else np.array(maskarr, dtype=bool)
    try:
        (x, y), st, sl = mu._find_peak(arr, peak_fit_box=box, mask=mask)
    except Exception as e:   # noqa: BLE001
        return {'exc': '%s: %s' % (type(e).__name__, e)}
    return {'x': x, 'y': y, 'st': st, 'y1': sl[0].start, 'y2': sl[0].stop, 'x1': sl[1].start, 'x2': sl[1].stop}


def peak_predicate(o, ny, nx):
    """the property's own predicate on the implementation's output."""
    try:
        x, y = float(o['x']), float(o['y'])
    except (TypeError, ValueError):
        return False
    if not (math.isfinite(x) and math.isfinite(y)):
        return False
    if o['st'] not in VOC:
        return False
    ok_hist = 0 <= x <= nx - 1 and 0 <= y <= ny - 1
    ok_box = o['x1'] <= x <= o['x2'] - 1 and o['y1'] <= y <= o['y2'] - 1
    ok_slice = 0 <= o['x1'] < o['x2'] <= nx and 0 <= o['y1'] < o['y2'] <= ny
    return ok_hist and ok_box and ok_slice


def peak_coq_case(data, box, maskarr, o):
    ny, nx = len(data), len(data[0])
    return ('{| k_ny := %s; k_nx := %s; k_h := %s; k_m := %s; k_box := %s; k_x := %s; k_y := %s; '
            'k_status := "%s"%%string; k_y1 := %s; k_y2 := %s; k_x1 := %s; k_x2 := %s |}' % (
                z(ny), z(nx), zmat(data), bmat(maskarr), z(box), q(float(o['x'])), q(float(o['y'])),
                clean_status(o['st']), z(o['y1']), z(o['y2']), z(o['x1']), z(o['x2'])))


def gen_peak_random(rng, t):
    ny, nx = rng.randrange(1, 10), rng.randrange(1, 10)
    kind = ['small', 'sparse', 'spike', 'wide', 'blob', 'blob', 'flat'][t % 7]
    if kind == 'small':
        data = [[rng.randrange(0, 4) for _ in range(nx)] for _ in range(ny)]
    elif kind == 'sparse':
        data = [[rng.randrange(1, 5) if rng.random() < 0.2 else 0 for _ in range(nx)] for _ in range(ny)]
    elif kind == 'spike':
        data = [[rng.randrange(0, 2) for _ in range(nx)] for _ in range(ny)]
        data[rng.randrange(ny)][rng.randrange(nx)] += rng.randrange(3, 30)
    elif kind == 'wide':
        data = [[rng.randrange(0, 50) for _ in range(nx)] for _ in range(ny)]
    elif kind == 'flat':
        v = rng.randrange(0, 3)
        data = [[v for _ in range(nx)] for _ in range(ny)]
        if rng.random() < 0.5:
            data[rng.randrange(ny)][rng.randrange(nx)] += 1
    else:
        ny, nx = rng.randrange(5, 12), rng.randrange(5, 12)
        xv, yv = rng.uniform(0, nx - 1), rng.uniform(0, ny - 1)
        amp, sig = rng.randrange(5, 200), rng.uniform(0.6, 2.5)
        data = [[int(round(amp * math.exp(-((i - xv) ** 2 + (j - yv) ** 2) / (2 * sig * sig)))) + rng.randrange(0, 3)
                 for i in range(nx)] for j in range(ny)]
    box = rng.randrange(1, 8)
    mm = ['none', 'pos', 'random'][rng.randrange(3)]
    if mm == 'none':
        mask = [[True] * nx for _ in range(ny)]
    elif mm == 'pos':
        mask = [[v > 0 for v in r] for r in data]
    else:
        mask = [[rng.random() < 0.7 for _ in range(nx)] for _ in range(ny)]
    return kind, data, box, mm, mask


def gen_paraboloid(rng):
    """integer-valued concave paraboloid K - [a (D i - X)^2 + bb (D i - X)(D j - Y) + c (D j - Y)^2] with rational
    vertex (X/D, Y/D) strictly inside a full box around the grid maximum."""
    box = rng.choice([3, 5, 5, 5, 7])
    n = rng.randrange(box + 2, box + 6)
    D = rng.choice([1, 2, 4, 8, 3, 5])
    a, c = rng.randrange(1, 6), rng.randrange(1, 6)
    lim = int(math.floor(0.9 * 2 * math.sqrt(a * c)))
    bb = rng.randrange(-lim, lim + 1)
    half = box // 2
    X = rng.randrange(D * (half + 1), D * (n - 2 - half) + 1) if n - 2 - half >= half + 1 else D * (n // 2)
    Y = rng.randrange(D * (half + 1), D * (n - 2 - half) + 1) if n - 2 - half >= half + 1 else D * (n // 2)
    vals = [[-(a * (D * i - X) ** 2 + bb * (D * i - X) * (D * j - Y) + c * (D * j - Y) ** 2) for i in range(n)]
            for j in range(n)]
    K = -min(min(r) for r in vals) + rng.randrange(0, 5)
    data = [[v + K for v in r] for r in vals]
    return data, box, Fraction(X, D), Fraction(Y, D)


def run_peaks(ck, mu):
    rng = ck.rng
    items = []   # (family, data, box, maskmode, maskarr, expect_vertex)
    # corpus / regression inputs
    items.append(('corpus', [[0, 0, 0], [0, 5, 0], [0, 0, 0]], 3, 'none', [[True] * 3] * 3, None))
    items.append(('corpus', [[0]], 5, 'none', [[True]], None))
    items.append(('corpus', [[1, 1, 1, 1, 1]] * 5, 5, 'pos', [[True] * 5] * 5, None))
    # exhaustive bounded families
    fams = [((1, 1), 3), ((1, 2), 3), ((2, 1), 3), ((2, 2), 3), ((1, 3), 3), ((3, 1), 3)]
    if ck.thorough:
        fams += [((2, 3), 3), ((3, 2), 3), ((3, 3), 3)]
    nex = 0
    for (ny, nx), nv in fams:
        boxes = [1, 2, 3, 4] if ny * nx < 9 else [1, 2, 3]
        for vals in itertools.product(range(nv), repeat=ny * nx):
            data = [list(vals[r * nx:(r + 1) * nx]) for r in range(ny)]
            for box in boxes:
                for mm in ('none', 'pos'):
                    mask = [[True] * nx for _ in range(ny)] if mm == 'none' else [[v > 0 for v in r] for r in data]
                    items.append(('exhaustive', data, box, mm, mask, None))
                    nex += 1
    ck.extra['peak_exhaustive_family'] = ('all histograms with values 0..2 of shapes %s, boxes 1..4 (1..3 for 3x3), '
                                          'mask None and data>0: %d cases' % ([f[0] for f in fams], nex))
    # 3x3 .. 4x4 exhaustive over 0/1 with a spike (thorough): interior maxima with every neighbourhood pattern
    if ck.thorough:
        for vals in itertools.product(range(2), repeat=8):
            v = list(vals)
            data = [v[0:3], [v[3], 3, v[4]], v[5:8]]
            for mm in ('none', 'pos'):
                mask = [[True] * 3] * 3 if mm == 'none' else [[x > 0 for x in r] for r in data]
                items.append(('exhaustive-spike', data, 3, mm, mask, None))
        # 3x4 / 4x3 over 0/1 with a spike at an interior cell: every neighbourhood, boxes that need expansion
        for (ny, nx) in ((3, 4), (4, 3)):
            for vals in itertools.product(range(2), repeat=ny * nx - 1):
                v = list(vals)
                v.insert(1 * nx + 1, 3)
                data = [v[r * nx:(r + 1) * nx] for r in range(ny)]
                for box in (2, 3, 4, 5):
                    for mm in ('none', 'pos'):
                        mask = ([[True] * nx for _ in range(ny)] if mm == 'none'
                                else [[x > 0 for x in r] for r in data])
                        items.append(('exhaustive-spike', data, box, mm, mask, None))
    for t in range(ck.n(700, 9000)):
        kind, data, box, mm, mask = gen_peak_random(rng, t)
        items.append((kind, data, box, mm, mask, None))
    for t in range(ck.n(80, 1200)):
        data, box, xv, yv = gen_paraboloid(rng)
        n = len(data)
        # the fit box is centred on the first grid maximum: keep the vertex strictly inside a full box
        jm, im = divmod(int(np.argmax(np.array(data))), n)
        half = box // 2
        if not (half <= im <= n - 1 - half and half <= jm <= n - 1 - half
                and abs(xv - im) <= half - Fraction(1, 64) and abs(yv - jm) <= half - Fraction(1, 64)
                and abs(xv - im) < 1 and abs(yv - jm) < 1):
            ck.discard('paraboloid: vertex not strictly inside a full fit box around the first grid maximum')
            continue
        # same surface in other units: a positive factor does not move the vertex; non-integer values and counts
        # beyond 2^24 need full double precision in the fit
        fac = [1, 1, 0.1, 1.0 / 3.0, 16777259][t % 5]
        if fac != 1:
            data = [[v * fac for v in r] for r in data]
        ck.count('paraboloid_value_factor', fac if isinstance(fac, int) else round(fac, 4))
        items.append(('paraboloid', data, box, 'none', [[True] * n for _ in range(n)], (xv, yv)))

    cases, meta = [], []
    for fam, data, box, mm, mask, vertex in items:
        ny, nx = len(data), len(data[0])
        o = peak_call(mu, data, box, mm, mask)
        ck.count('peak_family', fam)
        ck.count('peak_box', box)
        ck.count('peak_mask', mm)
        ck.search_evaluations += 1
        if 'exc' in o:
            ck.violation({'kind': '_find_peak raised', 'data': data, 'peak_fit_box': box, 'mask': mm,
                          'mask_array': mask, 'exception': o['exc']})
            continue
        ck.count('peak_status(impl)', o['st'])
        rp = {'call': 'matchutils._find_peak(data, peak_fit_box, mask)', 'data': data, 'peak_fit_box': box,
              'mask_mode': mm, 'mask_array': mask,
              'impl': {'coord': [float(o['x']), float(o['y'])], 'status': str(o['st']),
                       'fit_box(y1,y2,x1,x2)': [o['y1'], o['y2'], o['x1'], o['x2']]}}
        if not peak_predicate(o, ny, nx):
            rp.update(kind='_find_peak: coordinates/status/box violate the property',
                      predicate='finite, 0<=x<=nx-1, 0<=y<=ny-1, x1<=x<=x2-1, y1<=y<=y2-1, status in vocabulary')
            ck.violation(rp)
            continue
        if vertex is not None:
            xv, yv = vertex
            good = (o['st'] == 'SUCCESS' and abs(float(o['x']) - float(xv)) <= 1e-9 * (1 + float(xv))
                    and abs(float(o['y']) - float(yv)) <= 1e-9 * (1 + float(yv)))
            if not good:
                rp.update(kind='_find_peak: vertex of a sampled concave paraboloid not located',
                          expected_vertex=[str(xv), str(yv)])
                ck.violation(rp)
                continue
        ck.case(('peak', data, box, mm, mask if mm == 'random' else None), o['st'] != 'ERROR:NODATA')
        if all(float(v) == int(v) for r in data for v in r):
            # the Coq model takes integer histograms; non-integer surfaces are judged by the vertex predicate above
            cases.append(peak_coq_case(data, box, mask, o))
            meta.append(rp)
        if fam in ('blob', 'paraboloid', 'spike'):
            ck.sample({'peak': {'data': data, 'box': box, 'mask': mm, 'impl': rp['impl']}}, limit=6)
    shard = ck.n(400, 1500)
    bad = ck.coq_agree('peak', IMPORTS, 'case12p', 'agree12p', cases, show='show12p', shard=shard)
    for i in bad:
        rp = dict(meta[i])
        rp.update(kind='_find_peak disagrees with the exact model',
                  model='(find_peak_exec, comparison kind) = ' + ck.last_shown.get(i, 'n/a'),
                  predicate='same fit box; same status and coordinates (2^-20) when every guard of the fit is decided '
                            'with margin; otherwise inside the box and equal to the centre of mass unless SUCCESS')
        ck.violation(rp)
    codes = coq_codes(ck, 'peak', 'case12p', 'code12p', cases, shard)
    names = {0: 'exit before the fit (exact)', 1: 'fit, all guards robust (exact)', 2: 'fit, a guard within margin (weak)',
             3: 'fit, rank-deficient design (weak)', None: 'unclassified'}
    for cde in codes:
        ck.count('peak_comparison', names.get(cde, 'unclassified'))


# --------------------------------------------------------------------------- _xy_2dhist
def run_hist(ck, mu):
    rng = ck.rng
    cases, meta = [], []
    rs = [0.25, 0.5, 1.0, 1.5, 2.0, 2.25, 3.0, 3.5, 4.0, 0.75, 2.0 + 2.0 ** -40, 3.0 - 2.0 ** -40]
    for t in range(ck.n(200, 2500)):
        r = rs[t % len(rs)]
        nref, nimg = rng.randrange(1, 9), rng.randrange(1, 9)
        ref = [(rng.randrange(-64, 65) / 8.0, rng.randrange(-64, 65) / 8.0) for _ in range(nref)]
        img = []
        special = [r + 0.5, -r - 0.5, r, -r, 0.5, -0.5, 1.5, -1.5, 0.0, math.ceil(r) + 0.5, -math.ceil(r) - 0.5,
                   r + 0.5 - 2.0 ** -20, -r - 0.5 - 2.0 ** -20]
        for _ in range(nimg):
            mode = rng.randrange(4)
            a = ref[rng.randrange(nref)]
            if mode == 0:
                img.append((rng.randrange(-64, 65) / 8.0, rng.randrange(-64, 65) / 8.0))
            elif mode == 1:
                img.append((a[0] + rng.choice(special), a[1] + rng.randrange(-8, 9) / 4.0))
            elif mode == 2:
                img.append((a[0] + rng.randrange(-8, 9) / 4.0, a[1] + rng.choice(special)))
            else:
                img.append((a[0] + rng.choice(special), a[1] + rng.choice(special)))
        # a pair exactly at the corner of the box has distance (r+0.5)*sqrt(2), the radius of the KD-tree
        # pre-selection: the outcome depends on the rounding of sqrt(2) -> discard
        corner = any(abs(abs(p[0] - s[0]) - (r + 0.5)) == 0 and abs(abs(p[1] - s[1]) - (r + 0.5)) == 0
                     for p in img for s in ref)
        if corner:
            ck.discard('hist: a pair exactly at a corner of the search box (KD-tree radius rounding)')
            continue
        out = mu._xy_2dhist(np.array(img), np.array(ref), r)
        ck.search_evaluations += 1
        R = int(math.ceil(r))
        rp = {'call': 'matchutils._xy_2dhist(imgxy, refxy, r)', 'imgxy': img, 'refxy': ref, 'r': r,
              'impl': np.asarray(out).tolist()}
        ok = out.shape == (2 * R + 1, 2 * R + 1) and np.all(out == np.round(out)) and np.all(out >= 0)
        if not ok:
            rp.update(kind='_xy_2dhist: not a (2 ceil(r)+1)^2 array of non-negative integers')
            ck.violation(rp)
            continue
        h = [[int(v) for v in row] for row in out]
        asym = any(h[j][i] != h[i][j] for j in range(len(h)) for i in range(len(h)))
        ck.case(('hist', img, ref, r), asym and sum(map(sum, h)) >= 2)
        ck.count('hist_r', r)
        ck.count('hist_total_counts', min(sum(map(sum, h)), 10))
        cases.append('{| h_img := %s; h_ref := %s; h_r := %s; h_out := %s |}' % (qpts(img), qpts(ref), q(r), zmat(h)))
        meta.append(rp)
    bad = ck.coq_agree('hist', IMPORTS, 'case12h', 'agree12h', cases, show='show12h', shard=ck.n(400, 800))
    for i in bad:
        rp = dict(meta[i])
        rp.update(kind='_xy_2dhist disagrees with the exact model (pair filter / binning / transposition)',
                  model=ck.last_shown.get(i, 'n/a'),
                  predicate='zpmat[by][bx] = #{pairs: -r-1/2 <= d < r+1/2 on both axes, floor(d + ceil r + 1/2) = (bx, by)}')
        ck.violation(rp)


# --------------------------------------------------------------------------- _estimate_2dhist_shift
PS_POW2 = [2.0 ** k for k in range(-6, 4)]
PS_NEIGH = [307 / 1024.0, 0.3, 314573 / 2.0 ** 20, 51 / 1024.0, 0.05, 52429 / 2.0 ** 20]


def gen_searchrad(rng, p, fam):
    k = rng.randrange(1, 7)
    if fam == 'integer':
        return k * p
    if fam == 'half':
        return (rng.randrange(0, 7) + 0.5) * p
    if fam == 'ulp_above':
        return math.nextafter(k * p, math.inf)
    if fam == 'ulp_below':
        return math.nextafter(k * p, 0.0)
    if fam == 'generic':
        return rng.randrange(20, 7 * 64) / 64.0 * p
    return rng.choice([1.0, 3.0, 0.12, 2.5, 10.0])   # 'absolute': fixed numbers, any ratio


def axis_shift(rng, r, fam):
    """shift in bins on one axis, |u| <= r."""
    fl = int(math.floor(r))
    if fam == 'centre':
        return float(rng.randrange(-fl, fl + 1))
    if fam == 'edge':
        m = rng.randrange(-fl, fl + 1)
        u = m + rng.choice([-0.5, 0.5])
        return u if abs(u) <= r else float(m)
    if fam == 'extreme':
        return rng.choice([-1, 1]) * r
    u = rng.randrange(int(-r * 64), int(r * 64) + 1) / 64.0
    return max(-r, min(r, u))


def sparse_field(rng, n, gap):
    """n points on a jittered coarse lattice (pixel units, 4 fractional bits), pairwise Chebyshev distance > gap."""
    G = 2.0 * gap + 2.0
    side = int(math.ceil(math.sqrt(n))) + 1
    cells_ = rng.sample([(i, j) for i in range(side) for j in range(side)], n)
    jit = int(G / 4 * 16)
    return [(i * G + rng.randrange(-jit, jit + 1) / 16.0, j * G + rng.randrange(-jit, jit + 1) / 16.0)
            for i, j in cells_]


def fragile(img, ref, r, p, edges=True):
    """some pair is within 1e-8 bins of the border of the search box (the thresholds r + 0.5 are rounded in binary64
    when r has many bits) or - with edges=True, used where the division by pscale is inexact - of a bin edge."""
    a = np.array(img) / p
    c = np.array(ref) / p
    dx = a[:, None, 0] - c[None, :, 0]
    dy = a[:, None, 1] - c[None, :, 1]
    near = (np.abs(dx) < r + 1.5) & (np.abs(dy) < r + 1.5)
    for d in (dx, dy):
        if edges:
            f = d + 0.5 - np.floor(d + 0.5)
            if np.any(near & ((f < 1e-8) | (f > 1 - 1e-8))):
                return True
        if np.any(near & (np.abs(np.abs(d) - (r + 0.5)) < 1e-8)):
            return True
    return False


def run_estimate(ck, mu):
    rng = ck.rng
    cases, meta = [], []
    sr_fams = ['integer', 'half', 'ulp_above', 'ulp_below', 'generic', 'absolute']
    sh_fams = ['centre', 'off', 'edge', 'extreme', 'off']
    field_fams = ['sparse', 'sparse', 'sparse_extras', 'none_in_range', 'dense', 'boundary_layer']
    todo = []
    # corpus: the inputs of finding F3 first
    todo.append(dict(p=0.3, sr=1.0, fam='corpus-F3', field='sparse', u=(1.0, -2.0), n=12))
    todo.append(dict(p=0.3, sr=0.3 * 3.0000000000000004, fam='corpus-F3', field='sparse', u=(0.0, 1.0), n=12))
    todo.append(dict(p=0.05, sr=0.12, fam='corpus-F3', field='sparse', u=(1.25, -0.5), n=12))
    N = ck.n(260, 3200)
    pss = PS_POW2 + PS_NEIGH
    for t in range(N):
        p = pss[t % len(pss)]
        fam = sr_fams[(t // len(pss) + t) % len(sr_fams)]
        sr = gen_searchrad(rng, p, fam)
        r = sr / p
        if not (0.2 <= r <= 8.5):
            sr = (1 + t % 5) * p if fam != 'absolute' else sr
            r = sr / p
            if not (0.2 <= r <= 8.5):
                ck.discard('estimate: searchrad/pscale outside [0.2, 8.5] (model cost)')
                continue
        field = field_fams[(t // 3) % len(field_fams)]
        u = (axis_shift(rng, r, sh_fams[t % 5]), axis_shift(rng, r, sh_fams[(t // 5) % 5]))
        todo.append(dict(p=p, sr=sr, fam=fam, field=field, u=u, n=rng.randrange(3, 25)))
    for it in todo:
        p, sr, field, u, n = it['p'], it['sr'], it['field'], it['u'], it['n']
        r = sr / p
        R = int(math.ceil(r))
        pow2 = p in PS_POW2
        if field == 'dense':
            if not pow2:
                # keep every pair off the bin edges (coordinates are multiples of 1/64 bin)
                u = tuple(a + (1 / 256.0 if a + 1 / 256.0 <= r else -1 / 256.0) for a in u)
            nd = rng.randrange(30, ck.n(70, 110))
            L = rng.randrange(14, 30)
            refu = [(rng.randrange(0, L * 16) / 16.0, rng.randrange(0, L * 16) / 16.0) for _ in range(nd)]
            keep = [rng.random() < 0.85 for _ in range(nd)]
            imu = [(x + u[0], y + u[1]) for (x, y), k in zip(refu, keep) if k]
            imu += [(rng.randrange(0, L * 16) / 16.0, rng.randrange(0, L * 16) / 16.0) for _ in range(nd // 6)]
        else:
            refu = sparse_field(rng, n, 2 * r + 6)
            if field == 'none_in_range':
                # every true pair outside the search box on at least one axis
                far = r + 0.5 + rng.choice([1 / 64.0, 0.25, 1.0, 3.0])
                ax = rng.randrange(2)
                u = tuple((rng.choice([-1, 1]) * far) if a == ax else u[a] for a in range(2))
            elif field == 'boundary_layer':
                # beyond the search radius but inside the half-bin skirt of the search box
                ax = rng.randrange(2)
                u = tuple((rng.choice([-1, 1]) * (r + rng.choice([0.125, 0.25, 0.375]))) if a == ax else u[a]
                          for a in range(2))
            imu = [(x + u[0], y + u[1]) for x, y in refu]
            if field == 'sparse_extras':
                drop = rng.randrange(0, max(1, n // 3))
                imu = imu[drop:]
                extra = sparse_field(rng, rng.randrange(1, 5), 2 * r + 6)
                off = max(max(x, y) for x, y in refu) + 6 * r + 12
                imu += [(x + off, y + off) for x, y in extra]
        ref = [(x * p, y * p) for x, y in refu]
        img = [(x * p, y * p) for x, y in imu]
        if field == 'dense':
            rng.shuffle(img)
        if not pow2 and fragile(img, ref, r, p):
            ck.discard('estimate: a pair within 1e-8 bins of a bin edge / box border with inexact division by pscale')
            continue
        if pow2 and (r * 2.0 ** 20) != math.floor(r * 2.0 ** 20) and fragile(img, ref, r, p, edges=False):
            ck.discard('estimate: a pair within 1e-8 bins of the box border while r + 0.5 is rounded in binary64')
            continue
        est = mu._estimate_2dhist_shift(np.array(img), np.array(ref), searchrad=sr, pscale=p)
        ck.search_evaluations += 1
        ex, ey = float(est[0]), float(est[1])
        rp = {'call': 'matchutils._estimate_2dhist_shift(imgxy, refxy, searchrad, pscale)', 'imgxy': img, 'refxy': ref,
              'searchrad': sr, 'pscale': p, 'searchrad/pscale': r, 'true_shift_in_bins(x,y)': list(u),
              'true_shift(x,y)': [u[0] * p, u[1] * p], 'field': field, 'impl_estimate(x,y)': [ex, ey]}
        ck.count('est_pscale', 'pow2' if pow2 else 'neighbour of 0.3 / 0.05')
        ck.count('est_searchrad_family', it['fam'])
        ck.count('est_field', field)
        if not (math.isfinite(ex) and math.isfinite(ey)):
            rp.update(kind='estimate not finite')
            ck.violation(rp)
            continue
        tolp = p * (0.5 + 1e-9)
        if field in ('sparse', 'sparse_extras'):
            # only true pairs in the search box: within half a bin of the truth on each axis, x and y as given
            sx, sy = u[0] * p, u[1] * p
            if not (abs(ex - sx) <= tolp and abs(ey - sy) <= tolp):
                rp.update(kind='estimate farther than half a bin from the true shift (only true pairs in the box)',
                          predicate='|est_x - shift_x| <= pscale/2 and |est_y - shift_y| <= pscale/2')
                ck.violation(rp)
                continue
        elif field == 'none_in_range':
            if not (ex == 0.0 and ey == 0.0):
                rp.update(kind='no pair inside the search box but the estimate is not (0, 0)',
                          predicate='estimate == (0.0, 0.0)')
                ck.violation(rp)
                continue
        elif field == 'boundary_layer':
            # property text: "(0,0) when no pair lies within the search radius"; the code's search box extends half
            # a bin beyond searchrad, so these pairs are counted. Recorded (not a violation, see notes).
            ck.count('boundary_layer_estimate', 'nonzero' if (ex != 0.0 or ey != 0.0) else 'zero')
            sx, sy = u[0] * p, u[1] * p
            if not (abs(ex - sx) <= tolp and abs(ey - sy) <= tolp):
                rp.update(kind='pair in the half-bin skirt of the search box: estimate neither within half a bin')
                ck.violation(rp)
                continue
        else:
            # crowded field: when the true bin is the unique highest bin the estimate lies in the 5-bin fit box
            h = mu._xy_2dhist(np.array(img) / p, np.array(ref) / p, r)
            bt = (int(math.floor(u[0] + R + 0.5)), int(math.floor(u[1] + R + 0.5)))
            mx = h.max()
            if (h == mx).sum() == 1 and 0 <= bt[0] <= 2 * R and 0 <= bt[1] <= 2 * R and h[bt[1], bt[0]] == mx:
                okd = True
                for e, bti in ((ex, bt[0]), (ey, bt[1])):
                    lim = 2 if 2 <= bti <= 2 * R - 2 else 4
                    okd = okd and abs(e / p + R - bti) <= lim + 1e-9
                if not okd:
                    rp.update(kind='crowded field: estimate outside the five-bin fit box around the true (highest) bin',
                              true_bin=list(bt))
                    ck.violation(rp)
                    continue
            else:
                ck.discard('estimate(dense): true bin is not the unique highest bin (predicate not evaluated; '
                           'correspondence still is)')
        nontriv = (field != 'none_in_range' and u[0] != u[1] and (u[0] != 0 or u[1] != 0))
        ck.case(('est', img, ref, sr, p), nontriv)
        ck.count('est_shift_kind', 'x==y' if u[0] == u[1] else 'x!=y')
        cases.append('{| e_img := %s; e_ref := %s; e_searchrad := %s; e_pscale := %s; e_r := %s; e_x := %s; e_y := %s |}'
                     % (qpts(img), qpts(ref), q(sr), q(p), q(r), q(ex), q(ey)))
        meta.append(rp)
        if field in ('sparse', 'dense') and len(img) <= 8:
            ck.sample({'estimate': {k: rp[k] for k in ('imgxy', 'refxy', 'searchrad', 'pscale', 'impl_estimate(x,y)')}},
                      limit=8)
    shard = ck.n(24, 60)
    bad = ck.coq_agree('estimate', IMPORTS, 'case12e', 'agree12e', cases, show='show12e', shard=shard)
    for i in bad:
        rp = dict(meta[i])
        rp.update(kind='_estimate_2dhist_shift disagrees with the exact model',
                  model='(estimate_exec, exit, fit-robust, r-consistent, zpmat) = ' + ck.last_shown.get(i, 'n/a'),
                  predicate='estimate = model estimate within 2^-20 pscale (0 bins -> (0,0); one bin -> '
                            'pscale*(bin - nbins//2); else peak of the histogram)')
        ck.violation(rp)
    codes = coq_codes(ck, 'estimate', 'case12e', 'code12e', cases, shard)
    names = {0: 'no pair in box -> (0,0)', 1: 'single non-zero bin', 2: 'peak fit, exact comparison',
             3: 'peak fit, guard within margin (box bound only)', 4: 'peak fit, rank-deficient (box bound only)'}
    for cde in codes:
        ck.count('est_exit(model)', names.get(cde, 'unclassified'))


def run(ck):
    implementation()
    from tweakwcs import matchutils as mu
    ck.props()
    ck.rule = (
        'estimate: catalogs = jittered coarse lattices (sparse: only true pairs in the search box; with dropped/extra '
        'sources; shifted out of range; in the half-bin skirt) and dense random fields, image = reference + shift; '
        'pscale in {2^-6..2^3} and dyadic neighbours of 0.3 and 0.05 (incl. the doubles 0.3 and 0.05); searchrad/pscale '
        'integer, half-integer, one ulp above/below an integer, generic, absolute; shifts per axis on bin centres, off '
        'centre, on bin edges, at +-searchrad. Non-trivial: a pair is in range and shift_x != shift_y (so that an x/y '
        'interchange or a bias is observable). _xy_2dhist: <= 8x8 points with pairs placed on box borders and bin '
        'edges; non-trivial: asymmetric array with >= 2 counts. _find_peak: exhaustive small histograms (values 0..2), '
        'random small/sparse/spike/wide/blob/flat histograms 1..11 x 1..11, boxes 1..7, mask None / data>0 / random, '
        'integer-valued concave paraboloids with rational vertex; non-trivial: status other than ERROR:NODATA. '
        'Distinct by content.')
    ck.notes += [
        'binary64 rounding is outside the theorems. The model receives r = searchrad/pscale as computed in binary64 '
        '(checked to be within 2^-50 relative of the exact quotient); for pscale not a power of two cases with a pair '
        'within 1e-8 bins of a bin edge / box border are discarded (division by pscale is inexact there)',
        'KD-tree pre-selection radius (r+0.5)*sqrt(2) is a superset of the search box (lemma inbox_in_ball); a pair '
        'exactly at a corner of the box is discarded (depends on the rounding of sqrt 2)',
        'numpy.linalg.lstsq is an oracle: the bounds theorem holds for every coefficient vector; exact comparison uses '
        'the exact normal-equation solution computed in Coq (inv_gj, n = 6) when the design has full rank and every '
        'guard (det, curvature signs, in-box test) is decided with margin (2^-12 D^2, 2^-24 D, 2^-18); otherwise only '
        'box, bounds and the coefficient-independent centre of mass are compared',
        '"(0,0) when no pair lies within the search radius" is evaluated as: no pair inside the code\'s search BOX '
        '(Chebyshev, half-width searchrad + pscale/2). Pairs beyond searchrad but inside the half-bin skirt of the box '
        'are counted by the code and give a non-zero estimate (still within half a bin of their offset); counted in '
        'input_distribution.boundary_layer_estimate',
        'non-finite histogram entries (nan/inf masking in _find_peak) are outside the model: histograms are integer',
        'paraboloid vertex: "located exactly" is claimed (theorem and predicate) when the vertex lies strictly inside a '
        'full fit box centred on the first grid maximum; a vertex outside that box gives the centre-of-mass fall-back '
        'by design of the code (not generated); measured with |x - xv| <= 1e-9 on integer-valued samples',
    ]
    ck.trusted += ['numpy.histogram2d / scipy KDTree.query_ball_point (tied by the _xy_2dhist correspondence)',
                   'numpy.linalg.lstsq returns the least-squares solution at full rank (tied by the peak correspondence)']
    run_hist(ck, mu)
    run_estimate(ck, mu)
    run_peaks(ck, mu)
