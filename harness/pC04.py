"""C04 - corrections compose as an affine group and histories are replayable."""
import math

import numpy as np

import gen_wcs as G
from common import q, b, lst, implementation


def qpts(xs, ys):
    return lst(['(%s, %s)' % (q(float(x)), q(float(y))) for x, y in zip(np.ravel(xs), np.ravel(ys))])


def track(ck, what, err, tol):
    m = ck.extra.setdefault('max_error_over_tolerance', {})
    r = err / tol if tol > 0 else (0.0 if err == 0 else float('inf'))
    if r >= m.get(what, -1.0):
        m[what] = r
    a = ck.extra.setdefault('max_error_arcsec', {})
    a[what] = max(a.get(what, 0.0), err)


def minv(M):
    return np.array(G.mat_inv(np.asarray(M).tolist()))


# ------------------------------------------------------------------------------------------------ exact: gWCS runs
def apply_run(I, g, w0, ops, refs):
    """apply a list of operations to a fresh corrector built from the caller's WCS object w0; return the final
    corrector and the Coq terms of the operations (reference-plane corrections carry the recorded _tp2tp probes)."""
    c = I['JWST'](w0, G.gwcs_info(g))
    terms = []
    for o in ops:
        if o['op'] == 'copy':
            c = c.copy()
            terms.append('HCopy')
        elif o['op'] == 'rewrap':
            c = G.rewrap(I, c, g)
            terms.append('HRewrap')
        elif o.get('ref') is None:
            c.set_correction(np.array(o['M']), np.array(o['s']))
            terms.append('HSet %s %s' % (G.qc_mat(o['M']), G.qc_pt(o['s'])))
        else:
            old = c.copy()
            proxy = G.RecRef(refs[o['ref']])
            c.set_correction(np.array(o['M']), np.array(o['s']), ref_tpwcs=proxy)
            probes = [cl for cl in proxy.calls if cl[0] == 't2w']
            px, py = probes[0][1]
            ix, iy = old.world_to_tanp(*probes[0][2])
            terms.append('HSetRef %s %s %s %s %s' % (q(float(px[1] - px[0])), qpts(px, py), qpts(ix, iy),
                                                    G.qc_mat(o['M']), G.qc_pt(o['s'])))
        if list(c.wcs.available_frames).count('v2v3corr') > 1:
            raise AssertionError('more than one v2v3corr frame')
    return c, terms


def run_term(c, terms):
    tp = G.read_tpcorr(c)
    frs = list(c.wcs.available_frames)
    if tp is None:
        return '{| r_ops := %s; r_has := false; r_m := (0,0,0,0); r_t := (0,0); r_frames := %s |}' % (lst(terms), G.coq_frames(frs))
    return ('{| r_ops := %s; r_has := true; r_m := %s; r_t := %s; r_frames := %s |}'
            % (lst(terms), G.qc_mat(tp['m']), G.qc_pt(tp['t']), G.coq_frames(frs)))


def gwcs_exact_case(ck, I, rng, t):
    g = G.gen_gwcs_geom(rng, t)
    w0 = G.build_gwcs(I, g)
    x, y = G.grid(g, 4)
    snap = G.snapshot_original(w0, g, x, y)
    frames0 = list(w0.available_frames)
    c_built = I['JWST'](w0, G.gwcs_info(g))
    unit = G.pix_scale_arcsec(g)
    refs, grefs = {}, {}
    n = rng.choice([0, 1, 2, 2, 3, 4, 5, 6])
    base = []
    for j in range(n):
        if rng.random() < 0.3:
            mode = rng.choice(['self', 'rotated', 'scaled'])
            if mode not in refs:
                _, grefs[mode], refs[mode] = G.gen_reference(I, rng, g, c_built, 0, mode=mode)
            corr = G.gen_correction(rng, unit / G.tan_scale_arcsec(grefs[mode]))
            base.append({'op': 'set', 'M': corr['M'], 's': corr['s'], 'ref': mode})
        else:
            corr = G.gen_correction(rng, unit)
            base.append({'op': 'set', 'M': corr['M'], 's': corr['s'], 'ref': None})
    # variant 2: interleaved with copy() and re-wrapping
    inter = []
    for o in base:
        for _ in range(rng.choice([0, 0, 1, 2])):
            inter.append({'op': rng.choice(['copy', 'rewrap'])})
        inter.append(o)
    for _ in range(rng.choice([0, 1])):
        inter.append({'op': rng.choice(['copy', 'rewrap'])})
    # variant 3: adjacent own-plane corrections merged into their product (M2.M1, M2.s1 + s2)
    merged, j, nmerged = [], 0, 0
    while j < len(base):
        o = base[j]
        if j + 1 < len(base) and o['ref'] is None and base[j + 1]['ref'] is None and rng.random() < 0.7:
            M1, s1 = np.array(o['M']), np.array(o['s'])
            M2, s2 = np.array(base[j + 1]['M']), np.array(base[j + 1]['s'])
            merged.append({'op': 'set', 'M': np.dot(M2, M1).tolist(), 's': (np.dot(M2, s1) + s2).tolist(), 'ref': None})
            nmerged += 1
            j += 2
        else:
            merged.append(o)
            j += 1
    runs, finals = [], []
    for ops in (base, inter, merged):
        c, terms = apply_run(I, g, w0, ops, refs)
        runs.append(run_term(c, terms))
        finals.append(c)
    # ---- the same statement on the sky (predicate on the implementation)
    ck.search_evaluations += 1
    sk = [G.sky(c, x, y) for c in finals]
    d12, d13 = G.sky_diff(sk[0], sk[1]), G.sky_diff(sk[0], sk[2])
    track(ck, 'gwcs live vs copy/rewrap interleaved', d12, 1e-9)
    track(ck, 'gwcs sequence vs merged products (own plane)', d13, 1e-7)
    if not d12 <= 1e-9:
        ck.violation({'kind': 'C04-rewrapped-history-differs-from-live', 'geometry': g, 'live_history': base,
                      'interleaved_history': inter, 'max_sky_difference_arcsec': d12, 'tolerance_arcsec': 1e-9})
    if not d13 <= 1e-7:
        ck.violation({'kind': 'C04-own-plane-composition-fails-gwcs', 'geometry': g, 'history': base, 'merged_history': merged,
                      'max_sky_difference_arcsec': d13, 'tolerance_arcsec': 1e-7,
                      'predicate': '(M1,s1) then (M2,s2) in the own plane = (M2.M1, M2.s1+s2)'})
    ck.search_evaluations += 1
    snap2 = G.snapshot_original(w0, g, x, y)
    if snap2 != snap:
        ck.violation({'kind': 'C04-original-wcs-modified', 'geometry': g, 'history': inter,
                      'frames_before': list(snap[0]), 'frames_after': list(snap2[0])})
    for c in (finals[0], finals[2]):
        if c.original_wcs is not w0:
            ck.violation({'kind': 'C04-original_wcs-is-not-the-callers-object', 'geometry': g})
    case = ('{| c4_frames := %s; c4_info := (%s, %s, %s); c4_k := %s; c4_runs := %s; c4_orig_after := %s |}'
            % (G.coq_frames(frames0), q(g['v2ref']), q(g['v3ref']), q(g['roll']),
               q(float(I['correctors']._ARCSEC2RAD)), lst(runs), G.coq_frames(list(w0.available_frames))))
    ck.case(('gwcs-runs', g, base, inter), n >= 1)
    ck.count('gwcs_runs_corrections', n)
    ck.count('gwcs_runs_copy_rewrap_ops', min(6, sum(1 for o in inter if o['op'] != 'set')))
    ck.count('gwcs_runs_merged_pairs', nmerged)
    ck.count('gwcs_runs_reference_plane_ops', sum(1 for o in base if o['ref']))
    ck.count('pointing', g['pointing'])
    return case, dict(geometry=g, live=base, interleaved=inter, merged=merged,
                      tp_affine_final=[None if G.read_tpcorr(c) is None else G.read_tpcorr(c)['m'].tolist() for c in finals],
                      frames_final=[list(c.wcs.available_frames) for c in finals])


# ------------------------------------------------------------------------------------------------ numerical laws
def laws_case(ck, I, rng, t):
    kind = ['fits', 'gwcs'][t % 2]
    g = G.gen_fits_geom(rng, t // 2) if kind == 'fits' else G.gen_gwcs_geom(rng, t // 2)
    w0 = G.build_fits_wcs(I, g) if kind == 'fits' else G.build_gwcs(I, g)
    x, y = G.grid(g, 5)
    snap = G.snapshot_original(w0, g, x, y)
    c0 = I['FITS'](w0) if kind == 'fits' else I['JWST'](w0, G.gwcs_info(g))
    # optional earlier history so that the laws are tested "in any state"
    npre = rng.choice([0, 0, 1, 2])
    unit = G.pix_scale_arcsec(g) / G.tan_scale_arcsec(g)
    pre = []
    for _ in range(npre):
        corr = G.gen_correction(rng, unit)
        c0.set_correction(corr['M'], corr['s'])
        pre.append({'op': 'set', 'M': corr['M'], 's': corr['s']})
    s0 = G.sky(c0, x, y)
    plane = rng.choice(['own', 'own', 'self', 'rotated_or_scaled', 'offset'])
    ref_has_history = False
    if plane == 'own':
        ref, gr = None, None
    else:
        mode = {'self': 'self', 'rotated_or_scaled': rng.choice(['rotated', 'scaled']), 'offset': 'offset'}[plane]
        _, gr, ref = G.gen_reference(I, rng, g, c0, 0, mode=mode)
        if kind == 'gwcs' and mode in ('self', 'rotated') and rng.random() < 0.6:
            # a reference corrector with a correction history of its own (two or three own-plane corrections on the
            # same object): its plane is an affine image of the plane it was built with, same tangent point
            rh = []
            for _ in range(rng.choice([2, 3])):
                rc_ = G.gen_correction(rng, G.pix_scale_arcsec(g) / G.tan_scale_arcsec(gr))
                ref.set_correction(np.array(rc_['M']), np.array(rc_['s']))
                rh.append({'M': rc_['M'], 's': rc_['s']})
            plane += '+corrected%d' % len(rh)
            ref_has_history = True
    U = G.tan_scale_arcsec(g if ref is None else gr)
    u = G.pix_scale_arcsec(g) / U
    c1, c2 = G.gen_correction(rng, u), G.gen_correction(rng, u)
    M1, s1, M2, s2 = np.array(c1['M']), np.array(c1['s']), np.array(c2['M']), np.array(c2['s'])
    info = {'geometry': g, 'history_before': pre, 'plane': plane, 'ref_geometry': gr,
            'M1': M1.tolist(), 's1': s1.tolist(), 'M2': M2.tolist(), 's2': s2.tolist()}
    tol = lambda old, M, s: G.corr_tol_arcsec(g, old, M, s, ref, gr, x, y)     # noqa: E731
    kw = {} if ref is None else {'ref_tpwcs': ref}
    ck.count('laws_kind', kind)
    ck.count('laws_plane', plane)
    ck.count('laws_history_before', npre)

    def report(name, err, tl, extra):
        ck.search_evaluations += 1
        ck.case((name, kind, g, pre, plane, info['M1'], info['s1'], info['M2'], info['s2']), True)
        track(ck, '%s %s (%s)' % (kind, name, 'own plane' if ref is None else 'reference plane'), err, tl)
        if not err <= tl:
            d = dict(info)
            d.update(extra)
            d.update({'kind': 'C04-%s-fails' % name, 'corrector': kind, 'max_sky_difference_arcsec': err,
                      'tolerance_arcsec': tl})
            ck.violation(d)

    # identity
    a = c0.copy()
    a.set_correction(**kw)
    report('identity', G.sky_diff(G.sky(a, x, y), s0), 3 * tol(c0, np.eye(2), np.zeros(2)),
           {'predicate': 'set_correction() with default arguments leaves det_to_world unchanged'})
    # inverse
    a = c0.copy()
    a.set_correction(M1, s1, **kw)
    Mi = minv(M1)
    si = -np.dot(Mi, s1)
    t1 = tol(c0, M1, s1)
    t2 = tol(a, Mi, si)
    bb = a.copy()
    bb.set_correction(Mi, si, **kw)
    report('inverse', G.sky_diff(G.sky(bb, x, y), s0), 3 * (t1 + t2),
           {'predicate': '(M,s) then (M^-1, -M^-1 s) restores det_to_world', 'Minv': Mi.tolist(), 'sinv': si.tolist()})
    if ref_has_history:
        # the live reference object and a corrector rebuilt from its corrected WCS are the same plane
        a_re = c0.copy()
        a_re.set_correction(M1, s1, ref_tpwcs=G.rewrap(I, ref, gr))
        report('reference-live-vs-rebuilt', G.sky_diff(G.sky(a, x, y), G.sky(a_re, x, y)), 2 * t1 + 1e-9,
               {'predicate': 'a correction given through a reference corrector with its own correction history equals the '
                             'same correction given through a corrector rebuilt from that reference\'s corrected WCS'})
    # composition
    c12 = a.copy()
    t2 = tol(a, M2, s2)
    c12.set_correction(M2, s2, **kw)
    if ref is None and kind == 'fits':
        Mp, sp, law = np.dot(M1, M2), np.dot(M1, s2) + s1, '(M1.M2, M1.s2+s1)  [FITS own plane, fixed on the detector]'
    else:
        Mp, sp, law = np.dot(M2, M1), np.dot(M2, s1) + s2, '(M2.M1, M2.s1+s2)'
    cp = c0.copy()
    tp = tol(c0, Mp, sp)
    cp.set_correction(Mp, sp, **kw)
    report('composition', G.sky_diff(G.sky(c12, x, y), G.sky(cp, x, y)), 3 * (t1 + t2 + tp),
           {'predicate': '(M1,s1) then (M2,s2) = ' + law, 'product': {'M': Mp.tolist(), 's': sp.tolist()}})
    # the other order must NOT be what happens when the matrices do not commute (sanity of the test itself)
    # rewrap continues the history like the live object; copies are independent
    live = c0.copy()
    live.set_correction(M1, s1, **kw)
    re = G.rewrap(I, live, g)
    cop = live.copy()
    before = G.sky(live, x, y)
    re.set_correction(M2, s2, **kw)
    cop.set_correction(M2, s2, **kw)
    ck.search_evaluations += 1
    after = G.sky(live, x, y)
    if not (np.array_equal(before[0], after[0]) and np.array_equal(before[1], after[1])):
        ck.violation(dict(info, kind='C04-copy-or-rewrap-not-independent', corrector=kind,
                          what='correcting a copy / a re-wrapped corrector changed the source corrector'))
    live.set_correction(M2, s2, **kw)
    report('rewrap-replay', max(G.sky_diff(G.sky(re, x, y), G.sky(live, x, y)), G.sky_diff(G.sky(cop, x, y), G.sky(live, x, y))),
           1e-9, {'predicate': 'a corrector rebuilt from the corrected WCS (and a copy) continues the history exactly like the '
                               'live object'})
    sl = G.sky(cop, x, y)
    live.set_correction(M1, s1, **kw)
    ck.search_evaluations += 1
    sl2 = G.sky(cop, x, y)
    if not (np.array_equal(sl[0], sl2[0]) and np.array_equal(sl[1], sl2[1])):
        ck.violation(dict(info, kind='C04-copy-not-independent', corrector=kind,
                          what='correcting the source corrector changed its copy'))
    if kind == 'gwcs':
        for cc in (a, bb, c12, cp, live, re, cop):
            ck.search_evaluations += 1
            nfr = list(cc.wcs.available_frames).count('v2v3corr')
            if nfr != 1:
                ck.violation(dict(info, kind='C04-number-of-correction-frames', frames=list(cc.wcs.available_frames)))
    ck.search_evaluations += 1
    if G.snapshot_original(w0, g, x, y) != snap:
        ck.violation(dict(info, kind='C04-original-wcs-modified', corrector=kind))
    if c0.original_wcs is not w0:
        ck.violation(dict(info, kind='C04-original_wcs-is-not-the-callers-object', corrector=kind))
    return info


def run(ck):
    implementation()
    I = G.imports()
    ck.props()
    ck.rule = ('(a) exact, in Coq: mock JWST gWCS x three equivalent histories of 0..6 corrections (own plane or via a '
               'reference plane with the same tangent point): live, interleaved with copy()/re-wrapping, adjacent own-plane '
               'pairs merged into (M2.M1, M2.s1+s2); the model must give exactly one accumulated affine for all three and the '
               "implementation's tp_affine / frames must agree with it. (b) numerical laws on a 5x5 pixel grid for FITS and gWCS "
               'correctors in a state with 0..2 earlier corrections, in the own plane or a fixed reference plane (copy / rotated / '
               'scaled / other tangent point): identity, inverse, composition in the order the property states, re-wrap and '
               'copy replay, copy independence, untouched caller WCS, one v2v3corr frame. A case is non-trivial when at least '
               'one correction is applied; distinct by (law, geometry, history, plane, corrections).')
    ck.notes += ['the laws for a true TAN projection (FITS) hold within the C02 bounds; the tolerance of a law is 3x the sum of '
                 'the C02 tolerances of the set_correction calls involved (see gen_wcs.corr_tol_arcsec)',
                 'object identity facts (independent copies, untouched caller WCS) are measured: bytes of the WCS / its header '
                 'and sky positions before and after']
    rng = ck.rng
    cases, metas = [], []
    for t in range(ck.n(32, 500)):
        case, meta = gwcs_exact_case(ck, I, rng, t)
        cases.append(case)
        metas.append(meta)
        if t < 2:
            ck.sample({'kind': 'gwcs equivalent histories', 'geometry': meta['geometry'], 'live': meta['live'],
                       'interleaved': meta['interleaved'], 'merged': meta['merged']})
    bad = ck.coq_agree('runs', ['CorrModel', 'CorrObs', 'C04Corr'], 'case04', 'agree04', cases, show='show04', shard=3)
    for i in bad:
        ck.violation({'kind': 'gwcs-histories-disagree-with-model', 'case': metas[i],
                      'model (accumulated matrix, translation, frames) for live / interleaved / merged': ck.last_shown.get(i, 'n/a'),
                      'predicate': 'all three histories have the same accumulated affine in the model; tp_affine read back from '
                                   'each final pipeline equals it; exactly one v2v3corr frame iff a correction was applied; '
                                   "the caller's WCS keeps its frames"})
    for t in range(ck.n(40, 700)):
        info = laws_case(ck, I, rng, t)
        if t < 2:
            ck.sample({'kind': 'laws', **info})
