"""C06 - single-shot fits are the weighted least-squares optimum of their family."""
import numpy as np

import gen_fit as G
from common import q, b, lst, nat, frac, implementation


def err_code(e, lf):
    if isinstance(e, lf.NotEnoughPointsError):
        return 1
    if isinstance(e, lf.SingularMatrixError):
        return 3
    if isinstance(e, ValueError):
        return 2
    raise e


def call_single(lf, geom, xy, uv, wxy, wuv):
    f = {'shift': lf.fit_shifts, 'rshift': lf.fit_rshift, 'rscale': lf.fit_rscale, 'general': lf.fit_general}[geom]
    return f(xy, uv, wxy, wuv)


def effective(fit, iterative):
    m = np.array(fit['matrix_ld'] if 'matrix_ld' in fit else fit['matrix'], dtype=np.longdouble)
    s = np.array(fit['shift_ld'] if 'shift_ld' in fit else fit['shift'], dtype=np.longdouble)
    if iterative:
        c = np.array(fit['center_ld'], dtype=np.longdouble)
        s = s + c - np.dot(m, c)
    return [m[0, 0], m[0, 1], m[1, 0], m[1, 1], s[0], s[1]]


def _typed(a, dtype):
    """array of the requested dtype if that is value-preserving, else float64"""
    f = np.array(a, dtype=float)
    if dtype is not None:
        t = f.astype(dtype)
        if np.array_equal(t.astype(float), f):
            return t
    return f


def run_impl(lf, pr, iterative):
    # pr['dtypes'] = (coordinate dtype, weight dtype): exercised with integer / float32 inputs whenever the values
    # are exactly representable in that type (the result must not depend on the caller's dtype)
    cdt, wdt = pr.get('dtypes', (None, None))
    xy, uv = _typed(pr['xy'], cdt).reshape(-1, 2), _typed(pr['uv'], cdt).reshape(-1, 2)
    wxy = None if pr['wxy'] is None else _typed(pr['wxy'], wdt)
    wuv = None if pr['wuv'] is None else _typed(pr['wuv'], wdt)
    try:
        if iterative:
            # "no clipping" can be requested in several documented ways: nclip=0 (any sigma, also None) or nclip=None
            kw = [dict(nclip=0), dict(nclip=0, sigma=None), dict(nclip=None, sigma=None), dict(nclip=None)][len(xy) % 4]
            fit = lf.iter_linear_fit(xy, uv, wxy, wuv, fitgeom=pr['geom'], **kw)
        else:
            fit = call_single(lf, pr['geom'], xy, uv, wxy, wuv)
        return 0, effective(fit, iterative), fit
    except (lf.NotEnoughPointsError, lf.SingularMatrixError, ValueError) as e:
        return err_code(e, lf), [], None


def coq_case(pr, iterative, code, eff):
    return ('{| c_iter := %s; c_g := %s; c_p := %s; c_wxy := %s; c_wuv := %s; c_err := %s; c_m := %s |}' % (
        b(iterative), G.COQ_GEOM[pr['geom']], G.coq_pts(pr['xy'], pr['uv']), G.coq_optw(pr['wxy']),
        G.coq_optw(pr['wuv']), nat(code), lst([q(frac(v)) for v in eff])))


def rel_det(pr):
    """exact relative determinant of the weighted centred scatter matrix of uv: det(S) / (Suu * Svv), in [0, 1];
    0 for collinear / coincident points"""
    from fractions import Fraction as F
    n = len(pr['uv'])
    w = [F(1)] * n
    for key in ('wxy', 'wuv'):
        if pr[key] is not None:
            w = [a * (F(b_) if b_ > 0 else F(0)) for a, b_ in zip(w, pr[key])]
    W = sum(w)
    if W == 0:
        return F(0)
    um = sum(a * F(p[0]) for a, p in zip(w, pr['uv'])) / W
    vm = sum(a * F(p[1]) for a, p in zip(w, pr['uv'])) / W
    suu = sum(a * (F(p[0]) - um) ** 2 for a, p in zip(w, pr['uv']))
    svv = sum(a * (F(p[1]) - vm) ** 2 for a, p in zip(w, pr['uv']))
    suv = sum(a * (F(p[0]) - um) * (F(p[1]) - vm) for a, p in zip(w, pr['uv']))
    if suu == 0 or svv == 0:
        return F(0)
    return (suu * svv - suv * suv) / (suu * svv)


def gen_case(rng, t):
    geom = G.GEOMS[t % 4]
    stream = ['valid', 'valid', 'valid', 'valid', 'valid', 'special', 'degenerate', 'malformed'][(t // 4) % 8]
    if stream == 'valid':
        # weight mode and input dtypes cycle systematically so that every (fitgeom, weight mode, dtype) combination
        # occurs in every run
        strip = geom in ('rscale', 'rshift') and t % 5 == 2
        pr = G.problem(rng, geom, outliers=0 if strip else rng.choice([0, 0, 0, 1, 3]),
                       wmode=['none', 'xy', 'uv', 'both'][(t // 32) % 4], style='strip' if strip else None,
                       noise=rng.choice([0, 1]) if strip else None, n=rng.choice([6, 10, 20]) if strip else None)
    elif stream == 'special':
        # noise-free integer lattices under special-angle members of the family (finding F1/F12 inputs)
        n = rng.choice([2, 3, 5, 9]) if geom != 'general' else rng.choice([3, 5, 9])
        n = max(n, G.MINOBJ[geom])
        pr = G.problem(rng, geom, n=n, noise=0, style='lattice', wmode=rng.choice(['none', 'xy', 'both']),
                       zeros=False)
    elif stream == 'degenerate':
        n = rng.choice([2, 3, 4, 6])
        n = max(n, G.MINOBJ[geom])
        pr = G.problem(rng, geom, n=n, noise=rng.choice([0, 1]), style='lattice', wmode=rng.choice(['none', 'xy']),
                       zeros=False)
        kind = rng.choice(['collinear', 'coincident', 'two_clusters'])
        a0, b0 = rng.randrange(-2, 3), rng.randrange(1, 3)
        if kind == 'collinear':
            ts = rng.sample(range(-6, 7), n)
            pr['uv'] = [[float(a0 * s + 1), float(b0 * s - 2)] for s in ts]
        elif kind == 'coincident':
            pr['uv'] = [[float(a0), float(b0)]] * n
        else:
            pr['uv'] = [[float(a0 * (k % 2)), float(b0 * (k % 2))] for k in range(n)]
        pr['style'] = kind
    else:
        pr = G.problem(rng, geom, n=rng.choice([0, 1, 2, 3, 4]), noise=1)
        kind = rng.choice(['short', 'negw', 'zerow'])
        n = pr['n']
        if kind == 'negw' and n:
            pr['wxy'] = [1.0] * n
            pr['wxy'][rng.randrange(n)] = -0.5
        elif kind == 'zerow' and n:
            pr['wuv'] = [0.0] * n
            for k in range(min(n, rng.randrange(0, G.MINOBJ[geom] + 1))):
                pr['wuv'][k] = 1.0
        pr['style'] = kind
    pr['stream'] = stream
    pr['dtypes'] = ([(None, None)] * 3 + [(None, np.int64), (np.float32, np.float32), (np.int64, np.int32),
                                          (None, np.float32)])[(t // 4) % 7]
    if pr['dtypes'][1] in (np.int64, np.int32):
        # integer-typed weight arrays: make the weights integral so that the integer dtype is really used
        for key in ('wxy', 'wuv'):
            if pr[key] is not None:
                pr[key] = [float(-1 if w < 0 else int(np.ceil(w))) for w in pr[key]]
    return pr


def run(ck):
    implementation()
    from tweakwcs import linearfit as lf
    ck.props()
    ck.rule = ('point pairs (n = 0..60; random / clustered / integer lattice / nearly collinear / exactly collinear / '
               'coincident), exact family member as truth (Pythagorean rotations, lattice rotations incl. +-45/90/135/'
               '180 deg, reflections, random affine), dyadic noise, gross outliers, 4 weight modes with zeros; each '
               'run through the private single-shot fitter AND iter_linear_fit(nclip=0). Non-trivial: the fit '
               'returned parameters (no error exit), n > minobj, and data are not noise-free-with-identity; distinct '
               'by content.')
    ck.notes += ['x87 rounding is outside the theorems; parameters are compared with the exact optimum within '
                 '2^-28 relative (matrix) / 2^-28*max|coord| (shift); the exact SSR of the implementation\'s '
                 'parameters must not exceed the exact optimum by more than 2^-50*W*scale^2',
                 'rshift: the implementation\'s (cos, sin) must be a unit vector positively collinear with the exact '
                 'moment direction (theorem C06_rshift_optimal shows any such vector is optimal)',
                 'reflection branch: either branch is accepted when |det| <= 2^-30*(|cxu*cyv|+|cxv*cyu|) '
                 '(both are optimal at det = 0, C06_rscale_optimal_any_branch)']
    rng = ck.rng
    N = ck.n(320, 6000)
    cases, meta = [], []
    # corpus: inputs of findings F1 and F12 first
    corpus = [
        {'geom': 'rscale', 'uv': [[0., 0.], [1., 0.], [0., 1.], [1., 1.], [2., 1.]],
         'xy': [[0., 0.], [1., -1.], [1., 1.], [2., 0.], [3., -1.]], 'wxy': None, 'wuv': None},
        {'geom': 'rscale', 'uv': [[2., 2.], [4., 4.]], 'xy': [[0., 3.], [-2., 5.]], 'wxy': [1., 2.], 'wuv': None},
        {'geom': 'rshift', 'uv': [[2., 2.], [4., 4.]], 'xy': [[0., 3.], [-2., 5.]], 'wxy': [1., 2.], 'wuv': None},
        {'geom': 'rshift', 'uv': [[0., 0.], [5., 0.], [0., 5.], [5., 5.]],
         'xy': [[0., 0.], [3., -4.], [4., 3.], [7., -1.]], 'wxy': None, 'wuv': None},
    ]
    problems = []
    if ck.replay_in:
        # replay of one recorded case: ./check C06 --replay replays/C06-xxxx.json
        import json
        rp = json.load(open(ck.replay_in))
        pr = dict(rp['problem'])
        pr.update(stream='replay', style='replay', wmode='replay', n=len(pr['uv']), noise=0)
        corpus, N = [], 0
        problems.append(pr)
    for c in corpus:
        c.update(stream='corpus', style='corpus', wmode='corpus', n=len(c['uv']), noise=0)
        problems.append(c)
    for t in range(N):
        problems.append(gen_case(rng, t))
    from fractions import Fraction
    for pr in problems:
        if pr['geom'] == 'general' and pr['stream'] in ('valid', 'special') and pr['n'] >= 3:
            rd = rel_det(pr)
            if 0 < rd < Fraction(1, 2 ** 20):
                # nearly collinear beyond the conditioning the tolerances are meant for (rounding error of the
                # normal equations ~ eps / rel_det): not compared, counted
                ck.discard('general fit with exact relative determinant of the uv scatter below 2^-20')
                continue
        for iterative in (False, True):
            code, eff, fit = run_impl(lf, pr, iterative)
            if code == 0 and not all(np.isfinite(np.array(eff, dtype=float))):
                ck.violation({'kind': 'non-finite-parameters', 'problem': slim(pr), 'iterative': iterative})
                continue
            cases.append(coq_case(pr, iterative, code, eff))
            meta.append((pr, iterative, code, eff))
            ck.count('stream', pr['stream'])
            ck.count('geom', pr['geom'])
            ck.count('points', pr['style'])
            ck.count('weights', pr['wmode'])
            ck.count('dtypes(coords,weights)', tuple(getattr(d, '__name__', 'float64') for d in pr.get('dtypes', (None, None))))
            ck.count('log2_scale', pr.get('log2scale', 0))
            ck.count('n', min(pr['n'], 10) if pr['n'] < 10 else (pr['n'] // 10) * 10)
            ck.count('impl_result', ['returned', 'NotEnoughPoints', 'ValueError', 'SingularMatrix'][code])
            nontrivial = code == 0 and pr['n'] > G.MINOBJ[pr['geom']] and pr['stream'] != 'malformed'
            ck.case((pr['geom'], pr['xy'], pr['uv'], pr['wxy'], pr['wuv'], iterative), nontrivial)
    ck.sample({'geom': problems[6]['geom'], 'xy': problems[6]['xy'][:4], 'uv': problems[6]['uv'][:4],
               'wxy': problems[6]['wxy'], 'n': problems[6]['n']})
    bad = ck.coq_agree('fit', ['GJModel', 'LSQ', 'LinearFit', 'C06Corr'], 'case06', 'agree06', cases,
                       show='show06', shard=ck.n(48, 250))
    for i in bad:
        pr, iterative, code, eff = meta[i]
        shown = ck.last_shown.get(i, '')
        if code == 0 and 'ESingular' in shown.split('\n')[0]:
            # exactly degenerate input accepted by the implementation: outside C06's domain (non-degenerate
            # points); whether it must raise is decided by C17 (known finding K1)
            ck.discard('degenerate input not rejected by implementation (C17 domain)')
            for sh in ck._shards:
                sh[2].discard(i)
            continue
        ck.violation({'kind': 'fit-is-not-the-exact-optimum (or error exit differs)',
                      'call': ('iter_linear_fit(nclip=0, fitgeom=%r)' if iterative else 'single-shot fit %r')
                      % pr['geom'], 'problem': slim(pr),
                      'impl': {'error_code(0=returned,1=NotEnoughPoints,2=ValueError,3=Singular)': code,
                               'effective [m00,m01,m10,m11,s0,s1]': [float(v) for v in eff]},
                      'exact model': ck.last_shown.get(i, 'n/a'),
                      'predicate': 'parameters equal the exact weighted least-squares optimum of the family within '
                                   '2^-28 and SSR_impl <= SSR_opt + 2^-50*W*scale^2'})


def slim(pr):
    return {k: pr[k] for k in ('geom', 'xy', 'uv', 'wxy', 'wuv')}
