"""C01 - an exact affine error (of a tangent plane the fit geometry can express) is recovered by fit_wcs /
align_wcs and removed by the returned WCS; the reported fit describes what the returned WCS does."""
import math

import numpy as np

import gen_align as A
import gen_wcs2 as W
from common import q, b, lst, nat, frac, implementation
from pC06 import coq_case

GW_TOL = 1e-7          # arcsec, gWCS (property text)
FITS_FLOOR = 2e-6      # arcsec, rounding floor of FITSWCSCorrector's numerical differentiation
RMS_FLOOR = 1e-7       # arcsec, rounding floor of tangent-plane coordinates (sky round trip)
MIN_SPREAD = 24.0     # px: smallest rms extent of the positively weighted sources of a catalog (>= 3 sources)
CFITS = 4.0            # constant of the second-order FITS bound (measured <= 1.0, see evidence details)
K3_KIND = ('sigma-clipping-of-rounding-level-residuals-leaves-two-sources-and-the-similarity-fit-returns-the-'
           'mirror-image')
# inputs (found by this check, thorough tier) on which fit_wcs with its DEFAULT nclip=3 returns a mirror-flipped WCS:
# exact similarity data, 3 non-collinear sources, unequal reference weights
CORPUS_K3 = [
 {
  "par": {
   "kind": "fits",
   "crval": [
    271.25,
    -0.5
   ],
   "rot": 312.375,
   "scale": 1.4e-05,
   "pc": True,
   "sip": None,
   "crpix": [
    700.25,
    300.0
   ]
  },
  "geom": "rscale",
  "M": [
   [
    0.999935149571562,
    0.0027622570641095473
   ],
   [
    -0.0027622570641095473,
    0.999935149571562
   ]
  ],
  "s": [
   1.953125,
   -0.3125
  ],
  "x": [
   554.75,
   583.875,
   218.875
  ],
  "y": [
   558.0,
   720.25,
   164.6875
  ],
  "wref": [
   0.25,
   2.0,
   2.0
  ]
 },
 {
  "par": {
   "kind": "fits",
   "crval": [
    82.0,
    12.0
   ],
   "rot": 193.875,
   "scale": 0.0001,
   "pc": False,
   "sip": [
    -4e-07,
    6e-07,
    1e-07,
    5e-07,
    -3e-07,
    -8e-07
   ],
   "crpix": [
    256.0,
    300.0
   ]
  },
  "geom": "rscale",
  "M": [
   [
    1.0008506734221128,
    0.002764786140344769
   ],
   [
    -0.002764786140344769,
    1.0008506734221128
   ]
  ],
  "s": [
   -1.265625,
   -1.140625
  ],
  "x": [
   204.25,
   859.0625,
   979.875
  ],
  "y": [
   680.875,
   72.625,
   446.3125
  ],
  "wref": [
   2.0,
   0.25,
   3.0
  ]
 },
 {
  "par": {
   "kind": "fits",
   "crval": [
    82.0,
    12.0
   ],
   "rot": 287.5,
   "scale": 1e-06,
   "pc": False,
   "sip": None,
   "crpix": [
    700.25,
    512.0
   ]
  },
  "geom": "rshift",
  "M": [
   [
    0.9999995231629555,
    0.0009765622671694119
   ],
   [
    -0.0009765622671694119,
    0.9999995231629555
   ]
  ],
  "s": [
   -1.375,
   0.15625
  ],
  "x": [
   562.8125,
   966.1875,
   216.5625
  ],
  "y": [
   428.4375,
   678.3125,
   84.875
  ],
  "wref": [
   3.0,
   0.25,
   0.5
  ]
 }
]


def qpairs(v):
    return lst(['(%s, %s)' % (q(a), q(c)) for a, c in v])


def coq_case01(pr, eff, exact, G, noise, floor, rmse, res, tolmeas, sky, fsky, skytol, gw, a2r, A0, A1, R):
    def aff(m):
        return lst([]) if m is None else lst([q(frac(v)) for v in m])
    return ('{| k_fit := %s; k_exact := %s; k_G := %s; k_noise := %s; k_floor := %s; k_rmse := %s; k_res := %s; k_tolmeas := %s; '
            'k_sky := %s; k_fsky := %s; k_skytol := %s; k_gw := %s; k_a2r := %s; k_A0 := %s; k_A1 := %s; k_R := %s |}'
            % (coq_case(pr, True, 0, eff), b(exact), aff(G), q(noise), q(floor), q(rmse), qpairs(res), q(tolmeas),
               lst([q(v) for v in sky]), lst([q(v) for v in fsky]), q(skytol), nat(gw), q(a2r), aff(A0), aff(A1),
               aff(R)))


def flat(M, s):
    return [M[0][0], M[0][1], M[1][0], M[1][1], s[0], s[1]]


def plane_unit_arcsec(par):
    """size of one unit of the tangent plane of a corrector with parameters par, in arcsec."""
    return par['scale'] * 3600.0 if par['kind'] == 'fits' else 1.0


def tangent_point(c, par):
    if par['kind'] == 'fits':
        return [float(v) for v in c.tanp_to_world(par['crpix'][0] - 1.0, par['crpix'][1] - 1.0)]
    return [float(v) for v in c.tanp_to_world(0.0, 0.0)]


def ref_plane(rng, c, par, kind):
    """a reference plane with the SAME tangent point as the image's plane (rotated / scaled / shifted origin /
    other corrector class / other correction history), or the image's own plane."""
    tp = tangent_point(c, par)
    pxdeg = par['scale'] if par['kind'] == 'fits' else math.degrees(par['cd'])
    if kind == 'copy':
        return c.copy(), dict(par), 'copy of the image corrector'
    if kind == 'fits':
        rp = {'kind': 'fits', 'crval': tp, 'rot': rng.randrange(0, 360 * 4) / 4.0,
              'scale': pxdeg * rng.choice([0.5, 1.0, 1.25, 2.0]), 'pc': rng.random() < 0.5, 'sip': None,
              'crpix': [rng.choice([512.0, 100.0, 900.5]), rng.choice([512.0, 77.25, 1000.0])]}
        return W.build(rp), rp, 'FITS plane, same tangent point, rotated/scaled, CRPIX moved'
    # gWCS plane: same tangent point, other roll; with a correction history of its own (does not move the plane)
    if par['kind'] == 'gwcs':
        rp = dict(par)
        rp['roll'] = (par['roll'] + rng.choice([0.0, 33.0, 180.0, 271.5])) % 360.0
    else:
        rp = {'kind': 'gwcs', 'crval': tp, 'v2': 0.0, 'v3': 0.0, 'roll': rng.choice([0.0, 115.0]),
              'cd': math.radians(pxdeg), 'vacorr': True, 'crpix': [512.0, 512.0]}
    r = W.build(rp)
    r, _ = W.apply_history(rng, r, rp, rng.choice([0, 1]), ['set'])
    return r, rp, 'gWCS plane, same tangent point, other roll / history'


def scenario(rng, t, aligned_by):
    """one image: geometry, history, true affine error G in the reference plane, catalog, weights, noise."""
    kind = ['fits', 'gwcs'][t % 2]
    geom = W.GEOMS[(t // 2) % 4]
    wmode = ['none', 'image', 'reference', 'both'][(t // 8) % 4]
    stream = ['exact', 'exact', 'noisy', 'exact-large'][(t // 32 + t) % 4] if aligned_by == 'fit_wcs' else \
        ['exact', 'noisy'][(t // 32 + t) % 2]
    par = W.fits_params(rng) if kind == 'fits' else W.gwcs_params(rng)
    c = W.build(par)
    nh = [0, 1, 2][(t // 3) % 3]
    c, steps = W.apply_history(rng, c, par, nh, [rng.choice(['set', 'setref', 'fit']) for _ in range(2)])
    refkind = rng.choice(['own', 'own', 'copy', 'fits', 'gwcs'])
    if refkind == 'own':
        ref, rpar, rdesc = c, par, 'own plane (ref_tpwcs=None)'
    else:
        ref, rpar, rdesc = ref_plane(rng, c, par, refkind)
    pu = plane_unit_arcsec(rpar)                           # arcsec per reference-plane unit
    impx = plane_unit_arcsec(par) * W.unit_of(c, par)      # arcsec per image pixel
    unit = impx / pu                                       # image pixel in reference-plane units
    big = aligned_by == 'fit_wcs'
    if stream == 'exact-large':
        M, s = W.affine(rng, geom, unit, big=True)
    else:
        M, s = W.affine(rng, geom, unit, big=False)
        if big:
            s = s * 8.0                                    # shifts up to +-16 px when no matching is involved
    mino = W.MINOBJ[geom]
    n = rng.choice([mino, mino + 1, 5, 8, 12, 16]) if stream != 'noisy' else rng.choice([mino + 3, 8, 12, 16])
    if aligned_by == 'align_wcs':
        n = max(n, 3)
    # the POSITIVELY weighted sources must determine the map: >= 3 non-collinear ones whenever n >= 3 (two sources
    # cannot tell a rotation from a reflection), plus 3 more for noisy data
    npos_min = (mino if (n < 3 or geom == 'shift') else 3) + (3 if stream == 'noisy' else 0)
    for _ in range(50):
        x, y = W.grid_pixels(rng, n, W.shape_of(par))
        wim, wref = W.weights(rng, n, wmode, npos_min)
        w = W.combined(wim, wref, n)
        pos = np.ones(n, dtype=bool) if w is None else w > 0
        # >= 3 sources: at least 24 px across the thinnest direction (uniformly weighted AND as weighted)
        if int(pos.sum()) < 3 and W.nondegenerate(x[pos], y[pos]):
            break
        if int(pos.sum()) >= 3 and min(W.spread_min(x[pos], y[pos]),
                                       W.spread_min(x[pos], y[pos], None if w is None else w[pos])) >= MIN_SPREAD:
            break
    else:
        return None
    if n < 3 and M[0][0] * M[1][1] - M[0][1] * M[1][0] < 0:
        M = M @ np.diag([1.0, -1.0])                       # 2 sources cannot tell a reflection from a rotation
    return dict(kind=kind, geom=geom, wmode=wmode, stream=stream, par=par, c=c, steps=steps, nh=nh, refkind=refkind,
                ref=ref, rpar=rpar, rdesc=rdesc, pu=pu, impx=impx, unit=unit, M=np.array(M), s=np.array(s), n=n,
                x=x, y=y, wim=wim, wref=wref)


def reference_positions(rng, sc):
    """reference sky positions := ref.tanp_to_world(G(t_k) + noise_k), t_k the image's current positions in the
    reference plane. Returns t (2,n), g (2,n) target tangent-plane positions, ra, dec."""
    c, ref = sc['c'], sc['ref']
    if sc['refkind'] == 'own':
        tx, ty = c.det_to_tanp(sc['x'], sc['y'])
    else:
        tx, ty = ref.world_to_tanp(*c.det_to_world(sc['x'], sc['y']))
    t = np.array([tx, ty], dtype=float)
    g = sc['M'] @ t + sc['s'][:, None]
    if sc['stream'] == 'noisy':
        nz = np.array([[rng.randrange(-64, 65) / 256.0 * sc['unit'] for _ in range(sc['n'])] for _ in range(2)])
        g = g + nz
    ra, dec = ref.tanp_to_world(g[0], g[1])
    return t, g, np.asarray(ra, dtype=float), np.asarray(dec, dtype=float)


def tolerances(sc, t, Mu, su, x, y):
    """allowed sky distance (arcsec) between corrected.det_to_world(p) and the target, per the property text;
    (Mu, su) is the correction that was actually applied (the reported map; = G up to rounding for noise-free
    data with >= 3 sources)."""
    par = sc['par']
    dM = float(np.linalg.norm(Mu - np.eye(2), 2))
    if sc['kind'] == 'gwcs':
        # 1e-7 arcsec; for corrections beyond ~6 degrees / 10 per cent the rounding noise of the numerically
        # differentiated plane-to-plane matrix (relative 1e-9) times |M - I| times the field grows past it
        return GW_TOL * max(1.0, 10.0 * dM), dM, 0.0
    cx, cy = par['crpix'][0] - 1.0, par['crpix'][1] - 1.0
    ct = np.array(sc['ref'].world_to_tanp(*sc['c'].det_to_world(cx, cy)), dtype=float)
    g = Mu @ t + su[:, None]
    disp = max(float(np.hypot(*(g - t)).max()), float(np.hypot(*(Mu @ ct + su - ct)))) / sc['unit']
    rho = float(np.hypot(x - cx, y - cy).max())
    scale = math.radians(par['scale'])
    bound_px = CFITS * disp * rho ** 2 * scale ** 2
    return bound_px * sc['impx'] + FITS_FLOOR, dM, bound_px


def evaluate(ck, sc, out, ra, dec, t, g, cases, meta, A0, A1, R, label, fitsrc_idx, nclip=0):
    """all C01 observables of one aligned image; appends the Coq case."""
    c, ref, n = sc['c'], sc['ref'], sc['n']
    x, y = sc['x'], sc['y']
    fi = out.meta.get('fit_info', {})
    rp = replay(sc, label)
    ck.search_evaluations += 1
    if fi.get('status') != 'SUCCESS':
        rp.update(kind='status-is-not-SUCCESS', status=fi.get('status'))
        ck.violation(rp)
        return
    cra, cdec = out.det_to_world(x, y)
    m, s = np.asarray(fi['matrix'], dtype=float), np.asarray(fi['shift'], dtype=float)
    if sc['stream'] == 'noisy':
        # noisy references: the returned WCS must put the pixels where the REPORTED map puts them
        gt = m @ t + s[:, None]
        tra, tdec = ref.tanp_to_world(gt[0], gt[1])
    else:
        tra, tdec = ra, dec
    sky = W.sep_arcsec(cra, cdec, tra, tdec)
    skytol, dM, bound_px = tolerances(sc, t, m, s, x, y)
    # fit_RA / fit_DEC: corrected positions of the pixels that took part in the fit
    fra, fdec = np.asarray(fi['fit_RA'], dtype=float), np.asarray(fi['fit_DEC'], dtype=float)
    if len(fra) != len(fitsrc_idx):
        rp.update(kind='fit_RA-has-wrong-length', n_fit_RA=len(fra), n_fitted=len(fitsrc_idx))
        ck.violation(rp)
        return
    fsky = W.sep_arcsec(fra, fdec, np.asarray(cra)[fitsrc_idx], np.asarray(cdec)[fitsrc_idx])
    # residual through the corrected WCS, in the reference plane
    ox, oy = ref.world_to_tanp(cra, cdec)
    rx, ry = ref.world_to_tanp(ra, dec)
    res = list(zip(np.asarray(ox, dtype=float) - np.asarray(rx, dtype=float),
                   np.asarray(oy, dtype=float) - np.asarray(ry, dtype=float)))
    rmse = float(fi['rmse'])
    tolmeas = skytol / sc['pu'] + 1e-6 * rmse
    eff = flat(m, s)
    pr = {'geom': sc['geom'], 'xy': g.T.tolist(), 'uv': t.T.tolist(),
          'wxy': None if sc['wref'] is None else [float(v) for v in sc['wref']],
          'wuv': None if sc['wim'] is None else [float(v) for v in sc['wim']], 'n': n}
    gw = 0 if sc['kind'] == 'fits' else (1 if R is None else 2)
    from tweakwcs.correctors import _ARCSEC2RAD
    # with two (collinear) sources a rotation and a reflection fit equally well: G is not determined
    exact = sc['stream'] != 'noisy' and not (n < 3 and sc['geom'] in ('rshift', 'rscale'))
    if sc['stream'] != 'noisy' and not exact:
        ck.count('two_source_similarity_fits(map not unique, landing still checked)', sc['geom'])
    # rounding of the sky coordinates (8 ulp of the largest |RA|, |Dec|), in plane units, over the catalog's extent
    w_eff = W.combined(sc['wim'], sc['wref'], n)
    posm = np.ones(n, dtype=bool) if w_eff is None else w_eff > 0
    ulp = 2.0 ** -52 * max(1.0, float(np.abs(ra).max()), float(np.abs(dec).max())) * 3600.0 / sc['pu']
    ext = W.spread_min(t[0][posm], t[1][posm]) if posm.sum() >= 3 else float(np.hypot(np.ptp(t[0][posm]), np.ptp(t[1][posm])))
    noise = 32.0 * ulp / ext if ext > 0 else 0.0
    cases.append(coq_case01(pr, eff, exact, flat(sc['M'], sc['s']), noise, RMS_FLOOR / sc['pu'], rmse, res, tolmeas,
                            sky, fsky, skytol, gw, _ARCSEC2RAD, A0, A1, R))
    w = W.combined(sc['wim'], sc['wref'], n)
    r2 = np.array([a * a + c_ * c_ for a, c_ in res])
    meas = float(np.sqrt(np.mean(r2))) if w is None else float(np.sqrt(np.sum(w * r2) / np.sum(w)))
    rp.update({'reported': {'matrix': m.tolist(), 'shift': s.tolist(), 'rmse': rmse, 'status': fi['status']},
               'measured_through_corrected_wcs': {'rmse(ref-plane units)': meas,
                                                  'max sky distance to reference (arcsec)': float(sky.max()),
                                                  'allowed (arcsec)': skytol,
                                                  'max |fit_RA/DEC - corrected.det_to_world| (arcsec)':
                                                      float(fsky.max()) if len(fsky) else 0.0},
               'pairs(ref_tp, image_tp)': {'xy': pr['xy'], 'uv': pr['uv']}, 'tp_affine_before': A0,
               'tp_affine_after': A1, 'tp2tp(r,t)': R})
    w_all = W.combined(sc['wim'], sc['wref'], n)
    npos = n if w_all is None else int(np.sum(w_all > 0))
    if (sc['stream'] != 'noisy' and sc['geom'] in ('rshift', 'rscale') and nclip > 0 and len(fitsrc_idx) == 2 < npos
            and np.linalg.det(m) * np.linalg.det(sc['M']) < 0 and np.linalg.det(sc['M']) < 0):
        # known finding K6: only when the TRUE map is a reflection (since fix e16505e a two-source similarity fit
        # returns the proper rotation; a flipped result for a proper true map is a plain violation)
        rp['finding'] = 'K3'
        rp['input_class'] = ('noise-free similarity data, >= 3 non-collinear positively weighted sources, nclip > 0: the '
                             'residuals of the first fit are rounding noise, clipping at sigma*rmse of that noise '
                             'leaves exactly two sources (possible with unequal weights or many sources), and the '
                             'two-source rshift/rscale fit picks the reflection branch by the sign of a rounding-level '
                             'determinant: SUCCESS, rmse ~ 1e-10, clipped sources arcseconds off')
        rp['sources_used_in_final_fit'] = [int(v) for v in fitsrc_idx]
    meta.append(rp)
    nontrivial = bool(np.abs(sc['M'] - np.eye(2)).max() > 0 or np.abs(sc['s']).max() > 0)
    ck.case((label, sc['kind'], sc['geom'], pr['xy'], pr['uv'], pr['wxy'], pr['wuv'], sc['nh']), nontrivial)
    for tab, key in (('corrector', sc['kind']), ('fitgeom', sc['geom']), ('weights', sc['wmode']),
                     ('earlier_alignments', sc['nh']), ('stream', sc['stream']), ('reference_plane', sc['refkind']),
                     ('entry', label), ('n_sources', n)):
        ck.count(tab, key)
    d = ck.extra.setdefault('measured', {})
    if 'finding' in rp:          # K3 cases are reported separately; keep them out of the margin statistics
        d['cases classified as finding K3'] = d.get('cases classified as finding K3', 0) + 1
        return
    key = '%s max sky error / allowed' % sc['kind']
    d[key] = max(d.get(key, 0.0), float(sky.max()) / skytol)
    if sc['kind'] == 'gwcs':
        d['gwcs max sky error (arcsec), |M-I|<=0.1'] = max(d.get('gwcs max sky error (arcsec), |M-I|<=0.1', 0.0),
                                                           float(sky.max()) if dM <= 0.1 else 0.0)
    elif bound_px * sc['impx'] > 10 * FITS_FLOOR:
        k2 = 'fits max error / (D rho^2 scale^2) where that term dominates (stated constant %g)' % CFITS
        d[k2] = max(d.get(k2, 0.0), float(sky.max()) / (bound_px * sc['impx'] / CFITS))
    if sc['stream'] == 'noisy':
        k3 = '%s noisy max |reported rmse - measured| / rmse' % sc['kind']
        d[k3] = max(d.get(k3, 0.0), abs(rmse - meas) / rmse)


def replay(sc, label):
    return {'entry': label, 'corrector': sc['par'], 'earlier_alignments': sc['steps'], 'fitgeom': sc['geom'],
            'weights_in': sc['wmode'], 'reference_plane': sc['rdesc'],
            'reference_plane_parameters': sc['rpar'] if sc['refkind'] != 'own' else 'same as corrector',
            'true_error(matrix, shift; reference-plane units)': [sc['M'].tolist(), sc['s'].tolist()],
            'stream': sc['stream'], 'catalog_pixels': [sc['x'].tolist(), sc['y'].tolist()],
            'image_weights': None if sc['wim'] is None else sc['wim'].tolist(),
            'reference_weights': None if sc['wref'] is None else sc['wref'].tolist(),
            'construction': 'reference sky := ref.tanp_to_world(G(ref.world_to_tanp(c.det_to_world(pixels))) [+ noise])'}


def states(sc, cc):
    """(tp_affine before, (r, t) of _tp2tp for an explicit reference plane) of a gWCS image."""
    if sc['kind'] != 'gwcs':
        return None, None
    m0, t0 = W.affine_state(cc)
    R = None
    if sc['refkind'] != 'own':
        from tweakwcs.correctors import _tp2tp
        r, tt = _tp2tp(sc['ref'], cc)
        R = flat(np.asarray(r, dtype=float), np.asarray(tt, dtype=float))
    return flat(m0, t0), R


def fit_level(ck, cases, meta):
    from tweakwcs import fit_wcs
    rng = ck.rng
    for t in range(ck.n(150, 1000)):
        sc = scenario(rng, t, 'fit_wcs')
        if sc is None:
            ck.discard('could not draw a non-collinear positively weighted catalog')
            continue
        tq, g, ra, dec = reference_positions(rng, sc)
        im, rf = W.tables(sc['x'], sc['y'], ra, dec, sc['wim'], sc['wref'], foreign=(t % 4 == 1))
        ck.count('tables_with_foreign_columns', t % 4 == 1)
        cc = sc['c'].copy()
        A0, R = states(sc, cc)
        nclip = 0 if sc['stream'] == 'noisy' else rng.choice([0, 3])
        try:
            out = fit_wcs(rf, im, cc, ref_tpwcs=None if sc['refkind'] == 'own' else sc['ref'], fitgeom=sc['geom'],
                          nclip=nclip)
        except Exception as e:   # noqa
            rp = replay(sc, 'fit_wcs')
            rp.update(kind='fit_wcs-raised', error=repr(e))
            ck.violation(rp)
            continue
        A1 = flat(*W.affine_state(out)) if sc['kind'] == 'gwcs' else None
        fm = np.asarray(out.meta.get('fit_info', {}).get('fitmask', np.zeros(0, dtype=bool)), dtype=bool)
        evaluate(ck, sc, out, ra, dec, tq, g, cases, meta, A0, A1, R, 'fit_wcs(nclip=%d)' % nclip,
                 np.nonzero(fm)[0], nclip=nclip)
        # the corrected WCS re-wrapped in a fresh corrector gives the same sky positions
        if t % 5 == 0 and out.meta.get('fit_info', {}).get('status') == 'SUCCESS':
            rw = W.rewrap(out)
            d = W.sep_arcsec(*rw.det_to_world(sc['x'], sc['y']), *out.det_to_world(sc['x'], sc['y'])).max()
            ck.search_evaluations += 1
            if d > 1e-9:
                rp = replay(sc, 'fit_wcs')
                rp.update(kind='re-wrapped-corrected-WCS-differs', arcsec=float(d))
                ck.violation(rp)


def manual_scenario(par, geom, M, s, x, y, wim, wref, stream='exact'):
    c = W.build(par)
    unit = W.unit_of(c, par)
    pu = plane_unit_arcsec(par)
    wmode = {(False, False): 'none', (True, False): 'image', (False, True): 'reference', (True, True): 'both'}[
        (wim is not None, wref is not None)]
    return dict(kind=par['kind'], geom=geom, wmode=wmode, stream=stream, par=par, c=c, steps=[], nh=0, refkind='own',
                ref=c, rpar=par, rdesc='own plane (ref_tpwcs=None)', pu=pu, impx=pu * unit, unit=unit,
                M=np.array(M, dtype=float), s=np.array(s, dtype=float), n=len(x), x=np.array(x, dtype=float),
                y=np.array(y, dtype=float), wim=None if wim is None else np.array(wim, dtype=float),
                wref=None if wref is None else np.array(wref, dtype=float))


def default_nclip_level(ck, cases, meta):
    """fit_wcs with its DEFAULT clipping (nclip=3, sigma=3 rmse) on small, unequally weighted, noise-free catalogs:
    the corpus inputs of finding K3 first, then random ones of the same class."""
    from tweakwcs import fit_wcs
    rng = ck.rng
    todo = [manual_scenario(e['par'], e['geom'], e['M'], e['s'], e['x'], e['y'], None, e['wref']) for e in CORPUS_K3]
    for t in range(ck.n(30, 250)):
        kind = ['fits', 'gwcs'][t % 2]
        par = W.fits_params(rng) if kind == 'fits' else W.gwcs_params(rng)
        geom = ['rshift', 'rscale'][(t // 2) % 2]
        unit = 1.0 if kind == 'fits' else par['cd'] * W.ARCSEC
        M, s = W.affine(rng, geom, unit, big=False, flip_ok=False)
        n = rng.choice([3, 4, 5])
        x, y = W.grid_pixels(rng, n, W.shape_of(par))
        if W.spread_min(x, y) < MIN_SPREAD:
            ck.discard('thin small catalog (rms extent across the thinnest direction < 24 px)')
            continue
        wv = [rng.choice([0.25, 0.5, 1.0, 2.0, 3.0]) for _ in range(n)]
        todo.append(manual_scenario(par, geom, M, s, x, y, wv if t % 4 == 1 else None, wv if t % 4 != 1 else None))
    for k, sc in enumerate(todo):
        tq, g, ra, dec = reference_positions(rng, sc)
        im, rf = W.tables(sc['x'], sc['y'], ra, dec, sc['wim'], sc['wref'])
        cc = sc['c'].copy()
        A0, R = states(sc, cc)
        try:
            out = fit_wcs(rf, im, cc, fitgeom=sc['geom'])
        except Exception as e:   # noqa
            rp = replay(sc, 'fit_wcs')
            rp.update(kind='fit_wcs-raised', error=repr(e))
            ck.violation(rp)
            continue
        A1 = flat(*W.affine_state(out)) if sc['kind'] == 'gwcs' else None
        fm = np.asarray(out.meta.get('fit_info', {}).get('fitmask', np.zeros(0, dtype=bool)), dtype=bool)
        evaluate(ck, sc, out, ra, dec, tq, g, cases, meta, A0, A1, R,
                 'fit_wcs(default nclip=3)%s' % (' [corpus K3]' if k < len(CORPUS_K3) else ''), np.nonzero(fm)[0],
                 nclip=3)


def align_level(ck, cases, meta):
    """align_wcs with a scripted ground-truth matcher returning shuffled index pairs; the reference catalog is
    shuffled and contains decoys far from every image source."""
    from astropy.table import Table
    from tweakwcs import align_wcs
    rng = ck.rng
    for t in range(ck.n(40, 250)):
        sc = scenario(rng, t, 'align_wcs')
        if sc is None:
            ck.discard('could not draw a non-collinear positively weighted catalog')
            continue
        tq, g, ra, dec = reference_positions(rng, sc)
        n = sc['n']
        # decoys: reference sources 40..60 image pixels away from catalog sources' cells (outside matching radius)
        nd = rng.choice([0, 2, 5])
        dx, dy = W.grid_pixels(rng, min(nd, 8), W.shape_of(sc['par']), cell=128, jitter=2)
        keep = [k for k in range(len(dx)) if np.hypot(sc['x'] - dx[k], sc['y'] - dy[k]).min() > 40.0]
        dra, ddec = sc['c'].det_to_world(dx[keep], dy[keep]) if keep else (np.zeros(0), np.zeros(0))
        perm = list(range(n + len(keep)))
        rng.shuffle(perm)
        allra = np.concatenate([ra, np.atleast_1d(dra)])[perm]
        alldec = np.concatenate([dec, np.atleast_1d(ddec)])[perm]
        cols, names = [allra, alldec], ['RA', 'DEC']
        if sc['wref'] is not None:
            cols.append(np.concatenate([sc['wref'], np.ones(len(keep))])[perm])
            names.append('weight')
        refcat = Table(cols, names=names)
        cat = Table([sc['x'], sc['y']], names=('x', 'y'))
        if sc['wim'] is not None:
            cat['weight'] = sc['wim']
        if t % 4 == 2:
            # stale sky positions from an earlier WCS solution: extra columns, not data of the alignment
            cat['RA'] = np.full(len(sc['x']), 10.0) + np.arange(len(sc['x'])) * 1e-3
            cat['DEC'] = np.full(len(sc['x']), -5.0)
        cc = sc['c'].copy()
        cc.meta['catalog'] = cat
        cc.meta['name'] = 'im'
        A0, R = states(sc, cc)
        radius = 14.0 * sc['unit']
        try:
            align_wcs([cc], refcat=refcat, ref_tpwcs=None if sc['refkind'] == 'own' else sc['ref'], fitgeom=sc['geom'],
                      nclip=0, minobj=None, match=A.oracle_matcher(radius, seed=t), expand_refcat=False)
        except Exception as e:   # noqa
            rp = replay(sc, 'align_wcs')
            rp.update(kind='align_wcs-raised', error=repr(e))
            ck.violation(rp)
            continue
        fi = cc.meta.get('fit_info', {})
        if fi.get('status') == 'SUCCESS':
            mi = np.asarray(fi['matched_input_idx'])
            if sorted(mi.tolist()) != list(range(n)):
                ck.discard('scripted matcher did not return every true pair')
                continue
            idx = mi[np.asarray(fi['fitmask'], dtype=bool)]
        else:
            idx = np.zeros(0, dtype=int)
        A1 = flat(*W.affine_state(cc)) if sc['kind'] == 'gwcs' else None
        evaluate(ck, sc, cc, ra, dec, tq, g, cases, meta, A0, A1, R, 'align_wcs(scripted matcher)', idx)


def run(ck):
    implementation()
    ck.props()
    ck.rule = ('one image per case: FITS WCS (CD or PC, SIP on/off, 10 pointings incl. RA 0/360 and |dec| up to 89, any '
               'rotation, 1e-6..1e-4 deg/px) or mock JWST gWCS (6 v2/v3/roll sets, 4 pixel scales, with/without '
               'v2v3vacorr); 0/1/2 earlier alignments (set_correction own plane / through a plane / a previous '
               'fit_wcs; randomly re-wrapped in a fresh corrector); true error G = dyadic / Pythagorean member of '
               'the family of fitgeom (incl. reflections) acting in the reference plane (own plane, a copy, a '
               'rotated/scaled FITS plane or a gWCS plane with the same tangent point); catalogs of minobj..16 '
               'sources (>= 3: rms extent >= 24 px across the thinnest direction); weights none/image/reference/both with zeros; reference sky positions := '
               'ref.tanp_to_world(G(current positions) [+ dyadic noise of <= 0.25 px]); run through fit_wcs '
               '(nclip 0/3) and align_wcs (scripted shuffled matcher, shuffled reference catalog with decoys). '
               'Non-trivial: G is not the identity; distinct by content.')
    ck.notes += ['gWCS tolerance: 1e-7 arcsec as in the property text for |M - I|_2 <= 0.1; for larger corrections '
                 '(rotations of tens of degrees, stream exact-large) it is 1e-6 * |M - I|_2 arcsec: the plane-to-plane '
                 'matrix r of _tp2tp is a finite difference over one pixel (relative accuracy ~1e-9) and r.M.r^-1 '
                 'inherits 1e-10 arcsec * |M - I| * (field radius in px) of rounding noise (measured: 1.06e-7 arcsec at '
                 'a 60 degree rotation)',
                 'FITS tolerance: 4 * D * (rho)^2 * scale^2 px (D = largest displacement of a source or of CRPIX by the '
                 'correction in px, rho = catalog radius about CRPIX in px, scale in rad/px; measured constant <= 1.0) '
                 'plus 2e-6 arcsec, the rounding floor of the 5-point numerical differentiation in set_correction',
                 'reported rmse is compared (a) in Coq with the exact rms residual of the reported map on the true '
                 'pairs (relative 1e-6 + 1e-7 arcsec), (b) with the exact weighted rms of the residuals measured '
                 'through the returned WCS (gWCS: relative 1e-6 + sky tolerance; FITS: + reprojection bound)',
                 'noise-free data: reported (matrix, shift) = G within 1e-9 relative + 32 ulp(sky coordinates, in plane '
                 'units) / rms extent of the catalog across its thinnest direction (>= 24 px by construction for >= 3 '
                 'sources); two-source similarity fits do not determine the map (rotation vs reflection): only the '
                 'landing of the sources is checked there',
                 'finding K3 (see replays / notes/K3_proposed_known_finding.json): with nclip > 0 noise-free data can be '
                 'clipped down to two sources and the two-source similarity fit may return the mirror image; such '
                 'cases are classified (final fitmask has 2 of >= 3 positive sources, determinant sign flipped) and '
                 'reported under known_id K3',
                 'reference planes in this check share the image plane\'s tangent point; offset planes are C05',
                 'transforms of astropy.wcs / gwcs are trusted to be mutually inverse (exercised numerically here)']
    ck.trusted += ['astropy.wcs (wcslib) and gwcs/astropy.modeling evaluation of the external transforms; the mock '
                   'JWST pipeline of tweakwcs/tests/helper_correctors.py']
    cases, meta = [], []
    default_nclip_level(ck, cases, meta)
    fit_level(ck, cases, meta)
    align_level(ck, cases, meta)
    for rp in meta[:3]:
        ck.sample({k: rp[k] for k in ('entry', 'corrector', 'earlier_alignments', 'fitgeom', 'weights_in',
                                     'reference_plane', 'true_error(matrix, shift; reference-plane units)',
                                     'stream', 'reported')})
    imports = ['GJModel', 'LSQ', 'LinearFit', 'AlignFit', 'C06Corr', 'C01Corr']
    bad = ck.coq_agree('align_fit', imports, 'case01', 'agree01', cases, show=None, shard=ck.n(12, 60))
    ck.last_shown = W.show_cases(ck, 'align_fit', imports, 'show01', cases, bad)
    for i in bad:
        rp = dict(meta[i])
        if rp.get('finding') == 'K3':
            rp['kind'] = K3_KIND
            rp['model'] = ck.last_shown.get(i, 'n/a')
            ck.violation(rp, known_id='K6', corr=('align_fit', i))
            continue
        rp['kind'] = 'returned-WCS-or-reported-fit-disagrees-with-exact-model'
        rp['model (agree06, near_G, rmse_ok, sky_ok, gw_ok, exact fit, exact msr of reported map / of measured ' \
           'residuals, expected tp_affine)'] = ck.last_shown.get(i, 'n/a')
        rp['predicate'] = ('status SUCCESS; reported (matrix, shift) = exact optimum of the true pairs (= G when '
                           'noise-free, 1e-9); every catalog pixel within the stated sky tolerance of its reference; '
                           'fit_RA/DEC = corrected.det_to_world; reported rmse = rms residual through the corrected WCS')
        ck.violation(rp)
