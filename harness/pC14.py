"""C14 - images aligned together agree on the sky; the reference catalog grows soundly."""
import itertools

import numpy as np

import align1314 as A
from pC13 import summary

TOL_ARCSEC = 1.0e-6      # noise-free agreement tolerance (measured maximum is about 5e-8 arcsec, see evidence)


def far_sid(s):
    return abs(s) >= 5000


def mosaic_specs(ck, rng):
    specs = []
    nbase = ck.n(70, 700)
    for t in range(nbase):
        n = 2 + t % 5
        kinds = ['good'] * n
        nfail = [0, 1, 1, 1, 2][t % 5] if n > 2 else t % 2
        fails = rng.sample(range(n), min(nfail, n - 1)) if t % 3 else [(t // 3) % n][:nfail]
        for j in fails:
            kinds[j] = 'junk'
        gids = [None] * n
        if n >= 3 and t % 4 == 0:
            a, c = rng.sample(range(n), 2)
            gids[a] = gids[c] = 1
        refmode = ['none', 'table', 'table', 'corr'][(t // 5) % 4]
        base = A.mk_spec(rng, kinds, gids, refmode, True, True, far_prob=0.2,
                         minobj=rng.choice([None, 10, 14]), fitgeom=rng.choice(['rscale', 'general', 'rshift']))
        base['ref']['ids'] = ['none', 'seq', 'custom'][t % 3]
        # sparse good image that fails only through minobj
        if t % 7 == 3 and base['minobj'] is not None:
            k = rng.randrange(n)
            base['images'][k]['kind'] = 'good'
            base['images'][k]['core_only'] = True
            base['images'][k]['nrows'] = base['minobj'] - 1
        if t % 9 == 4:    # a failing image whose FIT raises (coincident matched pairs) instead of too few matches
            k = fails[0] if fails else rng.randrange(n)
            if base['images'][k]['gid'] is None:
                base['images'][k]['kind'] = 'coin'
                base['images'][k]['ncopies'] = 4
                base['images'][k].pop('core_only', None)
                base['images'][k].pop('nrows', None)
                if base['fitgeom'] in ('shift', 'rshift') or (base['minobj'] or 0) > 4:
                    base['fitgeom'], base['minobj'] = 'rscale', None
        A.sanitize_coin(base)
        if ck.thorough and n <= 4 and (t // 5) % 2 == 0:
            perms = list(itertools.permutations(range(n)))
        else:
            perms = [tuple(range(n))] + [tuple(rng.sample(range(n), n)) for _ in range(ck.n(1, 2))]
        for perm in perms:
            for expand, enforce in ((True, True), (True, False), (False, True), (False, False)):
                if not expand and perm != perms[0]:
                    continue
                s = dict(base)
                s['images'] = [dict(base['images'][p]) for p in perm]
                s['ref'] = dict(base['ref'])
                s['expand'], s['enforce'] = expand, enforce
                A.sanitize_coin(s)
                s['tag'] = 'mosaic'
                specs.append(s)
    return specs


def corpus(rng):
    out = []
    g, j = 'good', 'junk'
    for pos in (1, 2, 3):          # e6: junk image at position pos of 4, expand, both orders
        for enforce in (True, False):
            k = [g] * 4
            k[pos] = j
            s = A.mk_spec(rng, k, [None] * 4, 'none', True, enforce, far_prob=0.0, minobj=12, fitgeom='rscale')
            s['tag'] = 'corpus'
            out.append(s)
    for refmode in ('table', 'corr'):   # failing image handed out by _max_overlap_image first
        for k in ([j], [j, g], [g, j, g]):
            s = A.mk_spec(rng, k, [None] * len(k), refmode, True, True, far_prob=0.0, ref_field='near', minobj=12,
                          fitgeom='rscale')
            s['tag'] = 'corpus'
            out.append(s)
    return out


def predicates(spec, o):
    bad = []
    if o['exc']:
        return bad
    mode = spec['ref']['mode']
    sids, ids, names, nfirst = o['cat_sids'], o['cat_ids'], o['cat_names'], o['nfirst']
    if not o['orig_rows_unchanged']:
        bad.append('original reference rows (RA, DEC, id) changed or reordered, or the caller\'s table was modified')
    if mode != 'none' and sids[:nfirst] != o['ref_rows']:
        bad.append('original reference rows are not the prefix of the returned catalog')
    if mode != 'none' and ids[:nfirst] != o['ref_ids']:
        bad.append('ids of the original reference rows changed')
    if not spec['expand'] and len(sids) != nfirst:
        bad.append('catalog extended without expand_refcat')
    if len(sids) > nfirst:
        base = max(ids[:nfirst])
        if ids[nfirst:] != list(range(base + 1, base + 1 + len(sids) - nfirst)):
            bad.append('appended ids are not consecutive above the previous maximum: %s' % ids[nfirst:nfirst + 6])
    if len(set(ids[:nfirst])) == nfirst and len(set(ids)) != len(ids):
        bad.append('duplicate ids')
    if o.get('appended_bad_source'):
        bad.append('appended row that does not come from an input image')
    if o.get('appended_pos_err_arcsec', 0.0) > 1e-9:
        bad.append('appended rows are not at the corrected sky position of their image (%.3g arcsec)'
                   % o['appended_pos_err_arcsec'])
    keys, groups = A.group_keys(spec)
    gof = {}
    for g in groups:
        for i in g:
            gof['im%d' % i] = g
    seen_pairs = {}
    once = {}
    block_start = {}
    for r in range(nfirst, len(sids)):
        nm = names[r]
        if nm not in gof:
            continue
        g = tuple(gof[nm])
        block_start.setdefault(g, r)
        k = int(nm[2:])
        seen_pairs[(nm, sids[r])] = seen_pairs.get((nm, sids[r]), 0) + 1
        if seen_pairs[(nm, sids[r])] > o['rows'][k].count(sids[r]):
            once.setdefault('twice', 'row of %s appended more often than it occurs in its catalog (source %d)'
                            % (nm, sids[r]))
        if sids[r] in sids[:block_start[g]]:
            once.setdefault('matched', 'appended a source that was already in the reference catalog (first: source %d '
                                       'from %s)' % (sids[r], nm))
        if o['st'][k] != 2:
            before_fields = set(far_sid(s) for s in sids[:block_start[g]])
            if o['st'][k] not in (4, 5) or spec['images'][k]['far'] in before_fields:
                once.setdefault('failed', 'rows appended from %s, status %r, which overlaps the reference'
                                % (nm, o['status'][k]))
    return bad + list(once.values())


def real_specs(ck, rng):
    out = []
    for t in range(ck.n(36, 400)):
        n = 2 + t % 5
        kinds = ['good'] * n
        s = A.mk_spec(rng, kinds, [None] * n, ['none', 'table'][t % 2], (t // 2) % 2 == 0, (t // 4) % 2 == 0,
                      far_prob=0.0, ref_field='near', minobj=None, fitgeom=['rscale', 'general'][(t // 8) % 2])
        for im in s['images']:
            im['keep'] = 0.9
        s['ref']['keep'] = 0.9
        s['nclip'] = 3
        if t % 6 == 5 and n >= 3:   # one image that cannot be matched, at a varying position
            s['images'][(t // 6) % n]['kind'] = 'junk'
            s['minobj'] = 12
        s['tag'] = 'real-matcher'
        # every third mosaic is aligned in ONE user-supplied common tangent plane (ref_tpwcs) for all images
        s['common_tp'] = (t % 3 == 1)
        # every fourth mosaic with a reference table is aligned twice: relative pass, then absolute pass
        s['two_pass'] = (t % 4 == 3 and s['ref']['mode'] == 'table' and all(im['kind'] == 'good' for im in s['images']))
        if s['common_tp']:
            # sparse reference: most rows of the final catalog are rows APPENDED from earlier images, so later images
            # are matched against appended rows (their positions must be the corrected ones)
            s['ref']['keep'] = 0.25
            s['images'][0]['keep'] = 0.5
        out.append(s)
    return out


def run_real(spec):
    """second stream: real XYXYMatch, noise-free mosaics; returns measured sky disagreement (arcsec)."""
    try:
        T = A._tw()
        from tweakwcs import XYXYMatch
        B = A.build(spec)
        m = XYXYMatch(searchrad=8.0, separation=0.5, tolerance=1.5, use2dhist=True)
        reftp = None
        if spec.get('common_tp'):
            reftp = T['FITSWCSCorrector'](A.mkwcs((A.NEAR[0] + 2e-4, A.NEAR[1] - 1e-4), 33.0))
        if spec.get('two_pass'):
            # a relative pass first (no reference catalog), then the absolute pass on the SAME, already corrected,
            # corrector objects
            T['align_wcs'](B['cors'], refcat=None, ref_tpwcs=reftp, expand_refcat=True, enforce_user_order=spec['enforce'],
                           fitgeom=spec['fitgeom'], minobj=spec['minobj'], match=m)
        out = T['align_wcs'](B['cors'], refcat=B['refcat'], ref_tpwcs=reftp, expand_refcat=spec['expand'],
                             enforce_user_order=spec['enforce'], fitgeom=spec['fitgeom'], minobj=spec['minobj'],
                             match=m)
        st = [c.meta['fit_info']['status'] for c in B['cors']]
        pos = {}
        for i, c in enumerate(B['cors']):
            if st[i] in ('SUCCESS', 'REFERENCE') and spec['images'][i]['kind'] == 'good':
                cat = c.meta['catalog']
                ra, de = c.det_to_world(np.asarray(cat['x']), np.asarray(cat['y']))
                for sid, r, d in zip(B['rows'][i], ra, de):
                    pos.setdefault(sid, []).append((float(r), float(d), i))
        cosd = np.cos(np.deg2rad(12.0))
        worst, worst_ref, npairs = 0.0, 0.0, 0
        for sid, l in pos.items():
            for a in range(len(l)):
                for c in range(a + 1, len(l)):
                    npairs += 1
                    worst = max(worst, float(np.hypot((l[a][0] - l[c][0]) * cosd, l[a][1] - l[c][1]) * 3600))
        if spec['ref']['mode'] == 'table':
            t0 = B['ref_extra']['table0']
            for sid, r, d in zip(B['ref_rows'], np.asarray(t0['RA']), np.asarray(t0['DEC'])):
                for a in pos.get(sid, []):
                    worst_ref = max(worst_ref, float(np.hypot((a[0] - r) * cosd, a[1] - d) * 3600))
        # returned catalog vs the aligned images (rows appended at corrected positions)
        worst_cat = 0.0
        if 'cat_name' in out.colnames:
            for r in range(len(out)):
                nm = out['cat_name'][r]
                if np.ma.is_masked(nm) or np.ma.is_masked(out['x'][r]):
                    continue
                c = B['cors'][int(str(nm)[2:])]
                if c.meta['fit_info']['status'] == 'FAILED: not enough matches':
                    continue
                ra, de = c.det_to_world(float(out['x'][r]), float(out['y'][r]))
                worst_cat = max(worst_cat, float(np.hypot((float(ra) - float(out['RA'][r])) * cosd,
                                                          float(de) - float(out['DEC'][r])) * 3600))
        return dict(status=st, worst=worst, worst_ref=worst_ref, worst_cat=worst_cat, npairs=npairs,
                    nmatches=[c.meta['fit_info'].get('nmatches') for c in B['cors']], cat_len=len(out))
    except Exception:
        import traceback
        return {'harness_error': traceback.format_exc()[-1500:]}


def run(ck):
    A._tw()
    ck.props()
    rng = ck.rng
    ck.rule = ('stream 1 (scripted matcher, compared with the Coq model): mosaics of 2..6 overlapping FITS-WCS images '
               'with per-image shift/rotation/scale errors, 0..2 images that fail to align (junk catalog, or too few '
               'rows for minobj) at every position, optional far-field images (zero overlap) and a 2-member group, '
               'refcat none / table without id / with sequential / with arbitrary ids / corrector, every input in '
               'several orders (thorough: all permutations for n<=4 of every fifth mosaic), expand x enforce; corpus '
               'e6. stream 2 (real XYXYMatch, measured): noise-free mosaics of 2..6 images. A stream-1 case is '
               'non-trivial when it returns normally with expand_refcat and (rows were appended or an image FAILED); '
               'distinct by full scenario content.')
    ck.notes += ['numerical half (common sources agree on the sky) is MEASURED on the second stream with the real '
                 'XYXYMatch on noise-free synthetic mosaics; tolerance %.1e arcsec chosen from the measured maximum '
                 '(about 5e-8 arcsec; TAN re-projection between tangent points is second order), not proved' % TOL_ARCSEC,
                 'model rows are source identities; the scripted matcher pairs rows of the same identity; within one '
                 'group a source seen by two members is two rows (both are appended when unmatched)',
                 'overlap area 0 <=> different sky field is a construction of the generator (see harness/align1314.py)',
                 'alignment order under enforce_user_order=False is taken from the implementation (C15), see C13']
    specs = corpus(rng) + mosaic_specs(ck, rng)
    rspecs = real_specs(ck, rng)
    if ck.replay_in:      # ./check C14 --replay <file>: re-run exactly the scenario stored in the replay
        import json
        rp = json.load(open(ck.replay_in))
        if 'spec' in rp:
            rs = rp['spec']
            if rp.get('kind') == 'sky-disagreement':
                specs, rspecs = [], [rs]
            else:
                specs, rspecs = [rs], []
    nproc = A.nproc_default(ck.thorough)
    obs = A.run_many(specs, nproc)
    cases, keep = [], []
    for s, o in zip(specs, obs):
        if 'harness_error' in o:
            ck.violation({'kind': 'harness-error', 'scenario': summary(s), 'traceback': o['harness_error']}, no_input=True)
            continue
        ck.count('stream', s.get('tag', '?'))
        ck.count('n_inputs', len(s['images']))
        ck.count('refcat', '%s/%s' % (s['ref']['mode'], s['ref'].get('ids') if s['ref']['mode'] != 'none' else '-'))
        ck.count('expand/enforce', '%s/%s' % (s['expand'], s['enforce']))
        appended = (o.get('cat_len') or 0) - (o.get('nfirst') or 0)
        ck.count('appended_rows', 'exc' if o['exc'] else ('0' if appended == 0 else '1-9' if appended < 10 else '10+'))
        nontriv = (not o['exc']) and s['expand'] and (appended > 0 or any(v in (4, 5) for v in o['st']))
        if not o['exc']:
            from_failed = sorted(set(nm for nm in o['cat_names'][o['nfirst']:] if nm.startswith('im') and
                                     o['st'][int(nm[2:])] != 2))
            ck.count('rows_appended_from_FAILED_image_with_zero_overlap', 'yes' if from_failed else 'no')
            ck.count('failed_images_per_scenario', sum(1 for v in o['st'] if v in (4, 5)))
        ck.case(A.spec_key(s), nontriv)
        if len(ck.samples) < 3 and nontriv and appended:
            ck.sample({'scenario': summary(s), 'status': o['status'], 'order': o['order'],
                       'returned_rows(source ids)': o['cat_sids'], 'returned_ids': o['cat_ids'],
                       'rows_before_expansion': o['nfirst']})
        ck.search_evaluations += 1
        for msg in dict.fromkeys(predicates(s, o)):
            ck.violation({'kind': 'property-predicate-failed', 'what': msg, 'scenario': summary(s), 'spec': s,
                          'observed': {k: o.get(k) for k in ('exc_text', 'status', 'order', 'cat_sids', 'cat_ids',
                                                              'cat_names', 'nfirst', 'appended_pos_err_arcsec')},
                          'predicate': 'C14 text evaluated on the implementation (harness/pC14.py predicates())'})
        cases.append(A.coq_case14(s, o))
        keep.append((s, o))
    bad = ck.coq_agree('scripted', ['AlignModel', 'AlignWorld', 'C14Corr'], 'case14', 'agree14', cases, show='show14')
    shown = dict(ck.last_shown)
    for i in bad:
        s, o = keep[i]
        ck.violation({'kind': 'implementation-disagrees-with-model', 'scenario': summary(s), 'spec': s,
                      'observed': {'exception': o['exc_text'], 'status': o['status'], 'order': o['order'],
                                   'returned_rows(source ids)': o.get('cat_sids'), 'returned_ids': o.get('cat_ids'),
                                   'row_origin': o.get('cat_names')},
                      'model (exc, rows, ids, blocks, order)': shown.get(i, 'n/a'),
                      'predicate': 'agree14 of coq/Corr/C14Corr.v'})

    # ---- stream 2: real matcher, measured sky agreement
    if nproc > 1 and len(rspecs) >= 8:
        import multiprocessing as mp
        with mp.get_context('fork').Pool(nproc) as pool:
            robs = pool.map(run_real, rspecs, chunksize=2)
    else:
        robs = [run_real(s) for s in rspecs]
    wmax = wrefmax = wcatmax = 0.0
    npairs = 0
    for s, o in zip(rspecs, robs):
        if 'harness_error' in o:
            ck.violation({'kind': 'harness-error', 'scenario': summary(s), 'traceback': o['harness_error']}, no_input=True)
            continue
        ck.search_evaluations += 1
        ck.count('stream', s['tag'])
        ck.case(A.spec_key(s), o['npairs'] > 0)
        wmax, wrefmax, wcatmax = max(wmax, o['worst']), max(wrefmax, o['worst_ref']), max(wcatmax, o['worst_cat'])
        npairs += o['npairs']
        rp = {'kind': 'sky-disagreement', 'scenario': summary(s), 'spec': s, 'observed': o,
              'predicate': 'common sources of aligned images agree to %.1e arcsec (real XYXYMatch, noise-free)' % TOL_ARCSEC}
        good_failed = [i for i, im in enumerate(s['images']) if im['kind'] == 'good' and
                       o['status'][i] not in ('SUCCESS', 'REFERENCE')]
        if good_failed:
            rp['what'] = 'noise-free overlapping image(s) %s not aligned' % good_failed
            ck.violation(rp)
        elif o['worst'] > TOL_ARCSEC or o['worst_ref'] > TOL_ARCSEC or o['worst_cat'] > TOL_ARCSEC:
            rp['what'] = 'sky positions disagree'
            ck.violation(rp)
    ck.extra['measured_max_pair_disagreement_arcsec'] = wmax
    ck.extra['measured_max_disagreement_with_reference_arcsec'] = wrefmax
    ck.extra['measured_max_catalog_row_vs_image_arcsec'] = wcatmax
    ck.extra['source_pairs_compared'] = npairs
    ck.extra['tolerance_arcsec'] = TOL_ARCSEC
    ck.trusted += ['scenario engine harness/align1314.py (scripted matcher, two-field construction of zero overlap); '
                   'stream 2 trusts astropy.wcs for the synthetic truth']
