"""C03 - detector, tangent-plane and world transforms of a corrector are coherent."""
import numpy as np

import gen_wcs as G
from common import q, lst, implementation

SHAPES = [(), (1,), (7,), (3, 4), (2, 3, 2), (0,)]
NAMES = ['det_to_world', 'world_to_det', 'det_to_tanp', 'tanp_to_det', 'world_to_tanp', 'tanp_to_world']


def qpts(xs, ys):
    return lst(['(%s, %s)' % (q(float(x)), q(float(y))) for x, y in zip(np.ravel(xs), np.ravel(ys))])


def track(ck, what, err, tol):
    m = ck.extra.setdefault('max_error_over_tolerance', {})
    r = err / tol
    if r >= m.get(what, -1.0):
        m[what] = r
    a = ck.extra.setdefault('max_error', {})
    a[what] = max(a.get(what, 0.0), err)


def pixels(rng, g, shape):
    nx, ny = g['shape']
    if shape == ():
        return float(G.dyr(rng, 0, nx - 1, 3)), float(G.dyr(rng, 0, ny - 1, 3))
    n = int(np.prod(shape))
    x = np.array([G.dyr(rng, 0, nx - 1, 3) for _ in range(n)], dtype=float).reshape(shape)
    y = np.array([G.dyr(rng, 0, ny - 1, 3) for _ in range(n)], dtype=float).reshape(shape)
    return x, y


def dist(a, b):
    return float(np.max(np.hypot(np.subtract(a[0], b[0]), np.subtract(a[1], b[1]))))


def classify_k4(c, x, y, w, nanmask, tol_px):
    """K4 input class: exactly the inputs gwcs.WCS.outside_footprint blanks, and the unguarded inverse is right there."""
    try:
        ra, dec = np.atleast_1d(np.asarray(w[0], dtype=float)).ravel(), np.atleast_1d(np.asarray(w[1], dtype=float)).ravel()
        blank = c.wcs.outside_footprint([ra.copy(), dec.copy()])
        bmask = np.isnan(np.asarray(blank[0], dtype=float)) | np.isnan(np.asarray(blank[1], dtype=float))
        if not np.array_equal(bmask, np.ravel(nanmask)):
            return False
        xb, yb = c.wcs.invert(ra, dec, with_bounding_box=False)
        return bool(np.max(np.hypot(xb - np.ravel(x), yb - np.ravel(y))) <= tol_px)
    except Exception:       # noqa
        return False


def check_state(ck, rng, g, c, state, hist):
    """all six conversions on every shape: shapes, round trips, commuting triangles."""
    ps = G.pix_scale_arcsec(g)
    U = G.tan_scale_arcsec(g)
    delta = G.DW / ps
    tol_px = 1e-6 + 8 * delta          # all_world2pix iterates to 1e-6 px; analytic paths are at the quantum level
    tol_sky = 1e-7 + 8 * G.DW
    for shape in SHAPES:
        x, y = pixels(rng, g, shape)
        ck.search_evaluations += 1
        ck.count('shape', str(shape))
        ck.count('state', state)
        ck.case(('conv', g, hist, shape, np.ravel(x).tolist(), np.ravel(y).tolist()), shape != (0,))
        ctx = {'geometry': g, 'history (applied in order to a fresh corrector)': hist, 'state': state, 'input_shape': list(shape),
               'x': np.ravel(x).tolist(), 'y': np.ravel(y).tolist()}
        try:
            w = c.det_to_world(x, y)
            tp = c.det_to_tanp(x, y)
            back = c.world_to_det(*w)
            tback = c.tanp_to_det(*tp)
            w2 = c.tanp_to_world(*tp)
            tp2 = c.world_to_tanp(*w)
            w3 = c.tanp_to_world(*tp2)
            tp3 = c.world_to_tanp(*w2)
            wd = c.det_to_world(*tback)
        except Exception as e:      # noqa
            ck.violation(dict(ctx, kind='C03-conversion-raised', error='%s: %s' % (type(e).__name__, str(e)[:300])))
            continue
        outs = dict(zip(NAMES, [w, back, tp, tback, tp2, w2]))
        for nm, o in outs.items():
            if len(o) != 2 or np.shape(o[0]) != tuple(shape) or np.shape(o[1]) != tuple(shape):
                ck.violation(dict(ctx, kind='C03-output-shape-differs-from-input-shape', function=nm,
                                  output_shapes=[list(np.shape(v)) for v in o]))
        if int(np.prod(shape)) == 0:
            continue
        # known finding K4: gwcs blanks in-image sky positions outside the RA/Dec range of the bounding-box corners
        nanmask = np.isnan(np.asarray(back[0], dtype=float)) | np.isnan(np.asarray(back[1], dtype=float))
        if g['kind'] == 'gwcs' and np.any(nanmask):
            k3 = classify_k4(c, x, y, w, nanmask, tol_px)
            rp = dict(ctx, kind='C03-world_to_det-returns-nan-inside-the-image', pixels_with_nan=[
                [float(a), float(bb)] for a, bb in zip(np.ravel(x)[np.ravel(nanmask)], np.ravel(y)[np.ravel(nanmask)])],
                predicate='world_to_det(det_to_world(p)) = p for every p inside the bounding box',
                classified_as_K4=k3)
            ck.count('K4_nan_round_trips', int(np.sum(nanmask)))
            if k3:
                ck.violation(rp, known_id='K4')
                good = ~nanmask
                if not np.any(good):
                    back = (np.asarray(x, dtype=float), np.asarray(y, dtype=float))
                else:
                    back = (np.where(good, back[0], x), np.where(good, back[1], y))
            else:
                ck.violation(rp)
                continue
        errs = [
            ('world_to_det(det_to_world(p)) = p  [px]', dist(back, (x, y)), tol_px),
            ('tanp_to_det(det_to_tanp(p)) = p  [px]', dist(tback, (x, y)), tol_px),
            ('tanp_to_world(det_to_tanp(p)) = det_to_world(p)  [arcsec]', float(np.max(G.sky_sep_arcsec(w2[0], w2[1], w[0], w[1]))), tol_sky),
            ('world_to_tanp(det_to_world(p)) = det_to_tanp(p)  [px]', dist(tp2, tp) * U / ps, tol_px),
            ('tanp_to_world(world_to_tanp(w)) = w  [arcsec]', float(np.max(G.sky_sep_arcsec(w3[0], w3[1], w[0], w[1]))), tol_sky),
            ('world_to_tanp(tanp_to_world(t)) = t  [px]', dist(tp3, tp) * U / ps, tol_px),
            ('det_to_world(tanp_to_det(t)) = tanp_to_world(t)  [arcsec]', float(np.max(G.sky_sep_arcsec(wd[0], wd[1], w2[0], w2[1]))),
             tol_sky + tol_px * ps),
        ]
        for name, err, tol in errs:
            track(ck, '%s %s' % (g['kind'], name), err, tol)
            if not err <= tol:
                ck.violation(dict(ctx, kind='C03-conversions-not-coherent', identity=name, error=err, tolerance=tol))


def history_case(ck, I, rng, t, coq):
    kind = ['fits', 'gwcs'][t % 2]
    g = G.gen_fits_geom(rng, t // 2) if kind == 'fits' else G.gen_gwcs_geom(rng, t // 2)
    if kind == 'fits' and (t // 2) % 4 == 1:
        # look-up-table distortions (CPDIS only, DET2IM only, both), with or without SIP
        g = dict(g, lut=G.gen_lut(rng))
    ck.count('fits_lookup_table_distortion', (g.get('lut') or {}).get('which', 'none') if kind == 'fits' else 'gwcs')
    c = G.make_corrector(I, g)
    c_built = c.copy()
    unit = G.pix_scale_arcsec(g) / G.tan_scale_arcsec(g)
    hist, steps = [], []
    check_state(ck, rng, g, c, 'fresh', [])
    for j in range(rng.choice([1, 2, 3, 4, 6])):
        op = rng.choice(['set', 'set', 'set', 'setref', 'copy', 'rewrap'])
        if op == 'copy':
            c = c.copy()
            hist.append({'op': 'copy'})
            term, state = 'HCopy', 'copied'
        elif op == 'rewrap':
            c = G.rewrap(I, c, g)
            hist.append({'op': 'rewrap'})
            term, state = 'HRewrap', 'rebuilt from its corrected WCS'
        elif op == 'set':
            corr = G.gen_correction(rng, unit)
            c.set_correction(corr['M'], corr['s'])
            hist.append({'op': 'set', 'M': corr['M'], 's': corr['s']})
            term, state = 'HSet %s %s' % (G.qc_mat(corr['M']), G.qc_pt(corr['s'])), 'corrected'
        else:
            mode, gr, ref = G.gen_reference(I, rng, g, c_built, rng.randrange(5))
            corr = G.gen_correction(rng, G.pix_scale_arcsec(g) / G.tan_scale_arcsec(gr))
            old = c.copy()
            proxy = G.RecRef(ref)
            c.set_correction(corr['M'], corr['s'], ref_tpwcs=proxy)
            hist.append({'op': 'set', 'M': corr['M'], 's': corr['s'], 'ref': mode, 'ref_geometry': gr})
            state = 'corrected via reference plane'
            if kind == 'gwcs':
                probes = [cl for cl in proxy.calls if cl[0] == 't2w']
                px, py = probes[0][1]
                ix, iy = old.world_to_tanp(*probes[0][2])
                term = 'HSetRef %s %s %s %s %s' % (q(float(px[1] - px[0])), qpts(px, py), qpts(ix, iy),
                                                   G.qc_mat(corr['M']), G.qc_pt(corr['s']))
        check_state(ck, rng, g, c, state, list(hist))
        if kind == 'gwcs':
            tp = G.read_tpcorr(c)
            if tp is None:
                steps.append('{| o3_op := %s; o3_has := false; o3_m := (0,0,0,0); o3_t := (0,0); o3_im := (0,0,0,0); o3_it := (0,0) |}' % term)
            else:
                steps.append('{| o3_op := %s; o3_has := true; o3_m := %s; o3_t := %s; o3_im := %s; o3_it := %s |}'
                             % (term, G.qc_mat(tp['m']), G.qc_pt(tp['t']), G.qc_mat(tp['im']), G.qc_pt(tp['it'])))
    ck.count('kind', kind)
    ck.count('history_length', len(hist))
    ck.count('pointing', g['pointing'])
    if kind == 'gwcs':
        coq[0].append('{| c3_frames := %s; c3_info := (%s, %s, %s); c3_k := %s; c3_hist := %s |}'
                      % (G.coq_frames(list(c_built.wcs.available_frames)), q(g['v2ref']), q(g['v3ref']), q(g['roll']),
                         q(float(I['correctors']._ARCSEC2RAD)), lst(steps)))
        coq[1].append({'geometry': g, 'history': hist})
    return g, hist


def run(ck):
    implementation()
    I = G.imports()
    ck.props()
    ck.rule = ('FITS (TAN, CD/PC, SIP on/off, 1e-6..1e-4 deg/px) and mock JWST gWCS correctors in every state of a history of '
               '1..6 operations (set_correction own plane / via a reference plane, copy(), re-wrapping), starting with the fresh '
               'state; in each state the six conversions are evaluated on inputs of shape (), (1,), (7,), (3,4), (2,3,2), (0,) '
               'at random pixels: output shapes, the three round trips in both directions and the commuting triangles. One '
               'evaluation = one (state, shape); non-trivial = non-empty input; distinct by (geometry, history, shape, pixels). '
               'Exact part (Coq): tp_affine / tp_affine_inv read back after each step of the gWCS histories.')
    ck.notes += ['FITS world_to_det / tanp_to_det go through all_world2pix(tolerance=1e-6): round trips in pixels are compared '
                 'within 1e-6 px + 8 quanta (quantum = 360*2^-52 deg expressed in pixels); sky identities within 1e-7 arcsec + 8 quanta',
                 'shapes and numpy broadcasting are outside the model (measured)']
    rng = ck.rng
    coq = ([], [])
    for t in range(ck.n(36, 500)):
        g, hist = history_case(ck, I, rng, t, coq)
        if t < 2:
            ck.sample({'geometry': g, 'history': hist, 'shapes': [list(s) for s in SHAPES]})
    bad = ck.coq_agree('inverse', ['CorrModel', 'CorrObs', 'C03Corr'], 'case03', 'agree03', coq[0], show='show03', shard=3)
    for i in bad:
        ck.violation({'kind': 'gwcs-stored-inverse-affine-incoherent', 'case': coq[1][i],
                      'model (inverse matrix, inverse translation after each step)': ck.last_shown.get(i, 'n/a'),
                      'predicate': 'tp_affine_inv = (tp_affine)^-1 after every step (matrix and translation)'})
