"""C20 - tangent-plane pixel scale equals the local scale of the detector-to-plane map."""
import math

import numpy as np

import gen_wcs as G
from common import q, b, lst, implementation


def qpts(xs, ys):
    return lst(['(%s, %s)' % (q(float(x)), q(float(y))) for x, y in zip(np.ravel(xs), np.ravel(ys))])


def track(ck, what, err, tol):
    m = ck.extra.setdefault('max_error_over_tolerance', {})
    r = err / tol
    if r >= m.get(what, -1.0):
        m[what] = r
    a = ck.extra.setdefault('max_relative_error', {})
    a[what] = max(a.get(what, 0.0), err)


def recording(cls):
    """subclass that records what tanp_pixel_scale asks of det_to_tanp (defined in the harness; nothing is patched)."""
    class Rec(cls):
        def det_to_tanp(self, x, y):
            out = super().det_to_tanp(x, y)
            log = self.__dict__.setdefault('_c20_log', [])
            log.append((np.array(x, dtype=float), np.array(y, dtype=float),
                        np.array(out[0], dtype=float), np.array(out[1], dtype=float)))
            return out
    Rec.__name__ = 'Rec' + cls.__name__
    return Rec


def jacobian(c, x, y, h):
    """4th-order central differences of det_to_tanp."""
    def d(dx, dy):
        a = np.array(c.det_to_tanp(x + dx, y + dy), dtype=float)
        bb = np.array(c.det_to_tanp(x - dx, y - dy), dtype=float)
        return a - bb
    jx = (8 * d(h, 0) - d(2 * h, 0)) / (12 * h)
    jy = (8 * d(0, h) - d(0, 2 * h)) / (12 * h)
    return np.array([jx, jy]).T


def measure(c, x, y):
    c.__dict__['_c20_log'] = []
    ps = c.tanp_pixel_scale(x, y)
    log = c.__dict__['_c20_log']
    c.__dict__['_c20_log'] = []
    return ps, log


def sky_pixel_scale(c, x, y):
    """size of a pixel on the sky (arcsec), from great-circle separations of +-0.5 px displacements."""
    def vec(p):
        ra, dec = np.radians(p[0]), np.radians(p[1])
        return np.array([np.cos(dec) * np.cos(ra), np.cos(dec) * np.sin(ra), np.sin(dec)])
    a = vec(c.det_to_world(x + 0.5, y)) - vec(c.det_to_world(x - 0.5, y))
    bb = vec(c.det_to_world(x, y + 0.5)) - vec(c.det_to_world(x, y - 0.5))
    return math.sqrt(float(np.linalg.norm(np.cross(a, bb)))) * math.degrees(1.0) * 3600.0


def one_case(ck, I, rng, t, RecF, RecJ, coq):
    kind = ['fits', 'gwcs'][t % 2]
    if kind == 'fits':
        g = G.gen_fits_geom(rng, t // 2)
        c = RecF(G.build_fits_wcs(I, g))
    else:
        g = G.gen_gwcs_geom(rng, t // 2)
        if (t // 2) % 3 == 1:
            # distorted detector -> V2V3 map: the local scale varies over the detector (by a few percent)
            g = dict(g, distort=rng.choice([2.0 ** -14, -2.0 ** -14, 2.0 ** -15]))
        ck.count('gwcs_detector_distortion', g.get('distort', 0.0))
        c = RecJ(G.build_gwcs(I, g), G.gwcs_info(g))
    unit = G.pix_scale_arcsec(g) / G.tan_scale_arcsec(g)
    nx, ny = g['shape']
    hist = []
    ck.count('kind', kind + ('+sip' if g.get('sip') else ''))
    ck.count('pointing', g['pointing'])
    # declared units
    ck.search_evaluations += 1
    want = 'pixel' if kind == 'fits' else 'arcsec'
    if c.units != want:
        ck.violation({'kind': 'C20-declared-units', 'corrector': kind, 'units': c.units, 'expected': want})
    for step in range(rng.choice([1, 2, 3, 4])):
        prev = None
        if step > 0:
            op = rng.choice(['set', 'set', 'set', 'rewrap', 'copy', 'repeat'])
            last = next((h for h in reversed(hist) if h['op'] == 'set'), None)
            if op == 'repeat' and last is None:
                op = 'set'
            if op in ('set', 'repeat'):
                # 'repeat': the very same (matrix, shift) once more on the same object - corrections accumulate
                corr = G.gen_correction(rng, unit) if op == 'set' else {'M': last['M'], 's': last['s']}
                ck.count('correction_repeats_previous', op == 'repeat')
                xq, yq = G.dyr(rng, 1, nx - 2, 3), G.dyr(rng, 1, ny - 2, 3)
                ps_b, log_b = measure(c, xq, yq)
                c.set_correction(corr['M'], corr['s'])
                hist.append({'op': 'set', 'M': corr['M'], 's': corr['s']})
                prev = (xq, yq, ps_b, log_b, np.array(corr['M']))
            elif op == 'copy':
                c = c.copy()
                hist.append({'op': 'copy'})
            else:
                c = (RecF(c.wcs) if kind == 'fits' else RecJ(c.wcs, c.ref_angles))
                hist.append({'op': 'rewrap'})
        pts = [(G.dyr(rng, 1, nx - 2, 3), G.dyr(rng, 1, ny - 2, 3)) for _ in range(2)]
        if prev is not None:
            pts.append((prev[0], prev[1]))
        for x, y in pts:
            ck.search_evaluations += 1
            ps, log = measure(c, x, y)
            ctx = {'corrector': kind, 'geometry': g, 'history (applied in order to a fresh corrector)': list(hist),
                   'pixel': [x, y], 'tanp_pixel_scale': ps}
            if len(log) != 1 or log[0][0].shape != (4,):
                ck.violation(dict(ctx, kind='C20-unexpected-det_to_tanp-calls', calls=len(log)))
                continue
            xi, yi, xo, yo = log[0]
            J = jacobian(c, x, y, 0.25)
            ref = math.sqrt(abs(float(np.linalg.det(J))))
            rel = abs(ps - ref) / ref
            floor = 2.0 ** -46 * (max(np.abs(xo).max(), np.abs(yo).max()) / ps) ** 2
            tol = (1e-6 if g.get('sip') else 1e-8) + floor
            track(ck, '%s tanp_pixel_scale vs sqrt|det J|' % (kind + ('+sip' if g.get('sip') else '')), rel, tol)
            ck.case(('pscale', kind, g, list(hist), x, y), True)
            if not rel <= tol:
                ck.violation(dict(ctx, kind='C20-pixel-scale-differs-from-jacobian', sqrt_abs_det_jacobian=ref,
                                  jacobian=J.tolist(), relative_error=rel, tolerance=tol))
            follow = prev is not None and (x, y) == (prev[0], prev[1]) and kind == 'gwcs'
            if prev is not None and (x, y) == (prev[0], prev[1]):
                # follows corrections that rescale the plane
                ck.search_evaluations += 1
                M = prev[4]
                expect = prev[2] * (math.sqrt(abs(float(np.linalg.det(M)))) if kind == 'gwcs' else 1.0)
                r2 = abs(ps - expect) / expect
                t2 = 1e-9 + floor
                track(ck, '%s scale after a correction' % kind, r2, t2)
                if not r2 <= t2:
                    ck.violation(dict(ctx, kind='C20-scale-does-not-follow-correction', matrix=M.tolist(),
                                      scale_before=prev[2], expected=expect, relative_error=r2, tolerance=t2,
                                      predicate='gWCS: pscale_after = sqrt|det M| * pscale_before; FITS (plane = pixel grid): '
                                                'unchanged'))
            coq[0].append('{| s_x := %s; s_y := %s; s_in := %s; s_out := %s; s_pscale := %s; s_follow := %s; s_M := %s; s_prev := %s |}'
                          % (q(x), q(y), qpts(xi, yi), qpts(xo, yo), q(ps), b(follow),
                             G.qc_mat(prev[4]) if follow else '(1,0,0,1)',
                             qpts(prev[3][0][2], prev[3][0][3]) if follow else '[]'))
            coq[1].append(dict(ctx, corners_in=[xi.tolist(), yi.tolist()], corners_out=[xo.tolist(), yo.tolist()]))
        # centre value = value at the detector position of the tangent point
        ck.search_evaluations += 1
        cen = c.tanp_center_pixel_scale
        if kind == 'fits':
            x0, y0 = float(c.wcs.wcs.crpix[0]) - 1.0, float(c.wcs.wcs.crpix[1]) - 1.0
        else:
            x0, y0 = [float(v) for v in c.tanp_to_det(0.0, 0.0)]
            # the detector position of the tangent point is DEFINED by the forward map (det_to_tanp = origin): refine
            # the reported position with a few Newton steps on det_to_tanp, so that a stale inverse cannot hide
            for _ in range(4):
                tx, ty = [float(v) for v in c.det_to_tanp(x0, y0)]
                if math.hypot(tx, ty) < 1e-9:
                    break
                J = jacobian(c, x0, y0, 0.25)
                dx, dy = np.linalg.solve(J, np.array([tx, ty]))
                x0, y0 = x0 - float(dx), y0 - float(dy)
        at_tp = c.tanp_pixel_scale(x0, y0)
        relc = abs(cen - at_tp) / at_tp
        ck.case(('centre', kind, g, list(hist)), True)
        if not relc <= 1e-9:
            rp = {'kind': 'C20-centre-scale-not-at-the-tangent-point', 'corrector': kind, 'geometry': g, 'history': list(hist),
                  'tanp_center_pixel_scale': cen, 'detector_position_of_tangent_point (0-based)': [x0, y0],
                  'tanp_pixel_scale_there': at_tp, 'relative_difference': relc}
            # known finding K5: FITS evaluates the scale at the 1-based CRPIX used as a 0-based position (one pixel off)
            if kind == 'fits' and cen == c.tanp_pixel_scale(x0 + 1.0, y0 + 1.0):
                ck.count('K5_fits_centre_scale_one_pixel_off', 1)
                track(ck, 'K5 fits centre scale evaluated one pixel off (relative difference)', relc, 1.0)
                ck.violation(rp, known_id='K5')
            else:
                ck.violation(rp)
        else:
            track(ck, '%s centre scale vs scale at the tangent point' % kind, relc, 1e-9)
        # units: what the value means on the sky at the tangent point
        ck.search_evaluations += 1
        if kind == 'gwcs' and not (1.0 <= x0 <= nx - 2.0 and 1.0 <= y0 <= ny - 2.0):
            # corrections moved the tangent point off the detector: det_to_world is NaN outside the bounding box
            ck.discard('units check skipped: tangent point outside the bounding box after corrections')
        elif kind == 'gwcs':
            sk = sky_pixel_scale(c, x0, y0)
            relu = abs(at_tp - sk) / sk      # the corrected sky mapping: plane scale = sky scale at the tangent point
            # det_to_world already contains the correction, so the corrected plane is the sky near the tangent point
            d0 = np.hypot(*np.array(c.det_to_tanp(x0, y0), dtype=float)) * G.RAD
            tolu = 1e-6 + 4 * (abs(d0) + 1e-3) ** 2
            track(ck, 'gwcs scale in arcsec vs pixel size on the sky at the tangent point', relu, tolu)
            if not relu <= tolu:
                ck.violation({'kind': 'C20-gwcs-scale-is-not-arcsec-on-the-sky', 'geometry': g, 'history': list(hist),
                              'tanp_pixel_scale': at_tp, 'pixel_size_on_sky_arcsec': sk, 'relative_difference': relu})
        elif not g.get('sip'):
            relu = abs(at_tp - 1.0)
            track(ck, 'fits undistorted scale = 1 pixel', relu, 1e-9)
            if not relu <= 1e-9:
                ck.violation({'kind': 'C20-fits-undistorted-scale-is-not-one', 'geometry': g, 'history': list(hist),
                              'tanp_pixel_scale': at_tp})
    return g, hist


def run(ck):
    implementation()
    I = G.imports()
    ck.props()
    RecF, RecJ = recording(I['FITS']), recording(I['JWST'])
    ck.rule = ('FITS (TAN, CD/PC, SIP on/off) and mock JWST gWCS correctors, fresh and after 1..3 operations (set_correction, '
               'copy, re-wrapping); at two random pixels per state (+ the pixel measured just before a correction) '
               'tanp_pixel_scale is compared with sqrt|det J| of a 4th-order finite-difference Jacobian of det_to_tanp, the '
               'value after a correction with sqrt|det M| times the value before (gWCS) / the unchanged value (FITS), the centre '
               'value with the value at the detector position of the tangent point, the units with the pixel size on the sky '
               '(gWCS) / 1 pixel (undistorted FITS). Every tanp_pixel_scale call is also checked exactly in Coq (corner layout, '
               'shoelace area, |det M| scaling). One evaluation = one (state, pixel); distinct by (geometry, history, pixel).')
    ck.notes += ['sqrt is outside the model: pscale^2 is compared with the exact shoelace area of the recorded corner images',
                 'tolerance vs the Jacobian: 1e-8 relative (1e-6 with SIP: third derivatives over one pixel) + 2^-46 (|plane '
                 'coordinates| / pscale)^2 for the cancellation in the binary64 shoelace sum']
    rng = ck.rng
    coq = ([], [])
    for t in range(ck.n(160, 2500)):
        g, hist = one_case(ck, I, rng, t, RecF, RecJ, coq)
        if t < 2:
            ck.sample({'geometry': g, 'history': hist})
    bad = ck.coq_agree('shoelace', ['CorrModel', 'CorrObs', 'C20Corr'], 'case20', 'agree20', coq[0], show='show20', shard=60)
    for i in bad:
        ck.violation({'kind': 'tanp_pixel_scale-disagrees-with-model', 'case': coq[1][i],
                      'model (exact shoelace area of the recorded corner images, pscale^2, area before the correction)':
                          ck.last_shown.get(i, 'n/a'),
                      'predicate': 'corners = (x-.5,y-.5),(x-.5,y+.5),(x+.5,y+.5),(x+.5,y-.5); pscale^2 = 0.5*|shoelace|; '
                                   'area_after = |det M| * area_before'})
