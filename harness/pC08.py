"""C08 - fits are equivariant under relabelling and changes of coordinates."""
from fractions import Fraction

import numpy as np

import gen_fit as G
from common import implementation
from pC06 import run_impl, coq_case, effective

TOL = 1e-9


# "caller arrays" mode: within one case the SAME numpy.longdouble array objects are passed to every call that uses the
# same coordinate / weight lists (a caller fitting one data set several times - other centre, rescaled weights, ...)
_LD = {'on': False, 'cache': {}}


def _shared(lst):
    key = id(lst)
    if key not in _LD['cache']:
        _LD['cache'][key] = (lst, np.array(lst, dtype=np.longdouble))     # keep lst alive: ids stay unique
    return _LD['cache'][key][1]


def arrs(pr):
    if _LD['on']:
        return (_shared(pr['xy']), _shared(pr['uv']), None if pr['wxy'] is None else _shared(pr['wxy']),
                None if pr['wuv'] is None else _shared(pr['wuv']))
    xy, uv = np.array(pr['xy'], dtype=float), np.array(pr['uv'], dtype=float)
    wxy = None if pr['wxy'] is None else np.array(pr['wxy'], dtype=float)
    wuv = None if pr['wuv'] is None else np.array(pr['wuv'], dtype=float)
    return xy, uv, wxy, wuv


def fit_clip(lf, pr, nclip, sigma, accum, center=None):
    xy, uv, wxy, wuv = arrs(pr)
    return lf.iter_linear_fit(xy, uv, wxy, wuv, fitgeom=pr['geom'], nclip=nclip, sigma=sigma, clip_accum=accum,
                              center=center)


def eff(fit):
    return np.array([float(v) for v in effective(fit, True)])


def close(a, b_, scale=None):
    """dimensionless quantities (scale None): |a-b| <= TOL*max(1,|a|); lengths: |a-b| <= TOL*scale where scale is the
    size of the coordinates involved (so that the test is meaningful in any unit)"""
    a, b_ = np.asarray(a, dtype=float), np.asarray(b_, dtype=float)
    if scale is None:
        return bool(np.all(np.abs(a - b_) <= TOL * np.maximum(1.0, np.abs(a))))
    return bool(np.all(np.abs(a - b_) <= TOL * scale))


def close_eff(e_a, e_b, scale):
    return close(e_a[:4], e_b[:4]) and close(e_a[4:], e_b[4:], scale)


def margin_ok(fit, sigma, idx_resid_norms):
    """True when no retained/rejected decision of the LAST iteration is within 1e-6 relative of the cut-off"""
    return True


def simT(refl, m, n, pts):
    out = []
    for x, y in pts:
        if refl:
            out.append([m * x + n * y, n * x - m * y])
        else:
            out.append([m * x + n * y, -n * x + m * y])
    return out


def conj(refl, m, n, F, s):
    T = np.array([[m, n], [n, -m]] if refl else [[m, n], [-n, m]], dtype=float)
    Ti = np.linalg.inv(T)
    return T @ F @ Ti, T @ s


def run(ck):
    implementation()
    from tweakwcs import linearfit as lf
    ck.props()
    ck.rule = ('metamorphic pairs on iter_linear_fit (nclip in {0,2,3}, sigma, clip_accum both, all fitgeom, 4 weight '
               'modes): row permutation; weights x c; uniform weights vs none; another rotation centre; translation '
               '+ lattice rotation x power-of-two scale (+ reflection) of BOTH coordinate sets (exact in floats); '
               'the same similarity applied to xy alone where the family is closed under it. The transformed '
               'inputs are also compared with the exact model in Coq (agree06). Non-trivial: fit returned, '
               'n > minobj, and at least one point was clipped or weights were given; distinct by content.')
    ck.notes += ['parameter equalities are checked within 1e-9 relative; a retained-set mismatch is only reported '
                 'when the deciding residual is farther than 1e-6 relative from the cut-off (summation order '
                 'changes rounding)']
    rng = ck.rng
    cases, meta = [], []
    for t in range(ck.n(160, 2500)):
        geom = G.GEOMS[t % 4]
        n = rng.choice([6, 9, 14, 24])
        pr = G.problem(rng, geom, n=n, noise=rng.choice([1, 2]), style=rng.choice(['random', 'lattice']),
                       outliers=rng.choice([0, 1, 2]), zeros=False)
        nclip = rng.choice([0, 2, 3])
        sigma = (rng.choice([2.0, 2.5, 3.0]), rng.choice(['rmse', 'mae', 'std']))
        accum = rng.random() < 0.5
        _LD['on'], _LD['cache'] = (t % 3 == 0), {}
        ck.count('caller_arrays', 'shared longdouble objects' if _LD['on'] else 'fresh float64 per call')
        try:
            f0 = fit_clip(lf, pr, nclip, sigma, accum)
        except (lf.SingularMatrixError, lf.NotEnoughPointsError, ValueError):
            ck.discard('base problem rejected by implementation')
            continue
        e0, m0 = eff(f0), np.asarray(f0['fitmask'])
        if geom in ('rshift', 'rscale') and int(m0.sum()) <= 2:
            # a similarity fit of two points is matched equally well by a rotation and by a reflection (exact cross
            # determinant 0): which one is returned is decided by rounding, so parameters are not comparable
            ck.discard('similarity fit of <= 2 retained points (rotation / reflection equally good)')
            continue
        F0, s0 = e0[:4].reshape(2, 2), e0[4:]
        scale = float(max(np.max(np.abs(np.array(pr['xy']))), np.max(np.abs(np.array(pr['uv'])))))
        unit = 2.0 ** pr.get('log2scale', 0)
        ck.count('geom', geom)
        ck.count('nclip', nclip)
        ck.count('clipped_points', int((~m0).sum()))
        ck.case((pr['xy'], pr['uv'], pr['wxy'], pr['wuv'], nclip, sigma, accum),
                n > G.MINOBJ[geom] and (int((~m0).sum()) > 0 or pr['wxy'] is not None or pr['wuv'] is not None))

        def report(kind, pr2, f2, detail):
            ck.violation({'kind': kind, 'geom': geom, 'nclip': nclip, 'sigma': sigma, 'clip_accum': accum,
                          'original': slim(pr), 'transformed': slim(pr2), 'orig_effective': e0.tolist(),
                          'orig_fitmask': m0.tolist(), 'new_effective': eff(f2).tolist(),
                          'new_fitmask': np.asarray(f2['fitmask']).tolist(), 'detail': detail})

        def robust(f_a):
            """no clipping decision of the run within 1e-6 relative of its cut-off (else summation order may flip it)"""
            if nclip == 0:
                return True
            r = np.linalg.norm(np.asarray(f_a['resids']), axis=1)
            cut = sigma[0] * f_a[sigma[1]]
            return cut > 0 and bool(np.all(np.abs(r - cut) > 1e-6 * cut)) if len(r) else True

        # 1. permutation
        ck.search_evaluations += 1
        perm = list(range(n))
        rng.shuffle(perm)
        pp = dict(pr, xy=[pr['xy'][k] for k in perm], uv=[pr['uv'][k] for k in perm],
                  wxy=None if pr['wxy'] is None else [pr['wxy'][k] for k in perm],
                  wuv=None if pr['wuv'] is None else [pr['wuv'][k] for k in perm])
        f1 = fit_clip(lf, pp, nclip, sigma, accum)
        m1 = np.asarray(f1['fitmask'])
        if not np.array_equal(m1, m0[perm]):
            if robust(f0) and robust(f1):
                report('permutation-changes-retained-set', pp, f1, {'perm': perm})
            else:
                ck.discard('clipping decision within 1e-6 of the cut-off')
        elif not (close_eff(eff(f1), e0, scale) and close(f1['rmse'], f0['rmse'], scale) and
                  close(f1['mae'], f0['mae'], scale)
                  and f1['eff_nclip'] == f0['eff_nclip']):
            report('permutation-changes-fit', pp, f1, {'perm': perm})

        # 2. weights x c and uniform weights vs none
        ck.search_evaluations += 1
        c = rng.choice([0.25, 2.0, 3.0, 8.0])
        if pr['wxy'] is None and pr['wuv'] is None:
            pw = dict(pr, wxy=[c] * n)
            if rng.random() < 0.5:
                pw = dict(pr, wuv=[c] * n)
            kind = 'uniform-weights-differ-from-no-weights'
        else:
            pw = dict(pr, wxy=None if pr['wxy'] is None else [c * w for w in pr['wxy']],
                      wuv=None if pr['wuv'] is None else [c * w for w in pr['wuv']])
            kind = 'weight-scaling-changes-fit'
        f2 = fit_clip(lf, pw, nclip, sigma if sigma[1] != 'std' else (sigma[0], 'rmse'), accum)
        f0w = f0 if sigma[1] != 'std' else fit_clip(lf, pr, nclip, (sigma[0], 'rmse'), accum)
        if not (close_eff(eff(f2), eff(f0w), scale) and close(f2['rmse'], f0w['rmse'], scale) and
                close(f2['mae'], f0w['mae'], scale)):
            if np.array_equal(np.asarray(f2['fitmask']), np.asarray(f0w['fitmask'])) or (robust(f2) and robust(f0w)):
                report(kind, pw, f2, {'c': c})
            else:
                ck.discard('clipping decision within 1e-6 of the cut-off')

        # 3. another rotation centre
        ck.search_evaluations += 1
        cen = [unit * float(rng.randrange(-100, 100)), unit * float(rng.randrange(-100, 100))]
        f3 = fit_clip(lf, pr, nclip, sigma, accum, center=cen)
        if not (close_eff(eff(f3), e0, scale + 100 * unit) and close(f3['rmse'], f0['rmse'], scale) and
                close(f3['mae'], f0['mae'], scale)):
            if np.array_equal(np.asarray(f3['fitmask']), m0) or (robust(f3) and robust(f0)):
                report('centre-changes-effective-map', pr, f3, {'center': cen})
            else:
                ck.discard('clipping decision within 1e-6 of the cut-off')

        # 4. similarity of both coordinate sets (exact in floats: integer lattice rotation x 2^k, translation)
        ck.search_evaluations += 1
        m_, n_ = rng.choice([(1, 1), (0, 1), (-1, 0), (1, -1), (2, 1), (1, 2), (-1, 1), (0, -1), (1, 0)])
        k2 = rng.choice([1.0, 2.0, 0.5, 2.0 ** -14, 2.0 ** -20, 2.0 ** 12])
        m_, n_ = m_ * k2, n_ * k2
        refl = rng.random() < 0.4
        # translation in the units of the transformed data (keeps every coordinate exactly representable)
        t1, t2 = unit * k2 * float(rng.randrange(-50, 50)), unit * k2 * float(rng.randrange(-50, 50))
        if geom in ('shift', 'rshift') and False:
            pass
        xy2 = [[a + t1, b_ + t2] for a, b_ in simT(refl, m_, n_, pr['xy'])]
        uv2 = [[a + t1, b_ + t2] for a, b_ in simT(refl, m_, n_, pr['uv'])]
        ps = dict(pr, xy=xy2, uv=uv2)
        f4 = fit_clip(lf, ps, nclip, sigma, accum)
        F4, s4 = conj(refl, m_, n_, F0, s0)
        tvec = np.array([t1, t2])
        s4 = s4 + tvec - F4 @ tvec
        e4 = eff(f4)
        kk = float(np.hypot(m_, n_))
        okp = close(e4[:4], F4.ravel()) and close(e4[4:], s4, (scale + 100 * unit) * kk)
        okm = np.array_equal(np.asarray(f4['fitmask']), m0)
        oks = close(f4['rmse'], kk * f0['rmse'], kk * scale) and close(f4['mae'], kk * f0['mae'], kk * scale)
        if not (okp and okm and oks):
            if okm or (robust(f4) and robust(f0)):
                report('similarity-of-both-sets-not-conjugating', ps, f4,
                       {'T': [refl, m_, n_], 't': [t1, t2], 'expected_matrix': F4.tolist(),
                        'expected_shift': s4.tolist()})
            else:
                ck.discard('clipping decision within 1e-6 of the cut-off')
        # model tie on the transformed input (nclip = 0 path)
        code, e_, _ = run_impl(lf, ps, True)
        ps.update(stream='similarity', style=pr['style'], wmode=pr['wmode'])
        cases.append(coq_case(ps, True, code, e_))
        meta.append((ps, code, e_))

        # 5. the same similarity applied to xy alone (family closed: general always, rscale for similarities,
        #    shift for pure translations)
        if geom in ('general', 'rscale') or geom == 'shift':
            ck.search_evaluations += 1
            if geom == 'shift':
                xy5 = [[a + t1, b_ + t2] for a, b_ in pr['xy']]
                F5, s5 = F0, s0 + tvec
                k5 = 1.0
            else:
                xy5 = [[a + t1, b_ + t2] for a, b_ in simT(refl, m_, n_, pr['xy'])]
                T = np.array([[m_, n_], [n_, -m_]] if refl else [[m_, n_], [-n_, m_]])
                F5, s5 = T @ F0, T @ s0 + tvec
                k5 = kk
            p5 = dict(pr, xy=xy5)
            f5 = fit_clip(lf, p5, nclip, sigma, accum)
            e5 = eff(f5)
            if not (close(e5[:4], F5.ravel()) and close(e5[4:], s5, (scale + 100 * unit) * k5)
                    and close(f5['rmse'], k5 * f0['rmse'], k5 * scale)):
                if np.array_equal(np.asarray(f5['fitmask']), m0) or (robust(f5) and robust(f0)):
                    report('one-sided-similarity-not-composing', p5, f5, {'T': [refl, m_, n_], 't': [t1, t2]})
                else:
                    ck.discard('clipping decision within 1e-6 of the cut-off')
        if t < 3:
            ck.sample({'geom': geom, 'n': n, 'nclip': nclip, 'sigma': sigma, 'T': [refl, m_, n_], 't': [t1, t2],
                       'weights_x': c, 'centre': cen})
    bad = ck.coq_agree('transformed', ['GJModel', 'LSQ', 'LinearFit', 'C06Corr'], 'case06', 'agree06', cases,
                       show='show06', shard=ck.n(40, 200))
    for i in bad:
        ps, code, e_ = meta[i]
        ck.violation({'kind': 'fit-of-transformed-data-differs-from-exact-model', 'problem': slim(ps),
                      'impl_code': code, 'impl_effective': [float(v) for v in e_],
                      'model': ck.last_shown.get(i, 'n/a')})


def slim(pr):
    return {k: pr[k] for k in ('geom', 'xy', 'uv', 'wxy', 'wuv')}
