"""Structured generators for point-pair fitting problems (shared by C06-C10).
Every coordinate / weight is a dyadic rational, exactly representable as float and as a Coq Q literal."""
from fractions import Fraction

from common import dy, q, lst

GEOMS = ['shift', 'rshift', 'rscale', 'general']
MINOBJ = {'shift': 1, 'rshift': 2, 'rscale': 2, 'general': 3}
COQ_GEOM = {'shift': 'GShift', 'rshift': 'GRshift', 'rscale': 'GRscale', 'general': 'GGeneral'}
PYTH = [(3, 4, 5), (5, 12, 13), (8, 15, 17), (7, 24, 25), (20, 21, 29)]
WVALS = [0.0, 0.25, 0.5, 1.0, 2.0, 3.0]


def points(rng, n, style):
    if style == 'random':
        return [[dy(rng, 6, -64, 64), dy(rng, 6, -64, 64)] for _ in range(n)]
    if style == 'clustered':
        cx, cy = dy(rng, 4, -200, 200), dy(rng, 4, -200, 200)
        return [[cx + dy(rng, 8, -2, 2), cy + dy(rng, 8, -2, 2)] for _ in range(n)]
    if style == 'lattice':
        return [[float(rng.randrange(-6, 7)), float(rng.randrange(-6, 7))] for _ in range(n)]
    if style == 'near_collinear':
        a, b = rng.randrange(-3, 4), rng.randrange(1, 4)
        pts = []
        for _ in range(n):
            t = dy(rng, 4, -32, 32)
            pts.append([a * t + dy(rng, 10, -1, 1) / 16, b * t + dy(rng, 10, -1, 1) / 16])
        return pts
    if style == 'strip':
        # a very thin oblique strip (aspect ~1e-4): similarity fits stay well conditioned, the cross determinant that
        # decides rotation vs reflection is ~1e-8 of its scale - small, but far above rounding
        a, b = rng.choice([-3, -2, -1, 1, 2, 3]), rng.randrange(1, 4)
        pts = []
        for _ in range(n):
            t = dy(rng, 4, -32, 32)
            pts.append([a * t + dy(rng, 10, -1, 1) / 128, b * t - dy(rng, 10, -1, 1) / 128])
        return pts
    raise ValueError(style)


def transform(rng, geom, special=None):
    """exact member of the family of `geom` as Fractions: (m00, m01, m10, m11, s0, s1, divisor).
    `divisor`: uv coordinates should be integer multiples of it for xy to stay dyadic."""
    F = Fraction
    s0, s1 = F(dy(rng, 4, -16, 16)), F(dy(rng, 4, -16, 16))
    if geom == 'shift':
        return (F(1), F(0), F(0), F(1), s0, s1, 1)
    flip = rng.random() < 0.3
    if geom == 'rshift':
        a, b, h = rng.choice(PYTH)
        if rng.random() < 0.5:
            a, b = b, a
        a, b = a * rng.choice([-1, 1]), b * rng.choice([-1, 1])
        if special is not None or rng.random() < 0.3:
            a, b, h = rng.choice([(1, 0, 1), (0, 1, 1), (-1, 0, 1), (0, -1, 1)])
        c, s = F(a, h), F(b, h)
        m = (c, s, -s, c)
        div = h
    elif geom == 'rscale':
        # integer lattice rotations x scale: includes exact +-45, 90, 135, 180 degrees
        a, b = rng.choice([(1, 1), (1, -1), (-1, 1), (-1, -1), (0, 1), (0, -1), (-1, 0), (2, 1), (1, 2), (3, -1),
                           (1, 0), (2, 2)])
        k = F(rng.choice([1, 1, 2, F(1, 2), F(1, 4)]))
        m = (a * k, b * k, -b * k, a * k)
        div = 1
    else:
        while True:
            m = tuple(F(dy(rng, 3, -3, 3)) for _ in range(4))
            if m[0] * m[3] - m[1] * m[2] != 0:
                break
        div = 1
        flip = False
    if flip:   # improper member: second row negated
        m = (m[0], m[1], -m[2], -m[3])
    return m + (s0, s1, div)


def apply(t, uv):
    m00, m01, m10, m11, s0, s1, _ = t
    out = []
    for u, v in uv:
        u, v = Fraction(u), Fraction(v)
        x, y = m00 * u + m01 * v + s0, m10 * u + m11 * v + s1
        out.append([float(x), float(y)])
        assert Fraction(out[-1][0]) == x and Fraction(out[-1][1]) == y
    return out


def weights(rng, n, mode, zeros=True):
    vals = WVALS if zeros else WVALS[1:]

    def one():
        return [rng.choice(vals) if rng.random() < 0.8 else dy(rng, 5, 0.03125, 8) for _ in range(n)]
    if mode == 'none':
        return None, None
    if mode == 'xy':
        return one(), None
    if mode == 'uv':
        return None, one()
    return one(), one()


def problem(rng, geom, n=None, noise=None, style=None, wmode=None, outliers=0, zeros=True, scale=None):
    """returns dict(xy, uv, wxy, wuv, truth, meta)"""
    if n is None:
        n = rng.choice([MINOBJ[geom], MINOBJ[geom] + 1, 3, 4, 5, 6, 8, 12, 20, 40, 60])
        n = max(n, 1)
    style = style or rng.choice(['random', 'clustered', 'lattice', 'near_collinear'])
    t = transform(rng, geom)
    uv = points(rng, n, style)
    div = t[6]
    if div != 1:
        uv = [[float(div * round(u)), float(div * round(v))] for u, v in uv]
    xy = apply(t, uv)
    noise = rng.choice([0, 0, 1, 2]) if noise is None else noise
    if noise:
        amp = [0, 2.0 ** -10, 0.25][noise]
        xy = [[x + amp * dy(rng, 8, -1, 1), y + amp * dy(rng, 8, -1, 1)] for x, y in xy]
    for _ in range(outliers):
        k = rng.randrange(n)
        xy[k] = [xy[k][0] + rng.choice([-1, 1]) * dy(rng, 2, 20, 60), xy[k][1] + dy(rng, 2, -60, 60)]
    wmode = wmode or rng.choice(['none', 'xy', 'uv', 'both'])
    wxy, wuv = weights(rng, n, wmode, zeros)
    # global unit change by an exact power of two (arcsec vs radians vs mas ...): nothing may depend on it
    k = rng.choice([0, 0, 0, 0, -8, -14, -20, 8, 16]) if scale is None else scale
    if k:
        f = 2.0 ** k
        xy = [[a * f, b_ * f] for a, b_ in xy]
        uv = [[a * f, b_ * f] for a, b_ in uv]
    return {'geom': geom, 'xy': xy, 'uv': uv, 'wxy': wxy, 'wuv': wuv, 'truth': t, 'noise': noise,
            'style': style, 'wmode': wmode, 'n': n, 'log2scale': k}


def coq_pts(xy, uv):
    return lst(['{| qx := %s; qy := %s; qu := %s; qv := %s |}' % (q(a[0]), q(a[1]), q(b_[0]), q(b_[1]))
                for a, b_ in zip(xy, uv)])


def coq_optw(w):
    return 'None' if w is None else '(Some %s)' % lst([q(x) for x in w])
