"""C11 - XYXYMatch / WCSGroupCatalog.match2ref return exactly the true pairs on unambiguous catalogs."""
import math

import numpy as np

from common import q, b, lst, nat, implementation

IMPORTS = ['GJModel', 'Peak', 'Hist', 'Match', 'C12Corr', 'C11Corr']
PSCALES = [0.01, 0.015625, 0.05, 0.1, 0.25, 0.3, 0.5, 1.0, 1.5, 2.0, 2.5, 4.0, 10.0]


def qpts(a):
    return lst(['(%s, %s)' % (q(x), q(y)) for x, y in a])


def natlist(a):
    return lst([nat(v) for v in a])


def gen_field(rng, n, minsep, cheb):
    """n points with 4 fractional bits (pixel units), pairwise distance > minsep (Chebyshev or Euclid),
    by rejection sampling in a square just large enough."""
    size = int(math.ceil(minsep * (math.sqrt(n) * 1.8 + 2)))
    pts = []
    tries = 0
    while len(pts) < n:
        tries += 1
        if tries > 4000:
            return None
        p = (rng.randrange(0, size * 16) / 16.0, rng.randrange(0, size * 16) / 16.0)
        if cheb:
            ok = all(max(abs(p[0] - s[0]), abs(p[1] - s[1])) > minsep for s in pts)
        else:
            ok = all(math.hypot(p[0] - s[0], p[1] - s[1]) > minsep for s in pts)
        if ok:
            pts.append(p)
    return pts


def make_problem(rng, t):
    """everything in pixel units first (dyadic), then multiplied by the pixel scale."""
    p = PSCALES[t % len(PSCALES)]
    tol_px = rng.choice([1.0, 1.0, 1.5, 2.0])
    sep_px = rng.choice([0.5, 0.25, 1.0])
    r_px = rng.choice([2.5, 3.0, 4.0, 5.0, 7.25, 3.0 + 1 / 3.0])
    regime = ['A', 'A', 'B', 'A', 'Bhist'][t % 5]
    use2d = regime in ('A', 'Bhist') and (t // 5) % 3 != 2
    n = rng.randrange(4, 28)
    jit_px = rng.choice([0, 0, 1, 2]) / 32.0
    if regime == 'A':
        # only true pairs can fall inside the search box of the histogram
        minsep = max(2 * r_px + 2.0, 2 * (tol_px + sep_px) + 1.0) + 4 * jit_px
        base = gen_field(rng, n, minsep, True)
    else:
        minsep = 2 * (tol_px + sep_px) + 1.5 + 4 * jit_px
        if regime == 'Bhist':
            n = rng.randrange(12, 40)
        base = gen_field(rng, n, minsep, False)
    if base is None:
        return None
    frac_extra = rng.choice([0.0, 0.1, 0.3, 0.6])
    ncommon = max(2, int(round(n * (1 - frac_extra))))
    perm = list(range(n))
    rng.shuffle(perm)
    common, rest = perm[:ncommon], perm[ncommon:]
    k = len(rest) // 2 if rng.random() < 0.7 else rng.choice([0, len(rest)])
    ref_ids = common + rest[:k]
    im_ids = common + rest[k:]
    rng.shuffle(ref_ids)
    rng.shuffle(im_ids)
    # shift within the search radius on both axes (bins)
    u = tuple(rng.randrange(int(-r_px * 32), int(r_px * 32) + 1) / 32.0 for _ in range(2))
    if t % 7 == 0:
        u = (float(rng.randrange(-int(r_px), int(r_px) + 1)), u[1])
    if use2d and t % 9 == 4:
        u = (0.0, 0.0)          # catalogs already aligned: the histogram estimate is exactly zero
    refpx = [base[i] for i in ref_ids]
    impx = [(base[i][0] + u[0] + rng.randrange(-1, 2) * jit_px, base[i][1] + u[1] + rng.randrange(-1, 2) * jit_px)
            for i in im_ids]
    if use2d:
        # xoffset / yoffset are documented as ignored when use2dhist=True: also when they are far from the truth
        xo, yo = (0.0, 0.0) if t % 3 else (rng.choice([-1, 1]) * 3.5 * tol_px * p, rng.choice([-1, 1]) * 2.25 * tol_px * p)
    else:
        # user-supplied offset: the true shift with an error well inside the tolerance
        xo = (u[0] + rng.randrange(-8, 9) / 32.0 * tol_px) * p
        yo = (u[1] + rng.randrange(-8, 9) / 32.0 * tol_px) * p
    return dict(p=p, tol=tol_px * p, sep=sep_px * p, sr=r_px * p, use2d=use2d, regime=regime, n=n, ncommon=ncommon,
                ref_ids=ref_ids, im_ids=im_ids, u=u, xo=xo, yo=yo,
                ref=[(x * p, y * p) for x, y in refpx], im=[(x * p, y * p) for x, y in impx],
                refpx=refpx, impx=impx, jit=jit_px, tol_px=tol_px)


def build_group(corr_cls, pr):
    """catalogs one level up: WCSGroupCatalog / RefCatalog whose tangent plane is scale * detector."""
    from astropy.table import Table
    from tweakwcs.wcsimage import WCSImageCatalog, WCSGroupCatalog, RefCatalog
    corr = corr_cls(pr['p'])
    x = np.array([v[0] for v in pr['impx']])
    y = np.array([v[1] for v in pr['impx']])
    w = WCSImageCatalog(Table([x, y], names=('x', 'y')), corr)
    g = WCSGroupCatalog([w])
    ra, dec = corr.det_to_world(np.array([v[0] for v in pr['refpx']]), np.array([v[1] for v in pr['refpx']]))
    ref = RefCatalog(Table([ra, dec], names=('RA', 'DEC')))
    ref.calc_tanp_xy(corr)
    g.calc_tanp_xy(corr)
    return g, ref, corr


def make_corrector_class():
    from tweakwcs.correctors import WCSCorrector

    class ScaledCorrector(WCSCorrector):
        """tangent plane = scale * detector; fake sky = 16 deg + tangent plane * k deg, k a power of two."""
        units = 'harness units'

        def __init__(self, scale):
            super().__init__(None)
            self.s = float(scale)
            # one detector pixel ~ 2^-14 deg on the fake sky, power-of-two factor (exact multiplication)
            self.k = 2.0 ** (-14 - int(round(math.log2(self.s))))

        def set_correction(self, matrix=[[1, 0], [0, 1]], shift=[0, 0], ref_tpwcs=None, meta=None, **kwargs):
            super().set_correction(matrix=matrix, shift=shift, ref_tpwcs=ref_tpwcs, meta=meta, **kwargs)

        def det_to_tanp(self, x, y):
            return self.s * np.asarray(x, dtype=float), self.s * np.asarray(y, dtype=float)

        def tanp_to_det(self, x, y):
            return np.asarray(x, dtype=float) / self.s, np.asarray(y, dtype=float) / self.s

        def tanp_to_world(self, x, y):
            return 16.0 + np.asarray(x, dtype=float) * self.k, 16.0 + np.asarray(y, dtype=float) * self.k

        def world_to_tanp(self, ra, dec):
            return (np.asarray(ra, dtype=float) - 16.0) / self.k, (np.asarray(dec, dtype=float) - 16.0) / self.k

        def det_to_world(self, x, y):
            return self.tanp_to_world(*self.det_to_tanp(x, y))

        def world_to_det(self, ra, dec):
            return self.tanp_to_det(*self.world_to_tanp(ra, dec))

    return ScaledCorrector


def run(ck):
    implementation()
    from astropy.table import Table
    from tweakwcs import XYXYMatch
    ck.props()
    ck.rule = (
        'base field by rejection sampling on the minimum distance (regime A: Chebyshev distance > 2 searchrad + 2 px, so '
        'only true pairs fall in the histogram search box; regime B/Bhist: Euclidean distance > 2 (tolerance + '
        'separation) + 1.5 px only); 0-60 % of the sources unmatched extras split between the two lists; rows shuffled '
        'independently; image = reference + shift (|shift| <= searchrad per axis) + dyadic jitter <= 1/16 px; pixel '
        'scales 0.01..10; tolerance 1-2 px, separation 0.25-1 px, searchrad 2.5-7.25 px (incl. non-integer '
        'searchrad/pscale); use2dhist on, or off with xoffset/yoffset = shift + error <= tolerance/4. Each problem is '
        'run through XYXYMatch directly, through XYXYMatch after a second independent row permutation, and through '
        'WCSGroupCatalog.match2ref. Non-trivial: >= 3 true pairs and at least one unmatched extra or a non-identity '
        'row order; distinct by content.')
    ck.notes += [
        'PARTIAL: the matcher is external C code (stsci.stimage.xyxymatch). The theorems are about the specification '
        'matcher true_pairs (pairs within the tolerance after removing the offset); XYXYMatch and match2ref are tied to '
        'it by this correspondence only',
        'cases where a true pair\'s residual w.r.t. the model offset is within 2^-10 tol of the tolerance are not '
        'generated (jitter + half-bin error stay below 0.9 tol)',
        'with use2dhist the model offset is the C12 model estimate (exact LSQ in Coq); if the peak fit is rank '
        'deficient or a guard is within margin, the true shift is used instead (the pair set is the same for any offset '
        'within half a bin under the generated separations)',
    ]
    ck.trusted += ['stsci.stimage.xyxymatch (external C code): behaviour on unambiguous input is tied by correspondence, '
                   'not proved']
    ck.extra['partial'] = ('theorems cover the specification matcher only; stsci.stimage.xyxymatch is external C code, '
                           'tied by correspondence (set of pairs, both entry points, row permutations)')
    rng = ck.rng
    Corr = make_corrector_class()
    cases, meta = [], []
    N = ck.n(120, 1500)
    for t in range(N):
        pr = make_problem(rng, t)
        if pr is None:
            ck.discard('rejection sampling did not find a well-separated field')
            continue
        truth = set()
        pos_ref = {s: i for i, s in enumerate(pr['ref_ids'])}
        for k, s in enumerate(pr['im_ids']):
            if s in pos_ref:
                truth.add((pos_ref[s], k))
        # second, independent row order of the same catalogs
        s_ref = list(range(len(pr['ref'])))
        s_im = list(range(len(pr['im'])))
        rng.shuffle(s_ref)
        rng.shuffle(s_im)
        variants = [('XYXYMatch', pr['ref'], pr['im'], None, None),
                    ('XYXYMatch-permuted', [pr['ref'][i] for i in s_ref], [pr['im'][i] for i in s_im], s_ref, s_im),
                    ('match2ref', None, None, None, None)]
        if t % 4 == 1:
            # the deprecated but documented calling form: catalogs with RA/DEC and x/y plus tp_wcs
            variants.append(('XYXYMatch-tp_wcs', None, None, None, None))
        results = {}
        for name, refxy, imxy, sr_, si_ in variants:
            m = XYXYMatch(searchrad=pr['sr'], separation=pr['sep'], tolerance=pr['tol'], use2dhist=pr['use2d'],
                          xoffset=pr['xo'], yoffset=pr['yo'])
            try:
                if name == 'match2ref':
                    g, ref, corr = build_group(Corr, pr)
                    refxy = list(zip(np.asarray(ref.catalog['TPx'], dtype=float).tolist(),
                                     np.asarray(ref.catalog['TPy'], dtype=float).tolist()))
                    imxy = list(zip(np.asarray(g.catalog['TPx'], dtype=float).tolist(),
                                    np.asarray(g.catalog['TPy'], dtype=float).tolist()))
                    pscale_used = float(corr.tanp_center_pixel_scale)
                    nm, ri, ii = g.match2ref(ref, match=m)
                    if nm != len(ri):
                        raise AssertionError('nmatches != len(mref_idx)')
                    # the catalog of unmatched sources is the complement of the matched rows - also after the same
                    # group is matched AGAIN, to a reduced reference catalog (earlier matches must not linger)
                    from tweakwcs.wcsimage import RefCatalog as _RC

                    def unmatched_ok(idx, label):
                        um = g.get_unmatched_cat()
                        got_um = sorted(zip(np.asarray(um['x'], dtype=float).tolist(), np.asarray(um['y'], dtype=float).tolist()))
                        mset = set(int(v) for v in idx)
                        exp_um = sorted((float(pr['impx'][k_][0]), float(pr['impx'][k_][1]))
                                        for k_ in range(len(pr['impx'])) if k_ not in mset)
                        ck.search_evaluations += 1
                        if got_um != exp_um:
                            ck.violation({'kind': 'get_unmatched_cat is not the complement of the matched rows', 'when': label,
                                          'problem': slim(pr), 'matched_input_idx': sorted(mset),
                                          'unmatched_xy_returned': got_um, 'unmatched_xy_expected': exp_um})
                    unmatched_ok(ii, 'after match2ref')
                    keep = [i_ for i_ in range(len(ref.catalog)) if i_ % 2 == 0]
                    if len(keep) >= 2:
                        ref2 = _RC(Table([np.asarray(ref.catalog['RA'])[keep], np.asarray(ref.catalog['DEC'])[keep]],
                                         names=('RA', 'DEC')))
                        ref2.calc_tanp_xy(corr)
                        try:
                            _, _, ii2 = g.match2ref(ref2, match=XYXYMatch(
                                searchrad=pr['sr'], separation=pr['sep'], tolerance=pr['tol'], use2dhist=pr['use2d'],
                                xoffset=pr['xo'], yoffset=pr['yo']))
                        except Exception:   # noqa: BLE001
                            ii2 = None
                            ck.discard('re-match to the reduced reference catalog raised (too few sources)')
                        if ii2 is not None:
                            ck.count('rematch_lost_sources', min(4, len(set(map(int, ii)) - set(map(int, ii2)))))
                            unmatched_ok(ii2, 'after a second match2ref of the same group to every other reference row')
                elif name == 'XYXYMatch-tp_wcs':
                    import warnings
                    g, ref, corr = build_group(Corr, pr)
                    refxy = list(zip(np.asarray(ref.catalog['TPx'], dtype=float).tolist(),
                                     np.asarray(ref.catalog['TPy'], dtype=float).tolist()))
                    imxy = list(zip(np.asarray(g.catalog['TPx'], dtype=float).tolist(),
                                    np.asarray(g.catalog['TPy'], dtype=float).tolist()))
                    pscale_used = pr['p']
                    rt = Table([np.asarray(ref.catalog['RA']), np.asarray(ref.catalog['DEC'])], names=('RA', 'DEC'))
                    it = Table([[v[0] for v in pr['impx']], [v[1] for v in pr['impx']]], names=('x', 'y'))
                    with warnings.catch_warnings():
                        warnings.simplefilter('ignore')
                        ri, ii = m(rt, it, tp_pscale=pr['p'], tp_units='u', tp_wcs=corr)
                else:
                    pscale_used = pr['p']
                    rt = Table([[v[0] for v in refxy], [v[1] for v in refxy]], names=('TPx', 'TPy'))
                    it = Table([[v[0] for v in imxy], [v[1] for v in imxy]], names=('TPx', 'TPy'))
                    ri, ii = m(rt, it, tp_pscale=pr['p'], tp_units='u')
            except Exception as e:   # noqa: BLE001
                ck.violation({'kind': '%s raised on unambiguous catalogs' % name, 'exception': '%s: %s' % (type(e).__name__, e),
                              'problem': slim(pr)})
                continue
            ri = [int(v) for v in np.asarray(ri).tolist()]
            ii = [int(v) for v in np.asarray(ii).tolist()]
            ck.search_evaluations += 1
            got = set(zip(ri, ii))
            if sr_ is not None:
                want = set((s_ref.index(i), s_im.index(k)) for i, k in truth)
                back = set((s_ref[i], s_im[k]) for i, k in got if 0 <= i < len(s_ref) and 0 <= k < len(s_im))
            else:
                want, back = truth, got
            results[name] = back
            ok = (len(ri) == len(ii) and all(0 <= i < len(refxy) for i in ri) and all(0 <= k < len(imxy) for k in ii)
                  and len(set(ri)) == len(ri) and len(set(ii)) == len(ii) and got == want)
            rp = {'call': name + '(searchrad, separation, tolerance, use2dhist, xoffset, yoffset)', 'problem': slim(pr),
                  'refxy(rows as passed)': refxy, 'imxy(rows as passed)': imxy,
                  'impl_ref_idx': ri, 'impl_input_idx': ii, 'true_pairs(ref_idx,input_idx)': sorted(want),
                  'false_pairs': sorted(got - want), 'missing_pairs': sorted(want - got)}
            if not ok:
                rp.update(kind='%s does not return exactly the true pairs' % name,
                          predicate='equal-length index arrays, in range, no repeats, set of pairs == ground truth')
                ck.violation(rp)
                continue
            ck.count('entry', name)
            ck.count('regime', pr['regime'] + ('/use2dhist' if pr['use2d'] else '/offset'))
            ck.count('pscale', pr['p'])
            ck.count('extras_percent', int(round(100 * (1 - pr['ncommon'] / pr['n']))))
            ck.case((name, refxy, imxy, pr['sr'], pr['tol'], pr['sep'], pr['use2d'], pr['xo'], pr['yo']),
                    len(want) >= 3 and (pr['ncommon'] < pr['n'] or sorted(want) != [(i, i) for i in range(len(want))]))
            r = pr['sr'] / pscale_used
            off = (pr['xo'], pr['yo']) if not pr['use2d'] else (pr['u'][0] * pr['p'], pr['u'][1] * pr['p'])
            cases.append('{| m_ref := %s; m_im := %s; m_tol := %s; m_use2d := %s; m_off := (%s, %s); m_searchrad := %s; '
                         'm_pscale := %s; m_r := %s; m_refidx := %s; m_imidx := %s |}' % (
                             qpts(refxy), qpts(imxy), q(pr['tol']), b(pr['use2d']), q(off[0]), q(off[1]), q(pr['sr']),
                             q(pscale_used), q(r), natlist(ri), natlist(ii)))
            meta.append(rp)
            if len(refxy) <= 6:
                ck.sample({k2: rp[k2] for k2 in ('call', 'refxy(rows as passed)', 'imxy(rows as passed)', 'impl_ref_idx',
                                                 'impl_input_idx')}, limit=3)
        # the set of matched sources must not depend on the row order / entry point
        if len(results) >= 3 and len(set(map(frozenset, results.values()))) != 1:
            ck.violation({'kind': 'set of matched sources depends on the row order or entry point', 'problem': slim(pr),
                          'results': {k2: sorted(v) for k2, v in results.items()}})
    # one matcher object used for a HISTORY of calls (as the shared default matcher of align_wcs is): catalogs of the
    # same lengths/names at the same pixel scale but with different offsets; every call must return the true pairs
    hist_rng = ck.rng
    nh = 0
    for t in range(0, 5 * ck.n(16, 120), 5):          # regime A problems with use2dhist
        pr = make_problem(hist_rng, t)
        if pr is None or not pr['use2d'] or pr['regime'] != 'A':
            continue
        if max(abs(pr['u'][0]), abs(pr['u'][1])) < 1.0:
            continue
        nh += 1
        pos_ref = {s: i for i, s in enumerate(pr['ref_ids'])}
        truth = sorted((pos_ref[s], k) for k, s in enumerate(pr['im_ids']) if s in pos_ref)
        rt = Table([[v[0] for v in pr['ref']], [v[1] for v in pr['ref']]], names=('TPx', 'TPy'))
        imA = Table([[v[0] for v in pr['im']], [v[1] for v in pr['im']]], names=('TPx', 'TPy'))
        # mirrored offset: shift the image by -2u (total offset -u, still inside the search radius)
        imB = Table([[(v[0] - 2 * pr['u'][0]) * pr['p'] for v in pr['impx']],
                     [(v[1] - 2 * pr['u'][1]) * pr['p'] for v in pr['impx']]], names=('TPx', 'TPy'))
        m = XYXYMatch(searchrad=pr['sr'], separation=pr['sep'], tolerance=pr['tol'], use2dhist=True)
        seq = []
        for label, it in (('A', imA), ('B (offset mirrored)', imB), ('A again', imA), ('B again', imB)):
            ck.search_evaluations += 1
            try:
                ri, ii = m(rt, it, tp_pscale=pr['p'], tp_units='u')
                got = sorted(zip([int(v) for v in ri], [int(v) for v in ii]))
            except Exception as e:   # noqa: BLE001
                got = 'raised %s: %s' % (type(e).__name__, e)
            seq.append((label, got == truth))
            if got != truth:
                ck.violation({'kind': 'matcher reused for a history of calls does not return the true pairs',
                              'call_sequence_on_one_XYXYMatch_object': [s_[0] for s_ in seq],
                              'per_call_ok': [s_[1] for s_ in seq], 'pscale': pr['p'], 'searchrad': pr['sr'],
                              'tolerance': pr['tol'], 'separation': pr['sep'], 'offset_A_px': pr['u'],
                              'ref': pr['ref'], 'im_A': pr['im'], 'expected_pairs': truth,
                              'got': got if isinstance(got, str) else got[:50]})
                break
    ck.count('matcher_history_sessions', nh)
    # one matcher, the SAME reference Table object whose coordinate columns are re-assigned between the calls (rows
    # permuted in place, as after re-projecting a catalog into another plane): the identity of the table says nothing
    # about its content
    nh3 = 0
    for t in range(0, 5 * ck.n(16, 120), 5):
        pr = make_problem(hist_rng, t)
        if pr is None or not pr['use2d'] or pr['regime'] != 'A' or len(pr['ref']) < 4:
            continue
        if max(abs(pr['u'][0]), abs(pr['u'][1])) < 1.0:
            continue
        nh3 += 1
        pos_ref = {s_: i for i, s_ in enumerate(pr['ref_ids'])}
        truth0 = sorted((pos_ref[s_], k) for k, s_ in enumerate(pr['im_ids']) if s_ in pos_ref)
        rt = Table([[v[0] for v in pr['ref']], [v[1] for v in pr['ref']]], names=('TPx', 'TPy'))
        im = Table([[v[0] for v in pr['im']], [v[1] for v in pr['im']]], names=('TPx', 'TPy'))
        m = XYXYMatch(searchrad=pr['sr'], separation=pr['sep'], tolerance=pr['tol'], use2dhist=True)
        perm = list(range(len(pr['ref'])))
        seq = []
        for step in range(3):
            if step:
                hist_rng.shuffle(perm)
                rt['TPx'][:] = [pr['ref'][i][0] for i in perm]       # same Table object, new row order
                rt['TPy'][:] = [pr['ref'][i][1] for i in perm]
            inv_perm = {old: new for new, old in enumerate(perm)}
            truth = sorted((inv_perm[r], k) for r, k in truth0)
            ck.search_evaluations += 1
            try:
                ri, ii = m(rt, im, tp_pscale=pr['p'], tp_units='u')
                got = sorted(zip([int(v) for v in ri], [int(v) for v in ii]))
            except Exception as e:   # noqa: BLE001
                got = 'raised %s: %s' % (type(e).__name__, e)
            seq.append(got == truth)
            if got != truth:
                ck.violation({'kind': 'matcher reused on one reference Table object whose rows were re-assigned in place does '
                                      'not return the true pairs', 'per_call_ok': seq, 'row_order_of_reference_now': perm,
                              'pscale': pr['p'], 'searchrad': pr['sr'], 'tolerance': pr['tol'], 'separation': pr['sep'],
                              'ref (original order)': pr['ref'], 'im': pr['im'], 'expected_pairs': truth,
                              'got': got if isinstance(got, str) else got[:50]})
                break
    ck.count('matcher_history_sessions_same_table_object', nh3)
    # the same with use2dhist=False and a user-supplied offset estimate: catalogs whose true offsets are each within
    # the tolerance of the estimate but farther than the tolerance from each other
    nh2 = 0
    for t in range(0, 5 * ck.n(30, 200)):
        pr = make_problem(hist_rng, t)
        if pr is None or pr['use2d']:
            continue
        nh2 += 1
        pos_ref = {s: i for i, s in enumerate(pr['ref_ids'])}
        truth = sorted((pos_ref[s], k) for k, s in enumerate(pr['im_ids']) if s in pos_ref)
        rt = Table([[v[0] for v in pr['ref']], [v[1] for v in pr['ref']]], names=('TPx', 'TPy'))
        est = (pr['xo'], pr['yo'])
        sgn = 1.0 if t % 2 else -1.0

        def shifted(dx, dy):
            return Table([[v[0] - pr['u'][0] * pr['p'] + est[0] + dx * pr['tol'] for v in pr['im']],
                          [v[1] - pr['u'][1] * pr['p'] + est[1] + dy * pr['tol'] for v in pr['im']]], names=('TPx', 'TPy'))
        cats = (('A (estimate - 0.7 tol)', shifted(-0.7 * sgn, 0.3)), ('B (estimate + 0.7 tol)', shifted(0.7 * sgn, -0.3)),
                ('A again', shifted(-0.7 * sgn, 0.3)), ('C (estimate exact)', shifted(0.0, 0.0)))
        m = XYXYMatch(searchrad=pr['sr'], separation=pr['sep'], tolerance=pr['tol'], use2dhist=False,
                      xoffset=est[0], yoffset=est[1])
        seq = []
        for label, it in cats:
            ck.search_evaluations += 1
            try:
                ri, ii = m(rt, it, tp_pscale=pr['p'], tp_units='u')
                got = sorted(zip([int(v) for v in ri], [int(v) for v in ii]))
            except Exception as e:   # noqa: BLE001
                got = 'raised %s: %s' % (type(e).__name__, e)
            seq.append((label, got == truth))
            if got != truth:
                ck.violation({'kind': 'matcher reused for a history of calls does not return the true pairs',
                              'call_sequence_on_one_XYXYMatch_object': [s_[0] for s_ in seq],
                              'per_call_ok': [s_[1] for s_ in seq], 'pscale': pr['p'], 'searchrad': pr['sr'],
                              'tolerance': pr['tol'], 'separation': pr['sep'], 'use2dhist': False,
                              'xoffset, yoffset (estimate)': list(est), 'ref': pr['ref'],
                              'catalogs': 'im_k = ref-frame position + estimate + (dx, dy) * tolerance; (dx, dy) = '
                                          '(-+0.7, 0.3), (+-0.7, -0.3), again the first, (0, 0)',
                              'ref_frame_positions_of_im': [[v[0] - pr['u'][0] * pr['p'], v[1] - pr['u'][1] * pr['p']]
                                                            for v in pr['im']],
                              'expected_pairs': truth, 'got': got if isinstance(got, str) else got[:50]})
                break
    ck.count('matcher_history_sessions_user_offset', nh2)
    bad = ck.coq_agree('match', IMPORTS, 'case11', 'agree11', cases, show='show11', shard=ck.n(30, 100))
    for i in bad:
        rp = dict(meta[i])
        rp.update(kind='pairs returned by the implementation differ from the specification matcher',
                  model='(model offset, true_pairs ref im offset tol) = ' + ck.last_shown.get(i, 'n/a'),
                  predicate='set of (ref_idx, input_idx) == true_pairs(ref, im, offset, tolerance); equal lengths; in '
                            'range; no repeats')
        ck.violation(rp)


def slim(pr):
    return {k: pr[k] for k in ('p', 'tol', 'sep', 'sr', 'use2d', 'regime', 'xo', 'yo', 'u', 'ref', 'im', 'ref_ids',
                               'im_ids')}
