(* converse, part 3: inv_gj reports Singular ONLY for singular input: the input then has an explicit non-trivial
   null vector. Hence inv_gj is total on regular square matrices. *)
From Coq Require Import QArith Qabs List Bool Arith Lia Lqa Permutation.
Require Import GJModel GJSum GJProof1 GJProof2 GJProof3 GJProof4 GJProof5 GJComplete GJConverse1 GJConverse2.
Import ListNotations.
Open Scope Q_scope.

Section Conv.
Variable n : nat.
Variable a : mat.
Let A (i j : nat) : Q := mnth a i j.

(* from a failing step: a non-trivial null vector of the conjugated matrix A'(i,l) = A(sigma i, sigma l) *)
Lemma failing_step_null k s :
  (k < n)%nat -> Inv n a k s -> HasLInv n (mnth (sb s)) -> fwd_step n k s = None ->
  exists v : nat -> Q, v k == 1 /\
    forall i, (i < n)%nat ->
      vsum (seq 0 n) (fun l => A (nth i (ss s) O) (nth l (ss s) O) * v l) == 0.
Proof.
  intros Hk I [C HC] Hf.
  unfold fwd_step in Hf.
  pose proof (argmax_range n k (sm s) Hk) as Hr.
  pose proof (argmax_is_max n k (sm s) Hk) as Hmax.
  destruct (argmax_abs n k (sm s)) as [im jm].
  destruct (Qeq_bool (mnth (sm s) im jm) 0) eqn:Ez; [|discriminate].
  apply Qeq_bool_iff in Ez.
  destruct I as [Ls Lp Rs Rp PS SP Pm Row Tri].
  set (u := mnth (sm s)).
  assert (Hdiag: forall i, (i < k)%nat -> u i i == 1).
  { intros i Hi. apply (Tri i i); lia. }
  assert (Hlow: forall i l, (i < n)%nat -> (l < k)%nat -> (l < i)%nat -> u i l == 0).
  { intros i l Hi Hl Hli. apply (Tri i l); lia. }
  assert (Hzero: forall i l, (k <= i < n)%nat -> (l < n)%nat -> u i l == 0).
  { intros i l Hi Hl. destruct (Nat.lt_ge_cases l k) as [L|L].
    - apply (Tri i l); lia.
    - apply (Qabs_le_zero _ (mnth (sm s) im jm)); [apply Hmax; lia| exact Ez]. }
  set (v := nullv n k u).
  exists v. split; [apply (nullv_k n k u Hk)|].
  intros i Hi.
  set (A' := fun i l => A (nth i (ss s) O) (nth l (ss s) O)).
  (* A' = C * m on [0,n)^2 *)
  assert (EA: forall i l, (i < n)%nat -> (l < n)%nat -> A' i l == MM n C u i l).
  { intros i0 l0 Hi0 Hl0.
    transitivity (MM n (delta) A' i0 l0); [symmetry; apply MM_delta_l; exact Hi0|].
    transitivity (MM n (MM n C (mnth (sb s))) A' i0 l0).
    { apply MM_ext; [|intros; reflexivity]. intros j Hj. symmetry. apply HC; assumption. }
    rewrite MM_assoc. apply MM_ext; [intros; reflexivity|].
    intros j Hj. unfold u. rewrite (Row j l0 Hj Hl0). unfold W, MM, A', A. reflexivity. }
  change (vsum (seq 0 n) (fun l => A' i l * v l) == 0).
  rewrite (vsum_ext _ _ (fun l => vsum (seq 0 n) (fun r => C i r * (u r l * v l)))).
  2:{ intros l Hl. apply in_seq in Hl. rewrite (EA i l Hi) by lia. unfold MM.
      rewrite <- vsum_scal_r. apply vsum_ext. intros; ring. }
  rewrite vsum_swap. apply vsum_zero. intros r Hr0. apply in_seq in Hr0.
  rewrite vsum_scal. unfold v. rewrite (nullv_spec n k u Hk Hdiag Hlow Hzero r) by lia. ring.
Qed.

Theorem inv_gj_singular_has_null_vector :
  square n a -> inv_gj a = Singular ->
  exists w : nat -> Q, (exists x, (x < n)%nat /\ ~ w x == 0) /\
    forall i, (i < n)%nat -> vsum (seq 0 n) (fun j => mnth a i j * w j) == 0.
Proof.
  intros [Hlen Hrows] Hs.
  unfold inv_gj in Hs. rewrite Hlen in Hs.
  destruct (negb _); [discriminate|].
  destruct (fwd n (seq 0 n) _) as [s1|] eqn:Hf; [discriminate|].
  set (s0 := {| sm := a; sb := ident n; sp := seq 0 n; ss := seq 0 n |}) in *.
  assert (L0: HasLInv n (mnth (sb s0))).
  { exists delta. intros i' l' Hi' Hl'. rewrite MM_delta_l by assumption. unfold s0; cbn [sb].
    rewrite mnth_ident by assumption. reflexivity. }
  destruct (fwd_fail n a (seq 0 n) 0%nat s0) as [k [s [Hk [I [HL Hfs]]]]];
    [rewrite Nat.sub_0_r; reflexivity| lia| apply inv_init| exact L0| exact Hf|].
  destruct (failing_step_null k s Hk I HL Hfs) as [v [Hvk Hv]].
  destruct I as [Ls Lp Rs Rp PS SP Pm Row Tri].
  set (sg := fun y => nth y (ss s) O). set (p := fun y => nth y (sp s) O).
  exists (fun x => v (p x)).
  split.
  - exists (sg k). split; [apply Rs; exact Hk|].
    unfold p, sg. rewrite (PS k Hk). rewrite Hvk. discriminate.
  - intros i Hi.
    (* reindex the sum by sigma *)
    rewrite <- (vsum_perm _ _ _ Pm).
    rewrite <- (map_nth_seq (ss s) n Ls) at 1. rewrite vsum_map.
    rewrite (vsum_ext _ _ (fun l => A (sg (p i)) (sg l) * v l)).
    + apply (Hv (p i)). apply Rp. exact Hi.
    + intros l Hl. apply in_seq in Hl. unfold A, sg, p.
      rewrite (SP i Hi). rewrite (PS l) by lia. reflexivity.
Qed.

(* totality on regular input: a square matrix without non-trivial null vector is inverted *)
Corollary inv_gj_total_on_regular :
  square n a ->
  (forall w : nat -> Q, (forall i, (i < n)%nat -> vsum (seq 0 n) (fun j => mnth a i j * w j) == 0) ->
                        forall x, (x < n)%nat -> w x == 0) ->
  exists X, inv_gj a = Ok X.
Proof.
  intros Hsq Hreg.
  destruct (inv_gj a) as [X| |] eqn:E.
  - exists X. reflexivity.
  - exfalso. destruct (inv_gj_singular_has_null_vector Hsq E) as [w [[x [Hx Hnz]] Hw]].
    apply Hnz. apply (Hreg w Hw x Hx).
  - exfalso. exact (inv_gj_not_notsquare n a Hsq E).
Qed.
End Conv.
Print Assumptions inv_gj_singular_has_null_vector.
Print Assumptions inv_gj_total_on_regular.
