(* gWCS corrector model: pipeline semantics, state invariant over histories, normal forms of the six conversions *)
From Coq Require Import QArith Qcanon List Bool Arith Lia.
From Coq Require Qcabs.
From TW Require Import CorrModel CorrAlgebra CorrList CorrCheck CorrGwcsState.
Import ListNotations.
Open Scope Qc_scope.

(* states reachable from a constructor call on a valid WCS by any history of corrections / copies / re-wrappings *)
Definition reach (k : Qc) (w : wcs) (info : ang) (h : list op) (st : gst) : Prop :=
  valid_wcs w /\ exists st0, ginit w info = Some st0 /\ grun k st0 h = Some st.

Lemma reach_shape k w info h st : reach k w info h st ->
  exists pre f t0 post wl, wfz pre f t0 post wl /\ shape pre f t0 post wl st.
Proof.
  intros [V (st0 & Hi & Hr)]. destruct (ginit_shape _ _ _ V Hi) as (pre & f & t0 & post & wl & Z & Sh & _).
  exists pre, f, t0, post, wl. split; [exact Z|]. apply (grun_shape k _ _ _ _ _ h st0 st Z Sh Hr).
Qed.

Lemma grun_app k h1 : forall st h2, grun k st (h1 ++ h2) = match grun k st h1 with Some st1 => grun k st1 h2 | None => None end.
Proof. induction h1 as [|o r IH]; intros st h2; simpl; [reflexivity|]. destruct (gstep k st o); [apply IH| reflexivity]. Qed.
Lemma reach_step k w info h st o st' : reach k w info h st -> gstep k st o = Some st' -> reach k w info (h ++ [o]) st'.
Proof.
  intros [V (st0 & Hi & Hr)] Hs. split; [exact V|]. exists st0. split; [exact Hi|].
  rewrite grun_app, Hr. simpl. rewrite Hs. reflexivity.
Qed.

Lemma scale_affine ki k M v s : ki * k = 1 ->
  pscale ki (padd (mapp M v) (pscale k s)) = padd (mapp M (pscale ki v)) s.
Proof.
  intro H. dmat M. dpt v. dpt s. unf. ext.
  - transitivity (a * (ki * x) + b * (ki * y) + (ki * k) * x0); [ring| rewrite H; ring].
  - transitivity (c * (ki * x) + d * (ki * y) + (ki * k) * y0); [ring| rewrite H; ring].
Qed.

Section Sem.
Variable X : Type.
Variables F Fi : nat -> X -> X.
Variable T : X -> pt.
Variable Ti : pt -> X.
Variables k ki : Qc.
Hypothesis F_Fi : forall n x, F n (Fi n x) = x.
Hypothesis Fi_F : forall n x, Fi n (F n x) = x.
Hypothesis T_Ti : forall t, T (Ti t) = t.
Hypothesis Ti_T : forall x, Ti (T x) = x.
Hypothesis k_ki : k * ki = 1.

Local Notation sem := (sem X F T Ti).
Local Notation semi := (semi X Fi T Ti).
Local Notation fwd := (fwd X F T Ti).
Local Notation bwd := (bwd X Fi T Ti).
Local Notation gt := (get_transform X F Fi T Ti).
Local Notation d2w := (g_d2w X F T Ti).
Local Notation w2d := (g_w2d X Fi T Ti).
Local Notation d2t := (g_d2t X F Fi T Ti ki (tan_frame)).
Local Notation t2d := (g_t2d X F Fi T Ti k (tan_frame)).
Local Notation w2t := (g_w2t X F Fi T Ti ki (tan_frame)).
Local Notation t2w := (g_t2w X F Fi T Ti k (tan_frame)).

Lemma ki_k : ki * k = 1.
Proof. rewrite Qcmult_comm. exact k_ki. Qed.

Lemma sem_semi t x : oktrf t -> sem t (semi t x) = x.
Proof.
  destruct t as [n|c|]; simpl; intro H; [apply F_Fi| |reflexivity].
  destruct H as [Hi Hd]. rewrite T_Ti, Hi, inva_r by exact Hd. apply Ti_T.
Qed.
Lemma semi_sem t x : oktrf t -> semi t (sem t x) = x.
Proof.
  destruct t as [n|c|]; simpl; intro H; [apply Fi_F| |reflexivity].
  destruct H as [Hi Hd]. rewrite T_Ti, Hi, inva_l by exact Hd. apply Ti_T.
Qed.
Lemma fwd_app a b x : fwd (a ++ b) x = fwd b (fwd a x).
Proof. revert x. induction a as [|[f t] r IH]; intro x; simpl; [reflexivity| apply IH]. Qed.
Lemma bwd_app a b x : bwd (a ++ b) x = bwd a (bwd b x).
Proof. induction a as [|[f t] r IH]; simpl; [reflexivity| rewrite IH; reflexivity]. Qed.
Lemma bwd_fwd l x : Forall okstep l -> bwd l (fwd l x) = x.
Proof.
  revert x. induction l as [|[f t] r IH]; intros x H; simpl; [reflexivity|].
  inversion H; subst. rewrite IH by assumption. apply semi_sem. assumption.
Qed.
Lemma fwd_bwd l x : Forall okstep l -> fwd l (bwd l x) = x.
Proof.
  revert x. induction l as [|[f t] r IH]; intros x H; simpl; [reflexivity|].
  inversion H; subst. rewrite sem_semi by assumption. apply IH. assumption.
Qed.

Lemma firstn_len_app {A} (a r : list A) : firstn (length a) (a ++ r) = a.
Proof. induction a as [|x a IH]; simpl; [destruct r; reflexivity| rewrite IH; reflexivity]. Qed.
Lemma skipn_len_app {A} (a r : list A) : skipn (length a) (a ++ r) = r.
Proof. induction a as [|x a IH]; simpl; [reflexivity| exact IH]. Qed.
Lemma seg_prefix (a r : wcs) : seg 0 (length a) (a ++ r) = a.
Proof. unfold seg. rewrite Nat.sub_0_r. simpl. apply firstn_len_app. Qed.
Lemma seg_mid (a b c : wcs) i j : i = length a -> j = (length a + length b)%nat -> seg i j (a ++ b ++ c) = b.
Proof. intros -> ->. unfold seg. rewrite skipn_len_app. replace (length a + length b - length a)%nat with (length b) by lia. apply firstn_len_app. Qed.

Lemma gt_fwd w a b i j x : index_of a (frames w) = Some i -> index_of b (frames w) = Some j -> (i <= j)%nat ->
  gt w a b x = fwd (seg i j w) x.
Proof. intros Ha Hb Hl. unfold get_transform. rewrite Ha, Hb. apply Nat.leb_le in Hl. rewrite Hl. reflexivity. Qed.
Lemma gt_bwd w a b i j x : index_of a (frames w) = Some i -> index_of b (frames w) = Some j -> (j < i)%nat ->
  gt w a b x = bwd (seg j i w) x.
Proof. intros Ha Hb Hl. unfold get_transform. rewrite Ha, Hb. apply Nat.leb_gt in Hl. rewrite Hl. reflexivity. Qed.

Section Zip.
Variables (pre : wcs) (f : fname) (t0 : trf) (post : wcs) (wl : fname).
Hypothesis Z : wfz pre f t0 post wl.

(* detector -> frame f,  frame after the correction -> world, and back *)
Definition zD (p : X) : X := fwd pre p.
Definition zDi (v : X) : X := bwd pre v.
Definition zS (v : X) : X := fwd post (sem t0 v).
Definition zSi (w : X) : X := semi t0 (bwd post w).

Lemma zDi_D p : zDi (zD p) = p.
Proof. apply bwd_fwd. apply Z. Qed.
Lemma zD_Di v : zD (zDi v) = v.
Proof. apply fwd_bwd. apply Z. Qed.
Lemma zSi_S v : zSi (zS v) = v.
Proof. unfold zSi, zS. rewrite bwd_fwd by apply Z. apply semi_sem. apply Z. Qed.
Lemma zS_Si w : zS (zSi w) = w.
Proof. unfold zSi, zS. rewrite sem_semi by apply Z. apply fwd_bwd. apply Z. Qed.

Lemma hd_pre_index (r : list fname) : index_of (hd Fdet (frames pre ++ r)) (frames pre ++ r) = Some 0%nat.
Proof.
  assert (H := z_pre_ne _ _ _ _ _ Z). destruct pre as [|[g t] q]; [contradiction|]. simpl. rewrite fname_eqb_refl. reflexivity.
Qed.
Lemma pre_len_pos : (0 < length pre)%nat.
Proof. assert (H := z_pre_ne _ _ _ _ _ Z). destruct pre; [contradiction| simpl; lia]. Qed.

Lemma shape_adet st : shape pre f t0 post wl st -> adet (g_aff st) <> 0.
Proof.
  intros [Hw Ht Hv Hc Hf | c Hw Ht Hv Hok Ha]; unfold g_aff; rewrite Ht.
  - rewrite adet_idaff. apply one_neq0.
  - apply Hok.
Qed.

Lemma wl_index_fresh : index_of wl (frames (w_fresh pre f t0 post wl)) = Some (length pre + 1 + length post)%nat.
Proof.
  rewrite frames_w_fresh.
  replace (frames pre ++ f :: frames post ++ [wl]) with ((frames pre ++ f :: frames post) ++ [wl]) by (rewrite <- app_assoc; reflexivity).
  rewrite index_of_here.
  - rewrite app_length. simpl. rewrite !frames_length. f_equal. lia.
  - rewrite count_app. rewrite count_cons_neq by (intro E; apply (z_wl_f _ _ _ _ _ Z); symmetry; exact E).
    rewrite (z_wl_pre _ _ _ _ _ Z), (z_wl_post _ _ _ _ _ Z). reflexivity.
Qed.
Lemma wl_index_corr c : index_of wl (frames (w_corr pre f c t0 post wl)) = Some (length pre + 2 + length post)%nat.
Proof.
  rewrite frames_w_corr.
  replace (frames pre ++ f :: Fcorr :: frames post ++ [wl]) with ((frames pre ++ f :: Fcorr :: frames post) ++ [wl]) by (rewrite <- app_assoc; reflexivity).
  rewrite index_of_here.
  - rewrite app_length. simpl. rewrite !frames_length. f_equal. lia.
  - rewrite count_app. rewrite count_cons_neq by (intro E; apply (z_wl_f _ _ _ _ _ Z); symmetry; exact E).
    rewrite count_cons_neq by (intro E; apply (z_wl_c _ _ _ _ _ Z); symmetry; exact E).
    rewrite (z_wl_pre _ _ _ _ _ Z), (z_wl_post _ _ _ _ _ Z). reflexivity.
Qed.
Lemma worldname_fresh : worldname (w_fresh pre f t0 post wl) = wl.
Proof.
  unfold worldname. rewrite frames_w_fresh.
  replace (frames pre ++ f :: frames post ++ [wl]) with ((frames pre ++ f :: frames post) ++ [wl]) by (rewrite <- app_assoc; reflexivity).
  apply last_last.
Qed.
Lemma worldname_corr c : worldname (w_corr pre f c t0 post wl) = wl.
Proof.
  unfold worldname. rewrite frames_w_corr.
  replace (frames pre ++ f :: Fcorr :: frames post ++ [wl]) with ((frames pre ++ f :: Fcorr :: frames post) ++ [wl]) by (rewrite <- app_assoc; reflexivity).
  apply last_last.
Qed.

Lemma tan_frame_shape st : shape pre f t0 post wl st -> tan_frame st = f.
Proof.
  intros [Hw Ht Hv Hc Hf | c Hw Ht Hv Hok Ha]; unfold tan_frame.
  - replace (index_of Fcorr (frames (g_wcs st))) with (@None nat); [exact Hv|].
    symmetry. apply index_of_none. rewrite Hw. apply count_Fcorr_fresh. exact Z.
  - rewrite Hw, index_c_corr by apply Z. rewrite frames_w_corr. simpl. rewrite Nat.sub_0_r.
    rewrite <- (frames_length pre). apply nth_here.
Qed.

Lemma fwd_end x : fwd [(wl, TEnd)] x = x.
Proof. reflexivity. Qed.

(* normal forms of the six conversions in every state satisfying the invariant *)
Lemma nf_d2w st p : shape pre f t0 post wl st -> d2w st p = zS (Ti (app (g_aff st) (T (zD p)))).
Proof.
  intros [Hw Ht Hv Hc Hf | c Hw Ht Hv Hok Ha]; unfold g_d2w, g_aff, zS, zD; rewrite Hw, Ht.
  - unfold w_fresh. rewrite fwd_app. simpl. rewrite fwd_app. simpl. rewrite app_idaff, Ti_T. reflexivity.
  - unfold w_corr. rewrite fwd_app. simpl. rewrite fwd_app. reflexivity.
Qed.
Lemma nf_w2d st w : shape pre f t0 post wl st -> w2d st w = zDi (Ti (app (inva (g_aff st)) (T (zSi w)))).
Proof.
  intros [Hw Ht Hv Hc Hf | c Hw Ht Hv Hok Ha]; unfold g_w2d, g_aff, zSi, zDi; rewrite Hw, Ht.
  - unfold w_fresh. rewrite bwd_app. simpl. rewrite bwd_app. simpl. rewrite inva_idaff, app_idaff, Ti_T. reflexivity.
  - unfold w_corr. rewrite bwd_app. simpl. rewrite bwd_app. simpl. destruct Hok as [Hi _]. rewrite Hi. reflexivity.
Qed.

Lemma gt_det_f st p : shape pre f t0 post wl st -> gt (g_wcs st) (detname (g_wcs st)) f p = zD p.
Proof.
  intros [Hw Ht Hv Hc Hf | c Hw Ht Hv Hok Ha]; rewrite Hw; unfold detname, zD.
  - rewrite (gt_fwd _ _ _ 0%nat (length pre)).
    + unfold w_fresh. rewrite seg_prefix. reflexivity.
    + rewrite frames_w_fresh. apply hd_pre_index.
    + apply index_f_fresh. apply Z.
    + lia.
  - rewrite (gt_fwd _ _ _ 0%nat (length pre)).
    + unfold w_corr. rewrite seg_prefix. reflexivity.
    + rewrite frames_w_corr. apply hd_pre_index.
    + apply index_f_corr. apply Z.
    + lia.
Qed.
Lemma gt_f_det st v : shape pre f t0 post wl st -> gt (g_wcs st) f (detname (g_wcs st)) v = zDi v.
Proof.
  assert (Hp := pre_len_pos).
  intros [Hw Ht Hv Hc Hf | c Hw Ht Hv Hok Ha]; rewrite Hw; unfold detname, zDi.
  - rewrite (gt_bwd _ _ _ (length pre) 0%nat).
    + unfold w_fresh. rewrite seg_prefix. reflexivity.
    + apply index_f_fresh. apply Z.
    + rewrite frames_w_fresh. apply hd_pre_index.
    + exact Hp.
  - rewrite (gt_bwd _ _ _ (length pre) 0%nat).
    + unfold w_corr. rewrite seg_prefix. reflexivity.
    + apply index_f_corr. apply Z.
    + rewrite frames_w_corr. apply hd_pre_index.
    + exact Hp.
Qed.
(* frame f -> world goes through the correction step when there is one *)
Lemma gt_f_world st v : shape pre f t0 post wl st ->
  gt (g_wcs st) f (worldname (g_wcs st)) v = zS (Ti (app (g_aff st) (T v))).
Proof.
  intros [Hw Ht Hv Hc Hf | c Hw Ht Hv Hok Ha]; unfold g_aff; rewrite Hw, Ht.
  - rewrite worldname_fresh. rewrite (gt_fwd _ _ _ (length pre) (length pre + 1 + length post)%nat).
    + unfold w_fresh. rewrite (seg_mid pre ((f, t0) :: post) [(wl, TEnd)]); [|reflexivity| simpl; lia].
      simpl. rewrite app_idaff, Ti_T. reflexivity.
    + apply index_f_fresh. apply Z.
    + apply wl_index_fresh.
    + lia.
  - rewrite worldname_corr. rewrite (gt_fwd _ _ _ (length pre) (length pre + 2 + length post)%nat).
    + unfold w_corr. rewrite (seg_mid pre ((f, TCorr c) :: (Fcorr, t0) :: post) [(wl, TEnd)]); [|reflexivity| simpl; lia].
      reflexivity.
    + apply index_f_corr. apply Z.
    + apply wl_index_corr.
    + lia.
Qed.
Lemma gt_world_f st w : shape pre f t0 post wl st ->
  gt (g_wcs st) (worldname (g_wcs st)) f w = Ti (app (inva (g_aff st)) (T (zSi w))).
Proof.
  intros [Hw Ht Hv Hc Hf | c Hw Ht Hv Hok Ha]; unfold g_aff; rewrite Hw, Ht.
  - rewrite worldname_fresh. rewrite (gt_bwd _ _ _ (length pre + 1 + length post)%nat (length pre)).
    + unfold w_fresh. rewrite (seg_mid pre ((f, t0) :: post) [(wl, TEnd)]); [|reflexivity| simpl; lia].
      simpl. rewrite inva_idaff, app_idaff, Ti_T. reflexivity.
    + apply wl_index_fresh.
    + apply index_f_fresh. apply Z.
    + lia.
  - rewrite worldname_corr. rewrite (gt_bwd _ _ _ (length pre + 2 + length post)%nat (length pre)).
    + unfold w_corr. rewrite (seg_mid pre ((f, TCorr c) :: (Fcorr, t0) :: post) [(wl, TEnd)]); [|reflexivity| simpl; lia].
      simpl. destruct Hok as [Hi _]. rewrite Hi. reflexivity.
    + apply wl_index_corr.
    + apply index_f_corr. apply Z.
    + lia.
Qed.

Lemma nf_d2t st p : shape pre f t0 post wl st -> d2t st p = pscale ki (app (g_aff st) (T (zD p))).
Proof. intro Sh. unfold g_d2t, partial. rewrite (tan_frame_shape _ Sh), (gt_det_f _ _ Sh). reflexivity. Qed.
Lemma nf_t2d st t : shape pre f t0 post wl st -> t2d st t = zDi (Ti (app (inva (g_aff st)) (pscale k t))).
Proof. intro Sh. unfold g_t2d, partial_inv. rewrite (tan_frame_shape _ Sh), (gt_f_det _ _ Sh). reflexivity. Qed.
Lemma nf_w2t st w : shape pre f t0 post wl st -> w2t st w = pscale ki (T (zSi w)).
Proof.
  intro Sh. unfold g_w2t, partial. rewrite (tan_frame_shape _ Sh), (gt_world_f _ _ Sh).
  rewrite T_Ti, inva_r by (apply shape_adet; exact Sh). reflexivity.
Qed.
Lemma nf_t2w st t : shape pre f t0 post wl st -> t2w st t = zS (Ti (pscale k t)).
Proof.
  intro Sh. unfold g_t2w, partial_inv. rewrite (tan_frame_shape _ Sh), (gt_f_world _ _ Sh).
  rewrite T_Ti, inva_r by (apply shape_adet; exact Sh). reflexivity.
Qed.
End Zip.

Ltac nf := repeat first
  [ erewrite nf_d2w by eassumption | erewrite nf_w2d by eassumption | erewrite nf_d2t by eassumption
  | erewrite nf_t2d by eassumption | erewrite nf_w2t by eassumption | erewrite nf_t2w by eassumption ].
Ltac zz := repeat first
  [ erewrite zSi_S by eassumption | erewrite zS_Si by eassumption | erewrite zD_Di by eassumption
  | erewrite zDi_D by eassumption ].

Lemma ki_k' : ki * k = 1.
Proof. rewrite Qcmult_comm. exact k_ki. Qed.

(* ---------------------------------------------------------------- C02 *)
Lemma d2t_after_gset w info h st M s st' p : reach k w info h st -> gset k st M s = Some st' ->
  d2t st' p = padd (mapp M (d2t st p)) s.
Proof.
  intros R H. destruct (reach_shape _ _ _ _ _ R) as (pre & f & t0 & post & wl & Z & Sh).
  destruct (gset_shape k _ _ _ _ _ st M s Z Sh (gset_some_det k _ _ _ _ H)) as (st'' & E & Sh' & Ha & _).
  rewrite H in E. inversion E; subst st''; clear E.
  nf. rewrite Ha, app_combine. unfold app at 1. cbn [amat ash]. apply scale_affine. apply ki_k'.
Qed.
Lemma w2t_d2w w info h st st' p : reach k w info h st -> forall h', reach k w info h' st' ->
  (exists pre f t0 post wl, wfz pre f t0 post wl /\ shape pre f t0 post wl st /\ shape pre f t0 post wl st') ->
  w2t st (d2w st' p) = d2t st' p.
Proof.
  intros R h' R' (pre & f & t0 & post & wl & Z & Sh & Sh').
  nf. zz. rewrite T_Ti. reflexivity.
Qed.

(* C02, gWCS, own plane, every reachable state *)
Theorem gwcs_C02_own w info h st M s st' p : reach k w info h st -> gset k st M s = Some st' ->
  w2t st (d2w st' p) = padd (mapp M (d2t st p)) s.
Proof.
  intros R H. rewrite <- (d2t_after_gset _ _ _ _ _ _ _ p R H).
  destruct (reach_shape _ _ _ _ _ R) as (pre & f & t0 & post & wl & Z & Sh).
  destruct (gset_shape k _ _ _ _ _ st M s Z Sh (gset_some_det k _ _ _ _ H)) as (st'' & E & Sh' & _).
  rewrite H in E. inversion E; subst st''; clear E.
  apply (w2t_d2w w info h st st' p R (h ++ [OpSet M s])).
  - apply (reach_step _ _ _ _ _ (OpSet M s) _ R). exact H.
  - exists pre, f, t0, post, wl. auto.
Qed.

(* C02, gWCS, correction given in a reference plane related to the image plane by the affine map G (= what _tp2tp
   returns): the identity holds in the reference plane, i.e. after mapping both sides back by G^-1 *)
Theorem gwcs_C02_ref w info h st G M s st' p : reach k w info h st -> gset_ref k st G M s = Some st' ->
  app (inva G) (w2t st (d2w st' p)) = padd (mapp M (app (inva G) (d2t st p))) s.
Proof.
  intros R H. unfold gset_ref in H. destruct (qc_is0 (adet G)) eqn:EG; [discriminate|]. apply qc_is0_false in EG.
  rewrite (gwcs_C02_own _ _ _ _ _ _ _ p R H).
  change (padd (mapp (conj_matrix (amat G) M) (d2t st p)) (conj_shift (amat G) (ash G) M s))
    with (app (mk (conj_matrix (amat G) M) (conj_shift (amat G) (ash G) M s)) (d2t st p)).
  rewrite conj_app by exact EG. rewrite inva_l by exact EG. reflexivity.
Qed.

(* the tangent plane of a gWCS corrector is fixed on the sky: no operation changes world <-> tangent plane *)
Theorem gwcs_plane_fixed w info h st o st' x t : reach k w info h st -> gstep k st o = Some st' ->
  w2t st' x = w2t st x /\ t2w st' t = t2w st t.
Proof.
  intros R H. destruct (reach_shape _ _ _ _ _ R) as (pre & f & t0 & post & wl & Z & Sh).
  assert (Sh' := gstep_shape k _ _ _ _ _ _ _ _ Z Sh H).
  nf. split; reflexivity.
Qed.

(* ---------------------------------------------------------------- C03 *)
Theorem gwcs_C03 w info h st : reach k w info h st ->
  (forall p, w2d st (d2w st p) = p) /\ (forall x, d2w st (w2d st x) = x) /\
  (forall p, t2d st (d2t st p) = p) /\ (forall t, d2t st (t2d st t) = t) /\
  (forall x, t2w st (w2t st x) = x) /\ (forall t, w2t st (t2w st t) = t) /\
  (forall p, t2w st (d2t st p) = d2w st p) /\ (forall p, w2t st (d2w st p) = d2t st p) /\
  (forall t, d2w st (t2d st t) = t2w st t).
Proof.
  intro R. destruct (reach_shape _ _ _ _ _ R) as (pre & f & t0 & post & wl & Z & Sh).
  assert (Hd := shape_adet _ _ _ _ _ _ Sh).
  assert (KK := ki_k').
  repeat split; intros; nf; zz; rewrite ?T_Ti;
  rewrite ?(pscale_pscale k ki) by exact k_ki; rewrite ?(pscale_pscale ki k) by exact KK;
  rewrite ?inva_l, ?inva_r by exact Hd; rewrite ?Ti_T, ?T_Ti; zz;
  rewrite ?(pscale_pscale k ki) by exact k_ki; rewrite ?(pscale_pscale ki k) by exact KK;
  rewrite ?inva_l, ?inva_r by exact Hd; rewrite ?Ti_T, ?T_Ti; zz; try reflexivity.
Qed.

(* ---------------------------------------------------------------- C04 *)
(* the sky mapping of a state depends only on its accumulated affine *)
Lemma d2w_by_aff w info h1 st1 h2 st2 : reach k w info h1 st1 -> reach k w info h2 st2 ->
  (forall v, app (g_aff st1) v = app (g_aff st2) v) -> forall p, d2w st1 p = d2w st2 p.
Proof.
  intros [V (st0 & Hi & Hr1)] [_ (st0' & Hi' & Hr2)] E p. rewrite Hi in Hi'. inversion Hi'; subst st0'.
  destruct (ginit_shape _ _ _ V Hi) as (pre & f & t0 & post & wl & Z & Sh & _).
  assert (Sh1 := grun_shape k _ _ _ _ _ h1 st0 st1 Z Sh Hr1).
  assert (Sh2 := grun_shape k _ _ _ _ _ h2 st0 st2 Z Sh Hr2).
  nf. rewrite E. reflexivity.
Qed.

Lemma gset_aff w info h st M s st' : reach k w info h st -> gset k st M s = Some st' ->
  g_aff st' = combine_fwd M (pscale k s) (g_aff st) /\ reach k w info (h ++ [OpSet M s]) st'.
Proof.
  intros R H. destruct (reach_shape _ _ _ _ _ R) as (pre & f & t0 & post & wl & Z & Sh).
  destruct (gset_shape k _ _ _ _ _ st M s Z Sh (gset_some_det k _ _ _ _ H)) as (st'' & E & Sh' & Ha & _).
  rewrite H in E. inversion E; subst st''. split; [exact Ha|]. apply (reach_step _ _ _ _ _ (OpSet M s) _ R). exact H.
Qed.
Lemma gset_total w info h st M s : reach k w info h st -> mdet M <> 0 -> exists st', gset k st M s = Some st'.
Proof.
  intros R Hm. destruct (reach_shape _ _ _ _ _ R) as (pre & f & t0 & post & wl & Z & Sh).
  destruct (gset_shape k _ _ _ _ _ st M s Z Sh Hm) as (st' & E & _). exists st'. exact E.
Qed.

Lemma pscale_zero c : pscale c (0, 0) = (0, 0).
Proof. unfold pscale. cbn [fst snd]. ext; ring. Qed.
Lemma app_combine_id A v : app (combine_fwd mid (0, 0) A) v = app A v.
Proof. rewrite app_combine. unfold app at 1. cbn [amat ash]. rewrite mapp_mid. destruct (app A v) as [x y]. unfold padd. cbn [fst snd]. ext; ring. Qed.

(* identity correction leaves the sky mapping unchanged *)
Theorem gwcs_C04_identity w info h st : reach k w info h st ->
  exists st', gset k st mid (0, 0) = Some st' /\ forall p, d2w st' p = d2w st p.
Proof.
  intro R. destruct (gset_total _ _ _ _ mid (0, 0) R) as [st' H]; [rewrite mdet_mid; apply one_neq0|].
  exists st'. split; [exact H|]. destruct (gset_aff _ _ _ _ _ _ _ R H) as [Ha R'].
  apply (d2w_by_aff _ _ _ _ _ _ R' R). intro v. rewrite Ha, pscale_zero. apply app_combine_id.
Qed.

Lemma pscale_lin c M s : pscale c (pneg (mapp M s)) = pneg (mapp M (pscale c s)).
Proof. dmat M. dpt s. unf. ext; ring. Qed.
Lemma pscale_lin2 c M s1 s2 : pscale c (padd (mapp M s1) s2) = padd (mapp M (pscale c s1)) (pscale c s2).
Proof. dmat M. dpt s1. dpt s2. unf. ext; ring. Qed.

(* a correction followed by its inverse (M^-1, -M^-1 s) restores the sky mapping *)
Theorem gwcs_C04_inverse w info h st M s st1 : reach k w info h st -> gset k st M s = Some st1 ->
  exists st2, gset k st1 (minv M) (pneg (mapp (minv M) s)) = Some st2 /\ forall p, d2w st2 p = d2w st p.
Proof.
  intros R H. assert (Hm := gset_some_det k _ _ _ _ H). destruct (gset_aff _ _ _ _ _ _ _ R H) as [Ha R1].
  destruct (gset_total _ _ _ _ (minv M) (pneg (mapp (minv M) s)) R1) as [st2 H2].
  { rewrite mdet_minv by exact Hm. intro E.
    assert (X1 : mdet M * / mdet M = 1) by (field; exact Hm). rewrite E, Qcmult_0_r in X1. discriminate X1. }
  exists st2. split; [exact H2|]. destruct (gset_aff _ _ _ _ _ _ _ R1 H2) as [Ha2 R2].
  apply (d2w_by_aff _ _ _ _ _ _ R2 R). intro v. rewrite Ha2, Ha, !app_combine, pscale_lin.
  apply (app_mk_inverse M (pscale k s) (app (g_aff st) v) Hm).
Qed.

(* two corrections in the corrector's own plane compose as (M2.M1, M2.s1 + s2) *)
Theorem gwcs_C04_compose_own w info h st M1 s1 st1 M2 s2 st2 : reach k w info h st ->
  gset k st M1 s1 = Some st1 -> gset k st1 M2 s2 = Some st2 ->
  exists st12, gset k st (mmul M2 M1) (padd (mapp M2 s1) s2) = Some st12 /\
               g_aff st12 = g_aff st2 /\ forall p, d2w st12 p = d2w st2 p.
Proof.
  intros R H1 H2. assert (Hm1 := gset_some_det k _ _ _ _ H1). assert (Hm2 := gset_some_det k _ _ _ _ H2).
  destruct (gset_aff _ _ _ _ _ _ _ R H1) as [Ha1 R1]. destruct (gset_aff _ _ _ _ _ _ _ R1 H2) as [Ha2 R2].
  destruct (gset_total _ _ _ _ (mmul M2 M1) (padd (mapp M2 s1) s2) R) as [st12 H12].
  { rewrite mdet_mmul. intro E. apply Qcmult_integral in E. destruct E; contradiction. }
  exists st12. split; [exact H12|]. destruct (gset_aff _ _ _ _ _ _ _ R H12) as [Ha12 R12].
  assert (EA : g_aff st12 = g_aff st2).
  { rewrite Ha12, Ha2, Ha1, pscale_lin2. destruct (g_aff st) as [m t]. dmat m. dpt t. dmat M1. dmat M2.
    destruct (pscale k s1) as [u1 u2]. destruct (pscale k s2) as [v1 v2]. unf. ext; ring. }
  split; [exact EA|]. apply (d2w_by_aff _ _ _ _ _ _ R12 R2). intro v. rewrite EA. reflexivity.
Qed.

Lemma gset_ref_unfold st G M s st' : gset_ref k st G M s = Some st' ->
  adet G <> 0 /\ gset k st (conj_matrix (amat G) M) (conj_shift (amat G) (ash G) M s) = Some st'.
Proof. unfold gset_ref. destruct (qc_is0 (adet G)) eqn:E; [discriminate|]. intro H. split; [apply qc_is0_false; exact E| exact H]. Qed.

(* two corrections expressed in one fixed reference plane (affine plane-to-plane map G) equal the single correction
   (M2.M1, M2.s1 + s2) expressed in that plane *)
Theorem gwcs_C04_compose_ref w info h st G M1 s1 st1 M2 s2 st2 : reach k w info h st ->
  gset_ref k st G M1 s1 = Some st1 -> gset_ref k st1 G M2 s2 = Some st2 ->
  exists st12, gset_ref k st G (mmul M2 M1) (padd (mapp M2 s1) s2) = Some st12 /\ forall p, d2w st12 p = d2w st2 p.
Proof.
  intros R H1 H2. destruct (gset_ref_unfold _ _ _ _ _ H1) as [HG H1']. destruct (gset_ref_unfold _ _ _ _ _ H2) as [_ H2'].
  assert (Hm1 := gset_some_det k _ _ _ _ H1'). assert (Hm2 := gset_some_det k _ _ _ _ H2').
  rewrite conj_det in Hm1, Hm2 by exact HG.
  destruct (gset_aff _ _ _ _ _ _ _ R H1') as [Ha1 R1]. destruct (gset_aff _ _ _ _ _ _ _ R1 H2') as [Ha2 R2].
  destruct (gset_total _ _ _ _ (conj_matrix (amat G) (mmul M2 M1))
              (conj_shift (amat G) (ash G) (mmul M2 M1) (padd (mapp M2 s1) s2)) R) as [st12 H12].
  { rewrite conj_det by exact HG. rewrite mdet_mmul. intro E. apply Qcmult_integral in E. destruct E; contradiction. }
  exists st12. split; [unfold gset_ref; rewrite qc_is0_neq by exact HG; exact H12|].
  destruct (gset_aff _ _ _ _ _ _ _ R H12) as [Ha12 R12].
  apply (d2w_by_aff _ _ _ _ _ _ R12 R2). intro v. rewrite Ha12, Ha2, Ha1, !app_combine.
  set (u := app (g_aff st) v).
  (* work in arcsec: pull the unit factor k through the affine maps *)
  assert (L : forall C S q, app {| amat := C; ash := pscale k S |} q = pscale k (app (mk C S) (pscale ki q))).
  { intros C S q. dmat C. dpt S. dpt q. unfold mk. unf. ext.
    - transitivity (a * ((k * ki) * x0) + b * ((k * ki) * y0) + k * x); [rewrite k_ki; ring| ring].
    - transitivity (c * ((k * ki) * x0) + d * ((k * ki) * y0) + k * y); [rewrite k_ki; ring| ring]. }
  rewrite !L. rewrite !(pscale_pscale ki k) by apply ki_k'. f_equal.
  rewrite !conj_app by exact HG. rewrite inva_l by exact HG. rewrite app_mk_mk. reflexivity.
Qed.

(* a corrector rebuilt from the corrected WCS is the same state up to which WCS it calls "original" *)
Definition eqv (a b : gst) : Prop :=
  g_wcs a = g_wcs b /\ g_tpcorr a = g_tpcorr b /\ g_v23 a = g_v23 b /\ g_info a = g_info b.
Lemma eqv_refl a : eqv a a.
Proof. repeat split. Qed.
Lemma eqv_with_owcs a o : eqv a (with_owcs a o).
Proof. repeat split. Qed.
Lemma gset_eqv a b M s a' : eqv a b -> gset k a M s = Some a' -> exists b', gset k b M s = Some b' /\ eqv a' b'.
Proof.
  intros (E1 & E2 & E3 & E4). unfold gset. rewrite <- E1, <- E2, <- E3, <- E4.
  destruct (g_tpcorr a).
  - destruct (tpcorr_combine _ _ _); [|discriminate]. destruct (index_of _ _) as [[|i]|]; try discriminate.
    destruct (nth_error _ _) as [[pf x]|]; [|discriminate]. intro H. inversion H; subst a'.
    eexists. split; [reflexivity|]. repeat split.
  - destruct (tpcorr_combine _ _ _); [|discriminate]. destruct (index_of _ _) as [i|]; try discriminate.
    destruct (nth_error _ _) as [[pf x]|]; [|discriminate]. intro H. inversion H; subst a'.
    eexists. split; [reflexivity|]. repeat split.
Qed.
Lemma ginit_eqv w1 info1 a b : ginit w1 info1 = Some a -> ginit w1 info1 = Some b -> eqv a b.
Proof. intros H1 H2. rewrite H1 in H2. inversion H2. apply eqv_refl. Qed.
Lemma gstep_eqv a b o a' : eqv a b -> gstep k a o = Some a' -> exists b', gstep k b o = Some b' /\ eqv a' b'.
Proof.
  intros E. destruct o as [M s|G M s| |]; cbn [gstep].
  - apply gset_eqv. exact E.
  - unfold gset_ref. destruct (qc_is0 (adet G)); [discriminate|]. apply gset_eqv. exact E.
  - intro H. inversion H; subst a'. exists b. split; [reflexivity| exact E].
  - destruct E as (E1 & E2 & E3 & E4). rewrite <- E1, <- E4. intro H. exists a'. split; [exact H| apply eqv_refl].
Qed.
Lemma grun_eqv h : forall a b a', eqv a b -> grun k a h = Some a' -> exists b', grun k b h = Some b' /\ eqv a' b'.
Proof.
  induction h as [|o r IH]; intros a b a' E H; simpl in *.
  - inversion H; subst a'. exists b. split; [reflexivity| exact E].
  - destruct (gstep k a o) as [a1|] eqn:Ea; [|discriminate].
    destruct (gstep_eqv _ _ _ _ E Ea) as (b1 & Eb & E1). rewrite Eb. apply (IH a1 b1 a' E1 H).
Qed.
Lemma eqv_conv a b : eqv a b ->
  (forall p, d2w a p = d2w b p) /\ (forall x, w2d a x = w2d b x) /\ (forall p, d2t a p = d2t b p) /\
  (forall t, t2d a t = t2d b t) /\ (forall x, w2t a x = w2t b x) /\ (forall t, t2w a t = t2w b t).
Proof.
  intros (E1 & E2 & E3 & E4).
  unfold g_d2w, g_w2d, g_d2t, g_t2d, g_w2t, g_t2w, partial, partial_inv, tan_frame, g_aff.
  rewrite E1, E2, E3. repeat split.
Qed.

Theorem gwcs_C04_rewrap w info h st : reach k w info h st ->
  exists sr, ginit (g_wcs st) (g_info st) = Some sr /\ eqv st sr /\ g_owcs sr = g_wcs st /\
  forall h' st', grun k st h' = Some st' -> exists sr', grun k sr h' = Some sr' /\ eqv st' sr' /\
  (forall p, d2w st' p = d2w sr' p) /\ (forall x, w2t st' x = w2t sr' x) /\ (forall p, d2t st' p = d2t sr' p).
Proof.
  intro R. destruct (reach_shape _ _ _ _ _ R) as (pre & f & t0 & post & wl & Z & Sh).
  exists (with_owcs st (g_wcs st)). split; [apply (rewrap_shape _ _ _ _ _ _ Z Sh)|].
  split; [apply eqv_with_owcs|]. split; [reflexivity|].
  intros h' st' H. destruct (grun_eqv h' _ _ _ (eqv_with_owcs st (g_wcs st)) H) as (sr' & Hr & E).
  exists sr'. split; [exact Hr|]. split; [exact E|]. destruct (eqv_conv _ _ E) as (C1 & C2 & C3 & C4 & C5 & C6).
  repeat split; assumption.
Qed.

(* exactly one correction frame however many corrections were applied; never more than one *)
Theorem gwcs_C04_one_frame w info h st : reach k w info h st ->
  (count Fcorr (frames (g_wcs st)) <= 1)%nat /\
  (existsb is_correction h = true -> count Fcorr (frames (g_wcs st)) = 1%nat).
Proof.
  intros [V (st0 & Hi & Hr)]. destruct (ginit_shape _ _ _ V Hi) as (pre & f & t0 & post & wl & Z & Sh & _).
  assert (Sh' := grun_shape k _ _ _ _ _ h st0 st Z Sh Hr).
  rewrite (shape_count _ _ _ _ _ _ Z Sh'). split.
  - destruct (g_tpcorr st); lia.
  - intro Hc. assert (Hn := grun_tpcorr k _ _ _ _ _ h st0 st Z Sh Hr (or_introl Hc)).
    destruct (g_tpcorr st); [reflexivity| contradiction].
Qed.

(* the caller's WCS is never written *)
Theorem gwcs_C04_original_untouched w info h st : reach k w info h st -> ~ In OpRewrap h -> g_owcs st = w.
Proof.
  intros [V (st0 & Hi & Hr)] Hn. rewrite (grun_owcs k h st0 st Hr Hn).
  destruct (ginit_shape _ _ _ V Hi) as (pre & f & t0 & post & wl & _ & _ & _ & Ho & _). exact Ho.
Qed.


(* the three group laws in the corrector's own plane, in every reachable state *)
Theorem gwcs_C04_group w info h st : reach k w info h st ->
  (exists st', gset k st mid (0, 0) = Some st' /\ forall p, d2w st' p = d2w st p) /\
  (forall M s st1, gset k st M s = Some st1 ->
     exists st2, gset k st1 (minv M) (pneg (mapp (minv M) s)) = Some st2 /\ forall p, d2w st2 p = d2w st p) /\
  (forall M1 s1 st1 M2 s2 st2, gset k st M1 s1 = Some st1 -> gset k st1 M2 s2 = Some st2 ->
     exists st12, gset k st (mmul M2 M1) (padd (mapp M2 s1) s2) = Some st12 /\
                  g_aff st12 = g_aff st2 /\ forall p, d2w st12 p = d2w st2 p).
Proof.
  intro R. split; [apply (gwcs_C04_identity _ _ _ _ R)|]. split.
  - intros M s st1 H. apply (gwcs_C04_inverse _ _ _ _ _ _ _ R H).
  - intros M1 s1 st1 M2 s2 st2 H1 H2. apply (gwcs_C04_compose_own _ _ _ _ _ _ _ _ _ _ R H1 H2).
Qed.
(* bookkeeping over histories: one correction frame, untouched original *)
Theorem gwcs_C04_bookkeeping w info h st : reach k w info h st ->
  (count Fcorr (frames (g_wcs st)) <= 1)%nat /\
  (existsb is_correction h = true -> count Fcorr (frames (g_wcs st)) = 1%nat) /\
  (~ In OpRewrap h -> g_owcs st = w).
Proof.
  intro R. destruct (gwcs_C04_one_frame _ _ _ _ R) as [A B]. split; [exact A|]. split; [exact B|].
  apply (gwcs_C04_original_untouched _ _ _ _ R).
Qed.

(* ---------------------------------------------------------------- C20 (gWCS): the scale follows the correction *)
Lemma shoelace_affine_image M s q0 q1 q2 q3 :
  shoelace (padd (mapp M q0) s) (padd (mapp M q1) s) (padd (mapp M q2) s) (padd (mapp M q3) s)
  = Qcabs.Qcabs (mdet M) * shoelace q0 q1 q2 q3.
Proof.
  unfold shoelace. rewrite Qcmult_assoc, (Qcmult_comm (Qcabs.Qcabs (mdet M)) half), <- Qcmult_assoc. f_equal.
  rewrite <- Qcabs.Qcabs_Qcmult. f_equal.
  dmat M. dpt s. dpt q0. dpt q1. dpt q2. dpt q3. unf. ring.
Qed.
Theorem gwcs_C20_follows w info h st M s st' (mk' : pt -> X) x y : reach k w info h st -> gset k st M s = Some st' ->
  pscale_sq (d2t st') mk' x y = Qcabs.Qcabs (mdet M) * pscale_sq (d2t st) mk' x y.
Proof.
  intros R H. unfold pscale_sq, pixel_corners. cbn [map].
  rewrite !(d2t_after_gset _ _ _ _ _ _ _ _ R H). apply shoelace_affine_image.
Qed.
End Sem.
