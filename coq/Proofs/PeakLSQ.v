(* C12: the exact least-squares solution used for execution (normal equations, proved Gauss-Jordan inverse) recovers
   the coefficients of any quadratic that interpolates the data; hence on a sampled concave paraboloid the model of
   _find_peak returns SUCCESS exactly at the vertex. *)
From Coq Require Import QArith Qabs ZArith List Bool Arith Lia Lqa Psatz.
From TW Require Import GJModel GJSum GJProof1 GJProof3 GJProof4 Peak PeakBounds PeakVertex.
Import ListNotations.
Open Scope Q_scope.

Definition cvec (c : coef6) (k : nat) : Q := nth k [c00 c; c10 c; c01 c; c11 c; c20 c; c02 c] 0.
Definition phiq (p : Z * Z * Z) (k : nat) : Q := inject_Z (nth k (phi p) 0%Z).

Definition interpolates (c : coef6) (pts : list (Z * Z * Z)) : Prop :=
  forall p, In p pts -> inject_Z (pd p) == qeval c (inject_Z (px p)) (inject_Z (py p)).

Lemma qeval_phi c p : qeval c (inject_Z (px p)) (inject_Z (py p)) == vsum (seq 0 6) (fun k => phiq p k * cvec c k).
Proof.
  unfold qeval, vsum, phiq, cvec, phi. cbn [seq fold_right nth]. rewrite !inject_Z_mult. change (inject_Z 1) with 1. ring.
Qed.

Definition Gq (pts : list (Z * Z * Z)) (a b : nat) : Q :=
  inject_Z (sumz (fun p => (nth a (phi p) 0 * nth b (phi p) 0)%Z) pts).
Definition Rq (pts : list (Z * Z * Z)) (a : nat) : Q :=
  inject_Z (sumz (fun p => (nth a (phi p) 0 * pd p)%Z) pts).

Lemma rhs_from_gram c pts a : interpolates c pts ->
  Rq pts a == vsum (seq 0 6) (fun k => Gq pts a k * cvec c k).
Proof.
  induction pts as [|p l IH]; intros H.
  - unfold Rq, Gq. simpl. ring.
  - assert (Hl: interpolates c l) by (intros q Hq; apply H; right; exact Hq).
    specialize (IH Hl). pose proof (H p (or_introl eq_refl)) as Hp. rewrite qeval_phi in Hp.
    unfold Rq in *. cbn [sumz fold_right]. fold (sumz (fun p0 => (nth a (phi p0) 0 * pd p0)%Z) l).
    rewrite inject_Z_plus, IH, inject_Z_mult, Hp.
    rewrite <- vsum_scal. rewrite <- vsum_add. apply vsum_ext. intros k _.
    unfold Gq. cbn [sumz fold_right]. fold (sumz (fun p0 => (nth a (phi p0) 0 * nth k (phi p0) 0)%Z) l).
    rewrite inject_Z_plus, inject_Z_mult. unfold phiq. ring.
Qed.

Lemma gram_square pts : square 6 (gram pts).
Proof.
  unfold square, gram, tabm, tabv. split; [reflexivity|].
  intros r Hr. apply in_map_iff in Hr. destruct Hr as [i [<- _]]. rewrite map_length, seq_length. reflexivity.
Qed.

Lemma mnth_gram pts a b : (a < 6)%nat -> (b < 6)%nat -> mnth (gram pts) a b = Gq pts a b.
Proof. intros Ha Hb. unfold gram. rewrite mnth_tabm by assumption. reflexivity. Qed.

Lemma qnth_rhs pts a : (a < 6)%nat -> qnth (rhs pts) a = Rq pts a.
Proof. intros Ha. unfold rhs. rewrite qnth_tabv by assumption. reflexivity. Qed.

Lemma dotq_vsum n f g : dotq n f g == vsum (seq 0 n) (fun k => f k * g k).
Proof.
  unfold dotq, vsum. induction (seq 0 n) as [|k l IH]; cbn [fold_right]; [reflexivity|].
  rewrite Qred_correct, IH. reflexivity.
Qed.

Lemma solve_component pts X c a : interpolates c pts -> inv_gj (gram pts) = Ok X -> (a < 6)%nat ->
  dotq 6 (fun b => mnth X a b) (fun b => qnth (rhs pts) b) == cvec c a.
Proof.
  intros Hi HX Ha. rewrite dotq_vsum.
  transitivity (vsum (seq 0 6) (fun b => vsum (seq 0 6) (fun k => mnth X a b * mnth (gram pts) b k * cvec c k))).
  { apply vsum_ext. intros b Hb. apply in_seq in Hb. rewrite qnth_rhs by lia. rewrite (rhs_from_gram c pts b Hi).
    rewrite <- vsum_scal. apply vsum_ext. intros k Hk. apply in_seq in Hk. rewrite mnth_gram by lia. ring. }
  rewrite vsum_swap.
  transitivity (vsum (seq 0 6) (fun k => cvec c k * delta k a)).
  { apply vsum_ext. intros k Hk. apply in_seq in Hk.
    pose proof (inv_gj_left_inverse 6 (gram pts) X (gram_square pts) HX a k Ha ltac:(lia)) as L.
    transitivity (vsum (seq 0 6) (fun j => mnth X a j * mnth (gram pts) j k) * cvec c k).
    - rewrite <- vsum_scal_r. apply vsum_ext. intros; ring.
    - rewrite L. unfold delta. rewrite (Nat.eqb_sym a k). ring. }
  apply vsum_delta. exact Ha.
Qed.

Lemma lsq6_inv pts cf : lsq6 pts = LCoef cf -> exists X, inv_gj (gram pts) = Ok X /\ cf = coef_of X (rhs pts).
Proof.
  unfold lsq6. generalize (inv_gj (gram pts)). intros r H. destruct r as [X| |]; try discriminate.
  exists X. split; [reflexivity|]. congruence.
Qed.

Theorem lsq6_exact_recovery pts c cf : interpolates c pts -> lsq6 pts = LCoef cf ->
  c00 cf == c00 c /\ c10 cf == c10 c /\ c01 cf == c01 c /\ c11 cf == c11 c /\ c20 cf == c20 c /\ c02 cf == c02 c.
Proof.
  intros Hi H. apply lsq6_inv in H. destruct H as [X [E ->]].
  pose proof (solve_component pts X c 0 Hi E ltac:(lia)) as S0.
  pose proof (solve_component pts X c 1 Hi E ltac:(lia)) as S1.
  pose proof (solve_component pts X c 2 Hi E ltac:(lia)) as S2.
  pose proof (solve_component pts X c 3 Hi E ltac:(lia)) as S3.
  pose proof (solve_component pts X c 4 Hi E ltac:(lia)) as S4.
  pose proof (solve_component pts X c 5 Hi E ltac:(lia)) as S5.
  unfold coef_of. cbn [c00 c10 c01 c11 c20 c02].
  split; [exact S0|]. split; [exact S1|]. split; [exact S2|]. split; [exact S3|]. split; [exact S4| exact S5].
Qed.

(* finish only depends on the coefficients up to == *)
Theorem finish_paraboloid_eq cf p0 a b c xv yv pts x1 x2 y1 y2 :
  c10 cf == c10 (paraboloid_coef p0 a b c xv yv) -> c01 cf == c01 (paraboloid_coef p0 a b c xv yv) ->
  c11 cf == b -> c20 cf == a -> c02 cf == c ->
  a < 0 -> 0 < 4 * a * c - b * b ->
  1 <= xv <= inject_Z (x2 - x1) -> 1 <= yv <= inject_Z (y2 - y1) ->
  let r := finish (Some cf) pts x1 x2 y1 y2 in
  fst (fst r) == xv + inject_Z x1 - 1 /\ snd (fst r) == yv + inject_Z y1 - 1 /\ snd r = Success.
Proof.
  intros H10 H01 H11 H20 H02 Ha Hd [Hx1 Hx2] [Hy1 Hy2]. cbv zeta.
  cbn [paraboloid_coef c10 c01] in H10, H01.
  assert (Hc: c < 0) by nra.
  assert (Hn: ~ 4 * c * a - b * b == 0) by lra.
  assert (D: fit_det cf == 4 * c * a - b * b) by (unfold fit_det; rewrite H02, H20, H11; reflexivity).
  assert (VX: vertex_x cf == xv).
  { unfold vertex_x. rewrite D, H01, H11, H02, H10. field. exact Hn. }
  assert (VY: vertex_y cf == yv).
  { unfold vertex_y. rewrite D, H01, H11, H20, H10. field. exact Hn. }
  unfold finish.
  assert (NM: no_max cf = false).
  { unfold no_max. rewrite (Qleb'_false (fit_det cf) 0) by (rewrite D; lra).
    rewrite (Qltb'_false 0 (c20 cf)) by (rewrite H20; lra). rewrite (Qleb'_false 0 (c20 cf)) by (rewrite H20; lra).
    reflexivity. }
  rewrite NM. rewrite inject_Z_sub in Hx2, Hy2.
  assert (G1: Qleb' (inject_Z x1) (Qred (vertex_x cf + inject_Z x1 - 1)) = true)
    by (apply Qleb'_intro; rewrite Qred_correct, VX; absz; lra).
  assert (G2: Qleb' (Qred (vertex_x cf + inject_Z x1 - 1)) (inject_Z x2 - 1) = true)
    by (apply Qleb'_intro; rewrite Qred_correct, VX; absz; lra).
  assert (G3: Qleb' (inject_Z y1) (Qred (vertex_y cf + inject_Z y1 - 1)) = true)
    by (apply Qleb'_intro; rewrite Qred_correct, VY; absz; lra).
  assert (G4: Qleb' (Qred (vertex_y cf + inject_Z y1 - 1)) (inject_Z y2 - 1) = true)
    by (apply Qleb'_intro; rewrite Qred_correct, VY; absz; lra).
  rewrite G1, G2, G3, G4. cbn [andb fst snd]. rewrite !Qred_correct, VX, VY.
  split; [reflexivity|]. split; reflexivity.
Qed.

(* end to end on the executable model: integer samples of a concave paraboloid over the fit points, full-rank design,
   vertex inside the fit box  =>  SUCCESS exactly at the vertex *)
Theorem find_peak_paraboloid ny nx h m bx x1 x2 y1 y2 pts p0 a b c xv yv :
  stage1_of ny nx h m bx = NeedFit x1 x2 y1 y2 pts ->
  interpolates (paraboloid_coef p0 a b c xv yv) pts ->
  lsq6 pts <> LRankDef ->
  a < 0 -> 0 < 4 * a * c - b * b ->
  1 <= xv <= inject_Z (x2 - x1) -> 1 <= yv <= inject_Z (y2 - y1) ->
  exists p, find_peak_exec ny nx h m bx = Some p /\ p_st p = Success /\
            p_x p == xv + inject_Z x1 - 1 /\ p_y p == yv + inject_Z y1 - 1 /\
            p_x1 p = x1 /\ p_x2 p = x2 /\ p_y1 p = y1 /\ p_y2 p = y2.
Proof.
  intros S I R Ha Hd Hx Hy. unfold find_peak_exec. rewrite S.
  destruct (lsq6 pts) as [cf|] eqn:L; [|contradiction].
  destruct (lsq6_exact_recovery pts _ cf I L) as [_ [E10 [E01 [E11 [E20 E02]]]]].
  pose proof (finish_paraboloid_eq cf p0 a b c xv yv pts x1 x2 y1 y2 E10 E01 E11 E20 E02 Ha Hd Hx Hy) as F.
  cbv zeta in F. destruct F as [F1 [F2 F3]].
  eexists. split; [reflexivity|]. cbn [mkpeak p_st p_x p_y p_x1 p_x2 p_y1 p_y2]. auto 10.
Qed.
