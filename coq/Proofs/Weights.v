(* C08/C09: sums are invariant under permutation and under removal of zero-weight pairs; weight combination;
   C14: id assignment of RefCatalog.expand_catalog *)
From Coq Require Import QArith List Bool Arith Lia Lqa Permutation ZArith.
Require Import LSQ.
Import ListNotations.
Open Scope Q_scope.

Lemma sumQ_perm f l l' : Permutation l l' -> sumQ f l == sumQ f l'.
Proof.
  induction 1 as [| x l l' _ IH | x y l | l l' l'' _ IH1 _ IH2]; simpl.
  - reflexivity.
  - rewrite IH; reflexivity.
  - ring.
  - rewrite IH1; exact IH2.
Qed.

(* every moment sum has the form  sumQ (fun p => pw p * g p);  a zero-weight pair contributes nothing,
   whatever its coordinates are *)
Lemma sumQ_zero_weight (g : pr -> Q) l :
  sumQ (fun p => pw p * g p) l == sumQ (fun p => pw p * g p) (filter (fun p => negb (Qeq_bool (pw p) 0)) l).
Proof.
  induction l as [|p l IH]; simpl; [reflexivity|].
  destruct (Qeq_bool (pw p) 0) eqn:E; simpl.
  - apply Qeq_bool_iff in E. rewrite E, IH. ring.
  - rewrite IH. reflexivity.
Qed.

(* scaling all weights by c > 0 scales every moment sum by c (so every ratio of moment sums is unchanged) *)
Definition scale_w (c : Q) (p : pr) : pr := {| px := px p; py := py p; pu := pu p; pv := pv p; pw := c * pw p |}.
Lemma sumQ_scale_w c (g : pr -> Q) (Hg : forall p, g (scale_w c p) = g p) l :
  sumQ (fun p => pw p * g p) (map (scale_w c) l) == c * sumQ (fun p => pw p * g p) l.
Proof.
  induction l as [|p l IH]; simpl; [ring|]. rewrite IH, Hg. ring.
Qed.

(* weight combination of fit_shifts/fit_rscale/fit_general when both catalogs carry weights *)
Definition comb (wxy wuv : Q) : Q :=
  if (Qlt_le_dec 0 wxy) then (if Qlt_le_dec 0 wuv then wxy * wuv / (wxy + wuv) else 0) else 0.
Theorem harmonic wxy wuv : 0 < wxy -> 0 < wuv -> / comb wxy wuv == / wxy + / wuv.
Proof.
  intros H1 H2. unfold comb. destruct (Qlt_le_dec 0 wxy); [|lra]. destruct (Qlt_le_dec 0 wuv); [|lra].
  field. repeat split; lra.
Qed.
Theorem comb_zero wxy wuv : wxy <= 0 \/ wuv <= 0 -> comb wxy wuv == 0.
Proof. intros [H|H]; unfold comb; destruct (Qlt_le_dec 0 wxy); destruct (Qlt_le_dec 0 wuv); try reflexivity; lra. Qed.

(* ---- RefCatalog.expand_catalog: new ids are maxid+1 ... maxid+k ---- *)
Definition maxid (ids : list Z) : Z := fold_right Z.max 0%Z ids.   (* ids of a non-empty catalog; ids >= 1 *)
Definition expand_ids (ids : list Z) (k : nat) : list Z :=
  ids ++ map (fun j => (maxid ids + 1 + Z.of_nat j)%Z) (seq 0 k).
Lemma maxid_ge ids x : In x ids -> (x <= maxid ids)%Z.
Proof. induction ids as [|y ids IH]; intros H; [contradiction|]. simpl. destruct H as [->|H]; [lia| specialize (IH H); lia]. Qed.
Theorem expand_ids_spec ids k :
  firstn (length ids) (expand_ids ids k) = ids /\                      (* original ids unchanged, in order *)
  (forall j, (j < k)%nat -> nth (length ids + j) (expand_ids ids k) 0%Z = (maxid ids + 1 + Z.of_nat j)%Z) /\
  (NoDup ids -> NoDup (expand_ids ids k)) /\                            (* fresh *)
  length (expand_ids ids k) = (length ids + k)%nat.
Proof.
  unfold expand_ids. repeat split.
  - rewrite firstn_app, Nat.sub_diag, firstn_all. simpl. apply app_nil_r.
  - intros j Hj. rewrite app_nth2 by lia. replace (length ids + j - length ids)%nat with j by lia.
    set (F := fun j0 : nat => (maxid ids + 1 + Z.of_nat j0)%Z).
    rewrite (nth_indep _ 0%Z (F 0%nat)) by (rewrite map_length, seq_length; exact Hj).
    rewrite (map_nth F). rewrite seq_nth by exact Hj. reflexivity.
  - intros Hnd.
    assert (G: forall l1 l2 : list Z, NoDup l1 -> NoDup l2 -> (forall x, In x l1 -> In x l2 -> False) -> NoDup (l1 ++ l2)).
    { induction l1 as [|x l1 IH]; intros l2 H1 H2 H3; simpl; [exact H2|].
      inversion H1; subst. constructor.
      - intro Hin. apply in_app_or in Hin. destruct Hin as [Hin|Hin]; [contradiction| apply (H3 x); [left; reflexivity| exact Hin]].
      - apply IH; auto. intros y Hy1 Hy2. apply (H3 y); [right; exact Hy1| exact Hy2]. }
    apply G; [exact Hnd| |].
    + apply FinFun.Injective_map_NoDup; [intros a b H; lia| apply seq_NoDup].
    + intros x Hx Hin. apply in_map_iff in Hin. destruct Hin as [j [<- _]].
      pose proof (maxid_ge ids _ Hx). lia.
  - rewrite app_length, map_length, seq_length. reflexivity.
Qed.
Print Assumptions expand_ids_spec.
Print Assumptions harmonic.
