(* fit_rscale of tweakwcs.linearfit (after repairs F1, F12): rational normal form and optimality
   over the similarity family including reflections *)
From Coq Require Import QArith Qabs List Bool Arith Lia Lqa Psatz.
Require Import LSQ.
Import ListNotations.
Open Scope Q_scope.

Section RS.
Variable l : list pr.
Notation W := (sw l).
Hypothesis Wpos : 0 < W.
Hypothesis wnn : forall z, In z l -> 0 <= pw z.

(* weighted means (the code normalises the weights to sum 1) *)
Definition xm := sx l / W.  Definition ym := sy l / W.
Definition um := su l / W.  Definition vm := sv l / W.
(* centred second moments, un-normalised (a common factor 1/W cancels in every ratio below) *)
Definition cxu := sxu l - sx l * su l / W.   Definition cxv := sxv l - sx l * sv l / W.
Definition cyu := syu l - sy l * su l / W.   Definition cyv := syv l - sy l * sv l / W.
Definition q2  := (suu l - su l * su l / W) + (svv l - sv l * sv l / W).

Definition detc := cxu * cyv - cxv * cyu.
Definition flip : bool := if Qlt_le_dec detc 0 then true else false.
Definition den := if flip then cxu - cyv else cxu + cyv.
Definition num := if flip then cxv + cyu else cxv - cyu.

(* model output: matrix rows p = (a, b), q = (-b, a) or (b, -a); shift *)
Definition ma := den / q2.   Definition mb := num / q2.
Record sim := { sa : Q; sb_ : Q; sflip : bool; s1 : Q; s2 : Q }.
Definition f10 (t : sim) := if sflip t then sb_ t else - sb_ t.
Definition f11 (t : sim) := if sflip t then - sa t else sa t.
Definition model : sim :=
  let t0 := {| sa := ma; sb_ := mb; sflip := flip; s1 := 0; s2 := 0 |} in
  {| sa := ma; sb_ := mb; sflip := flip;
     s1 := xm - (ma * um + mb * vm); s2 := ym - (f10 t0 * um + f11 t0 * vm) |}.

Definition ssr_sim (t : sim) : Q :=
  sumQ (fun p => pw p * (sq (px p - (sa t * pu p + sb_ t * pv p + s1 t))
                       + sq (py p - (f10 t * pu p + f11 t * pv p + s2 t)))) l.

(* closed form of the SSR of any member of the family *)
Definition kk := (sumQ (fun p => pw p * (px p * px p)) l - sx l * sx l / W)
               + (sumQ (fun p => pw p * (py p * py p)) l - sy l * sy l / W).
Definition dn (f : bool) := if f then cxu - cyv else cxu + cyv.
Definition nm (f : bool) := if f then cxv + cyu else cxv - cyu.
Definition dl1 (t : sim) := xm - (sa t * um + sb_ t * vm) - s1 t.
Definition dl2 (t : sim) := ym - (f10 t * um + f11 t * vm) - s2 t.

Lemma ssr_closed t :
  ssr_sim t == W * (sq (dl1 t) + sq (dl2 t)) + kk
               - 2 * (sa t * dn (sflip t) + sb_ t * nm (sflip t)) + (sq (sa t) + sq (sb_ t)) * q2.
Proof.
  assert (HW: ~ W == 0) by lra.
  unfold ssr_sim.
  set (a := sa t). set (b := sb_ t). set (c := f10 t). set (d := f11 t). set (e := s1 t). set (g := s2 t).
  rewrite (sumQ_ext _ (fun p =>
      pw p * (px p * px p) + (pw p * (py p * py p)
    + ((sq a + sq c) * (pw p * (pu p * pu p)) + ((sq b + sq d) * (pw p * (pv p * pv p))
    + ((2*a*b + 2*c*d) * (pw p * (pu p * pv p))
    + ((-2*a) * (pw p * (px p * pu p)) + ((-2*b) * (pw p * (px p * pv p))
    + ((-2*c) * (pw p * (py p * pu p)) + ((-2*d) * (pw p * (py p * pv p))
    + ((-2*e) * (pw p * px p) + ((-2*g) * (pw p * py p)
    + ((2*a*e + 2*c*g) * (pw p * pu p) + ((2*b*e + 2*d*g) * (pw p * pv p)
    + (sq e + sq g) * pw p))))))))))))) l).
  2:{ intros p _. unfold sq. ring. }
  rewrite !sumQ_add, !sumQ_scal.
  fold (suu l) (svv l) (suv l) (sxu l) (sxv l) (syu l) (syv l) (sx l) (sy l) (su l) (sv l) (sw l).
  unfold dl1, dl2, kk, q2, dn, nm, cxu, cxv, cyu, cyv, xm, ym, um, vm, sq.
  fold a b c d e g. unfold c, d, f10, f11. fold a b.
  destruct (sflip t); field; exact HW.
Qed.

Hypothesis q2pos : 0 < q2.

Theorem rscale_optimal t : ssr_sim model <= ssr_sim t.
Proof.
  assert (Hq: ~ q2 == 0) by lra.
  rewrite (ssr_closed model), (ssr_closed t).
  assert (Z1: dl1 model == 0) by (unfold dl1, model; cbn [sa sb_ s1]; ring).
  assert (Z2: dl2 model == 0) by (unfold dl2, model, f10, f11; cbn [sa sb_ sflip s2]; destruct flip; ring).
  assert (Z1': sq (dl1 model) == 0) by (unfold sq; rewrite Z1; ring).
  assert (Z2': sq (dl2 model) == 0) by (unfold sq; rewrite Z2; ring).
  rewrite Z1', Z2'.
  cbn [sa sb_ sflip model].
  assert (Ed: dn flip == den) by (unfold dn, den; destruct flip; reflexivity).
  assert (En: nm flip == num) by (unfold nm, num; destruct flip; reflexivity).
  rewrite Ed, En.
  (* value at the model: kk - (den^2+num^2)/q2 *)
  assert (Vm: W * (0 + 0) + kk - 2 * (ma * den + mb * num) + (sq ma + sq mb) * q2
              == kk - (sq den + sq num) / q2).
  { unfold ma, mb, sq. field. exact Hq. }
  rewrite Vm.
  (* value of the competitor is bounded below by kk - (dn^2+nm^2)/q2 of ITS branch *)
  set (f := sflip t).
  assert (Vt: W * (sq (dl1 t) + sq (dl2 t)) + kk - 2 * (sa t * dn f + sb_ t * nm f) + (sq (sa t) + sq (sb_ t)) * q2
              == W * (sq (dl1 t) + sq (dl2 t)) + q2 * (sq (sa t - dn f / q2) + sq (sb_ t - nm f / q2))
                 + (kk - (sq (dn f) + sq (nm f)) / q2)).
  { unfold sq. field. exact Hq. }
  rewrite Vt.
  assert (P1: 0 <= W * (sq (dl1 t) + sq (dl2 t))).
  { apply Qmult_le_0_compat; [lra|]. pose proof (sq_nonneg (dl1 t)). pose proof (sq_nonneg (dl2 t)). lra. }
  assert (P2: 0 <= q2 * (sq (sa t - dn f / q2) + sq (sb_ t - nm f / q2))).
  { apply Qmult_le_0_compat; [lra|]. pose proof (sq_nonneg (sa t - dn f / q2)). pose proof (sq_nonneg (sb_ t - nm f / q2)). lra. }
  (* branch choice: den^2+num^2 >= dn f^2 + nm f^2 *)
  assert (B: sq (dn f) + sq (nm f) <= sq den + sq num).
  { unfold den, num, dn, nm, flip, sq.
    destruct (Qlt_le_dec detc 0) as [Hd|Hd]; destruct f; unfold detc in Hd; nra. }
  assert (B': (sq (dn f) + sq (nm f)) / q2 <= (sq den + sq num) / q2).
  { unfold Qdiv. apply Qmult_le_compat_r; [exact B|]. apply Qlt_le_weak, Qinv_lt_0_compat; exact q2pos. }
  lra.
Qed.
End RS.
Print Assumptions rscale_optimal.
