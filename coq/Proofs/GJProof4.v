(* right inverse: track a left inverse C of the right-hand block B through all operations *)
From Coq Require Import QArith Qabs List Bool Arith Lia Permutation.
Require Import GJModel GJSum GJProof1 GJProof2 GJProof3.
Import ListNotations.
Open Scope Q_scope.

Lemma vsum_swap l l' (F : nat -> nat -> Q) :
  vsum l (fun j => vsum l' (fun r => F j r)) == vsum l' (fun r => vsum l (fun j => F j r)).
Proof.
  induction l as [|x l IH]; simpl.
  - symmetry. apply vsum_zero. intros; reflexivity.
  - rewrite IH. rewrite <- vsum_add. reflexivity.
Qed.

Section Right.
Variable n : nat.

Definition MM (f g : nat -> nat -> Q) (i l : nat) : Q := vsum (seq 0 n) (fun j => f i j * g j l).

Lemma MM_ext f f' g g' i l :
  (forall j, (j < n)%nat -> f i j == f' i j) -> (forall j, (j < n)%nat -> g j l == g' j l) ->
  MM f g i l == MM f' g' i l.
Proof. intros H1 H2. apply vsum_ext. intros j Hj. apply in_seq in Hj. rewrite H1, H2 by lia. reflexivity. Qed.

Lemma MM_assoc f g h i l : MM (MM f g) h i l == MM f (MM g h) i l.
Proof.
  unfold MM.
  rewrite (vsum_ext _ _ (fun j => vsum (seq 0 n) (fun r => f i r * g r j * h j l))).
  2:{ intros j _. rewrite <- vsum_scal_r. reflexivity. }
  rewrite vsum_swap. apply vsum_ext. intros r _.
  rewrite <- vsum_scal. apply vsum_ext. intros j _. ring.
Qed.

Lemma MM_delta_l g i l : (i < n)%nat -> MM delta g i l == g i l.
Proof. intros Hi. unfold MM.
  rewrite (vsum_ext _ _ (fun j => g j l * delta j i)).
  - apply (vsum_delta n (fun j => g j l) i Hi).
  - intros. rewrite (delta_sym i j). ring. Qed.
Lemma MM_delta_r f i l : (l < n)%nat -> MM f delta i l == f i l.
Proof. intros Hl. unfold MM. apply (vsum_delta n (fun j => f i j) l Hl). Qed.

Definition IsI (f : nat -> nat -> Q) : Prop := forall i l, (i < n)%nat -> (l < n)%nat -> f i l == delta i l.
Definition HasLInv (b : nat -> nat -> Q) : Prop := exists C, IsI (MM C b).

(* if b' = E * b on [0,n)^2 and F*E = I then b' has a left inverse when b has *)
Lemma linv_mul b b' E F :
  (forall i j, (i < n)%nat -> (j < n)%nat -> b' i j == MM E b i j) ->
  IsI (MM F E) -> HasLInv b -> HasLInv b'.
Proof.
  intros Hb HFE [C HC]. exists (MM C F). intros i l Hi Hl.
  rewrite (MM_ext _ (MM C F) b' (MM E b) i l); [| intros; reflexivity | intros; apply Hb; assumption].
  rewrite MM_assoc.
  rewrite (MM_ext C C (MM F (MM E b)) b i l); [apply HC; assumption | intros; reflexivity |].
  intros j Hj. rewrite <- MM_assoc.
  rewrite (MM_ext (MM F E) delta b b j l); [apply MM_delta_l; assumption | | intros; reflexivity].
  intros r Hr. apply HFE; assumption.
Qed.

(* conjugation by transpositions *)
Lemma linv_conj b a1 b1 a2 b2 :
  (a1 < n)%nat -> (b1 < n)%nat -> (a2 < n)%nat -> (b2 < n)%nat ->
  HasLInv b -> HasLInv (fun i j => b (transp a1 b1 i) (transp a2 b2 j)).
Proof.
  intros H1 H2 H3 H4 [C HC].
  exists (fun i j => C (transp a2 b2 i) (transp a1 b1 j)).
  intros i l Hi Hl. unfold MM.
  set (G := fun j' => C (transp a2 b2 i) j' * b j' (transp a2 b2 l)).
  transitivity (vsum (seq 0 n) (fun j => G (transp a1 b1 j))).
  { apply vsum_ext. intros j _. unfold G. reflexivity. }
  rewrite (vsum_reindex_transp n a1 b1 G) by assumption.
  unfold G. change (MM C b (transp a2 b2 i) (transp a2 b2 l) == delta i l).
  transitivity (delta (transp a2 b2 i) (transp a2 b2 l)); [apply HC; apply transp_lt; assumption|].
  unfold delta. destruct (Nat.eqb_spec (transp a2 b2 i) (transp a2 b2 l)) as [E|E];
    destruct (Nat.eqb_spec i l) as [E'|E']; try reflexivity.
  - apply transp_inj in E. contradiction.
  - subst. contradiction.
Qed.

Lemma hasLInv_ext b b' : (forall i j, (i < n)%nat -> (j < n)%nat -> b' i j == b i j) -> HasLInv b -> HasLInv b'.
Proof. intros H [C HC]. exists C. intros i l Hi Hl.
  rewrite (MM_ext C C b' b i l); [apply HC; assumption| intros; reflexivity| intros; apply H; assumption]. Qed.

(* the Gauss column operation and its inverse *)
Definition Eg (k : nat) (pv : Q) (c : nat -> Q) (i r : nat) : Q :=
  if Nat.eqb i k then delta k r / pv
  else if Nat.ltb k i then delta i r - c i * (delta k r / pv)
  else delta i r.
Definition Fg (k : nat) (pv : Q) (c : nat -> Q) (i r : nat) : Q :=
  if Nat.eqb i k then pv * delta k r
  else if Nat.ltb k i then delta i r + c i * delta k r
  else delta i r.

Lemma Eg_apply k pv c x i j : (k < n)%nat -> (i < n)%nat ->
  MM (Eg k pv c) x i j ==
  (if Nat.eqb i k then x k j / pv else if Nat.ltb k i then x i j - c i * (x k j / pv) else x i j).
Proof.
  intros Hk Hi. unfold MM, Eg.
  destruct (Nat.eqb i k).
  - rewrite (vsum_ext _ _ (fun r => (x r j * / pv) * delta r k)) by (intros; rewrite (delta_sym k); unfold Qdiv; ring).
    rewrite (vsum_delta n (fun r => x r j * / pv) k Hk). unfold Qdiv; ring.
  - destruct (Nat.ltb k i).
    + rewrite (vsum_ext _ _ (fun r => x r j * delta r i - (c i * / pv) * (x r j * delta r k)))
        by (intros; rewrite (delta_sym k), (delta_sym i); unfold Qdiv; ring).
      rewrite vsum_sub, vsum_scal.
      rewrite (vsum_delta n (fun r => x r j) i Hi), (vsum_delta n (fun r => x r j) k Hk). unfold Qdiv; ring.
    + rewrite (vsum_ext _ _ (fun r => x r j * delta r i)) by (intros; rewrite (delta_sym i); ring).
      apply (vsum_delta n (fun r => x r j) i Hi).
Qed.

Lemma FgEg k pv c : (k < n)%nat -> ~ pv == 0 -> IsI (MM (Fg k pv c) (Eg k pv c)).
Proof.
  intros Hk Hpv i l Hi Hl. unfold MM.
  (* F i r is delta i r * d_i + extra at r = k *)
  unfold Fg.
  destruct (Nat.eqb_spec i k) as [->|Hik].
  - rewrite (vsum_ext _ _ (fun r => (pv * Eg k pv c r l) * delta r k)) by (intros; rewrite (delta_sym k); ring).
    rewrite (vsum_delta n (fun r => pv * Eg k pv c r l) k Hk).
    unfold Eg. rewrite Nat.eqb_refl. field. exact Hpv.
  - destruct (Nat.ltb_spec k i) as [Hlt|Hge].
    + rewrite (vsum_ext _ _ (fun r => Eg k pv c r l * delta r i + c i * (Eg k pv c r l * delta r k)))
        by (intros; rewrite (delta_sym k), (delta_sym i); ring).
      rewrite vsum_add, vsum_scal.
      rewrite (vsum_delta n (fun r => Eg k pv c r l) i Hi), (vsum_delta n (fun r => Eg k pv c r l) k Hk).
      unfold Eg. rewrite Nat.eqb_refl.
      destruct (Nat.eqb_spec i k); [lia|]. destruct (Nat.ltb_spec k i); [|lia]. field. exact Hpv.
    + rewrite (vsum_ext _ _ (fun r => Eg k pv c r l * delta r i)) by (intros; rewrite (delta_sym i); ring).
      rewrite (vsum_delta n (fun r => Eg k pv c r l) i Hi).
      unfold Eg. destruct (Nat.eqb_spec i k); [lia|]. destruct (Nat.ltb_spec k i); [lia|]. reflexivity.
Qed.

End Right.
