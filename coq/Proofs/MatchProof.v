(* C11: the specification matcher under unambiguity: equals the ground truth, partial bijection, indices in range,
   no repeats, row-order independence; combination with the half-bin theorem of C12. *)
From Coq Require Import QArith Qabs List Bool Arith Lia Lqa Psatz FinFun.
From TW Require Import Match.
Import ListNotations.
Open Scope Q_scope.

Lemma NoDup_app'' {A} (l1 l2 : list A) : NoDup l1 -> NoDup l2 -> (forall x, In x l1 -> ~ In x l2) -> NoDup (l1 ++ l2).
Proof.
  induction l1 as [|a l1 IH]; simpl; intros H1 H2 H; [exact H2|].
  inversion H1; subst. constructor.
  - rewrite in_app_iff. intros [X|X]; [contradiction| apply (H a); auto].
  - apply IH; auto.
Qed.

Lemma NoDup_list_prod' {A B} (l1 : list A) (l2 : list B) : NoDup l1 -> NoDup l2 -> NoDup (list_prod l1 l2).
Proof.
  induction l1 as [|a l1 IH]; simpl; intros H1 H2; [constructor|].
  inversion H1; subst. apply NoDup_app''.
  - apply Injective_map_NoDup; [intros x y [= ->]; reflexivity| exact H2].
  - apply IH; assumption.
  - intros [x y] Hin Hin2. apply in_map_iff in Hin. destruct Hin as [y' [[= <- <-] _]].
    apply in_prod_iff in Hin2. destruct Hin2; contradiction.
Qed.

Lemma close_spec off tol r m : close off tol r m = true <-> resid2 off r m <= tol * tol.
Proof. unfold close. apply Qle_bool_iff. Qed.

Theorem true_pairs_spec ref im off tol i k :
  In (i, k) (true_pairs ref im off tol) <->
  (i < length ref)%nat /\ (k < length im)%nat /\ resid2 off (rnth ref i) (rnth im k) <= tol * tol.
Proof.
  unfold true_pairs. rewrite filter_In, in_prod_iff, !in_seq. cbn [fst snd]. rewrite close_spec. split.
  - intros [[H1 H2] H3]. repeat split; try lia. exact H3.
  - intros [H1 [H2 H3]]. repeat split; try lia. exact H3.
Qed.

Theorem true_pairs_NoDup ref im off tol : NoDup (true_pairs ref im off tol).
Proof. unfold true_pairs. apply NoDup_filter. apply NoDup_list_prod'; apply seq_NoDup. Qed.

(* ground truth: a list of (reference index, image index) pairs; unambiguity w.r.t. offset and tolerance *)
Definition unambiguous (ref im : list mpt) (off : mpt) (tol : Q) (truth : list (nat * nat)) : Prop :=
  (forall i k, In (i, k) truth ->
     (i < length ref)%nat /\ (k < length im)%nat /\ resid2 off (rnth ref i) (rnth im k) <= tol * tol) /\
  (forall i k, (i < length ref)%nat -> (k < length im)%nat -> ~ In (i, k) truth ->
     tol * tol < resid2 off (rnth ref i) (rnth im k)).

Definition partial_bijection (l : list (nat * nat)) : Prop :=
  (forall i k k', In (i, k) l -> In (i, k') l -> k = k') /\
  (forall i i' k, In (i, k) l -> In (i', k) l -> i = i').

Lemma pair_dec (a b : nat * nat) : {a = b} + {a <> b}.
Proof. decide equality; apply Nat.eq_dec. Qed.

Theorem spec_equals_truth ref im off tol truth : unambiguous ref im off tol truth ->
  forall i k, In (i, k) (true_pairs ref im off tol) <-> In (i, k) truth.
Proof.
  intros [U1 U2] i k. rewrite true_pairs_spec. split.
  - intros [H1 [H2 H3]]. destruct (in_dec pair_dec (i, k) truth) as [Hin|Hnin]; [exact Hin|].
    specialize (U2 i k H1 H2 Hnin). lra.
  - intros Hin. apply U1. exact Hin.
Qed.

Theorem spec_partial_bijection ref im off tol truth : unambiguous ref im off tol truth ->
  partial_bijection truth -> partial_bijection (true_pairs ref im off tol).
Proof.
  intros U [F I]. pose proof (spec_equals_truth ref im off tol truth U) as E. split.
  - intros i k k' H1 H2. apply E in H1, H2. eapply F; eassumption.
  - intros i i' k H1 H2. apply E in H1, H2. eapply I; eassumption.
Qed.

Lemma NoDup_map_inj {A B} (f : A -> B) (l : list A) :
  NoDup l -> (forall a b, In a l -> In b l -> f a = f b -> a = b) -> NoDup (map f l).
Proof.
  induction l as [|x l IH]; simpl; intros Hnd Hinj; [constructor|].
  inversion Hnd; subst. constructor.
  - intros Hin. apply in_map_iff in Hin. destruct Hin as [y [Hy Hyl]].
    assert (y = x) by (apply Hinj; auto). subst. contradiction.
  - apply IH; [assumption|]. intros a b Ha Hb. apply Hinj; auto.
Qed.

(* no reference index and no image index is repeated *)
Theorem spec_no_repeats ref im off tol : partial_bijection (true_pairs ref im off tol) ->
  NoDup (map fst (true_pairs ref im off tol)) /\ NoDup (map snd (true_pairs ref im off tol)).
Proof.
  intros [F I]. split; apply NoDup_map_inj; try apply true_pairs_NoDup.
  - intros [i k] [i' k'] Ha Hb E. cbn [fst] in E. subst i'. f_equal. eapply F; eassumption.
  - intros [i k] [i' k'] Ha Hb E. cbn [snd] in E. subst k'. f_equal. eapply I; eassumption.
Qed.

Theorem spec_in_range ref im off tol i k :
  In (i, k) (true_pairs ref im off tol) -> (i < length ref)%nat /\ (k < length im)%nat.
Proof. rewrite true_pairs_spec. tauto. Qed.

(* ---- row order ---- *)
Lemma rnth_reorder l s a : (a < length s)%nat -> rnth (reorder l s) a = rnth l (nth a s 0%nat).
Proof.
  intros H. unfold reorder, rnth at 1.
  rewrite nth_indep with (d' := rnth l 0%nat) by (rewrite map_length; exact H).
  apply map_nth.
Qed.

Lemma length_reorder l s : length (reorder l s) = length s.
Proof. unfold reorder. apply map_length. Qed.

Theorem true_pairs_reorder ref im off tol s t a b :
  In (a, b) (true_pairs (reorder ref s) (reorder im t) off tol) <->
  (a < length s)%nat /\ (b < length t)%nat /\
  resid2 off (rnth ref (nth a s 0%nat)) (rnth im (nth b t 0%nat)) <= tol * tol.
Proof.
  rewrite true_pairs_spec. rewrite !length_reorder. split.
  - intros [H1 [H2 H3]]. rewrite !rnth_reorder in H3 by assumption. auto.
  - intros [H1 [H2 H3]]. rewrite !rnth_reorder by assumption. auto.
Qed.

(* the set of matched SOURCES does not depend on the row order: row (a, b) of the re-ordered catalogs is matched
   iff the rows (s a, t b) it came from are matched in the original catalogs *)
Theorem true_pairs_row_order_independent ref im off tol s t a b :
  (forall x, In x s -> (x < length ref)%nat) -> (forall x, In x t -> (x < length im)%nat) ->
  (a < length s)%nat -> (b < length t)%nat ->
  (In (a, b) (true_pairs (reorder ref s) (reorder im t) off tol) <->
   In (nth a s 0%nat, nth b t 0%nat) (true_pairs ref im off tol)).
Proof.
  intros Hs Ht Ha Hb. rewrite true_pairs_reorder, true_pairs_spec.
  assert (nth a s 0 < length ref)%nat by (apply Hs; apply nth_In; exact Ha).
  assert (nth b t 0 < length im)%nat by (apply Ht; apply nth_In; exact Hb).
  tauto.
Qed.

(* ---- combination with C12 ---- *)
(* a true pair (image = reference + shift) is within tol of the reference after removing ANY offset that is within
   half a bin of the shift on each axis, as soon as tol >= pscale *)
Theorem true_pair_within_tol (r m : mpt) sx sy ex ey pscale tol :
  fst m == fst r + sx -> snd m == snd r + sy ->
  Qabs (ex - sx) <= pscale * (1#2) -> Qabs (ey - sy) <= pscale * (1#2) -> 0 <= pscale -> pscale <= tol ->
  resid2 (ex, ey) r m <= tol * tol.
Proof.
  intros Hx Hy Ax Ay Hp Ht. unfold resid2. cbn [fst snd].
  assert (Bx: - (pscale * (1#2)) <= ex - sx <= pscale * (1#2)) by (revert Ax; apply Qabs_case; intros; lra).
  assert (By: - (pscale * (1#2)) <= ey - sy <= pscale * (1#2)) by (revert Ay; apply Qabs_case; intros; lra).
  set (dx := fst m - ex - fst r). set (dy := snd m - ey - snd r).
  assert (Ex: dx == - (ex - sx)) by (unfold dx; lra). assert (Ey: dy == - (ey - sy)) by (unfold dy; lra).
  rewrite Ex, Ey. nra.
Qed.

(* a source that is farther than tol + pscale/2 (on some axis) from the shifted reference position stays unmatched *)
Theorem false_pair_beyond_tol (r m : mpt) sx sy ex ey pscale tol :
  Qabs (ex - sx) <= pscale * (1#2) -> Qabs (ey - sy) <= pscale * (1#2) -> 0 <= pscale -> 0 <= tol ->
  (tol + pscale * (1#2) < Qabs (fst m - sx - fst r) \/ tol + pscale * (1#2) < Qabs (snd m - sy - snd r)) ->
  tol * tol < resid2 (ex, ey) r m.
Proof.
  intros Ax Ay Hp Ht Hsep. unfold resid2. cbn [fst snd].
  assert (Bx: - (pscale * (1#2)) <= ex - sx <= pscale * (1#2)) by (revert Ax; apply Qabs_case; intros; lra).
  assert (By: - (pscale * (1#2)) <= ey - sy <= pscale * (1#2)) by (revert Ay; apply Qabs_case; intros; lra).
  set (dx := fst m - ex - fst r). set (dy := snd m - ey - snd r).
  destruct Hsep as [H|H].
  - assert (tol < dx \/ dx < - tol).
    { unfold dx. revert H. apply Qabs_case; intros; [left|right]; lra. }
    destruct H0; nra.
  - assert (tol < dy \/ dy < - tol).
    { unfold dy. revert H. apply Qabs_case; intros; [left|right]; lra. }
    destruct H0; nra.
Qed.

(* hence: catalogs that are unambiguous with margin pscale/2 w.r.t. the true shift are unambiguous w.r.t. every
   offset estimate within half a bin of it (what the histogram pre-alignment delivers, theorem C12) *)
Theorem unambiguous_after_histogram ref im sx sy ex ey pscale tol truth :
  Qabs (ex - sx) <= pscale * (1#2) -> Qabs (ey - sy) <= pscale * (1#2) -> 0 <= pscale -> pscale <= tol ->
  (forall i k, In (i, k) truth -> (i < length ref)%nat /\ (k < length im)%nat /\
       fst (rnth im k) == fst (rnth ref i) + sx /\ snd (rnth im k) == snd (rnth ref i) + sy) ->
  (forall i k, (i < length ref)%nat -> (k < length im)%nat -> ~ In (i, k) truth ->
       tol + pscale * (1#2) < Qabs (fst (rnth im k) - sx - fst (rnth ref i)) \/
       tol + pscale * (1#2) < Qabs (snd (rnth im k) - sy - snd (rnth ref i))) ->
  unambiguous ref im (ex, ey) tol truth.
Proof.
  intros Ax Ay Hp Ht T F. split.
  - intros i k Hin. destruct (T i k Hin) as [H1 [H2 [H3 H4]]]. split; [exact H1|]. split; [exact H2|].
    eapply true_pair_within_tol; eassumption.
  - intros i k H1 H2 Hn. eapply false_pair_beyond_tol; try eassumption; [lra| apply F; assumption].
Qed.
