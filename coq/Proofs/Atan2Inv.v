(* atan2 (sin r) (cos r) = r on (-PI, PI]: build_fit_matrix is the left inverse of the decomposition *)
From Coq Require Import Reals Lra Psatz.
From TW Require Import Atan2 Decomp.
Open Scope R_scope.

Lemma atan2_pos_x y x : 0 < x -> atan2 y x = atan (y / x).
Proof. intros H. unfold atan2. destruct (Rlt_dec 0 x); [reflexivity| lra]. Qed.
Lemma atan2_neg_x_nonneg_y y x : x < 0 -> 0 <= y -> atan2 y x = atan (y / x) + PI.
Proof. intros H Hy. unfold atan2. destruct (Rlt_dec 0 x); [lra|]. destruct (Rlt_dec x 0); [|lra].
  destruct (Rle_dec 0 y); [reflexivity| lra]. Qed.
Lemma atan2_neg_x_neg_y y x : x < 0 -> y < 0 -> atan2 y x = atan (y / x) - PI.
Proof. intros H Hy. unfold atan2. destruct (Rlt_dec 0 x); [lra|]. destruct (Rlt_dec x 0); [|lra].
  destruct (Rle_dec 0 y); [lra| reflexivity]. Qed.

Theorem atan2_sin_cos r : - PI < r <= PI -> atan2 (sin r) (cos r) = r.
Proof.
  intros [H1 H2]. pose proof PI_RGT_0 as HP.
  destruct (Rlt_dec r (- (PI / 2))) as [Ha|Ha].
  - (* third quadrant: -PI < r < -PI/2 *)
    assert (Hc: cos r < 0).
    { rewrite <- cos_neg. apply cos_lt_0; lra. }
    assert (Hs: sin r < 0) by (apply sin_lt_0_var; lra).
    rewrite (atan2_neg_x_neg_y _ _ Hc Hs).
    assert (E: sin r / cos r = tan (r + PI)).
    { unfold tan. rewrite neg_sin, neg_cos. field. lra. }
    rewrite E, atan_tan by lra. ring.
  - destruct (Req_dec r (- (PI / 2))) as [Hb|Hb].
    + subst r. rewrite sin_neg, cos_neg, sin_PI2, cos_PI2. unfold atan2.
      repeat (match goal with |- context [Rlt_dec ?a ?b] => destruct (Rlt_dec a b) end); try lra; reflexivity.
    + destruct (Rlt_dec r (PI / 2)) as [Hc|Hc].
      * (* -PI/2 < r < PI/2 *)
        assert (Hcos: 0 < cos r) by (apply cos_gt_0; lra).
        rewrite (atan2_pos_x _ _ Hcos). change (sin r / cos r) with (tan r). apply atan_tan. lra.
      * destruct (Req_dec r (PI / 2)) as [Hd|Hd].
        -- subst r. rewrite sin_PI2, cos_PI2. unfold atan2.
           repeat (match goal with |- context [Rlt_dec ?a ?b] => destruct (Rlt_dec a b) end); try lra; reflexivity.
        -- (* PI/2 < r <= PI *)
           assert (Hcos: cos r < 0) by (apply cos_lt_0; lra).
           assert (Hs: 0 <= sin r) by (apply sin_ge_0; lra).
           rewrite (atan2_neg_x_nonneg_y _ _ Hcos Hs).
           assert (E: sin r / cos r = tan (r - PI)).
           { unfold tan. replace (r - PI) with (- (PI - r)) by ring. rewrite sin_neg, cos_neg.
             replace (PI - r) with (- r + PI) by ring. rewrite neg_sin, neg_cos, sin_neg, cos_neg. field. lra. }
           rewrite E, atan_tan by lra. ring.
Qed.

(* decomposition of a matrix built from (rx, ry, sx, sy) returns the same angles and scales *)
Theorem decomposition_of_built_matrix rx ry sx sy : 0 < sx -> 0 < sy -> - PI < rx <= PI -> - PI < ry <= PI ->
  let p0 := sx * cos rx in let q0 := - sx * sin rx in
  let p1 := sy * sin ry in let q1 := sy * cos ry in
  gsx p0 q0 = sx /\ gsy p1 q1 = sy /\ grotx p0 q0 = rx /\ groty p1 q1 = ry.
Proof.
  intros Hsx Hsy Hrx Hry p0 q0 p1 q1.
  assert (Ex: gsx p0 q0 = sx).
  { unfold gsx, hyp, p0, q0.
    replace (sx * cos rx * (sx * cos rx) + - sx * sin rx * (- sx * sin rx)) with (sx * sx * ((sin rx)² + (cos rx)²))
      by (unfold Rsqr; ring).
    rewrite sin2_cos2, Rmult_1_r. apply sqrt_square. lra. }
  assert (Ey: gsy p1 q1 = sy).
  { unfold gsy, hyp, p1, q1.
    replace (sy * sin ry * (sy * sin ry) + sy * cos ry * (sy * cos ry)) with (sy * sy * ((sin ry)² + (cos ry)²))
      by (unfold Rsqr; ring).
    rewrite sin2_cos2, Rmult_1_r. apply sqrt_square. lra. }
  split; [exact Ex|]. split; [exact Ey|].
  split.
  - unfold grotx. rewrite Ex. unfold p0, q0.
    replace (- (- sx * sin rx) / sx) with (sin rx) by (field; lra).
    replace (sx * cos rx / sx) with (cos rx) by (field; lra).
    apply atan2_sin_cos; exact Hrx.
  - unfold groty. rewrite Ey. unfold p1, q1.
    replace (sy * sin ry / sy) with (sin ry) by (field; lra).
    replace (sy * cos ry / sy) with (cos ry) by (field; lra).
    apply atan2_sin_cos; exact Hry.
Qed.
Print Assumptions decomposition_of_built_matrix.
