(* algebra of 2x2 affine maps over Qc used by the corrector model (Model/CorrModel.v) *)
From Coq Require Import QArith Qcanon Qcabs List Bool Arith.
From TW Require Import CorrModel.
Import ListNotations.
Open Scope Qc_scope.

Ltac unf := unfold conj_shift in *; unfold conj_matrix, inva, adet in *; unfold minv in *;
            unfold app, combine_fwd, idaff, mapp, mmul, mdet, mid, dmul, padd, psub, pneg, pscale in *;
            cbn [fst snd m11 m12 m21 m22 amat ash] in *.
Ltac dpt v := destruct v as [?x ?y].
Ltac dmat m := destruct m as [?a ?b ?c ?d].
Ltac daff A := let m := fresh "m" in let s := fresh "s" in destruct A as [m s]; dmat m; dpt s.

Lemma pt_eq (a b : pt) : fst a = fst b -> snd a = snd b -> a = b.
Proof. destruct a as [a1 a2], b as [b1 b2]; cbn [fst snd]; intros -> ->; reflexivity. Qed.
Lemma mat_eq (a b : mat) : m11 a = m11 b -> m12 a = m12 b -> m21 a = m21 b -> m22 a = m22 b -> a = b.
Proof. destruct a as [a1 a2 a3 a4], b as [b1 b2 b3 b4]; cbn [m11 m12 m21 m22]; intros -> -> -> ->; reflexivity. Qed.
Lemma aff_eq (a b : aff) : amat a = amat b -> ash a = ash b -> a = b.
Proof. destruct a as [a1 a2], b as [b1 b2]; cbn [amat ash]; intros -> ->; reflexivity. Qed.
Ltac ext := repeat (first [apply aff_eq | apply mat_eq | apply pt_eq]; cbn [fst snd m11 m12 m21 m22 amat ash]).

Lemma qc_is0_true x : qc_is0 x = true -> x = 0.
Proof. unfold qc_is0. intro H. apply Qc_is_canon. apply Qeq_bool_eq. exact H. Qed.
Lemma qc_is0_false x : qc_is0 x = false -> x <> 0.
Proof.
  unfold qc_is0. intros H E. subst x. discriminate H.
Qed.
Lemma qc_is0_0 : qc_is0 0 = true.
Proof. reflexivity. Qed.
Lemma qc_is0_neq x : x <> 0 -> qc_is0 x = false.
Proof. intro H. destruct (qc_is0 x) eqn:E; [apply qc_is0_true in E; contradiction| reflexivity]. Qed.

Lemma c2_neq0 : c2 <> 0.  Proof. intro E; discriminate E. Qed.
Lemma c6_neq0 : c6 <> 0.  Proof. intro E; discriminate E. Qed.
Lemma c100_neq0 : c100 <> 0.  Proof. intro E; discriminate E. Qed.
Lemma c3600_neq0 : c3600 <> 0.  Proof. intro E; discriminate E. Qed.

Lemma app_idaff v : app idaff v = v.
Proof. dpt v. unf. ext; ring. Qed.
Lemma app_combine M s A v : app (combine_fwd M s A) v = app {| amat := M; ash := s |} (app A v).
Proof. daff A. dmat M. dpt s. dpt v. unf. ext; ring. Qed.
Lemma adet_combine M s A : adet (combine_fwd M s A) = mdet M * adet A.
Proof. daff A. dmat M. unf. ring. Qed.
Lemma mdet_mmul a b : mdet (mmul a b) = mdet a * mdet b.
Proof. dmat a. dmat b. unf. ring. Qed.
Lemma mapp_mmul a b v : mapp (mmul a b) v = mapp a (mapp b v).
Proof. dmat a. dmat b. dpt v. unf. ext; ring. Qed.
Lemma mmul_assoc a b c : mmul a (mmul b c) = mmul (mmul a b) c.
Proof. dmat a. dmat b. dmat c. unf. ext; ring. Qed.
Lemma mmul_id_l a : mmul mid a = a.
Proof. dmat a. unf. ext; ring. Qed.
Lemma mmul_id_r a : mmul a mid = a.
Proof. dmat a. unf. ext; ring. Qed.
Lemma mapp_mid v : mapp mid v = v.
Proof. dpt v. unf. ext; ring. Qed.
Lemma minv_l m v : mdet m <> 0 -> mapp (minv m) (mapp m v) = v.
Proof. intro H. dmat m. dpt v. unf. ext; field; exact H. Qed.
Lemma minv_r m v : mdet m <> 0 -> mapp m (mapp (minv m) v) = v.
Proof. intro H. dmat m. dpt v. unf. ext; field; exact H. Qed.
Lemma mmul_minv_r m : mdet m <> 0 -> mmul m (minv m) = mid.
Proof. intro H. dmat m. unf. ext; field; exact H. Qed.
Lemma mmul_minv_l m : mdet m <> 0 -> mmul (minv m) m = mid.
Proof. intro H. dmat m. unf. ext; field; exact H. Qed.
Lemma mdet_minv m : mdet m <> 0 -> mdet (minv m) = / mdet m.
Proof. intro H. dmat m. unf. field; exact H. Qed.
Lemma mdet_mid : mdet mid = 1.
Proof. unf. ring. Qed.
Lemma inva_l A v : adet A <> 0 -> app (inva A) (app A v) = v.
Proof. intro H. daff A. dpt v. unf. ext; field; exact H. Qed.
Lemma inva_r A v : adet A <> 0 -> app A (app (inva A) v) = v.
Proof. intro H. daff A. dpt v. unf. ext; field; exact H. Qed.
Lemma inva_idaff : inva idaff = idaff.
Proof. unf. ext; apply Qc_is_canon; reflexivity. Qed.
Lemma adet_idaff : adet idaff = 1.
Proof. unf. ring. Qed.
Lemma one_neq0 : (1 : Qc) <> 0.
Proof. intro E; discriminate E. Qed.
Lemma adet_inva A : adet A <> 0 -> adet (inva A) <> 0.
Proof.
  intros H E. unfold adet, inva in *. cbn [amat] in E. rewrite mdet_minv in E by exact H.
  assert (X : mdet (amat A) * / mdet (amat A) = 1) by (field; exact H).
  rewrite E in X. rewrite Qcmult_0_r in X. discriminate X.
Qed.
Lemma inva_inva A : adet A <> 0 -> inva (inva A) = A.
Proof. intro H. daff A. unf. ext; field; exact H. Qed.

Lemma pscale_pscale a b v : a * b = 1 -> pscale a (pscale b v) = v.
Proof. intro H. dpt v. unf. f_equal; rewrite Qcmult_assoc, H; ring. Qed.

(* a correction (M, s) as an affine map *)
Definition mk (M : mat) (s : pt) : aff := {| amat := M; ash := s |}.
Lemma app_mk M s v : app (mk M s) v = padd (mapp M v) s.
Proof. reflexivity. Qed.
Lemma combine_mk M s A : combine_fwd M s A = combine_fwd (amat (mk M s)) (ash (mk M s)) A.
Proof. reflexivity. Qed.

(* conjugation into another plane: G o C o G^-1 *)
Lemma conj_app G M s v : adet G <> 0 ->
  app (mk (conj_matrix (amat G) M) (conj_shift (amat G) (ash G) M s)) v = app G (app (mk M s) (app (inva G) v)).
Proof. intro H. daff G. dmat M. dpt s. dpt v. unfold mk. unf. ext; field; exact H. Qed.
Lemma conj_det r M : mdet r <> 0 -> mdet (conj_matrix r M) = mdet M.
Proof. intro H. dmat r. dmat M. unf. field; exact H. Qed.

(* composition of corrections as data: (M2,s2) after (M1,s1) = (M2.M1, M2.s1 + s2) *)
Lemma app_mk_mk M2 s2 M1 s1 v : app (mk M2 s2) (app (mk M1 s1) v) = app (mk (mmul M2 M1) (padd (mapp M2 s1) s2)) v.
Proof. dmat M1. dmat M2. dpt s1. dpt s2. dpt v. unfold mk. unf. ext; ring. Qed.
(* inverse correction (M^-1, -M^-1 s) *)
Lemma app_mk_inverse M s v : mdet M <> 0 -> app (mk (minv M) (pneg (mapp (minv M) s))) (app (mk M s) v) = v.
Proof. intro H. dmat M. dpt s. dpt v. unfold mk. unf. ext; field; exact H. Qed.
Lemma mk_inverse_is_inva M s : mk (minv M) (pneg (mapp (minv M) s)) = inva (mk M s).
Proof. reflexivity. Qed.
