(* the two-source box is the rectangle that extends exactly tol beyond both sources along and across the
   joining direction (listed clockwise in the tangent plane): signed areas against every edge *)
From Coq Require Import QArith Lqa Psatz List Lia.
Require Import HullModel FootBox.
Import ListNotations.
Open Scope Q_scope.

Definition nth_pt (l : list pt) (i : nat) : pt := nth i l (0, 0).

Section Box.
Variables x0 y0 vx vy L t : Q.
Hypothesis unit : vx * vx + vy * vy == 1.
Let p0 : pt := (x0, y0).
Let p1 : pt := (x0 + L * vx, y0 + L * vy).
Let bx := box2 p0 p1 (vx, vy) t.

(* cr a b p = -|ab| * (distance of p to the right of a->b); the four sides have lengths 2t, L+2t, 2t, L+2t *)
Lemma box2_back_p0  : cr (nth_pt bx 0) (nth_pt bx 1) p0 == - ((2 * t) * t).
Proof.
  transitivity (- ((2 * t) * t) * (vx * vx + vy * vy)); [unfold cr; simpl; ring| rewrite unit; ring].
Qed.
Lemma box2_left_p0  : cr (nth_pt bx 1) (nth_pt bx 2) p0 == - ((L + 2 * t) * t).
Proof.
  transitivity (- ((L + 2 * t) * t) * (vx * vx + vy * vy)); [unfold cr; simpl; ring| rewrite unit; ring].
Qed.
Lemma box2_front_p0 : cr (nth_pt bx 2) (nth_pt bx 3) p0 == - ((2 * t) * (L + t)).
Proof.
  transitivity (- ((2 * t) * (L + t)) * (vx * vx + vy * vy)); [unfold cr; simpl; ring| rewrite unit; ring].
Qed.
Lemma box2_right_p0 : cr (nth_pt bx 3) (nth_pt bx 4) p0 == - ((L + 2 * t) * t).
Proof.
  transitivity (- ((L + 2 * t) * t) * (vx * vx + vy * vy)); [unfold cr; simpl; ring| rewrite unit; ring].
Qed.
Lemma box2_back_p1  : cr (nth_pt bx 0) (nth_pt bx 1) p1 == - ((2 * t) * (L + t)).
Proof.
  transitivity (- ((2 * t) * (L + t)) * (vx * vx + vy * vy)); [unfold cr; simpl; ring| rewrite unit; ring].
Qed.
Lemma box2_left_p1  : cr (nth_pt bx 1) (nth_pt bx 2) p1 == - ((L + 2 * t) * t).
Proof.
  transitivity (- ((L + 2 * t) * t) * (vx * vx + vy * vy)); [unfold cr; simpl; ring| rewrite unit; ring].
Qed.
Lemma box2_front_p1 : cr (nth_pt bx 2) (nth_pt bx 3) p1 == - ((2 * t) * t).
Proof.
  transitivity (- ((2 * t) * t) * (vx * vx + vy * vy)); [unfold cr; simpl; ring| rewrite unit; ring].
Qed.
Lemma box2_right_p1 : cr (nth_pt bx 3) (nth_pt bx 4) p1 == - ((L + 2 * t) * t).
Proof.
  transitivity (- ((L + 2 * t) * t) * (vx * vx + vy * vy)); [unfold cr; simpl; ring| rewrite unit; ring].
Qed.
End Box.

(* both sources are strictly inside the (clockwise) box: strictly right of each of its four directed edges,
   at distance exactly tol from the nearest sides *)
Theorem box2_contains_sources x0 y0 vx vy L t : vx * vx + vy * vy == 1 -> 0 <= L -> 0 < t ->
  let p0 := (x0, y0) in let p1 := (x0 + L * vx, y0 + L * vy) in
  let bx := box2 p0 p1 (vx, vy) t in
  nth_pt bx 4 = nth_pt bx 0 /\
  forall i, (i < 4)%nat -> cr (nth_pt bx i) (nth_pt bx (S i)) p0 < 0 /\ cr (nth_pt bx i) (nth_pt bx (S i)) p1 < 0.
Proof.
  intros U HL Ht p0 p1 bx. split; [reflexivity|].
  intros i Hi.
  destruct i as [|[|[|[|i]]]]; [| | | | exfalso; lia].
  - unfold bx, p0, p1. rewrite (box2_back_p0 x0 y0 vx vy L t U), (box2_back_p1 x0 y0 vx vy L t U). split; nra.
  - unfold bx, p0, p1. rewrite (box2_left_p0 x0 y0 vx vy L t U), (box2_left_p1 x0 y0 vx vy L t U). split; nra.
  - unfold bx, p0, p1. rewrite (box2_front_p0 x0 y0 vx vy L t U), (box2_front_p1 x0 y0 vx vy L t U). split; nra.
  - unfold bx, p0, p1. rewrite (box2_right_p0 x0 y0 vx vy L t U), (box2_right_p1 x0 y0 vx vy L t U). split; nra.
Qed.

Theorem box1_contains_source x y t : 0 < t ->
  let bx := box1 (x, y) t in
  nth_pt bx 4 = nth_pt bx 0 /\
  forall i, (i < 4)%nat -> cr (nth_pt bx i) (nth_pt bx (S i)) (x, y) == - ((2 * t) * t).
Proof.
  intros Ht bx. split; [reflexivity|]. intros i Hi.
  destruct i as [|[|[|[|i]]]]; [| | | | exfalso; lia];
    unfold cr; simpl; ring.
Qed.
