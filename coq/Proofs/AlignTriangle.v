(* C14: the only exact statement behind "images aligned to the same reference agree with each other":
   per coordinate, two positions within e of the reference position are within 2e of each other *)
From Coq Require Import QArith Qabs Lqa.
Open Scope Q_scope.

Definition within (a r e : Q) : Prop := Qabs (a - r) <= e.
Definition twice (e : Q) : Q := 2 * e.

Lemma agree_via_reference (a b r e : Q) : within a r e -> within b r e -> within a b (twice e).
Proof.
  unfold within, twice. intros H1 H2. apply Qabs_Qle_condition in H1. apply Qabs_Qle_condition in H2.
  apply Qabs_Qle_condition. destruct H1, H2. split; lra.
Qed.
