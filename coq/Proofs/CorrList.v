(* list lemmas for the pipeline surgery of the gWCS corrector model: index / count / set_nth / insert_at *)
From Coq Require Import QArith Qcanon List Bool Arith Lia.
From TW Require Import CorrModel.
Import ListNotations.
Close Scope Qc_scope.
Open Scope nat_scope.

Lemma fname_eqb_eq a b : fname_eqb a b = true <-> a = b.
Proof.
  destruct a, b; simpl; split; intro H; try reflexivity; try discriminate H.
  - apply Nat.eqb_eq in H. subst; reflexivity.
  - inversion H. apply Nat.eqb_refl.
Qed.
Lemma fname_eqb_refl a : fname_eqb a a = true.
Proof. apply fname_eqb_eq. reflexivity. Qed.
Lemma fname_eqb_neq a b : a <> b -> fname_eqb a b = false.
Proof. intro H. destruct (fname_eqb a b) eqn:E; [apply fname_eqb_eq in E; contradiction| reflexivity]. Qed.
Lemma fname_eqb_false a b : fname_eqb a b = false -> a <> b.
Proof. intros H E. subst. rewrite fname_eqb_refl in H. discriminate H. Qed.
Lemma fname_eq_dec (a b : fname) : {a = b} + {a <> b}.
Proof. destruct (fname_eqb a b) eqn:E; [left; apply fname_eqb_eq; exact E| right; apply fname_eqb_false; exact E]. Qed.

Lemma count_app x l1 l2 : count x (l1 ++ l2) = count x l1 + count x l2.
Proof. induction l1 as [|y r IH]; simpl; [reflexivity| rewrite IH; lia]. Qed.
Lemma count_cons_eq x l : count x (x :: l) = S (count x l).
Proof. simpl. rewrite fname_eqb_refl. reflexivity. Qed.
Lemma count_cons_neq x y l : y <> x -> count x (y :: l) = count x l.
Proof. intro H. simpl. rewrite fname_eqb_neq by exact H. reflexivity. Qed.
Lemma count_0_not_in x l : count x l = 0 -> ~ In x l.
Proof.
  induction l as [|y r IH]; simpl; intros H E; [exact E|]. destruct E as [E|E].
  - subst. rewrite fname_eqb_refl in H. discriminate H.
  - destruct (fname_eqb y x); [discriminate H| exact (IH H E)].
Qed.
Lemma in_count_pos x l : In x l -> 1 <= count x l.
Proof.
  induction l as [|y r IH]; simpl; [contradiction|]. intros [E|E].
  - subst. rewrite fname_eqb_refl. lia.
  - specialize (IH E). lia.
Qed.
Lemma mem_true x l : mem x l = true <-> count x l <> 0.
Proof. unfold mem. rewrite negb_true_iff, Nat.eqb_neq. tauto. Qed.
Lemma mem_false x l : mem x l = false <-> count x l = 0.
Proof. unfold mem. rewrite negb_false_iff, Nat.eqb_eq. tauto. Qed.

Lemma index_of_app_notin x l1 l2 : count x l1 = 0 ->
  index_of x (l1 ++ l2) = option_map (fun i => length l1 + i) (index_of x l2).
Proof.
  induction l1 as [|y r IH]; simpl; intro H.
  - destruct (index_of x l2); reflexivity.
  - destruct (fname_eqb y x) eqn:E; [discriminate H|]. rewrite IH by exact H.
    destruct (index_of x l2); reflexivity.
Qed.
Lemma index_of_here x l1 l2 : count x l1 = 0 -> index_of x (l1 ++ x :: l2) = Some (length l1).
Proof. intro H. rewrite index_of_app_notin by exact H. simpl. rewrite fname_eqb_refl. simpl. f_equal. lia. Qed.
Lemma index_of_none x l : index_of x l = None <-> count x l = 0.
Proof.
  induction l as [|y r IH]; simpl; [tauto|].
  destruct (fname_eqb y x); [split; intro H; discriminate H|].
  destruct (index_of x r); simpl; split; intro H; try discriminate H; try reflexivity.
  - apply IH in H. discriminate H.
  - apply IH. exact H.
Qed.
Lemma index_of_split x l i : index_of x l = Some i ->
  exists l1 l2, l = l1 ++ x :: l2 /\ length l1 = i /\ count x l1 = 0.
Proof.
  revert i. induction l as [|y r IH]; simpl; intros i H; [discriminate H|].
  destruct (fname_eqb y x) eqn:E.
  - inversion H; subst. apply fname_eqb_eq in E. subst. exists [], r. repeat split.
  - destruct (index_of x r) as [j|] eqn:Ej; [|discriminate H]. simpl in H. inversion H; subst.
    destruct (IH j eq_refl) as (l1 & l2 & -> & Hl & Hc). exists (y :: l1), l2. simpl. rewrite E. repeat split; auto.
Qed.
Lemma index_of_in_prefix x l1 l2 i : index_of x l1 = Some i -> index_of x (l1 ++ l2) = Some i.
Proof.
  revert i. induction l1 as [|y r IH]; simpl; intros i H; [discriminate H|].
  destruct (fname_eqb y x); [exact H|]. destruct (index_of x r) as [j|]; [|discriminate H].
  rewrite (IH j eq_refl). exact H.
Qed.

Lemma set_nth_app {A} (l1 : list A) x v l2 : set_nth (length l1) v (l1 ++ x :: l2) = l1 ++ v :: l2.
Proof. induction l1 as [|y r IH]; simpl; [reflexivity| rewrite IH; reflexivity]. Qed.
Lemma insert_at_app {A} (l1 : list A) v l2 : insert_at (length l1) v (l1 ++ l2) = l1 ++ v :: l2.
Proof. induction l1 as [|y r IH]; simpl; [destruct l2; reflexivity| rewrite IH; reflexivity]. Qed.
Lemma nth_error_here {A} (l1 : list A) x l2 : nth_error (l1 ++ x :: l2) (length l1) = Some x.
Proof. induction l1; simpl; auto. Qed.
Lemma nth_here {A} (l1 : list A) x l2 d : nth (length l1) (l1 ++ x :: l2) d = x.
Proof. induction l1; simpl; auto. Qed.

Lemma frames_app (a b : wcs) : frames (a ++ b) = frames a ++ frames b.
Proof. apply map_app. Qed.
Lemma frames_length (a : wcs) : length (frames a) = length a.
Proof. apply map_length. Qed.
Lemma frames_split (w : wcs) l1 x l2 : frames w = l1 ++ x :: l2 ->
  exists w1 t w2, w = w1 ++ (x, t) :: w2 /\ frames w1 = l1 /\ frames w2 = l2.
Proof.
  revert l1. induction w as [|[f t] r IH]; intros l1 H.
  - destruct l1; discriminate H.
  - destruct l1 as [|y l1]; simpl in H; injection H as E1 E2.
    + subst f. exists [], t, r. repeat split. exact E2.
    + subst y. destruct (IH l1 E2) as (w1 & t' & w2 & E & H1 & H3). subst r.
      exists ((f, t) :: w1), t', w2. simpl. rewrite H1. repeat split; auto.
Qed.

Lemma last_app_cons {A} (l1 : list A) x l2 d : last (l1 ++ x :: l2) d = last (x :: l2) d.
Proof. induction l1 as [|y r IH]; [reflexivity|]. simpl app. rewrite <- IH. simpl. destruct (r ++ x :: l2) eqn:E; [destruct r; discriminate E| reflexivity]. Qed.
Lemma last_cons_ne {A} (x : A) l d : l <> [] -> last (x :: l) d = last l d.
Proof. destruct l; [contradiction| reflexivity]. Qed.
Lemma last_in {A} (l : list A) d : l <> [] -> In (last l d) l.
Proof. induction l as [|x r IH]; [contradiction|]. intros _. destruct r; [left; reflexivity| right; apply IH; discriminate]. Qed.
Lemma last_map {A B} (f : A -> B) l d : last (map f l) (f d) = f (last l d).
Proof. induction l as [|x r IH]; [reflexivity|]. simpl. destruct r; [reflexivity| exact IH]. Qed.
Lemma hd_app_ne {A} (l1 l2 : list A) d : l1 <> [] -> hd d (l1 ++ l2) = hd d l1.
Proof. destruct l1; [contradiction| reflexivity]. Qed.
