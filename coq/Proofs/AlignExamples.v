(* example data used by the non-vacuity witnesses of Props/C13.v and Props/C14.v *)
From Coq Require Import List Bool Arith ZArith.
From TW Require Import AlignModel AlignWorld.
Import ListNotations.

Definition ok_opts (r : refarg) (expand enforce : bool) : opts :=
  {| o_wcscat_ok := true; o_cats_ok := true; o_fitgeom_ok := true; o_minobj := None; o_ref := r;
     o_expand := expand; o_enforce := enforce |}.
(* group [1;3] matches, the ungrouped image 4 does not *)
Definition ex_orc : oracle :=
  {| pick_ref := fun _ => 0; pick := fun _ _ => 0;
     outcome := fun g _ => match g with [4] => Fails 9 | _ => Matched 2 end;
     area0 := fun _ _ => false; gids := fun _ => [1; 2; 3]%Z |}.
Definition ex_ims : list image :=
  [ {| gid := None; nonempty := true |}; {| gid := Some 2; nonempty := true |};
    {| gid := None; nonempty := false |}; {| gid := Some 2; nonempty := false |};
    {| gid := None; nonempty := true |} ].

Definition ex14_orc : oracle :=
  {| pick_ref := fun _ => 0; pick := fun _ _ => 0;
     outcome := fun g _ => match g with [0] => Matched 2 | [1] => Fails 5 | _ => Fails 4 end;
     area0 := fun g _ => match g with [2] => true | _ => false end; gids := fun _ => [1; 2]%Z |}.
Definition ex14_ims : list image :=
  [ {| gid := None; nonempty := true |}; {| gid := None; nonempty := true |}; {| gid := None; nonempty := true |} ].
Definition ex14_world : world :=
  {| w_ims := [ {| w_gid := None; w_rows := [1; 2; 3]%Z; w_ids := [1; 2; 3]%Z; w_far := false |};
                {| w_gid := None; w_rows := [2; 3; 4; 5]%Z; w_ids := [1; 2; 3; 4]%Z; w_far := false |};
                {| w_gid := None; w_rows := [5; 6]%Z; w_ids := [1; 2]%Z; w_far := false |} ];
     w_ref_rows := []; w_minobj := 2; w_geom := 2; w_nomatch := false; w_order := [[0]; [1]; [2]] |}.

(* the fit of group [2] raises; every other group matches *)
Definition f17_orc : oracle :=
  {| pick_ref := fun _ => 0; pick := fun _ _ => 0;
     outcome := fun g _ => match g with [2] => FitRaises 0 | _ => Matched 3 end;
     area0 := fun _ _ => false; gids := fun _ => [1; 2]%Z |}.
