(* C01 / C05: "exact recovery o applied correction" in the abstract corrector model.

   External code (distortion, gnomonic projections, sky rotations) is abstract: Section variables with the
   inverse-pair hypotheses, exactly as in Proofs/Corrector.v.  Tangent-plane coordinates are canonical
   rationals (Qc, Leibniz equality); the fit is the rational model of Model/AlignFit.v / LinearFit.v (Q), the
   two are connected by `this` / `Q2Qc`.

   Contents
     A  affine algebra: the conjugation computed by set_correction(ref_tpwcs), three-point uniqueness
     B  Q <-> Qc bridge
     C  a group of gWCS members corrected through one reference plane (C02 with ref plane, same sky-level
        map for all members, C01 composition theorems for every fit family)
     D  the single image in its own plane, any correction history (fit_wcs without ref_tpwcs)
     E  two reference planes related by an affine map: plane independence (C05)
     F  the FITS corrector in the flat-sky instance P_c(v) = c + v, literal set_correction incl. the 5-point
        stencil, own or foreign (flat) reference plane *)
From Coq Require Import QArith Qcanon List Bool.
From TW Require Import LSQ Rscale Rscale2 Shift LinearFit AlignFit AlignFitQ Corrector.
Import ListNotations.
Open Scope Qc_scope.

(* ------------------------------------------------------------------ A: affine algebra *)
(* set_correction(matrix, shift, ref_tpwcs) with (r, t) = _tp2tp(ref_tpwcs, self):
     matrix' = r . matrix . inv(r);  shift' = r . shift - matrix' . t + t          (literal) *)
Definition conj_code (R G : aff) : aff :=
  let d := det R in
  let i11 := a22 R / d in let i12 := - a12 R / d in let i21 := - a21 R / d in let i22 := a11 R / d in
  let p11 := a11 R * a11 G + a12 R * a21 G in let p12 := a11 R * a12 G + a12 R * a22 G in
  let p21 := a21 R * a11 G + a22 R * a21 G in let p22 := a21 R * a12 G + a22 R * a22 G in
  let m11 := p11 * i11 + p12 * i21 in let m12 := p11 * i12 + p12 * i22 in
  let m21 := p21 * i11 + p22 * i21 in let m22 := p21 * i12 + p22 * i22 in
  {| a11 := m11; a12 := m12; a21 := m21; a22 := m22;
     b1 := (a11 R * b1 G + a12 R * b2 G) - (m11 * b1 R + m12 * b2 R) + b1 R;
     b2 := (a21 R * b1 G + a22 R * b2 G) - (m21 * b1 R + m22 * b2 R) + b2 R |}.

Lemma conj_code_spec R G v : det R <> 0 ->
  app (conj_code R G) v = app R (app G (app (inva R) v)).
Proof.
  intros H. destruct v as [x y].
  unfold app, conj_code, inva, det in *; cbn [a11 a12 a21 a22 b1 b2 fst snd]. f_equal; field; exact H.
Qed.

Lemma det_idaff : det idaff <> 0.
Proof. intro H. vm_compute in H. discriminate H. Qed.

Lemma conj_code_id G v : app (conj_code idaff G) v = app G v.
Proof.
  rewrite conj_code_spec by exact det_idaff.
  destruct v as [x y]. unfold app, inva, idaff, det; cbn [a11 a12 a21 a22 b1 b2 fst snd].
  f_equal; field; intro E; discriminate E.
Qed.

(* two affine maps that agree on three non-collinear points are equal *)
Lemma lin3_zero a b c x1 y1 x2 y2 x3 y3 :
  (x2 - x1) * (y3 - y1) - (x3 - x1) * (y2 - y1) <> 0 ->
  a * x1 + b * y1 + c = 0 -> a * x2 + b * y2 + c = 0 -> a * x3 + b * y3 + c = 0 ->
  a = 0 /\ b = 0 /\ c = 0.
Proof.
  intros Hd E1 E2 E3.
  set (d := (x2 - x1) * (y3 - y1) - (x3 - x1) * (y2 - y1)) in *.
  assert (Ha: a * d = 0).
  { replace (a * d) with ((a * x2 + b * y2 + c - (a * x1 + b * y1 + c)) * (y3 - y1)
                          - (a * x3 + b * y3 + c - (a * x1 + b * y1 + c)) * (y2 - y1)) by (unfold d; ring).
    rewrite E1, E2, E3. ring. }
  assert (Hb: b * d = 0).
  { replace (b * d) with ((a * x3 + b * y3 + c - (a * x1 + b * y1 + c)) * (x2 - x1)
                          - (a * x2 + b * y2 + c - (a * x1 + b * y1 + c)) * (x3 - x1)) by (unfold d; ring).
    rewrite E1, E2, E3. ring. }
  assert (A0: a = 0). { destruct (Qcmult_integral _ _ Ha); [assumption| contradiction]. }
  assert (B0: b = 0). { destruct (Qcmult_integral _ _ Hb); [assumption| contradiction]. }
  split; [exact A0| split; [exact B0|]].
  rewrite A0, B0 in E1. rewrite <- E1. ring.
Qed.

Lemma Qc_sub_zero (x y : Qc) : x - y = 0 -> x = y.
Proof. intro H. replace x with (x - y + y) by ring. rewrite H. ring. Qed.

Theorem aff_three_points F F' v1 v2 v3 :
  (fst v2 - fst v1) * (snd v3 - snd v1) - (fst v3 - fst v1) * (snd v2 - snd v1) <> 0 ->
  app F v1 = app F' v1 -> app F v2 = app F' v2 -> app F v3 = app F' v3 -> F = F'.
Proof.
  destruct v1 as [x1 y1], v2 as [x2 y2], v3 as [x3 y3]. cbn [fst snd]. intros Hd E1 E2 E3.
  pose proof (f_equal fst E1) as E1x. pose proof (f_equal snd E1) as E1y.
  pose proof (f_equal fst E2) as E2x. pose proof (f_equal snd E2) as E2y.
  pose proof (f_equal fst E3) as E3x. pose proof (f_equal snd E3) as E3y.
  unfold app in E1x, E1y, E2x, E2y, E3x, E3y; cbn [fst snd] in E1x, E1y, E2x, E2y, E3x, E3y.
  destruct (lin3_zero (a11 F - a11 F') (a12 F - a12 F') (b1 F - b1 F') x1 y1 x2 y2 x3 y3 Hd) as (P1 & P2 & P3).
  { replace ((a11 F - a11 F') * x1 + (a12 F - a12 F') * y1 + (b1 F - b1 F'))
      with ((a11 F * x1 + a12 F * y1 + b1 F) - (a11 F' * x1 + a12 F' * y1 + b1 F')) by ring. rewrite E1x. ring. }
  { replace ((a11 F - a11 F') * x2 + (a12 F - a12 F') * y2 + (b1 F - b1 F'))
      with ((a11 F * x2 + a12 F * y2 + b1 F) - (a11 F' * x2 + a12 F' * y2 + b1 F')) by ring. rewrite E2x. ring. }
  { replace ((a11 F - a11 F') * x3 + (a12 F - a12 F') * y3 + (b1 F - b1 F'))
      with ((a11 F * x3 + a12 F * y3 + b1 F) - (a11 F' * x3 + a12 F' * y3 + b1 F')) by ring. rewrite E3x. ring. }
  destruct (lin3_zero (a21 F - a21 F') (a22 F - a22 F') (b2 F - b2 F') x1 y1 x2 y2 x3 y3 Hd) as (P4 & P5 & P6).
  { replace ((a21 F - a21 F') * x1 + (a22 F - a22 F') * y1 + (b2 F - b2 F'))
      with ((a21 F * x1 + a22 F * y1 + b2 F) - (a21 F' * x1 + a22 F' * y1 + b2 F')) by ring. rewrite E1y. ring. }
  { replace ((a21 F - a21 F') * x2 + (a22 F - a22 F') * y2 + (b2 F - b2 F'))
      with ((a21 F * x2 + a22 F * y2 + b2 F) - (a21 F' * x2 + a22 F' * y2 + b2 F')) by ring. rewrite E2y. ring. }
  { replace ((a21 F - a21 F') * x3 + (a22 F - a22 F') * y3 + (b2 F - b2 F'))
      with ((a21 F * x3 + a22 F * y3 + b2 F) - (a21 F' * x3 + a22 F' * y3 + b2 F')) by ring. rewrite E3y. ring. }
  apply Qc_sub_zero in P1, P2, P3, P4, P5, P6.
  destruct F as [f1 f2 f3 f4 f5 f6], F' as [k1 k2 k3 k4 k5 k6]; cbn [a11 a12 a21 a22 b1 b2] in *. subst. reflexivity.
Qed.

(* ------------------------------------------------------------------ B: Q <-> Qc bridge *)
Lemma this_Q2Qc q : (this (Q2Qc q) == q)%Q.
Proof. simpl. apply Qred_correct. Qed.
Lemma this_plus (x y : Qc) : (this (x + y) == this x + this y)%Q.
Proof. unfold Qcplus. apply this_Q2Qc. Qed.
Lemma this_mult (x y : Qc) : (this (x * y) == this x * this y)%Q.
Proof. unfold Qcmult. apply this_Q2Qc. Qed.
Lemma this_opp (x : Qc) : (this (- x) == - this x)%Q.
Proof. unfold Qcopp. apply this_Q2Qc. Qed.

Definition c_of_q (F : qaff) : aff :=
  {| a11 := Q2Qc (g00 F); a12 := Q2Qc (g01 F); a21 := Q2Qc (g10 F); a22 := Q2Qc (g11 F);
     b1 := Q2Qc (h0 F); b2 := Q2Qc (h1 F) |}.
Definition q_of_c (G : aff) : qaff :=
  {| g00 := this (a11 G); g01 := this (a12 G); g10 := this (a21 G); g11 := this (a22 G);
     h0 := this (b1 G); h1 := this (b2 G) |}.
(* one matched pair as the fitter sees it: reference position, image position, effective weight *)
Definition qpair (ref im : pt) (w : Q) : pr :=
  {| px := this (fst ref); py := this (snd ref); pu := this (fst im); pv := this (snd im); pw := w |}.

Lemma bridge_to_Qc F ref im w :
  (px (qpair ref im w) == g00 F * pu (qpair ref im w) + g01 F * pv (qpair ref im w) + h0 F)%Q ->
  (py (qpair ref im w) == g10 F * pu (qpair ref im w) + g11 F * pv (qpair ref im w) + h1 F)%Q ->
  app (c_of_q F) im = ref.
Proof.
  destruct ref as [rx ry], im as [x y]. unfold qpair, app, c_of_q; cbn [px py pu pv fst snd a11 a12 a21 a22 b1 b2].
  intros H1 H2. f_equal; apply Qc_is_canon; rewrite !this_plus, !this_mult, !this_Q2Qc; symmetry; assumption.
Qed.

Lemma bridge_to_Q G ref im w : app G im = ref ->
  let z := qpair ref im w in let Gq := q_of_c G in
  (px z == g00 Gq * pu z + g01 Gq * pv z + h0 Gq)%Q /\ (py z == g10 Gq * pu z + g11 Gq * pv z + h1 Gq)%Q.
Proof.
  destruct im as [x y]. intros <-. unfold qpair, app, q_of_c; cbn [px py pu pv fst snd g00 g01 g10 g11 h0 h1].
  rewrite !this_plus, !this_mult. split; reflexivity.
Qed.

(* the fit families, on the Qc side *)
Definition fam_shift (G : aff) : Prop := a11 G = 1 /\ a12 G = 0 /\ a21 G = 0 /\ a22 G = 1.
Definition fam_sim (G : aff) : Prop :=
  (a21 G = - a12 G /\ a22 G = a11 G) \/ (a21 G = a12 G /\ a22 G = - a11 G).
Definition fam_unit (G : aff) : Prop := a11 G * a11 G + a12 G * a12 G = 1.
Definition in_family (g : geom) (G : aff) : Prop :=
  match g with GShift => fam_shift G | GRscale => fam_sim G | GRshift => fam_sim G /\ fam_unit G | GGeneral => True end.

Lemma fam_shift_q G : fam_shift G -> is_shift (q_of_c G).
Proof. intros (A & B & C & D0). unfold is_shift, q_of_c; cbn [g00 g01 g10 g11]. rewrite A, B, C, D0. repeat split; reflexivity. Qed.
Lemma fam_sim_q G : fam_sim G -> is_sim (q_of_c G).
Proof.
  intros [[A B]|[A B]]; [left|right]; unfold q_of_c; cbn [g00 g01 g10 g11]; rewrite A, B; split;
    try reflexivity; apply this_opp.
Qed.

Lemma posb_true x : posb x = true <-> (0 < x)%Q.
Proof.
  unfold posb. destruct (Qlt_le_dec 0 x) as [H|H]; split; intro K; try assumption; try reflexivity; try discriminate.
  exfalso. apply (Qlt_not_le _ _ K H).
Qed.

(* ------------------------------------------------------------------ C: a group, one reference plane *)
Section Plane.
Variable Sky : Type.
Variable Bw2t : Sky -> pt.          (* ref_tpwcs.world_to_tanp *)
Variable Bt2w : pt -> Sky.          (* ref_tpwcs.tanp_to_world *)
Hypothesis B_wt : forall t, Bw2t (Bt2w t) = t.
Hypothesis B_tw : forall w, Bt2w (Bw2t w) = w.

(* the sky-level map induced by an affine map of the reference plane: it mentions no member *)
Definition skymap (F : aff) (w : Sky) : Sky := Bt2w (app F (Bw2t w)).

Section Group.
Variables I Det V : Type.           (* members, detector coordinates, v2v3 coordinates *)
Variable D : I -> Det -> V.         (* detector -> v2v3 (distortion etc.) *)
Variable T : I -> V -> pt.          (* v2v3 -> member's own tangent plane *)
Variable Ti : I -> pt -> V.
Variable S : I -> V -> Sky.         (* v2v3corr -> world *)
Variable Si : I -> Sky -> V.
Hypothesis T_Ti : forall i t, T i (Ti i t) = t.
Hypothesis Ti_T : forall i v, Ti i (T i v) = v.
Hypothesis S_Si : forall i w, S i (Si i w) = w.
Hypothesis Si_S : forall i v, Si i (S i v) = v.
(* what _tp2tp(ref_tpwcs, member i) returns: the plane-to-plane map, assumed affine *)
Variable R : I -> aff.
Hypothesis HR : forall i t, T i (Si i (Bt2w t)) = app (R i) t.
Hypothesis detR : forall i, det (R i) <> 0.

(* state of the group = accumulated tp_affine of every member (ANY value: every affine is reachable) *)
Definition gd2w (A : I -> aff) (i : I) (p : Det) : Sky := S i (Ti i (app (A i) (T i (D i p)))).
(* WCSGroupCatalog.apply_affine_to_wcs: every member gets set_correction(matrix, shift, ref_tpwcs) *)
Definition apply_affine (A : I -> aff) (F : aff) : I -> aff := fun i => comp (conj_code (R i) F) (A i).

Lemma plane_of_member i x : Bw2t (S i (Ti i x)) = app (inva (R i)) x.
Proof.
  set (t0 := app (inva (R i)) x).
  assert (E: x = T i (Si i (Bt2w t0))) by (rewrite HR; unfold t0; rewrite inva_r by apply detR; reflexivity).
  rewrite E at 1. rewrite Ti_T, S_Si, B_wt. reflexivity.
Qed.

(* C02 through a reference plane, for every member and every state *)
Theorem group_C02 A F i p : Bw2t (gd2w (apply_affine A F) i p) = app F (Bw2t (gd2w A i p)).
Proof.
  unfold gd2w, apply_affine. rewrite !plane_of_member, app_comp, conj_code_spec by apply detR.
  rewrite inva_l by apply detR. reflexivity.
Qed.

(* all members of the group receive one and the same sky-level correction *)
Theorem group_same_skymap A F i p : gd2w (apply_affine A F) i p = skymap F (gd2w A i p).
Proof. unfold skymap. rewrite <- group_C02, B_tw. reflexivity. Qed.

(* if the applied map sends the image's reference-plane position to the reference position, the corrected
   WCS maps the pixel onto the reference sky position *)
Lemma lands A F i p r : app F (Bw2t (gd2w A i p)) = Bw2t r -> gd2w (apply_affine A F) i p = r.
Proof. intros H. rewrite group_same_skymap. unfold skymap. rewrite H, B_tw. reflexivity. Qed.

(* ---- catalogs and the fit ---- *)
Record src := { s_mem : I; s_pix : Det; s_ref : Sky; s_w : Q }.
(* the pairs handed to the fitter (iter_linear_fit keeps the positively weighted ones) *)
Definition pair_of (A : I -> aff) (s : src) : pr :=
  qpair (Bw2t (s_ref s)) (Bw2t (gd2w A (s_mem s) (s_pix s))) (s_w s).
Definition pairs (A : I -> aff) (cat : list src) : list pr :=
  map (pair_of A) (filter (fun s => posb (s_w s)) cat).
(* the group's true error is the single affine map G of the reference plane *)
Definition error_is (A : I -> aff) (cat : list src) (G : aff) : Prop :=
  forall s, In s cat -> (0 < s_w s)%Q -> Bw2t (s_ref s) = app G (Bw2t (gd2w A (s_mem s) (s_pix s))).

Lemma pairs_in A cat z : In z (pairs A cat) -> exists s, In s cat /\ (0 < s_w s)%Q /\ z = pair_of A s.
Proof.
  unfold pairs. intros H. apply in_map_iff in H. destruct H as (s & E & H). apply filter_In in H.
  destruct H as [H1 H2]. exists s. split; [exact H1| split; [apply posb_true; exact H2| symmetry; exact E]].
Qed.
Lemma in_pairs A cat s : In s cat -> (0 < s_w s)%Q -> In (pair_of A s) (pairs A cat).
Proof. intros H1 H2. unfold pairs. apply in_map. apply filter_In. split; [exact H1| apply posb_true; exact H2]. Qed.
Lemma pairs_wnn A cat z : In z (pairs A cat) -> (0 <= pw z)%Q.
Proof. intros H. destruct (pairs_in A cat z H) as (s & _ & Hw & ->). apply Qlt_le_weak. exact Hw. Qed.

Lemma pairs_generated A cat G : error_is A cat G -> generated_by (q_of_c G) (pairs A cat).
Proof.
  intros He z Hz. destruct (pairs_in A cat z Hz) as (s & Hs & Hw & ->).
  apply (bridge_to_Q G). symmetry. apply He; assumption.
Qed.

(* a rational map that reproduces the pairs, applied to the group, puts every source on its reference *)
Theorem reproduces_lands A cat F : reproduces F (pairs A cat) ->
  forall s, In s cat -> (0 < s_w s)%Q ->
    gd2w (apply_affine A (c_of_q F)) (s_mem s) (s_pix s) = s_ref s.
Proof.
  intros Hr s Hs Hw. apply lands.
  destruct (Hr (pair_of A s) (in_pairs A cat s Hs Hw) Hw) as [E1 E2].
  apply (bridge_to_Qc F _ _ (s_w s)); assumption.
Qed.

(* C01, families with a rational closed form (shift, rscale incl. reflections, general): exact recovery
   composed with the applied correction.  Conclusions: every positively weighted catalog pixel is mapped onto
   its reference sky position EXACTLY by the corrected WCS of its member; the reported weighted sum of squared
   residuals (rmse^2 * sum of weights) is 0; the residual measured through the corrected WCS in the reference
   plane is 0 for every such source. *)
Theorem C01_group_exact g A cat G F : error_is A cat G -> in_family g G ->
  fit_aff g (pairs A cat) = Some F ->
  (forall s, In s cat -> (0 < s_w s)%Q ->
     gd2w (apply_affine A (c_of_q F)) (s_mem s) (s_pix s) = s_ref s /\
     Bw2t (gd2w (apply_affine A (c_of_q F)) (s_mem s) (s_pix s)) = Bw2t (s_ref s)) /\
  (ssr_q (pairs A cat) F == 0)%Q.
Proof.
  intros He Hfam Hfit.
  assert (Hr: reproduces F (pairs A cat)).
  { apply (fit_aff_reproduces g (pairs A cat) F (q_of_c G)).
    - apply pairs_wnn.
    - exact Hfit.
    - apply pairs_generated. exact He.
    - destruct g; cbn [in_family] in Hfam; try exact I0; try exact Logic.I.
      + apply fam_shift_q. exact Hfam.
      + apply fam_sim_q. exact Hfam. }
  split.
  - intros s Hs Hw. pose proof (reproduces_lands A cat F Hr s Hs Hw) as L. split; [exact L| rewrite L; reflexivity].
  - apply reproduces_ssr_zero; [apply pairs_wnn| exact Hr].
Qed.

(* C01, rshift: the fitted rotation involves a square root, so the fit is SPECIFIED (any admissible branch f
   and unit vector (c, s) positively collinear with the moment direction - the condition agree06 checks on
   the implementation's output) instead of computed. *)
Definition sim_q (t : sim) : qaff :=
  {| g00 := sa t; g01 := sb_ t; g10 := f10 t; g11 := f11 t; h0 := s1 t; h1 := s2 t |}.

Theorem C01_group_exact_rshift A cat G f c s : error_is A cat G -> in_family GRshift G ->
  let l := pairs A cat in
  (0 < sw l)%Q -> okflip l f -> (c * c + s * s == 1)%Q -> (c * nm l f == s * dn l f)%Q ->
  (0 <= c * dn l f + s * nm l f)%Q ->
  let F := sim_q (model_f l f c s) in
  (forall z, In z cat -> (0 < s_w z)%Q ->
     gd2w (apply_affine A (c_of_q F)) (s_mem z) (s_pix z) = s_ref z /\
     Bw2t (gd2w (apply_affine A (c_of_q F)) (s_mem z) (s_pix z)) = Bw2t (s_ref z)) /\
  (ssr_q l F == 0)%Q.
Proof.
  intros He [Hsim Hunit] l Wpos Hf Hu Hcol Hpos F.
  assert (Hg: generated_by (q_of_c G) l) by (apply pairs_generated; exact He).
  assert (Hr: reproduces F l).
  { intros z Hz Hw. unfold F, sim_q; cbn [g00 g01 g10 g11 h0 h1].
    assert (U: (this (a11 G) * this (a11 G) + this (a12 G) * this (a12 G) == 1)%Q).
    { unfold fam_unit in Hunit. rewrite <- !this_mult, <- this_plus, Hunit. reflexivity. }
    destruct (fam_sim_q G Hsim) as [[E10 E11]|[E10 E11]]; unfold q_of_c in E10, E11; cbn [g00 g01 g10 g11] in E10, E11.
    - apply (rshift_exact_recovery l Wpos (pairs_wnn A cat) f c s Hf Hu Hcol Hpos
               {| sa := this (a11 G); sb_ := this (a12 G); sflip := false; s1 := this (b1 G); s2 := this (b2 G) |});
        [unfold sq; cbn [sa sb_]; exact U| | exact Hz| exact Hw].
      intros a Ha. destruct (Hg a Ha) as [X Y]. unfold q_of_c in X, Y; cbn [g00 g01 g10 g11 h0 h1] in X, Y.
      unfold f10, f11; cbn [sa sb_ sflip s1 s2]. rewrite X, Y, E10, E11. split; reflexivity.
    - apply (rshift_exact_recovery l Wpos (pairs_wnn A cat) f c s Hf Hu Hcol Hpos
               {| sa := this (a11 G); sb_ := this (a12 G); sflip := true; s1 := this (b1 G); s2 := this (b2 G) |});
        [unfold sq; cbn [sa sb_]; exact U| | exact Hz| exact Hw].
      intros a Ha. destruct (Hg a Ha) as [X Y]. unfold q_of_c in X, Y; cbn [g00 g01 g10 g11 h0 h1] in X, Y.
      unfold f10, f11; cbn [sa sb_ sflip s1 s2]. rewrite X, Y, E10, E11. split; reflexivity. }
  split.
  - intros z Hz Hw. pose proof (reproduces_lands A cat F Hr z Hz Hw) as L. split; [exact L| rewrite L; reflexivity].
  - apply reproduces_ssr_zero; [apply pairs_wnn| exact Hr].
Qed.
End Group.
End Plane.

(* ------------------------------------------------------------------ D: one image, own plane, any history *)
Section Own.
Variables Det V Sky : Type.
Variable D : Det -> V.
Variable T : V -> pt.
Variable Ti : pt -> V.
Variable S : V -> Sky.
Variable Si : Sky -> V.
Hypothesis T_Ti : forall t, T (Ti t) = t.
Hypothesis Ti_T : forall v, Ti (T v) = v.
Hypothesis S_Si : forall w, S (Si w) = w.
Hypothesis Si_S : forall v, Si (S v) = v.

(* the image's own plane as reference plane (fit_wcs / align_to_ref use a deep copy of the corrector), whose
   plane-to-plane map onto itself is the identity *)
Let ow2t (w : Sky) : pt := T (Si w).
Let ot2w (t : pt) : Sky := S (Ti t).
Lemma own_wt t : ow2t (ot2w t) = t. Proof. unfold ow2t, ot2w. rewrite Si_S, T_Ti. reflexivity. Qed.
Lemma own_tw w : ot2w (ow2t w) = w. Proof. unfold ow2t, ot2w. rewrite Ti_T, S_Si. reflexivity. Qed.
Lemma own_HR (i : unit) t : T (Si (ot2w t)) = app idaff t.
Proof. unfold ot2w. rewrite Si_S, T_Ti, app_id. reflexivity. Qed.

(* conjugation with the identity changes nothing: the state after fit_wcs is set_correction A F *)
Notation gD := (fun _ : unit => D).
Notation gT := (fun _ : unit => T).
Notation gTi := (fun _ : unit => Ti).
Notation gS := (fun _ : unit => S).
Notation gSi := (fun _ : unit => Si).
Notation gR := (fun _ : unit => idaff).
Lemma own_state A F p :
  gd2w Sky unit Det V gD gT gTi gS (apply_affine unit gR (fun _ => A) F) tt p
  = d2w Det V Sky D T Ti S (set_correction A F) p.
Proof. unfold gd2w, apply_affine, d2w, set_correction. rewrite !app_comp, conj_code_id. reflexivity. Qed.

Definition own_src := src Sky unit Det.
Definition o_pix (s : own_src) : Det := s_pix Sky unit Det s.
Definition o_ref (s : own_src) : Sky := s_ref Sky unit Det s.
Definition o_w (s : own_src) : Q := s_w Sky unit Det s.
Definition own_pairs (A : aff) (cat : list own_src) : list pr :=
  pairs Sky ow2t unit Det V gD gT gTi gS (fun _ => A) cat.

(* C01 for a JWST gWCS corrector in ANY reachable state (A = history hs for any list of earlier corrections) *)
Theorem C01_gwcs_own g hs (cat : list own_src) G F :
  let A := history hs in
  (forall s, In s cat -> (0 < o_w s)%Q ->
     w2t V Sky T Si A (o_ref s) = app G (d2t Det V D T A (o_pix s))) ->
  in_family g G -> fit_aff g (own_pairs A cat) = Some F ->
  (forall s, In s cat -> (0 < o_w s)%Q ->
     d2w Det V Sky D T Ti S (set_correction A (c_of_q F)) (o_pix s) = o_ref s /\
     w2t V Sky T Si A (d2w Det V Sky D T Ti S (set_correction A (c_of_q F)) (o_pix s))
       = w2t V Sky T Si A (o_ref s)) /\
  (ssr_q (own_pairs A cat) F == 0)%Q.
Proof.
  intros A He Hfam Hfit.
  destruct (C01_group_exact Sky ow2t ot2w own_wt own_tw unit Det V gD gT gTi gS gSi
              (fun _ => Ti_T) (fun _ => S_Si) gR own_HR (fun _ => det_idaff) g (fun _ => A) cat G F) as [H1 H2].
  - intros s Hs Hw. unfold gd2w, ow2t. rewrite Si_S, T_Ti. exact (He s Hs Hw).
  - exact Hfam.
  - exact Hfit.
  - split; [|exact H2]. intros s Hs Hw. destruct (H1 s Hs Hw) as [L _].
    destruct s as [[] p r w]. unfold o_pix, o_ref in *. cbn [s_mem s_pix s_ref] in *. rewrite own_state in L.
    split; [exact L| rewrite L; reflexivity].
Qed.
End Own.

(* ------------------------------------------------------------------ E: two reference planes *)
Section TwoPlanes.
Variable Sky : Type.
Variables (w2t1 : Sky -> pt) (t2w1 : pt -> Sky) (w2t2 : Sky -> pt) (t2w2 : pt -> Sky).
Hypothesis wt1 : forall t, w2t1 (t2w1 t) = t.
Hypothesis tw1 : forall w, t2w1 (w2t1 w) = w.
Hypothesis wt2 : forall t, w2t2 (t2w2 t) = t.
Hypothesis tw2 : forall w, t2w2 (w2t2 w) = w.
Variable R : aff.                           (* plane 1 -> plane 2 *)
Hypothesis H12 : forall t, w2t2 (t2w1 t) = app R t.
Hypothesis detR : det R <> 0.

Lemma plane2_of_1 w : w2t2 w = app R (w2t1 w).
Proof. rewrite <- H12, tw1. reflexivity. Qed.
Lemma sky2_of_1 t : t2w2 (app R t) = t2w1 t.
Proof. rewrite <- H12, tw2. reflexivity. Qed.

(* what is the affine map G in plane 1 is R o G o R^-1 in plane 2 ... *)
Theorem pairs_conj G r c : w2t1 r = app G (w2t1 c) -> w2t2 r = app (conj_code R G) (w2t2 c).
Proof.
  intros H. rewrite conj_code_spec by exact detR. rewrite !plane2_of_1, inva_l by exact detR. rewrite H. reflexivity.
Qed.
(* ... and applying R o G o R^-1 through plane 2 is the same sky-level map as applying G through plane 1 *)
Theorem skymap_conj G w : skymap Sky w2t2 t2w2 (conj_code R G) w = skymap Sky w2t1 t2w1 G w.
Proof.
  unfold skymap. rewrite conj_code_spec by exact detR. rewrite plane2_of_1, inva_l by exact detR.
  apply sky2_of_1.
Qed.

(* plane independence: the error is G in plane 1; ANY map F2 that reproduces, in plane 2, three sources whose
   plane-2 positions are not collinear (the general fit does, by exact recovery) IS the conjugate of G, hence
   induces the same sky-level map as G does through plane 1 - for every sky position, not only the sources *)
Theorem plane_independent G F2 c1 c2 c3 r1 r2 r3 :
  w2t1 r1 = app G (w2t1 c1) -> w2t1 r2 = app G (w2t1 c2) -> w2t1 r3 = app G (w2t1 c3) ->
  app F2 (w2t2 c1) = w2t2 r1 -> app F2 (w2t2 c2) = w2t2 r2 -> app F2 (w2t2 c3) = w2t2 r3 ->
  (fst (w2t2 c2) - fst (w2t2 c1)) * (snd (w2t2 c3) - snd (w2t2 c1))
    - (fst (w2t2 c3) - fst (w2t2 c1)) * (snd (w2t2 c2) - snd (w2t2 c1)) <> 0 ->
  F2 = conj_code R G /\ forall w, skymap Sky w2t2 t2w2 F2 w = skymap Sky w2t1 t2w1 G w.
Proof.
  intros E1 E2 E3 K1 K2 K3 Hd.
  assert (E: F2 = conj_code R G).
  { apply (aff_three_points F2 (conj_code R G) (w2t2 c1) (w2t2 c2) (w2t2 c3) Hd).
    - rewrite K1. apply pairs_conj. exact E1.
    - rewrite K2. apply pairs_conj. exact E2.
    - rewrite K3. apply pairs_conj. exact E3. }
  split; [exact E|]. intros w. rewrite E. apply skymap_conj.
Qed.
End TwoPlanes.

(* ------------------------------------------------------------------ F: FITS corrector, flat-sky instance *)
(* sky = plane (P_c(v) = c + v): world = crval + cd . (t - crpix); tangent-plane coordinates of a FITS corrector
   are undistorted pixel coordinates t = pix2foc(p); the reference plane is any flat plane (affine Bm: tangent
   plane -> sky, e.g. another flat FITS WCS, or the image's own copy). *)
Definition lin (L : aff) (v : pt) : pt := (a11 L * fst v + a12 L * snd v, a21 L * fst v + a22 L * snd v).
Definition vsub (a b : pt) : pt := (fst a - fst b, snd a - snd b).
Definition mat (L : aff) : aff := {| a11 := a11 L; a12 := a12 L; a21 := a21 L; a22 := a22 L; b1 := 0; b2 := 0 |}.
Definition mmul (X Y : aff) : aff := mat (comp (mat X) (mat Y)).
Record fits := { crpix : pt; crval : pt; cd : aff }.      (* only the matrix part of cd is used *)
Definition wmap (st : fits) : aff :=
  {| a11 := a11 (cd st); a12 := a12 (cd st); a21 := a21 (cd st); a22 := a22 (cd st);
     b1 := fst (crval st) - (a11 (cd st) * fst (crpix st) + a12 (cd st) * snd (crpix st));
     b2 := snd (crval st) - (a21 (cd st) * fst (crpix st) + a22 (cd st) * snd (crpix st)) |}.
Definition ft2w (st : fits) (t : pt) : pt := app (wmap st) t.             (* wcs_pix2world *)
Definition fw2t (st : fits) (w : pt) : pt := app (inva (wmap st)) w.      (* wcs_world2pix *)

Definition two : Qc := 1 + 1.
Definition six : Qc := 1 + 1 + 1 + 1 + 1 + 1.
Definition eight : Qc := 1 + 1 + 1 + 1 + 1 + 1 + 1 + 1.
(* FITSWCSCorrector._linearize: 5-point first derivatives of f at x0 with steps hx, hy *)
Definition stencil (f : pt -> pt) (x0 : pt) (hx hy : Qc) : aff :=
  let p1 := f (fst x0 - hx, snd x0) in let p2 := f (fst x0 - hx / two, snd x0) in
  let p3 := f (fst x0 + hx / two, snd x0) in let p4 := f (fst x0 + hx, snd x0) in
  let p5 := f (fst x0, snd x0 - hy) in let p6 := f (fst x0, snd x0 - hy / two) in
  let p7 := f (fst x0, snd x0 + hy / two) in let p8 := f (fst x0, snd x0 + hy) in
  {| a11 := ((fst p1 - fst p4) + eight * (fst p3 - fst p2)) / (six * hx);
     a12 := ((fst p5 - fst p8) + eight * (fst p7 - fst p6)) / (six * hy);
     a21 := ((snd p1 - snd p4) + eight * (snd p3 - snd p2)) / (six * hx);
     a22 := ((snd p5 - snd p8) + eight * (snd p7 - snd p6)) / (six * hy); b1 := 0; b2 := 0 |}.

(* FITSWCSCorrector.set_correction(matrix, shift, ref_tpwcs), literal order of operations *)
Definition fits_set_correction (Bm : aff) (hx hy : Qc) (st : fits) (G : aff) : fits :=
  let sh := let v := lin (inva (mat G)) (b1 G, b2 G) in (- fst v, - snd v) in     (* shift = -inv(matrix).shift *)
  let cr := app (inva Bm) (ft2w st (crpix st)) in                                 (* crpixinref *)
  let cr' := lin G (vsub cr sh) in
  let crval' := app Bm cr' in                                                     (* new CRVAL *)
  let st0 := {| crpix := crpix st; crval := crval'; cd := cd st |} in
  let f := fun t => fw2t st0 (app Bm (lin G (vsub (app (inva Bm) (ft2w st t)) sh))) in
  let U := stencil f (crpix st) hx hy in
  {| crpix := crpix st; crval := crval'; cd := mmul (cd st) U |}.                 (* cd := cd . U *)

Lemma lin_shift G x : det G <> 0 ->
  lin G (vsub x (let v := lin (inva (mat G)) (b1 G, b2 G) in (- fst v, - snd v))) = app G x.
Proof.
  intros H. destruct x as [x y]. unfold lin, vsub, app, inva, mat, det in *; cbn [a11 a12 a21 a22 b1 b2 fst snd].
  f_equal; field; (split; [|assumption] || idtac); try assumption.
Qed.

Lemma stencil_ext f g x0 hx hy : (forall t, f t = g t) -> stencil f x0 hx hy = stencil g x0 hx hy.
Proof. intros H. unfold stencil. rewrite !H. reflexivity. Qed.

Lemma nz2 : two <> 0. Proof. intro H; vm_compute in H; discriminate H. Qed.
Lemma nz6 : six <> 0. Proof. intro H; vm_compute in H; discriminate H. Qed.

(* the stencil is exact on affine maps *)
Lemma stencil_affine L x0 hx hy : hx <> 0 -> hy <> 0 -> stencil (app L) x0 hx hy = mat L.
Proof.
  intros Hx Hy. destruct x0 as [x y]. unfold stencil, app, mat, two, six, eight; cbn [a11 a12 a21 a22 b1 b2 fst snd].
  f_equal; field; repeat split; try assumption; intro E; vm_compute in E; discriminate E.
Qed.

Definition vadd (a b : pt) : pt := (fst a + fst b, snd a + snd b).
Lemma app_lin L t c : app L t = vadd (app L c) (lin L (vsub t c)).
Proof. destruct t, c. unfold app, vadd, lin, vsub; cbn [fst snd]. f_equal; ring. Qed.
Lemma wmap_app c v X t : app (wmap {| crpix := c; crval := v; cd := X |}) t = vadd v (lin X (vsub t c)).
Proof. destruct t, c, v. unfold app, wmap, vadd, lin, vsub; cbn [fst snd a11 a12 a21 a22 b1 b2 crpix crval cd]. f_equal; ring. Qed.
Lemma lin_mmul X Y v : lin (mmul X Y) v = lin X (lin Y v).
Proof. destruct v. unfold lin, mmul, mat, comp; cbn [fst snd a11 a12 a21 a22 b1 b2]. f_equal; ring. Qed.
Lemma lin_mat L v : lin (mat L) v = lin L v.
Proof. reflexivity. Qed.
Lemma lin_comp A B v : lin (comp A B) v = lin A (lin B v).
Proof. destruct v. unfold lin, comp; cbn [fst snd a11 a12 a21 a22 b1 b2]. f_equal; ring. Qed.
Lemma lin_inva_wmap c v X u : det X <> 0 ->
  lin X (lin (inva (wmap {| crpix := c; crval := v; cd := X |})) u) = u.
Proof.
  intros H. destruct u as [x y]. unfold lin, inva, wmap, det in *; cbn [fst snd a11 a12 a21 a22 b1 b2 crpix crval cd].
  f_equal; field; exact H.
Qed.

(* re-linearisation of a flat FITS WCS around its CRPIX onto an arbitrary affine map N (tangent plane -> sky)
   reproduces N exactly *)
Lemma relinearize st N hx hy : det (cd st) <> 0 -> hx <> 0 -> hy <> 0 ->
  let st0 := {| crpix := crpix st; crval := app N (crpix st); cd := cd st |} in
  let U := stencil (fun t => fw2t st0 (app N t)) (crpix st) hx hy in
  forall t, ft2w {| crpix := crpix st; crval := app N (crpix st); cd := mmul (cd st) U |} t = app N t.
Proof.
  intros Hd Hx Hy st0 U t.
  assert (EU: U = mat (comp (inva (wmap st0)) N)).
  { unfold U. rewrite (stencil_ext _ (app (comp (inva (wmap st0)) N))) by (intro; unfold fw2t; rewrite app_comp; reflexivity).
    apply stencil_affine; assumption. }
  rewrite EU. unfold ft2w. rewrite wmap_app, lin_mmul, lin_mat, lin_comp. unfold st0.
  rewrite lin_inva_wmap by exact Hd. symmetry. apply app_lin.
Qed.

(* C02 for the flat FITS model, any flat reference plane: in the reference plane the corrected WCS is the old
   one followed by the affine map G = (matrix, shift) - for EVERY tangent-plane point, not only at CRPIX *)
Theorem fits_flat_C02 Bm hx hy st G t : det (cd st) <> 0 -> det Bm <> 0 -> det G <> 0 -> hx <> 0 -> hy <> 0 ->
  app (inva Bm) (ft2w (fits_set_correction Bm hx hy st G) t) = app G (app (inva Bm) (ft2w st t)).
Proof.
  intros Hc Hb Hg Hx Hy.
  set (N := comp Bm (comp G (comp (inva Bm) (wmap st)))).
  assert (EN: forall u, app Bm (lin G (vsub (app (inva Bm) (ft2w st u))
                 (let v := lin (inva (mat G)) (b1 G, b2 G) in (- fst v, - snd v)))) = app N u).
  { intro u. rewrite lin_shift by exact Hg. unfold N, ft2w. rewrite !app_comp. reflexivity. }
  assert (E: forall u, ft2w (fits_set_correction Bm hx hy st G) u = app N u).
  { intro u. unfold fits_set_correction. rewrite EN.
    rewrite (stencil_ext _ (fun t0 => fw2t {| crpix := crpix st; crval := app N (crpix st); cd := cd st |} (app N t0)))
      by (intro t0; rewrite EN; reflexivity).
    apply (relinearize st N hx hy Hc Hx Hy). }
  rewrite E. unfold N, ft2w. rewrite !app_comp, inva_l by exact Hb. reflexivity.
Qed.

(* C01 for the flat FITS model: a fitted map that reproduces the pairs measured in the reference plane puts
   every catalog pixel on its reference position, for any distortion F : pixel -> tangent plane *)
Section FitsFlatFit.
Variable Det : Type.
Variable Fd : Det -> pt.             (* pix2foc: detector -> undistorted tangent-plane (pixel) coordinates *)
Variable Bm : aff.                   (* reference plane -> sky *)
Variables hx hy : Qc.
Hypothesis Hb : det Bm <> 0.
Hypothesis Hx : hx <> 0.
Hypothesis Hy : hy <> 0.
Definition fd2w (st : fits) (p : Det) : pt := ft2w st (Fd p).
Record fsrc := { f_pix : Det; f_ref : pt; f_w : Q }.
Definition fpairs (st : fits) (cat : list fsrc) : list pr :=
  map (fun s => qpair (app (inva Bm) (f_ref s)) (app (inva Bm) (fd2w st (f_pix s))) (f_w s))
      (filter (fun s => posb (f_w s)) cat).

Theorem C01_fits_flat_exact g st cat G F : det (cd st) <> 0 -> det (c_of_q F) <> 0 ->
  (forall s, In s cat -> (0 < f_w s)%Q -> app (inva Bm) (f_ref s) = app G (app (inva Bm) (fd2w st (f_pix s)))) ->
  in_family g G -> fit_aff g (fpairs st cat) = Some F ->
  (forall s, In s cat -> (0 < f_w s)%Q ->
     fd2w (fits_set_correction Bm hx hy st (c_of_q F)) (f_pix s) = f_ref s) /\
  (ssr_q (fpairs st cat) F == 0)%Q.
Proof.
  intros Hc Hf He Hfam Hfit.
  assert (Hin: forall z, In z (fpairs st cat) -> exists s, In s cat /\ (0 < f_w s)%Q /\
             z = qpair (app (inva Bm) (f_ref s)) (app (inva Bm) (fd2w st (f_pix s))) (f_w s)).
  { intros z Hz. unfold fpairs in Hz. apply in_map_iff in Hz. destruct Hz as (s & E & H). apply filter_In in H.
    destruct H as [H1 H2]. exists s. split; [exact H1| split; [apply posb_true; exact H2| symmetry; exact E]]. }
  assert (Wnn: forall z, In z (fpairs st cat) -> (0 <= pw z)%Q).
  { intros z Hz. destruct (Hin z Hz) as (s & _ & Hw & ->). apply Qlt_le_weak. exact Hw. }
  assert (Hr: reproduces F (fpairs st cat)).
  { apply (fit_aff_reproduces g (fpairs st cat) F (q_of_c G)); [exact Wnn| exact Hfit| |].
    - intros z Hz. destruct (Hin z Hz) as (s & Hs & Hw & ->). apply (bridge_to_Q G). symmetry. apply He; assumption.
    - destruct g; cbn [in_family] in Hfam; try exact Logic.I.
      + apply fam_shift_q. exact Hfam.
      + apply fam_sim_q. exact Hfam. }
  split; [|apply reproduces_ssr_zero; assumption].
  intros s Hs Hw.
  assert (Hz: In (qpair (app (inva Bm) (f_ref s)) (app (inva Bm) (fd2w st (f_pix s))) (f_w s)) (fpairs st cat)).
  { unfold fpairs. apply (in_map (fun s0 => qpair (app (inva Bm) (f_ref s0)) (app (inva Bm) (fd2w st (f_pix s0))) (f_w s0))).
    apply filter_In. split; [exact Hs| apply posb_true; exact Hw]. }
  destruct (Hr _ Hz Hw) as [E1 E2].
  pose proof (bridge_to_Qc F _ _ (f_w s) E1 E2) as L.
  unfold fd2w in *.
  pose proof (fits_flat_C02 Bm hx hy st (c_of_q F) (Fd (f_pix s)) Hc Hb Hf Hx Hy) as C2.
  rewrite L in C2.
  rewrite <- (inva_r Bm (ft2w (fits_set_correction Bm hx hy st (c_of_q F)) (Fd (f_pix s))) Hb), C2.
  apply inva_r. exact Hb.
Qed.
End FitsFlatFit.

Print Assumptions C01_group_exact.
Print Assumptions C01_group_exact_rshift.
Print Assumptions C01_gwcs_own.
Print Assumptions plane_independent.
Print Assumptions C01_fits_flat_exact.
