(* fit_rscale / fit_rshift: optimality for ANY admissible reflection branch (the branch is
   admissible when it agrees with the sign of the centred cross determinant; both are when it is 0),
   and optimality of the unit-scale (rshift) fit, stated without square roots. *)
From Coq Require Import QArith Qabs List Bool Arith Lia Lqa Psatz.
Require Import LSQ Rscale.
Import ListNotations.
Open Scope Q_scope.

Section RS2.
Variable l : list pr.
Notation W := (sw l).
Hypothesis Wpos : 0 < W.
Hypothesis wnn : forall z, In z l -> 0 <= pw z.

Definition okflip (f : bool) : Prop := if f then detc l <= 0 else 0 <= detc l.

Definition model_f (f : bool) (a b : Q) : sim :=
  let t0 := {| sa := a; sb_ := b; sflip := f; s1 := 0; s2 := 0 |} in
  {| sa := a; sb_ := b; sflip := f;
     s1 := xm l - (a * um l + b * vm l); s2 := ym l - (f10 t0 * um l + f11 t0 * vm l) |}.

Lemma dl_model_f f a b : dl1 l (model_f f a b) == 0 /\ dl2 l (model_f f a b) == 0.
Proof.
  split.
  - unfold dl1, model_f; cbn [sa sb_ s1]; ring.
  - unfold dl2, model_f, f10, f11; cbn [sa sb_ sflip s2]; destruct f; ring.
Qed.

Lemma branch_le f g : okflip f -> sq (dn l g) + sq (nm l g) <= sq (dn l f) + sq (nm l f).
Proof.
  unfold okflip, dn, nm, detc, sq. destruct f, g; intros H; nra.
Qed.

Lemma ssr_model_f f a b :
  ssr_sim l (model_f f a b) == kk l - 2 * (a * dn l f + b * nm l f) + (sq a + sq b) * q2 l.
Proof.
  rewrite (ssr_closed l Wpos).
  destruct (dl_model_f f a b) as [Z1 Z2].
  assert (Z1': sq (dl1 l (model_f f a b)) == 0) by (unfold sq; rewrite Z1; ring).
  assert (Z2': sq (dl2 l (model_f f a b)) == 0) by (unfold sq; rewrite Z2; ring).
  rewrite Z1', Z2'. cbn [sa sb_ sflip model_f]. ring.
Qed.

(* rscale: scale fitted *)
Theorem rscale_optimal_f f : 0 < q2 l -> okflip f ->
  forall t, ssr_sim l (model_f f (dn l f / q2 l) (nm l f / q2 l)) <= ssr_sim l t.
Proof.
  intros q2pos Hf t.
  assert (Hq: ~ q2 l == 0) by lra.
  rewrite ssr_model_f. rewrite (ssr_closed l Wpos t).
  set (D := dn l f). set (N := nm l f). set (g := sflip t).
  assert (Vm: kk l - 2 * (D / q2 l * D + N / q2 l * N) + (sq (D / q2 l) + sq (N / q2 l)) * q2 l
              == kk l - (sq D + sq N) / q2 l).
  { unfold sq. field. exact Hq. }
  rewrite Vm.
  assert (Vt: W * (sq (dl1 l t) + sq (dl2 l t)) + kk l - 2 * (sa t * dn l g + sb_ t * nm l g)
              + (sq (sa t) + sq (sb_ t)) * q2 l
              == W * (sq (dl1 l t) + sq (dl2 l t))
                 + q2 l * (sq (sa t - dn l g / q2 l) + sq (sb_ t - nm l g / q2 l))
                 + (kk l - (sq (dn l g) + sq (nm l g)) / q2 l)).
  { unfold sq. field. exact Hq. }
  rewrite Vt.
  assert (P1: 0 <= W * (sq (dl1 l t) + sq (dl2 l t))).
  { apply Qmult_le_0_compat; [lra|]. pose proof (sq_nonneg (dl1 l t)). pose proof (sq_nonneg (dl2 l t)). lra. }
  assert (P2: 0 <= q2 l * (sq (sa t - dn l g / q2 l) + sq (sb_ t - nm l g / q2 l))).
  { apply Qmult_le_0_compat; [lra|].
    pose proof (sq_nonneg (sa t - dn l g / q2 l)). pose proof (sq_nonneg (sb_ t - nm l g / q2 l)). lra. }
  pose proof (branch_le f g Hf) as B. fold D N in B.
  assert (B': (sq (dn l g) + sq (nm l g)) / q2 l <= (sq D + sq N) / q2 l).
  { unfold Qdiv. apply Qmult_le_compat_r; [exact B|]. apply Qlt_le_weak, Qinv_lt_0_compat; exact q2pos. }
  lra.
Qed.

(* rshift: unit scale. (c, s) is any unit vector positively collinear with (dn f, nm f). *)
Theorem rshift_optimal_f f c s : okflip f ->
  c * c + s * s == 1 -> c * nm l f == s * dn l f -> 0 <= c * dn l f + s * nm l f ->
  forall t, sq (sa t) + sq (sb_ t) == 1 -> ssr_sim l (model_f f c s) <= ssr_sim l t.
Proof.
  intros Hf Hu Hcol Hpos t Ht.
  rewrite ssr_model_f. rewrite (ssr_closed l Wpos t).
  set (g := sflip t).
  pose proof (branch_le f g Hf) as B.
  set (D := dn l f) in *. set (N := nm l f) in *. set (D' := dn l g) in *. set (N' := nm l g) in *.
  set (a := sa t) in *. set (b := sb_ t) in *.
  assert (P1: 0 <= W * (sq (dl1 l t) + sq (dl2 l t))).
  { apply Qmult_le_0_compat; [lra|]. pose proof (sq_nonneg (dl1 l t)). pose proof (sq_nonneg (dl2 l t)). lra. }
  assert (U1: sq c + sq s == 1) by (unfold sq; exact Hu).
  rewrite U1, Ht.
  (* Cauchy-Schwarz without roots *)
  set (P := c * D + s * N) in *. set (Q0 := a * D' + b * N').
  assert (EP: sq P == sq D + sq N).
  { unfold P, sq. unfold sq in U1.
    assert (E: (c * D + s * N) * (c * D + s * N) + (c * N - s * D) * (c * N - s * D)
               == (c * c + s * s) * (D * D + N * N)) by ring.
    assert (Z: c * N - s * D == 0) by lra. rewrite Z in E. rewrite U1 in E. lra. }
  assert (EQ: sq Q0 <= sq D' + sq N').
  { unfold Q0, sq. unfold sq in Ht.
    assert (E: (a * D' + b * N') * (a * D' + b * N') + (a * N' - b * D') * (a * N' - b * D')
               == (a * a + b * b) * (D' * D' + N' * N')) by ring.
    rewrite Ht in E. pose proof (sq_nonneg (a * N' - b * D')) as S. unfold sq in S. lra. }
  assert (LE: Q0 <= P).
  { destruct (Qlt_le_dec P Q0) as [Hlt|Hle]; [|exact Hle]. exfalso.
    unfold sq in EP, EQ, B. nra. }
  lra.
Qed.
End RS2.
Print Assumptions rscale_optimal_f.
Print Assumptions rshift_optimal_f.
