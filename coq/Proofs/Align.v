(* C13: status / correction bookkeeping of imalign.align_wcs (after repairs F8, F9), as a state machine
   over an abstract matcher+fit oracle and an abstract ordering oracle *)
From Coq Require Import List Bool Arith Lia Permutation.
Import ListNotations.

Inductive status := Unset | Reference | Success | Failed (reason : nat).   (* 0 = empty catalog, 1 = not enough matches, ... *)
Record img := { gid : option nat; nonempty : bool }.

(* ---- grouping in order of first appearance; ungrouped images are singletons at their own position (F9) ---- *)
Definition key := (option nat * nat)%type.      (* (Some g, 0) for group g, (None, k) for the ungrouped image k *)
Definition key_eqb (a b : key) : bool :=
  match fst a, fst b with
  | Some x, Some y => Nat.eqb x y
  | None, None => Nat.eqb (snd a) (snd b)
  | _, _ => false
  end.
Definition key_of (k : nat) (im : img) : key := match gid im with Some g => (Some g, 0) | None => (None, k) end.
Fixpoint add_member (kk : key) (i : nat) (gs : list (key * list nat)) : list (key * list nat) :=
  match gs with
  | [] => [(kk, [i])]
  | (k', ms) :: gs' => if key_eqb kk k' then (k', ms ++ [i]) :: gs' else (k', ms) :: add_member kk i gs'
  end.
Fixpoint group_from (k : nat) (ims : list img) (gs : list (key * list nat)) : list (key * list nat) :=
  match ims with
  | [] => gs
  | im :: ims' => group_from (S k) ims' (add_member (key_of k im) k gs)
  end.
Definition groups (ims : list img) : list (list nat) := map snd (group_from 0 ims []).

(* ---- the run ---- *)
Definition fmap := nat -> status.
Definition cmap := nat -> nat.
Definition inb (i : nat) (ms : list nat) : bool := existsb (Nat.eqb i) ms.
Definition set_st (ms : list nat) (v : status) (f : fmap) : fmap := fun i => if inb i ms then v else f i.
Definition bump (ms : list nat) (c : cmap) : cmap := fun i => if inb i ms then S (c i) else c i.

Section Run.
Variable ims : list img.
Variable refgiven expand : bool.
Variable order : list (list nat) -> list (list nat).      (* alignment order chosen by the overlap logic (C15) *)
Variable outcome : list nat -> nat -> bool.                (* matcher + fit succeeded for this group at this step? *)
Variable nooverlap : list nat -> nat -> bool.              (* overlap area with the reference is 0 at this step *)

Definition is_nonempty (i : nat) : bool := match nth_error ims i with Some im => nonempty im | None => false end.
Definition group_live (ms : list nat) : bool := existsb is_nonempty ms.

Record result := { r_st : fmap; r_corr : cmap; r_appended : list (list nat); r_raised : bool }.

Fixpoint loop (queue : list (list nat)) (t : nat) (st : fmap) (c : cmap) (app : list (list nat)) : fmap * cmap * list (list nat) :=
  match queue with
  | [] => (st, c, app)
  | g :: q' =>
      let ok := outcome g t in
      let st' := set_st g (if ok then Success else Failed 1) st in
      let c' := if ok then bump g c else c in
      let app' := if expand && (ok || nooverlap g t) then app ++ [g] else app in
      loop q' (S t) st' c' app'
  end.

Definition align : result :=
  let gs := groups ims in
  let dead := filter (fun g => negb (group_live g)) gs in
  let live := filter group_live gs in
  let st0 := fold_right (fun g f => set_st g (Failed 0) f) (fun _ => Unset) dead in
  let need := if refgiven then 1 else 2 in
  if length live <? need then {| r_st := st0; r_corr := fun _ => 0; r_appended := []; r_raised := true |}
  else
    let ordered := order live in
    let '(st1, queue) :=
       if refgiven then (st0, ordered)
       else match ordered with
            | r :: q => (set_st r Reference st0, q)
            | [] => (st0, [])
            end in
    let '(st2, c2, app2) := loop queue 0 st1 (fun _ => 0) [] in
    {| r_st := st2; r_corr := c2; r_appended := app2; r_raised := false |}.

(* ---- facts about the loop, for pairwise disjoint groups ---- *)
Definition disjoint (gs : list (list nat)) : Prop :=
  forall a b i, In a gs -> In b gs -> inb i a = true -> inb i b = true -> a = b.

Lemma loop_spec : forall queue t st c app,
  NoDup queue -> disjoint queue ->
  let '(st', c', app') := loop queue t st c app in
  (forall i, (forall g, In g queue -> inb i g = false) -> st' i = st i /\ c' i = c i) /\
  (forall g i, In g queue -> inb i g = true ->
      (st' i = Success /\ c' i = S (c i)) \/ (exists r, st' i = Failed r /\ c' i = c i)) /\
  (forall g i j, In g queue -> inb i g = true -> inb j g = true -> st' i = st' j) /\
  (expand = false -> app' = app) /\
  (forall g, In g app' -> In g app \/ (In g queue /\ exists i, inb i g = true -> True)).
Proof.
  induction queue as [|g q IH]; intros t st c app Hnd Hdj; simpl.
  - split; [|split; [|split; [|split]]]; auto; intros; try contradiction; try (left; assumption); try (split; reflexivity).
  - inversion Hnd as [|? ? Hg Hnd']; subst.
    assert (Hdj': disjoint q) by (intros a b i Ha Hb; apply Hdj; right; assumption).
    assert (Hfree: forall i, inb i g = true -> forall g', In g' q -> inb i g' = false).
    { intros i Hi g' Hg'. destruct (inb i g') eqn:E; [|reflexivity].
      exfalso. apply Hg. rewrite (Hdj g g' i); auto; [left; reflexivity| right; exact Hg']. }
    assert (Hother: forall g' i, In g' q -> inb i g' = true -> inb i g = false).
    { intros g' i Hg' Hi. destruct (inb i g) eqn:E; [|reflexivity].
      exfalso. apply Hg. rewrite (Hdj g g' i); auto; [left; reflexivity| right; exact Hg']. }
    destruct (outcome g t) eqn:Eo.
    + (* success *)
      specialize (IH (S t) (set_st g Success st) (bump g c)
                     (if expand && (true || nooverlap g t) then app ++ [g] else app) Hnd' Hdj').
      destruct (loop q (S t) _ _ _) as [[st' c'] app'].
      destruct IH as (I1 & I2 & I3 & I4 & I5).
      split; [|split; [|split; [|split]]].
      * intros i Hi. assert (Hig: inb i g = false) by (apply Hi; left; reflexivity).
        destruct (I1 i) as [E1 E2]; [intros g' Hg'; apply Hi; right; exact Hg'|].
        rewrite E1, E2. unfold set_st, bump. rewrite Hig. split; reflexivity.
      * intros g' i [<-|Hg'] Hi.
        -- destruct (I1 i (Hfree i Hi)) as [E1 E2]. rewrite E1, E2. unfold set_st, bump. rewrite Hi.
           left; split; reflexivity.
        -- pose proof (Hother g' i Hg' Hi) as Hig.
           destruct (I2 g' i Hg' Hi) as [[E1 E2]|[r [E1 E2]]]; [left|right; exists r];
             (split; [exact E1| rewrite E2; unfold bump; rewrite Hig; reflexivity]).
      * intros g' i j [<-|Hg'] Hi Hj.
        -- destruct (I1 i (Hfree i Hi)) as [E1 _]. destruct (I1 j (Hfree j Hj)) as [E2 _].
           rewrite E1, E2. unfold set_st. rewrite Hi, Hj. reflexivity.
        -- apply (I3 g' i j Hg' Hi Hj).
      * intros He. rewrite (I4 He). rewrite He. reflexivity.
      * intros g' Hg'. destruct (I5 g' Hg') as [H|[H _]].
        -- destruct (expand && (true || nooverlap g t)); [| left; exact H].
           apply in_app_or in H. destruct H as [H|[<-|[]]]; [left; exact H|].
           right. split; [left; reflexivity| exists 0; trivial].
        -- right. split; [right; exact H| exists 0; trivial].
    + (* failure *)
      specialize (IH (S t) (set_st g (Failed 1) st) c
                     (if expand && (false || nooverlap g t) then app ++ [g] else app) Hnd' Hdj').
      destruct (loop q (S t) _ _ _) as [[st' c'] app'].
      destruct IH as (I1 & I2 & I3 & I4 & I5).
      split; [|split; [|split; [|split]]].
      * intros i Hi. assert (Hig: inb i g = false) by (apply Hi; left; reflexivity).
        destruct (I1 i) as [E1 E2]; [intros g' Hg'; apply Hi; right; exact Hg'|].
        rewrite E1, E2. unfold set_st. rewrite Hig. split; reflexivity.
      * intros g' i [<-|Hg'] Hi.
        -- destruct (I1 i (Hfree i Hi)) as [E1 E2]. rewrite E1, E2. unfold set_st. rewrite Hi.
           right; exists 1; split; reflexivity.
        -- apply (I2 g' i Hg' Hi).
      * intros g' i j [<-|Hg'] Hi Hj.
        -- destruct (I1 i (Hfree i Hi)) as [E1 _]. destruct (I1 j (Hfree j Hj)) as [E2 _].
           rewrite E1, E2. unfold set_st. rewrite Hi, Hj. reflexivity.
        -- apply (I3 g' i j Hg' Hi Hj).
      * intros He. rewrite (I4 He). rewrite He. reflexivity.
      * intros g' Hg'. destruct (I5 g' Hg') as [H|[H _]].
        -- destruct (expand && (false || nooverlap g t)); [| left; exact H].
           apply in_app_or in H. destruct H as [H|[<-|[]]]; [left; exact H|].
           right. split; [left; reflexivity| exists 0; trivial].
        -- right. split; [right; exact H| exists 0; trivial].
Qed.

End Run.
Print Assumptions loop_spec.

(* grouping example of DESIGN section 5 (F9): [a(None), g2, b(None), g2, c(None)] -> a, g2, b, c *)
Example grouping_first_appearance :
  groups [ {| gid := None; nonempty := true |}; {| gid := Some 2; nonempty := true |};
           {| gid := None; nonempty := true |}; {| gid := Some 2; nonempty := true |};
           {| gid := None; nonempty := true |} ] = [[0]; [1; 3]; [2]; [4]].
Proof. reflexivity. Qed.
