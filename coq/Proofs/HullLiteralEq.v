(* the literal index-list transcription of the merging loop (Model/HullLiteral.v) computes the same list as
   the structural form `merge` the theorems are stated for *)
From Coq Require Import QArith Qabs List Bool Arith Lia.
Require Import HullModel HullFull HullLiteral HullMerge.
Import ListNotations.
Open Scope Q_scope.

Lemma pop_at_middle {A} (P : list A) x Q0 : pop_at (length P) (P ++ x :: Q0) = P ++ Q0.
Proof. induction P as [|a P IH]; [reflexivity|]. simpl. rewrite IH. reflexivity. Qed.

Lemma skipn_vtx v : forall i, (i < length v)%nat -> skipn i v = vtx v i :: skipn (S i) v.
Proof.
  induction v as [|a v IH]; intros i H; [simpl in H; lia|].
  destruct i as [|i]; [reflexivity|].
  simpl in H. change (skipn (S i) (a :: v)) with (skipn i v). rewrite (IH i) by lia. reflexivity.
Qed.
Lemma skipn_ne {A} (v : list A) i : (i < length v)%nat -> skipn i v <> [].
Proof.
  revert i. induction v as [|a v IH]; intros i H; [simpl in H; lia|].
  destruct i as [|i]; [discriminate|]. simpl in H |- *. apply IH. lia.
Qed.

(* ---- the for loop *)
Lemma loop_idx_spec s v : forall k J, (S k < length v)%nat -> J <> [] ->
  map (vtx v) J = merge_tail s (skipn (S k) v) ->
  exists J', loop_idx s v k (seq 0 (S k) ++ J) = O :: J' /\ map (vtx v) J' = merge_tail s (skipn 1 v).
Proof.
  induction k as [|k IH]; intros J Hk Hne HJ.
  - exists J. split; [reflexivity| exact HJ].
  - destruct J as [|j J0]; [contradiction|].
    assert (Eidx: seq 0 (S (S k)) ++ j :: J0 = seq 0 (S k) ++ S k :: j :: J0).
    { rewrite (seq_S (S k) 0). rewrite <- app_assoc. reflexivity. }
    assert (Ekn: nth (S (S k)) (seq 0 (S (S k)) ++ j :: J0) O = j).
    { replace (S (S k)) with (length (seq 0 (S (S k)))) at 1 by apply seq_length. apply nth_middle. }
    assert (Esk: skipn (S k) v = vtx v (S k) :: skipn (S (S k)) v) by (apply skipn_vtx; lia).
    pose proof (skipn_ne v (S (S k)) Hk) as Hne2.
    destruct (skipn (S (S k)) v) as [|x r] eqn:Er; [contradiction|].
    assert (Estep: merge_tail s (skipn (S k) v) =
                   if close s (vtx v (S k)) (vtx v j) then map (vtx v) (j :: J0)
                   else vtx v (S k) :: map (vtx v) (j :: J0)).
    { rewrite Esk, merge_tail_step, <- HJ. reflexivity. }
    change (loop_idx s v (S k) (seq 0 (S (S k)) ++ j :: J0)) with
      (loop_idx s v k (if close s (vtx v (S k)) (vtx v (nth (S (S k)) (seq 0 (S (S k)) ++ j :: J0) O))
                       then pop_at (S k) (seq 0 (S (S k)) ++ j :: J0) else seq 0 (S (S k)) ++ j :: J0)).
    rewrite Ekn. destruct (close s (vtx v (S k)) (vtx v j)) eqn:Ec.
    + assert (Epop: pop_at (S k) (seq 0 (S k) ++ S k :: j :: J0) = seq 0 (S k) ++ j :: J0).
      { pose proof (pop_at_middle (seq 0 (S k)) (S k) (j :: J0)) as G. rewrite seq_length in G. exact G. }
      rewrite Eidx, Epop. apply IH; [lia| discriminate| rewrite Estep; reflexivity].
    + rewrite Eidx. apply IH; [lia| discriminate| rewrite Estep; reflexivity].
Qed.

(* ---- the while loop *)
Lemma while_idx_spec s v : forall fuel J, (length J <= fuel)%nat ->
  map (vtx v) (while_idx s v fuel (O :: J)) = vtx v 0 :: merge_start s (vtx v 0) (map (vtx v) J).
Proof.
  induction fuel as [|f IH]; intros J H.
  - destruct J; [reflexivity| simpl in H; lia].
  - destruct J as [|j1 [|j2 [|j3 J']]]; [reflexivity| reflexivity| reflexivity|].
    change (while_idx s v (S f) (O :: j1 :: j2 :: j3 :: J')) with
      (if close s (vtx v 0) (vtx v j1) then while_idx s v f (O :: j2 :: j3 :: J') else O :: j1 :: j2 :: j3 :: J').
    change (map (vtx v) (j1 :: j2 :: j3 :: J')) with (vtx v j1 :: vtx v j2 :: vtx v j3 :: map (vtx v) J').
    rewrite merge_start_step.
    destruct (close s (vtx v 0) (vtx v j1)); [| reflexivity].
    rewrite IH by (simpl in H |- *; lia). reflexivity.
Qed.

Theorem merge_literal_eq s v : merge_literal s v = merge s v.
Proof.
  destruct v as [|v0 rest]; [reflexivity|].
  destruct rest as [|x r]; [reflexivity|].
  unfold merge_literal, merge.
  set (v := v0 :: x :: r). set (n := length v).
  assert (Hn: n = S (S (length r))) by reflexivity.
  (* seq 0 n = seq 0 (S (n-2)) ++ [n-1] *)
  assert (E0: seq 0 n = seq 0 (S (n - 2)) ++ [n - 1]%nat).
  { replace n with (S (n - 1)) at 1 by lia. rewrite seq_S. replace (S (n - 2)) with (n - 1)%nat by lia. reflexivity. }
  destruct (loop_idx_spec s v (n - 2) [(n - 1)%nat]) as [J' [EL EJ]].
  - fold n. lia.
  - discriminate.
  - replace (S (n - 2)) with (n - 1)%nat by lia.
    rewrite (skipn_vtx v (n - 1)) by (fold n; lia).
    replace (S (n - 1)) with (length v) by (fold n; lia). rewrite skipn_all. reflexivity.
  - rewrite E0, EL.
    assert (HL: (length J' <= n)%nat).
    { rewrite <- (map_length (vtx v)), EJ. pose proof (subseq_length _ _ (merge_tail_subseq s (skipn 1 v))) as G.
      simpl in G |- *. lia. }
    rewrite (while_idx_spec s v n J' HL), EJ. reflexivity.
Qed.

Theorem convex_hull_literal_eq xs ys ms : convex_hull_literal xs ys ms = convex_hull_model xs ys ms.
Proof.
  unfold convex_hull_literal, convex_hull_model.
  destruct (match ms with Some s => qltb s 0 | None => false end); [reflexivity|].
  destruct (sort_set (combine xs ys)) as [|p [|p' r]]; [reflexivity| reflexivity|].
  destruct ms as [s|]; [rewrite merge_literal_eq|]; reflexivity.
Qed.
