(* fit_general of tweakwcs.linearfit: model and weighted-least-squares optimality *)
From Coq Require Import QArith Qabs List Bool Arith Lia Lqa Psatz.
Require Import GJModel GJSum GJProof1 GJProof2 GJProof3 GJProof4 GJProof5.
Import ListNotations.
Open Scope Q_scope.

Record pr := { px : Q; py : Q; pu : Q; pv : Q; pw : Q }.   (* xy, uv, effective weight *)
Definition sq (x : Q) := x * x.
Lemma sq_nonneg x : 0 <= sq x. Proof. unfold sq. nra. Qed.

Definition sumQ (f : pr -> Q) (l : list pr) : Q := fold_right (fun p acc => f p + acc) 0 l.
Lemma sumQ_add f g l : sumQ (fun p => f p + g p) l == sumQ f l + sumQ g l.
Proof. induction l as [|p l IH]; simpl; [ring| rewrite IH; ring]. Qed.
Lemma sumQ_scal c f l : sumQ (fun p => c * f p) l == c * sumQ f l.
Proof. induction l as [|p l IH]; simpl; [ring| rewrite IH; ring]. Qed.
Lemma sumQ_ext f g l : (forall p, In p l -> f p == g p) -> sumQ f l == sumQ g l.
Proof. induction l as [|p l IH]; simpl; intros H; [reflexivity|].
  rewrite (H p) by auto. rewrite IH; [reflexivity| intros; apply H; auto]. Qed.
Lemma sumQ_nonneg f l : (forall p, In p l -> 0 <= f p) -> 0 <= sumQ f l.
Proof. induction l as [|p l IH]; simpl; intros H; [lra|].
  assert (0 <= f p) by (apply H; auto). assert (0 <= sumQ f l) by (apply IH; intros; apply H; auto). lra. Qed.

(* the moment sums of fit_general (weighted branch; the unweighted branch is w = 1) *)
Section Fit.
Variable l : list pr.
Definition sw  := sumQ pw l.
Definition su  := sumQ (fun p => pw p * pu p) l.
Definition sv  := sumQ (fun p => pw p * pv p) l.
Definition sx  := sumQ (fun p => pw p * px p) l.
Definition sy  := sumQ (fun p => pw p * py p) l.
Definition suu := sumQ (fun p => pw p * (pu p * pu p)) l.
Definition svv := sumQ (fun p => pw p * (pv p * pv p)) l.
Definition suv := sumQ (fun p => pw p * (pu p * pv p)) l.
Definition sxu := sumQ (fun p => pw p * (px p * pu p)) l.
Definition sxv := sumQ (fun p => pw p * (px p * pv p)) l.
Definition syu := sumQ (fun p => pw p * (py p * pu p)) l.
Definition syv := sumQ (fun p => pw p * (py p * pv p)) l.

Definition Mmat : mat := [[su; sv; sw]; [suu; suv; su]; [suv; svv; sv]].
Definition avec : row := [sx; sxu; sxv].
Definition bvec : row := [sy; syu; syv].

Definition mv (X : mat) (a : row) : row :=
  tabv 3 (fun j => vsum (seq 0 3) (fun k => mnth X j k * qnth a k)).

Inductive fres := FitOk (p q : row) | FitSingular.
Definition fit_general : fres :=
  match inv_gj Mmat with
  | Ok X => FitOk (mv X avec) (mv X bvec)
  | _ => FitSingular
  end.

Definition ssr (t : pr -> Q) (c : row) : Q :=
  sumQ (fun p => pw p * sq (t p - (qnth c 0 * pu p + qnth c 1 * pv p + qnth c 2))) l.

(* normal equations from the right inverse *)
Lemma normal_eqs X a : inv_gj Mmat = Ok X ->
  forall i, (i < 3)%nat ->
    vsum (seq 0 3) (fun j => mnth Mmat i j * qnth (mv X a) j) == qnth a i.
Proof.
  intros HX i Hi.
  assert (Hsq: square 3 Mmat).
  { split; [reflexivity|]. intros r [<-|[<-|[<-|[]]]]; reflexivity. }
  pose proof (inv_gj_right_inverse 3 Mmat X Hsq HX) as HR.
  rewrite (vsum_ext _ _ (fun j => vsum (seq 0 3) (fun k => (mnth Mmat i j * mnth X j k) * qnth a k))).
  2:{ intros j Hj. apply in_seq in Hj. unfold mv. rewrite qnth_tabv by lia.
      rewrite <- vsum_scal. apply vsum_ext. intros; ring. }
  rewrite vsum_swap.
  rewrite (vsum_ext _ _ (fun k => qnth a k * delta k i)).
  - apply (vsum_delta 3 (fun k => qnth a k) i Hi).
  - intros k Hk. apply in_seq in Hk. rewrite vsum_scal_r. rewrite (HR i k Hi) by lia.
    rewrite (delta_sym i k). ring.
Qed.

Lemma ssr_optimal_gen (t : pr -> Q) (st stu stv : Q) (c c' : row) :
  st  == sumQ (fun p => pw p * t p) l ->
  stu == sumQ (fun p => pw p * (t p * pu p)) l ->
  stv == sumQ (fun p => pw p * (t p * pv p)) l ->
  (forall p, In p l -> 0 <= pw p) ->
  su * qnth c 0 + sv * qnth c 1 + sw * qnth c 2 == st ->
  suu * qnth c 0 + suv * qnth c 1 + su * qnth c 2 == stu ->
  suv * qnth c 0 + svv * qnth c 1 + sv * qnth c 2 == stv ->
  ssr t c <= ssr t c'.
Proof.
  intros Et Etu Etv Hw N0 N1 N2.
  set (d0 := qnth c' 0 - qnth c 0). set (d1 := qnth c' 1 - qnth c 1). set (d2 := qnth c' 2 - qnth c 2).
  assert (E: ssr t c' == ssr t c + sumQ (fun p => pw p * sq (d0 * pu p + d1 * pv p + d2)) l).
  { unfold ssr.
    rewrite (sumQ_ext _ (fun p =>
        pw p * sq (t p - (qnth c 0 * pu p + qnth c 1 * pv p + qnth c 2))
      + (pw p * sq (d0 * pu p + d1 * pv p + d2)
      + ((-2 * d0) * (pw p * (t p * pu p)) + ((-2 * d1) * (pw p * (t p * pv p)) + ((-2 * d2) * (pw p * t p)
      + ((2 * d0 * qnth c 0) * (pw p * (pu p * pu p)) + ((2 * d0 * qnth c 1 + 2 * d1 * qnth c 0) * (pw p * (pu p * pv p))
      + ((2 * d1 * qnth c 1) * (pw p * (pv p * pv p)) + ((2 * d0 * qnth c 2 + 2 * d2 * qnth c 0) * (pw p * pu p)
      + ((2 * d1 * qnth c 2 + 2 * d2 * qnth c 1) * (pw p * pv p) + (2 * d2 * qnth c 2) * pw p))))))))))).
    2:{ intros p _. unfold d0, d1, d2, sq. ring. }
    rewrite !sumQ_add, !sumQ_scal.
    fold suu suv svv su sv sw. rewrite <- Et, <- Etu, <- Etv, <- N0, <- N1, <- N2.
    unfold d0, d1, d2. ring. }
  rewrite E.
  assert (0 <= sumQ (fun p => pw p * sq (d0 * pu p + d1 * pv p + d2)) l).
  { apply sumQ_nonneg. intros p Hp. apply Qmult_le_0_compat; [apply Hw; exact Hp| apply sq_nonneg]. }
  lra.
Qed.

Theorem fit_general_optimal p q :
  fit_general = FitOk p q -> (forall z, In z l -> 0 <= pw z) ->
  forall c', ssr px p <= ssr px c' /\ ssr py q <= ssr py c'.
Proof.
  unfold fit_general. destruct (inv_gj Mmat) as [X| |] eqn:HX; try discriminate.
  intros H Hw c'. inversion H; subst p q; clear H.
  pose proof (normal_eqs X avec HX) as Na. pose proof (normal_eqs X bvec HX) as Nb.
  split.
  - apply (ssr_optimal_gen px sx sxu sxv); try reflexivity; try assumption.
    + pose proof (Na 0%nat ltac:(lia)) as H. cbn in H. cbn. lra.
    + pose proof (Na 1%nat ltac:(lia)) as H. cbn in H. cbn. lra.
    + pose proof (Na 2%nat ltac:(lia)) as H. cbn in H. cbn. lra.
  - apply (ssr_optimal_gen py sy syu syv); try reflexivity; try assumption.
    + pose proof (Nb 0%nat ltac:(lia)) as H. cbn in H. cbn. lra.
    + pose proof (Nb 1%nat ltac:(lia)) as H. cbn in H. cbn. lra.
    + pose proof (Nb 2%nat ltac:(lia)) as H. cbn in H. cbn. lra.
Qed.
End Fit.
Print Assumptions fit_general_optimal.
