(* C08 at parameter level for the general family: applying one similarity T (rotation x uniform scale, or its
   reflection) to BOTH coordinate sets conjugates the fitted matrix, F' = T F T^-1, and maps the shift, s' = T s.
   Proof: the conjugation is a bijection on parameter space that scales the total SSR by k^2 = m^2 + n^2 (both
   directions are ring identities); minimisers are unique (Unique.v); hence the fit of the transformed data IS the
   conjugate of the fit of the original data. *)
From Coq Require Import QArith Qabs List Bool Arith Lia Lqa Psatz.
From TW Require Import GJModel LSQ Weights Equivariance Unique.
Import ListNotations.
Open Scope Q_scope.

Definition sim (refl : bool) (m n : Q) : pr -> pr := map_pts (simT refl m n).

(* forward: parameters of T F T^-1, T s *)
Definition cj (refl : bool) (m n : Q) (a b c d e g : Q) : Q * Q * Q * Q * Q * Q :=
  let k2 := m * m + n * n in
  if refl
  then ((m * (a * m + b * n) + n * (c * m + d * n)) / k2, (m * (a * n - b * m) + n * (c * n - d * m)) / k2,
        (n * (a * m + b * n) - m * (c * m + d * n)) / k2, (n * (a * n - b * m) - m * (c * n - d * m)) / k2,
        m * e + n * g, n * e - m * g)
  else ((m * (a * m + b * n) + n * (c * m + d * n)) / k2, (m * (- a * n + b * m) + n * (- c * n + d * m)) / k2,
        (- n * (a * m + b * n) + m * (c * m + d * n)) / k2, (- n * (- a * n + b * m) + m * (- c * n + d * m)) / k2,
        m * e + n * g, - n * e + m * g).

(* backward: parameters of T^-1 F' T, T^-1 s' *)
Definition ucj (refl : bool) (m n : Q) (a b c d e g : Q) : Q * Q * Q * Q * Q * Q :=
  let k2 := m * m + n * n in
  if refl
  then ((m * (a * m + b * n) + n * (c * m + d * n)) / k2, (m * (a * n - b * m) + n * (c * n - d * m)) / k2,
        (n * (a * m + b * n) - m * (c * m + d * n)) / k2, (n * (a * n - b * m) - m * (c * n - d * m)) / k2,
        (m * e + n * g) / k2, (n * e - m * g) / k2)
  else ((m * (a * m - b * n) - n * (c * m - d * n)) / k2, (m * (a * n + b * m) - n * (c * n + d * m)) / k2,
        (n * (a * m - b * n) + m * (c * m - d * n)) / k2, (n * (a * n + b * m) + m * (c * n + d * m)) / k2,
        (m * e - n * g) / k2, (n * e + m * g) / k2).

Definition tot6 (l : list pr) (P : Q * Q * Q * Q * Q * Q) : Q :=
  let '(a, b, c, d, e, g) := P in ssr_tot l a b c d e g.

Lemma ssr_tot_cj refl m n l a b c d e g : ~ (m * m + n * n == 0) ->
  tot6 (map (sim refl m n) l) (cj refl m n a b c d e g) == (m * m + n * n) * ssr_tot l a b c d e g.
Proof.
  intros Hk. unfold tot6, cj, sim. destruct refl.
  - unfold ssr_tot. rewrite sumQ_map. rewrite <- sumQ_scal. apply sumQ_ext. intros p _.
    unfold map_pts, simT, sq; cbn [px py pu pv pw fst snd]. field. exact Hk.
  - unfold ssr_tot. rewrite sumQ_map. rewrite <- sumQ_scal. apply sumQ_ext. intros p _.
    unfold map_pts, simT, sq; cbn [px py pu pv pw fst snd]. field. exact Hk.
Qed.

Lemma ssr_tot_ucj refl m n l a b c d e g : ~ (m * m + n * n == 0) ->
  ssr_tot (map (sim refl m n) l) a b c d e g == (m * m + n * n) * tot6 l (ucj refl m n a b c d e g).
Proof.
  intros Hk. unfold tot6, ucj, sim. destruct refl.
  - unfold ssr_tot. rewrite sumQ_map. rewrite <- sumQ_scal. apply sumQ_ext. intros p _.
    unfold map_pts, simT, sq; cbn [px py pu pv pw fst snd]. field. exact Hk.
  - unfold ssr_tot. rewrite sumQ_map. rewrite <- sumQ_scal. apply sumQ_ext. intros p _.
    unfold map_pts, simT, sq; cbn [px py pu pv pw fst snd]. field. exact Hk.
Qed.

(* the total SSR is the sum of the per-axis SSRs *)
Lemma ssr_tot_split l (p q : row) :
  ssr_tot l (qnth p 0) (qnth p 1) (qnth q 0) (qnth q 1) (qnth p 2) (qnth q 2) == ssr l px p + ssr l py q.
Proof.
  unfold ssr_tot, ssr. rewrite <- sumQ_add. apply sumQ_ext. intros z _. ring.
Qed.

Lemma ssr_tot_split6 l a b c d e g :
  ssr_tot l a b c d e g == ssr l px [a; b; e] + ssr l py [c; d; g].
Proof. rewrite <- ssr_tot_split. cbn [qnth nth]. reflexivity. Qed.

(* a similarity keeps a triangle non-degenerate *)
Lemma sim_noncollinear refl m n a b c : ~ (m * m + n * n == 0) ->
  noncollinear3 a b c -> noncollinear3 (sim refl m n a) (sim refl m n b) (sim refl m n c).
Proof.
  unfold noncollinear3. intros Hk H H'. apply H.
  set (D := (pu b - pu a) * (pv c - pv a) - (pu c - pu a) * (pv b - pv a)) in *.
  destruct refl.
  - assert (E: - (m * m + n * n) * D == 0).
    { rewrite <- H'. unfold D, sim, map_pts, simT; cbn [px py pu pv pw fst snd]. ring. }
    apply Qmult_integral in E. destruct E as [E|E]; [exfalso; apply Hk; lra| exact E].
  - assert (E: (m * m + n * n) * D == 0).
    { rewrite <- H'. unfold D, sim, map_pts, simT; cbn [px py pu pv pw fst snd]. ring. }
    apply Qmult_integral in E. destruct E as [E|E]; [contradiction| exact E].
Qed.

Lemma sim_weight refl m n z : pw (sim refl m n z) = pw z.
Proof. reflexivity. Qed.

Theorem general_fit_similarity_params refl m n l p q p' q' a b c :
  ~ (m * m + n * n == 0) ->
  (forall z, In z l -> 0 <= pw z) ->
  fit_general l = FitOk p q -> fit_general (map (sim refl m n) l) = FitOk p' q' ->
  In a l -> In b l -> In c l -> 0 < pw a -> 0 < pw b -> 0 < pw c -> noncollinear3 a b c ->
  let '(a', b', c', d', e', g') :=
      cj refl m n (qnth p 0) (qnth p 1) (qnth q 0) (qnth q 1) (qnth p 2) (qnth q 2) in
  (qnth p' 0 == a' /\ qnth p' 1 == b' /\ qnth p' 2 == e') /\
  (qnth q' 0 == c' /\ qnth q' 1 == d' /\ qnth q' 2 == g').
Proof.
  intros Hk Hw Hf Hf' Ia Ib Ic Wa Wb Wc Hnc.
  set (lT := map (sim refl m n) l) in *.
  assert (Hk2: 0 < m * m + n * n) by nra.
  assert (Hw': forall z, In z lT -> 0 <= pw z).
  { intros z Hz. apply in_map_iff in Hz. destruct Hz as [z0 [<- Hz0]]. rewrite sim_weight. apply Hw; exact Hz0. }
  destruct (cj refl m n (qnth p 0) (qnth p 1) (qnth q 0) (qnth q 1) (qnth p 2) (qnth q 2))
    as [[[[[a' b'] c'] d'] e'] g'] eqn:Ecj.
  (* total SSR of the conjugated fit on lT *)
  pose proof (ssr_tot_cj refl m n l (qnth p 0) (qnth p 1) (qnth q 0) (qnth q 1) (qnth p 2) (qnth q 2) Hk) as Hc.
  rewrite Ecj in Hc. unfold tot6 in Hc. fold lT in Hc.
  (* total SSR of the fit of lT, pulled back to l *)
  pose proof (ssr_tot_ucj refl m n l (qnth p' 0) (qnth p' 1) (qnth q' 0) (qnth q' 1) (qnth p' 2) (qnth q' 2) Hk)
    as Hu. fold lT in Hu.
  destruct (ucj refl m n (qnth p' 0) (qnth p' 1) (qnth q' 0) (qnth q' 1) (qnth p' 2) (qnth q' 2))
    as [[[[[ua ub] uc] ud] ue] ug]. unfold tot6 in Hu.
  (* optimality of (p, q) on l against the pulled-back competitor *)
  destruct (fit_general_optimal l p q Hf Hw [ua; ub; ue]) as [Ox _].
  destruct (fit_general_optimal l p q Hf Hw [uc; ud; ug]) as [_ Oy].
  rewrite (ssr_tot_split6 l ua ub uc ud ue ug) in Hu. rewrite (ssr_tot_split lT p' q') in Hu.
  rewrite (ssr_tot_split l p q) in Hc. rewrite (ssr_tot_split6 lT a' b' c' d' e' g') in Hc.
  (* optimality of (p', q') on lT against the conjugated competitor *)
  destruct (fit_general_optimal lT p' q' Hf' Hw' [a'; b'; e']) as [Ox' _].
  destruct (fit_general_optimal lT p' q' Hf' Hw' [c'; d'; g']) as [_ Oy'].
  set (X := ssr lT px [a'; b'; e']) in *. set (Y := ssr lT py [c'; d'; g']) in *.
  set (X' := ssr lT px p') in *. set (Y' := ssr lT py q') in *.
  set (U := ssr l px [ua; ub; ue]) in *. set (V := ssr l py [uc; ud; ug]) in *.
  set (S := ssr l px p) in *. set (R := ssr l py q) in *.
  assert (Tot: X + Y <= X' + Y').
  { rewrite Hc, Hu. apply Qmult_le_l; [exact Hk2| lra]. }
  assert (Lx: X <= X') by lra. assert (Ly: Y <= Y') by lra.
  assert (Ia': In (sim refl m n a) lT) by (apply in_map; exact Ia).
  assert (Ib': In (sim refl m n b) lT) by (apply in_map; exact Ib).
  assert (Ic': In (sim refl m n c) lT) by (apply in_map; exact Ic).
  pose proof (sim_noncollinear refl m n a b c Hk Hnc) as Hnc'.
  destruct (general_fit_unique lT Hw' p' q' _ _ _ Hf' Ia' Ib' Ic' Wa Wb Wc Hnc' [a'; b'; e']) as [Ux _].
  destruct (general_fit_unique lT Hw' p' q' _ _ _ Hf' Ia' Ib' Ic' Wa Wb Wc Hnc' [c'; d'; g']) as [_ Uy].
  destruct (Ux Lx) as [X0 [X1 X2]]. destruct (Uy Ly) as [Y0 [Y1 Y2]].
  cbn [qnth nth] in X0, X1, X2, Y0, Y1, Y2.
  split; (split; [symmetry; assumption|]; split; symmetry; assumption).
Qed.
Print Assumptions general_fit_similarity_params.
