(* C19: soundness of the ownership checker of Model/OwnerIR.v *)
From Coq Require Import List Bool Arith NArith Lia.
From TW Require Import OwnerIR.
Import ListNotations.

Lemma mem_In x T : mem x T = true <-> In x T.
Proof.
  unfold mem. rewrite existsb_exists. split.
  - intros [y [Hy E]]. apply N.eqb_eq in E. subst. exact Hy.
  - intros H. exists x. split; [exact H | apply N.eqb_refl].
Qed.

Section Sound.
Variable owned : loc -> Prop.            (* caller-owned locations *)
Variable p : prog.
Variable T : list var.
Hypothesis Hclosed : forallb (closed_stmt T) p = true.
Hypothesis Hsafe : forallb (safe_stmt T) p = true.

Definition Inv (s : state) : Prop :=
  (forall x l, env s x = Some l -> owned l -> mem x T = true) /\
  (forall l, owned l -> (l < next s)%nat) /\
  (forall l, In l (written s) -> ~ owned l).

Lemma step_inv st s s' : In st p -> step st s s' -> Inv s -> Inv s'.
Proof.
  intros Hin Hst [I1 [I2 I3]].
  rewrite forallb_forall in Hclosed, Hsafe.
  pose proof (Hclosed st Hin) as Hc. pose proof (Hsafe st Hin) as Hs.
  inversion Hst; subst; simpl in *.
  - (* fresh allocation *)
    split; [| split]; simpl.
    + intros y l Hy Ho. unfold upd in Hy. destruct (N.eqb_spec y x).
      * inversion Hy; subst. apply I2 in Ho. lia.
      * apply (I1 y l Hy Ho).
    + intros l Ho. apply I2 in Ho. lia.
    + exact I3.
  - (* alias *)
    split; [| split]; simpl; [| exact I2 | exact I3].
    intros z l' Hz Ho. unfold upd in Hz. destruct (N.eqb_spec z x) as [->|Hne].
    + inversion Hz; subst l'.
      assert (My: mem y T = true) by (apply (I1 y l); assumption).
      assert (E: existsb (fun y0 => mem y0 T) (srcs r) = true).
      { apply existsb_exists. exists y. split; [| exact My]. destruct H as [->| ->]; exact H0. }
      rewrite E in Hc. exact Hc.
    + apply (I1 z l' Hz Ho).
  - (* write *)
    split; [| split]; simpl; [exact I1 | exact I2 |].
    intros l' [<-|Hl'] Ho; [| apply (I3 l' Hl' Ho)].
    pose proof (I1 x l H Ho) as Mx. rewrite Mx in Hs. discriminate.
  - split; [| split]; assumption.
  - (* helper call within its summary *)
    split; [| split]; simpl; [exact I1 | |].
    + intros l Ho. apply I2 in Ho. lia.
    + intros l Hl Ho. apply in_app_or in Hl. destruct Hl as [Hl|Hl]; [| apply (I3 l Hl Ho)].
      destruct (H l Hl) as [[x [Hx Hex]]|Hnew].
      * rewrite forallb_forall in Hs. pose proof (Hs x Hx) as Hsx.
        rewrite (I1 x l Hex Ho) in Hsx. discriminate.
      * apply I2 in Ho. lia.
Qed.

Theorem run_safe s s' : run p s s' -> Inv s -> forall l, In l (written s') -> ~ owned l.
Proof.
  induction 1 as [s| st s s1 s2 Hin Hst _ IH]; intros I.
  - apply I.
  - apply IH. eapply step_inv; eassumption.
Qed.
End Sound.

(* initial states: caller-owned locations are reachable only through the parameters, nothing written yet *)
Theorem check_sound params p (owned : loc -> Prop) s0 s' :
  check params p = true ->
  (forall x l, env s0 x = Some l -> owned l -> In x params) ->
  (forall l, owned l -> (l < next s0)%nat) -> written s0 = [] ->
  run p s0 s' -> forall l, In l (written s') -> ~ owned l.
Proof.
  unfold check. intros Hc Henv Hnext Hw Hrun.
  apply andb_true_iff in Hc. destruct Hc as [Hc Hs]. apply andb_true_iff in Hc. destruct Hc as [Hp Hcl].
  apply (run_safe owned p _ Hcl Hs s0 s' Hrun).
  split; [| split].
  - intros x l Hx Ho. rewrite forallb_forall in Hp. apply Hp. apply (Henv x l Hx Ho).
  - exact Hnext.
  - rewrite Hw. intros l [].
Qed.

(* ---------- helper summaries ---------- *)
Lemma without_In W params x : In x params -> ~ In x W -> In x (without W params).
Proof.
  intros Hp Hw. unfold without. apply filter_In. split; [exact Hp|].
  destruct (mem x W) eqn:E; [| reflexivity]. apply mem_In in E. contradiction.
Qed.

Lemma bound_dec (e : var -> option loc) (W : list var) (l : loc) :
  {exists w, In w W /\ e w = Some l} + {~ exists w, In w W /\ e w = Some l}.
Proof.
  induction W as [|w W IH].
  - right. intros [w [[] _]].
  - destruct IH as [IH|IH].
    + left. destruct IH as [w' [Hw' E]]. exists w'. split; [right; exact Hw' | exact E].
    + destruct (e w) as [l'|] eqn:E.
      * destruct (Nat.eq_dec l' l) as [->|Hne].
        -- left. exists w. split; [left; reflexivity | exact E].
        -- right. intros [w' [[<-|Hw'] E']].
           ++ rewrite E in E'. inversion E'. contradiction.
           ++ apply IH. exists w'. split; assumption.
      * right. intros [w' [[<-|Hw'] E']].
        -- rewrite E in E'. discriminate.
        -- apply IH. exists w'. split; assumption.
Qed.

(* If the summary obligation of a helper holds, then every location written by ANY run of its body is
   either the object of one of the parameters in W or was allocated by the helper itself. *)
Theorem summary_sound params W p s0 s' :
  check_summary params W p = true ->
  (forall x l, env s0 x = Some l -> In x params) -> written s0 = [] ->
  run p s0 s' ->
  forall l, In l (written s') -> (exists w, In w W /\ env s0 w = Some l) \/ (next s0 <= l)%nat.
Proof.
  intros Hc Henv Hw Hrun l Hl.
  destruct (le_lt_dec (next s0) l) as [Hge|Hlt]; [right; exact Hge|].
  destruct (bound_dec (env s0) W l) as [Hb|Hnb]; [left; exact Hb|].
  exfalso.
  pose (owned := fun l : loc => (l < next s0)%nat /\ ~ exists w, In w W /\ env s0 w = Some l).
  apply (check_sound (without W params) p owned s0 s' Hc) with (l := l); auto.
  - intros x l' Hx [_ Ho]. apply without_In.
    + apply (Henv x l' Hx).
    + intros HxW. apply Ho. exists x. split; assumption.
  - intros l' [Hl' _]. exact Hl'.
  - split; assumption.
Qed.

(* the run of a helper, started on the caller's objects, is one CallW step of the caller: this is what
   justifies translating a helper call into CallW (actuals of the written parameters) *)
Definition wf (s : state) : Prop :=
  (forall x l, env s x = Some l -> (l < next s)%nat) /\ (forall l, In l (written s) -> (l < next s)%nat).

Lemma step_wf st s s' : step st s s' -> wf s -> wf s' /\ (next s <= next s')%nat.
Proof.
  intros Hst [W1 W2]. inversion Hst; subst; simpl.
  - split; [split; simpl|lia].
    + intros y l Hy. unfold upd in Hy. destruct (N.eqb y x).
      * inversion Hy; subst. lia.
      * apply W1 in Hy. lia.
    + intros l Hl. apply W2 in Hl. lia.
  - split; [split; simpl|lia].
    + intros z l' Hz. unfold upd in Hz. destruct (N.eqb z x).
      * inversion Hz; subst. eapply W1; eassumption.
      * apply (W1 z l' Hz).
    + exact W2.
  - split; [split; simpl|lia].
    + exact W1.
    + intros l' [E|Hl']; [subst l'; eapply W1; eassumption | apply (W2 l' Hl')].
  - split; [split; assumption|lia].
  - split; [split; simpl|lia].
    + intros y l Hy. apply W1 in Hy. lia.
    + intros l Hl. apply in_app_or in Hl. destruct Hl as [Hl|Hl].
      * destruct (H l Hl) as [[x [_ Hx]]|Hn]; [apply W1 in Hx|]; lia.
      * apply W2 in Hl. lia.
Qed.

Lemma run_wf p s s' : run p s s' -> wf s -> wf s' /\ (next s <= next s')%nat.
Proof.
  induction 1 as [s| st s s1 s2 Hin Hst _ IH]; intros Hwf.
  - split; [exact Hwf | lia].
  - destruct (step_wf st s s1 Hst Hwf) as [Hwf1 Hle]. destruct (IH Hwf1) as [Hwf2 Hle2].
    split; [exact Hwf2 | lia].
Qed.

Theorem call_abstraction params W body (s0 s' : state) (xs : list var) (s : state) :
  check_summary params W body = true ->
  (forall x l, env s0 x = Some l -> In x params) -> written s0 = [] -> wf s0 ->
  next s0 = next s ->
  (forall w l, In w W -> env s0 w = Some l -> exists x, In x xs /\ env s x = Some l) ->
  run body s0 s' ->
  step (CallW xs) s {| env := env s; next := (next s + (next s' - next s0))%nat;
                       written := written s' ++ written s |}.
Proof.
  intros Hc Henv Hw Hwf Hnext Hact Hrun.
  destruct (run_wf body s0 s' Hrun Hwf) as [[_ Wr] Hle].
  apply s_call. intros l Hl.
  destruct (summary_sound params W body s0 s' Hc Henv Hw Hrun l Hl) as [[w [HwW Hew]]|Hge].
  - left. apply (Hact w l HwW Hew).
  - right. apply Wr in Hl. lia.
Qed.

(* the converse direction used for the rejected example: a tainted write really can happen *)
Lemma run_app_one p st s s' : In st p -> step st s s' -> run p s s'.
Proof. intros Hin Hst. eapply r_cons; [exact Hin | exact Hst | apply r_nil]. Qed.
