(* Model of the sigma-clipping loop of tweakwcs.linearfit.iter_linear_fit (after repair F2),
   abstract over the single-shot fit, the residual and the statistic. *)
From Coq Require Import List Bool Arith Lia.
Import ListNotations.

Section Clip.
Variable n : nat.                       (* number of point pairs *)
Definition mask := list bool.           (* length n *)
Variable fitres : Type.
Variable fit : mask -> fitres.          (* single-shot fit of the retained points *)
Variable below : fitres -> nat -> bool. (* |resid_i(fit)| < nsigma * stat(fit) *)
Variable minobj : nat.

Definition count (m : mask) : nat := length (filter (fun b => b) m).
Definition mand (a b : mask) : mask := map (fun p => andb (fst p) (snd p)) (combine a b).
Definition belowmask (r : fitres) : mask := map (below r) (seq 0 n).
Definition subset (a b : mask) : Prop := forall i, nth i a false = true -> nth i b false = true.
Fixpoint meqb (a b : mask) : bool :=
  match a, b with
  | [], [] => true
  | x :: a', y :: b' => Bool.eqb x y && meqb a' b'
  | _, _ => false
  end.

Record cstate := { cm : mask; cf : fitres; ceff : nat }.

(* one iteration: None = stop *)
Definition clip_step (wmask : mask) (accum : bool) (s : cstate) : option cstate :=
  let tested := if accum then cm s else wmask in
  let new := mand tested (belowmask (cf s)) in
  if (count new <? minobj) || meqb new (cm s) then None
  else Some {| cm := new; cf := fit new; ceff := S (ceff s) |}.

Fixpoint clip_loop (wmask : mask) (accum : bool) (fuel : nat) (s : cstate) : cstate :=
  match fuel with
  | O => s
  | S f => match clip_step wmask accum s with
           | None => s
           | Some s' => clip_loop wmask accum f s'
           end
  end.

Definition iter_fit (wmask : mask) (accum : bool) (nclip : nat) : cstate :=
  let nclip' := if count wmask =? minobj then O else nclip in
  clip_loop wmask accum nclip' {| cm := wmask; cf := fit wmask; ceff := 0 |}.

(* ---- facts ---- *)
Lemma nth_mand a b i : nth i (mand a b) false = nth i a false && nth i b false.
Proof.
  unfold mand. revert b i. induction a as [|x a IH]; intros [|y b] [|i]; simpl; auto.
  - destruct x; reflexivity.
  - rewrite andb_false_r. reflexivity.
Qed.
Lemma mand_subset_l a b : subset (mand a b) a.
Proof. intros i H. rewrite nth_mand in H. apply andb_true_iff in H. tauto. Qed.

Definition Inv (wmask : mask) (s : cstate) : Prop := subset (cm s) wmask /\ cf s = fit (cm s).

Lemma step_inv wmask accum s s' : Inv wmask s -> clip_step wmask accum s = Some s' -> Inv wmask s'.
Proof.
  intros [Hs Hf] H. unfold clip_step in H.
  destruct (_ || _); [discriminate|]. inversion H; subst; clear H. split; simpl; [|reflexivity].
  destruct accum.
  - intros i Hi. apply Hs. apply (mand_subset_l _ _ i Hi).
  - apply mand_subset_l.
Qed.

(* characterisation of the retained set of an effective iteration *)
Lemma step_retained wmask accum s s' : clip_step wmask accum s = Some s' ->
  forall i, (i < n)%nat ->
    nth i (cm s') false = nth i (if accum then cm s else wmask) false && below (cf s) i.
Proof.
  intros H i Hi. unfold clip_step in H. destruct (_ || _); [discriminate|]. inversion H; subst; clear H.
  simpl. rewrite nth_mand. f_equal. unfold belowmask.
  rewrite (nth_indep _ false (below (cf s) 0)) by (rewrite map_length, seq_length; exact Hi).
  rewrite map_nth, seq_nth by exact Hi. reflexivity.
Qed.

Lemma step_shrinks_accum wmask s s' : clip_step wmask true s = Some s' -> subset (cm s') (cm s).
Proof.
  intros H. unfold clip_step in H. destruct (_ || _); [discriminate|]. inversion H; subst; clear H.
  simpl. apply mand_subset_l.
Qed.

Lemma step_min wmask accum s s' : clip_step wmask accum s = Some s' -> (minobj <= count (cm s'))%nat.
Proof.
  intros H. unfold clip_step in H.
  destruct (count _ <? minobj) eqn:E; [discriminate|]. simpl in H.
  destruct (meqb _ _); [discriminate|]. inversion H; subst; simpl. apply Nat.ltb_ge in E. exact E.
Qed.

Lemma loop_inv wmask accum fuel : forall s, Inv wmask s -> Inv wmask (clip_loop wmask accum fuel s).
Proof.
  induction fuel as [|f IH]; intros s Hs; simpl; [exact Hs|].
  destruct (clip_step wmask accum s) eqn:E; [|exact Hs]. apply IH. eapply step_inv; eassumption.
Qed.

Lemma step_eff wmask accum s s' : clip_step wmask accum s = Some s' -> ceff s' = S (ceff s).
Proof. intros H. unfold clip_step in H. destruct (_ || _); [discriminate|]. inversion H; subst; reflexivity. Qed.

Lemma loop_eff wmask accum fuel : forall s, (ceff (clip_loop wmask accum fuel s) <= ceff s + fuel)%nat.
Proof.
  induction fuel as [|f IH]; intros s; simpl; [lia|].
  destruct (clip_step wmask accum s) eqn:E.
  2:{ lia. }
  specialize (IH c). rewrite (step_eff _ _ _ _ E) in IH. lia.
Qed.

(* prefix consistency: running with more allowed iterations continues the same history *)
Lemma loop_prefix wmask accum f1 f2 : forall s,
  clip_loop wmask accum (f1 + f2) s = clip_loop wmask accum f2 (clip_loop wmask accum f1 s).
Proof.
  induction f1 as [|f IH]; intros s; simpl; [reflexivity|].
  destruct (clip_step wmask accum s) eqn:E; [apply IH|].
  (* stopped: further fuel changes nothing *)
  destruct f2; simpl; [reflexivity| rewrite E; reflexivity].
Qed.

(* stop reason when fewer iterations than allowed were effective *)
Lemma loop_stop wmask accum fuel : forall s,
  let r := clip_loop wmask accum fuel s in
  (ceff r < ceff s + fuel)%nat -> clip_step wmask accum r = None.
Proof.
  induction fuel as [|f IH]; intros s r Hlt; subst r; simpl in *; [lia|].
  destruct (clip_step wmask accum s) eqn:E; [| exact E].
  apply IH. rewrite (step_eff _ _ _ _ E). lia.
Qed.

Theorem iter_fit_spec wmask accum nclip :
  let r := iter_fit wmask accum nclip in
  subset (cm r) wmask /\ cf r = fit (cm r) /\ (ceff r <= nclip)%nat.
Proof.
  unfold iter_fit. cbv zeta.
  set (s0 := {| cm := wmask; cf := fit wmask; ceff := 0 |}).
  assert (I0: Inv wmask s0) by (split; [intros i H; exact H| reflexivity]).
  destruct (count wmask =? minobj).
  - simpl. split; [apply I0|]. split; [reflexivity| lia].
  - destruct (loop_inv wmask accum nclip s0 I0) as [H1 H2]. split; [exact H1|]. split; [exact H2|].
    pose proof (loop_eff wmask accum nclip s0). simpl in H. exact H.
Qed.
End Clip.
Print Assumptions iter_fit_spec.
Print Assumptions loop_prefix.
