From Coq Require Import Reals Lra Psatz.
Open Scope R_scope.

(* numpy.arctan2 on reals (the sign-of-zero cases of IEEE are irrelevant here) *)
Definition atan2 (y x : R) : R :=
  if Rlt_dec 0 x then atan (y / x)
  else if Rlt_dec x 0 then (if Rle_dec 0 y then atan (y / x) + PI else atan (y / x) - PI)
  else (* x = 0 *) if Rlt_dec 0 y then PI / 2 else if Rlt_dec y 0 then - (PI / 2) else 0.

Definition hyp (x y : R) := sqrt (x * x + y * y).

Lemma hyp_pos x y : (x <> 0 \/ y <> 0) -> 0 < hyp x y.
Proof. intros H. unfold hyp. apply sqrt_lt_R0. destruct H; nra. Qed.

Lemma sqrt_scale x y : x <> 0 -> sqrt (1 + (y / x)²) = hyp x y / Rabs x.
Proof.
  intros Hx. unfold hyp, Rsqr.
  replace (1 + y / x * (y / x)) with ((x * x + y * y) / (x * x)) by (field; exact Hx).
  rewrite sqrt_div_alt by nra. f_equal.
  rewrite <- (sqrt_Rsqr_abs x). reflexivity.
Qed.

Theorem cos_atan2 y x : (x <> 0 \/ y <> 0) -> cos (atan2 y x) = x / hyp x y.
Proof.
  intros H. pose proof (hyp_pos x y H) as Hh. unfold atan2.
  destruct (Rlt_dec 0 x) as [Hx|Hx].
  - rewrite cos_atan, sqrt_scale by lra. rewrite Rabs_right by lra. field. split; lra.
  - destruct (Rlt_dec x 0) as [Hx'|Hx'].
    + assert (E: cos (atan (y / x)) = - x / hyp x y).
      { rewrite cos_atan, sqrt_scale by lra. rewrite Rabs_left by lra. field. split; lra. }
      destruct (Rle_dec 0 y).
      * rewrite neg_cos, E. field. lra.
      * unfold Rminus. rewrite cos_plus, cos_neg, sin_neg, cos_PI, sin_PI, E. field. lra.
    + assert (x = 0) by lra. subst x.
      assert (Hy: y <> 0) by (destruct H; [lra| assumption]).
      destruct (Rlt_dec 0 y); [rewrite cos_PI2; field; lra|].
      destruct (Rlt_dec y 0); [rewrite cos_neg, cos_PI2; field; lra| lra].
Qed.

Theorem sin_atan2 y x : (x <> 0 \/ y <> 0) -> sin (atan2 y x) = y / hyp x y.
Proof.
  intros H. pose proof (hyp_pos x y H) as Hh. unfold atan2.
  destruct (Rlt_dec 0 x) as [Hx|Hx].
  - rewrite sin_atan, sqrt_scale by lra. rewrite Rabs_right by lra. field. split; lra.
  - destruct (Rlt_dec x 0) as [Hx'|Hx'].
    + assert (E: sin (atan (y / x)) = - y / hyp x y).
      { rewrite sin_atan, sqrt_scale by lra. rewrite Rabs_left by lra. field. split; lra. }
      destruct (Rle_dec 0 y).
      * rewrite neg_sin, E. field. lra.
      * unfold Rminus. rewrite sin_plus, cos_neg, sin_neg, cos_PI, sin_PI, E. field. lra.
    + assert (x = 0) by lra. subst x.
      assert (Hy: y <> 0) by (destruct H; [lra| assumption]).
      assert (Ey: hyp 0 y = Rabs y).
      { unfold hyp. replace (0 * 0 + y * y) with (Rsqr y) by (unfold Rsqr; ring). apply sqrt_Rsqr_abs. }
      rewrite Ey.
      destruct (Rlt_dec 0 y); [rewrite sin_PI2, Rabs_right by lra; field; lra|].
      destruct (Rlt_dec y 0); [rewrite sin_neg, sin_PI2, Rabs_left by lra; field; lra| lra].
Qed.

Theorem atan2_range y x : - PI <= atan2 y x <= PI.
Proof.
  unfold atan2. pose proof PI_RGT_0.
  destruct (Rlt_dec 0 x); [pose proof (atan_bound (y / x)); lra|].
  destruct (Rlt_dec x 0) as [Hx|Hx].
  - assert (Hs: y / x <= 0 <-> 0 <= y).
    { split; intros; [| unfold Rdiv; assert (/ x < 0) by (apply Rinv_lt_0_compat; lra); nra].
      destruct (Rle_dec 0 y); [assumption|]. exfalso.
      assert (0 < y / x). { unfold Rdiv. assert (/ x < 0) by (apply Rinv_lt_0_compat; lra). nra. } lra. }
    pose proof (atan_bound (y / x)).
    destruct (Rle_dec 0 y) as [Hy|Hy].
    + assert (atan (y / x) <= 0).
      { destruct (Rle_lt_or_eq_dec (y / x) 0 (proj2 Hs Hy)) as [L|E].
        - pose proof (atan_increasing _ _ L). rewrite atan_0 in *. lra.
        - rewrite E, atan_0. lra. }
      lra.
    + assert (0 < y / x). { destruct (Rlt_dec 0 (y / x)); [assumption|]. exfalso. apply Hy, Hs. lra. }
      pose proof (atan_increasing _ _ H1). rewrite atan_0 in *. lra.
  - destruct (Rlt_dec 0 y); [lra|]. destruct (Rlt_dec y 0); lra.
Qed.

(* the decomposition identity of _build_fit / build_fit_matrix for one column *)
Corollary column_identity p0 q0 : (p0 <> 0 \/ q0 <> 0) ->
  let sx := hyp p0 q0 in let rx := atan2 (- q0) p0 in
  sx * cos rx = p0 /\ - sx * sin rx = q0.
Proof.
  intros H sx rx.
  assert (H': p0 <> 0 \/ - q0 <> 0) by (destruct H; [left; assumption| right; lra]).
  assert (Eh: hyp p0 (- q0) = hyp p0 q0) by (unfold hyp; f_equal; ring).
  pose proof (hyp_pos p0 q0 H).
  unfold rx. rewrite cos_atan2, sin_atan2 by exact H'. rewrite Eh. unfold sx. split; field; lra.
Qed.
Print Assumptions column_identity.
