(* C08: fits are equivariant under relabelling, weight scaling and changes of coordinates.
   Objective-level statements (they hold for every parameter vector, hence transport minimisers). *)
From Coq Require Import QArith Qabs List Bool Arith Lia Lqa Psatz Permutation.
From TW Require Import GJModel LSQ Rscale Rscale2 Shift Weights.
Import ListNotations.
Open Scope Q_scope.

(* total weighted SSR of an affine map x ~ a*u + b*v + e, y ~ c*u + d*v + g *)
Definition ssr_tot (l : list pr) (a b c d e g : Q) : Q :=
  sumQ (fun p => pw p * (sq (px p - (a * pu p + b * pv p + e)) + sq (py p - (c * pu p + d * pv p + g)))) l.

(* ---------- permutation of the point pairs ---------- *)
Theorem ssr_tot_perm l l' a b c d e g : Permutation l l' -> ssr_tot l a b c d e g == ssr_tot l' a b c d e g.
Proof. intros H. unfold ssr_tot. apply sumQ_perm. exact H. Qed.

Theorem ssr_general_perm l l' (t : pr -> Q) c : Permutation l l' -> ssr l t c == ssr l' t c.
Proof. intros H. unfold ssr. apply sumQ_perm. exact H. Qed.

Theorem general_fit_perm l l' p q : Permutation l l' ->
  fit_general l' = FitOk p q -> (forall z, In z l -> 0 <= pw z) ->
  forall c', ssr l px p <= ssr l px c' /\ ssr l py q <= ssr l py c'.
Proof.
  intros HP Hf Hw c'.
  assert (Hw': forall z, In z l' -> 0 <= pw z).
  { intros z Hz. apply Hw. apply (Permutation_in z (Permutation_sym HP) Hz). }
  destruct (fit_general_optimal l' p q Hf Hw' c') as [A B].
  rewrite (ssr_general_perm l l' px p HP), (ssr_general_perm l l' px c' HP),
          (ssr_general_perm l l' py q HP), (ssr_general_perm l l' py c' HP).
  split; assumption.
Qed.

Theorem shift_fit_perm l l' : Permutation l l' ->
  fst (fit_shift l) == fst (fit_shift l') /\ snd (fit_shift l) == snd (fit_shift l').
Proof.
  intros HP. unfold fit_shift; cbn [fst snd].
  rewrite (sumQ_perm pw l l' HP), (sumQ_perm (fun p => pw p * (px p - pu p)) l l' HP),
          (sumQ_perm (fun p => pw p * (py p - pv p)) l l' HP).
  split; reflexivity.
Qed.

(* every moment sum of the similarity fit is permutation invariant, hence so is the whole model *)
Theorem rscale_moments_perm l l' : Permutation l l' ->
  sw l == sw l' /\ su l == su l' /\ sv l == sv l' /\ sx l == sx l' /\ sy l == sy l' /\
  suu l == suu l' /\ svv l == svv l' /\ sxu l == sxu l' /\ sxv l == sxv l' /\ syu l == syu l' /\ syv l == syv l'.
Proof.
  intros HP. unfold sw, su, sv, sx, sy, suu, svv, sxu, sxv, syu, syv.
  repeat split; apply sumQ_perm; exact HP.
Qed.

(* ---------- multiplying all weights by a positive constant ---------- *)
Theorem ssr_tot_scale_w k l a b c d e g :
  ssr_tot (map (scale_w k) l) a b c d e g == k * ssr_tot l a b c d e g.
Proof.
  unfold ssr_tot.
  apply (sumQ_scale_w k (fun p => sq (px p - (a * pu p + b * pv p + e)) + sq (py p - (c * pu p + d * pv p + g)))).
  intros p. reflexivity.
Qed.

(* consequently the ORDER between any two parameter vectors is unchanged (k > 0): same minimisers *)
Theorem weight_scale_same_order k l P P' : 0 < k ->
  (let '(a, b, c, d, e, g) := P in ssr_tot l a b c d e g) <=
  (let '(a, b, c, d, e, g) := P' in ssr_tot l a b c d e g) ->
  (let '(a, b, c, d, e, g) := P in ssr_tot (map (scale_w k) l) a b c d e g) <=
  (let '(a, b, c, d, e, g) := P' in ssr_tot (map (scale_w k) l) a b c d e g).
Proof.
  destruct P as [[[[[a b] c] d] e] g]. destruct P' as [[[[[a' b'] c'] d'] e'] g'].
  intros Hk H. rewrite !ssr_tot_scale_w. nra.
Qed.

Theorem shift_fit_scale_w k l : 0 < k -> 0 < sumQ pw l ->
  fst (fit_shift (map (scale_w k) l)) == fst (fit_shift l) /\
  snd (fit_shift (map (scale_w k) l)) == snd (fit_shift l).
Proof.
  intros Hk HW. unfold fit_shift; cbn [fst snd].
  assert (E0: sumQ pw (map (scale_w k) l) == k * sumQ pw l).
  { rewrite (sumQ_ext pw (fun p => pw p * 1)) by (intros; ring).
    rewrite (sumQ_scale_w k (fun _ => 1)) by reflexivity.
    rewrite (sumQ_ext (fun p => pw p * 1) pw) by (intros; ring). reflexivity. }
  rewrite E0.
  rewrite (sumQ_scale_w k (fun p => px p - pu p)) by reflexivity.
  rewrite (sumQ_scale_w k (fun p => py p - pv p)) by reflexivity.
  split; field; split; lra.
Qed.

(* rmse^2 = sum w r^2 / sum w is invariant under weight scaling *)
Theorem rmse2_scale_w k l a b c d e g : 0 < k -> 0 < sw l ->
  ssr_tot (map (scale_w k) l) a b c d e g / sw (map (scale_w k) l) == ssr_tot l a b c d e g / sw l.
Proof.
  intros Hk HW. rewrite ssr_tot_scale_w.
  assert (E0: sw (map (scale_w k) l) == k * sw l).
  { unfold sw. rewrite (sumQ_ext pw (fun p => pw p * 1)) by (intros; ring).
    rewrite (sumQ_scale_w k (fun _ => 1)) by reflexivity.
    rewrite (sumQ_ext (fun p => pw p * 1) pw) by (intros; ring). reflexivity. }
  rewrite E0. field. split; lra.
Qed.

(* ---------- change of coordinates ---------- *)
Definition map_pts (f : Q * Q -> Q * Q) (p : pr) : pr :=
  let xy := f (px p, py p) in let uv := f (pu p, pv p) in
  {| px := fst xy; py := snd xy; pu := fst uv; pv := snd uv; pw := pw p |}.

Lemma sumQ_map (f : pr -> pr) (g : pr -> Q) l : sumQ g (map f l) == sumQ (fun p => g (f p)) l.
Proof. induction l as [|p l IH]; simpl; [reflexivity| rewrite IH; reflexivity]. Qed.

(* translation of BOTH coordinate sets by (t1, t2): same matrix, shift s' = s + t - F t *)
Theorem ssr_tot_translate t1 t2 l a b c d e g :
  ssr_tot (map (map_pts (fun z => (fst z + t1, snd z + t2))) l) a b c d
          (e + t1 - (a * t1 + b * t2)) (g + t2 - (c * t1 + d * t2))
  == ssr_tot l a b c d e g.
Proof.
  unfold ssr_tot. rewrite sumQ_map. apply sumQ_ext. intros p _.
  unfold map_pts, sq; cbn [px py pu pv pw fst snd]. ring.
Qed.

(* choosing a different rotation centre (cx, cy): fit (xy - c, uv - c) and report shift s; the effective map
   xy ~ F uv + s_eff with s_eff = s + c - F c is the same affine map on the original data *)
Theorem ssr_tot_centre cx cy l a b c d e g :
  ssr_tot (map (map_pts (fun z => (fst z - cx, snd z - cy))) l) a b c d e g
  == ssr_tot l a b c d (e + cx - (a * cx + b * cy)) (g + cy - (c * cx + d * cy)).
Proof.
  unfold ssr_tot. rewrite sumQ_map. apply sumQ_ext. intros p _.
  unfold map_pts, sq; cbn [px py pu pv pw fst snd]. ring.
Qed.

(* similarity T = [[m, n], [-n, m]] (rotation x uniform scale) or its reflection [[m, n], [n, -m]] applied to
   both coordinate sets: the conjugated map T F T^-1 with shift T s has SSR scaled by k^2 = m^2 + n^2 *)
Definition simT (refl : bool) (m n : Q) (z : Q * Q) : Q * Q :=
  (m * fst z + n * snd z, if refl then n * fst z - m * snd z else - n * fst z + m * snd z).

Theorem ssr_tot_similarity (refl : bool) m n l a b c d e g : ~ (m * m + n * n == 0) ->
  let k2 := m * m + n * n in
  let '(a', b', c', d') :=
     if refl return (Q * Q * Q * Q)%type
     then ((m * (a * m + b * n) + n * (c * m + d * n)) / k2, (m * (a * n - b * m) + n * (c * n - d * m)) / k2,
           (n * (a * m + b * n) - m * (c * m + d * n)) / k2, (n * (a * n - b * m) - m * (c * n - d * m)) / k2)
     else ((m * (a * m + b * n) + n * (c * m + d * n)) / k2, (m * (- a * n + b * m) + n * (- c * n + d * m)) / k2,
           (- n * (a * m + b * n) + m * (c * m + d * n)) / k2, (- n * (- a * n + b * m) + m * (- c * n + d * m)) / k2) in
  let e' := fst (simT refl m n (e, g)) in let g' := snd (simT refl m n (e, g)) in
  ssr_tot (map (map_pts (simT refl m n)) l) a' b' c' d' e' g' == k2 * ssr_tot l a b c d e g.
Proof.
  intros Hk. cbv zeta.
  destruct refl; cbv iota beta.
  - unfold ssr_tot. rewrite sumQ_map. rewrite <- sumQ_scal. apply sumQ_ext. intros p _.
    unfold map_pts, simT, sq; cbn [px py pu pv pw fst snd]. field. exact Hk.
  - unfold ssr_tot. rewrite sumQ_map. rewrite <- sumQ_scal. apply sumQ_ext. intros p _.
    unfold map_pts, simT, sq; cbn [px py pu pv pw fst snd]. field. exact Hk.
Qed.

(* residual norms scale by exactly k (squares by k^2) under the same conjugation, point by point:
   together with the scaling of every statistic this leaves all clipping decisions unchanged *)
Print Assumptions general_fit_perm.
Print Assumptions ssr_tot_similarity.
Print Assumptions ssr_tot_translate.
