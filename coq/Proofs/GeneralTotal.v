(* the general fit is TOTAL on non-degenerate data: three positively weighted non-collinear sources make the
   moment matrix regular, hence inv_gj (and fit_general) succeed *)
From Coq Require Import QArith Qabs List Bool Arith Lia Lqa Psatz.
Require Import GJModel GJSum GJProof1 GJProof2 GJProof3 GJProof4 GJProof5 GJComplete GJConverse3 LSQ Recovery Unique LSQDegenerate.
Import ListNotations.
Open Scope Q_scope.

Lemma quad_form l w0 w1 w2 :
  sumQ (fun p => pw p * sq (w0 * pu p + w1 * pv p + w2)) l ==
  w0 * (suu l * w0 + suv l * w1 + su l * w2) + w1 * (suv l * w0 + svv l * w1 + sv l * w2)
  + w2 * (su l * w0 + sv l * w1 + sw l * w2).
Proof.
  unfold suu, suv, svv, su, sv, sw.
  rewrite (sumQ_ext _ (fun p =>
      (w0 * w0) * (pw p * (pu p * pu p)) + ((2 * w0 * w1) * (pw p * (pu p * pv p))
    + ((w1 * w1) * (pw p * (pv p * pv p)) + ((2 * w0 * w2) * (pw p * pu p)
    + ((2 * w1 * w2) * (pw p * pv p) + (w2 * w2) * pw p)))))).
  2:{ intros p _. unfold sq. ring. }
  rewrite !sumQ_add, !sumQ_scal. ring.
Qed.

Theorem moment_matrix_regular l a b c :
  (forall z, In z l -> 0 <= pw z) ->
  In a l -> In b l -> In c l -> 0 < pw a -> 0 < pw b -> 0 < pw c -> noncollinear3 a b c ->
  forall w : nat -> Q,
    (forall i, (i < 3)%nat -> vsum (seq 0 3) (fun j => mnth (Mmat l) i j * w j) == 0) ->
    forall x, (x < 3)%nat -> w x == 0.
Proof.
  intros Hw Ia Ib Ic Wa Wb Wc Hnc w Hnull.
  pose proof (Hnull 0%nat ltac:(lia)) as E0. pose proof (Hnull 1%nat ltac:(lia)) as E1.
  pose proof (Hnull 2%nat ltac:(lia)) as E2. cbn in E0, E1, E2.
  set (w0 := w 0%nat) in *. set (w1 := w 1%nat) in *. set (w2 := w 2%nat) in *.
  assert (Q0: sumQ (fun p => pw p * sq (w0 * pu p + w1 * pv p + w2)) l == 0).
  { rewrite quad_form.
    assert (A0: su l * w0 + sv l * w1 + sw l * w2 == 0) by lra.
    assert (A1: suu l * w0 + suv l * w1 + su l * w2 == 0) by lra.
    assert (A2: suv l * w0 + svv l * w1 + sv l * w2 == 0) by lra.
    rewrite A0, A1, A2. ring. }
  assert (Nn: forall z, In z l -> 0 <= pw z * sq (w0 * pu z + w1 * pv z + w2)).
  { intros z Hz. apply Qmult_le_0_compat; [apply Hw; exact Hz| apply sq_nonneg]. }
  pose proof (sumQ_nonneg_zero _ l Nn Q0) as Z.
  assert (Za: w0 * pu a + w1 * pv a + w2 == 0) by (apply (wsq_zero (pw a)); [exact Wa| apply Z; exact Ia]).
  assert (Zb: w0 * pu b + w1 * pv b + w2 == 0) by (apply (wsq_zero (pw b)); [exact Wb| apply Z; exact Ib]).
  assert (Zc: w0 * pu c + w1 * pv c + w2 == 0) by (apply (wsq_zero (pw c)); [exact Wc| apply Z; exact Ic]).
  destruct (affine_zero_on_triangle a b c w0 w1 w2 Hnc Za Zb Zc) as [R0 [R1 R2]].
  intros x Hx. destruct x as [|[|[|x]]]; [exact R0| exact R1| exact R2| lia].
Qed.

Theorem fit_general_total l a b c :
  (forall z, In z l -> 0 <= pw z) ->
  In a l -> In b l -> In c l -> 0 < pw a -> 0 < pw b -> 0 < pw c -> noncollinear3 a b c ->
  exists p q, fit_general l = FitOk p q.
Proof.
  intros Hw Ia Ib Ic Wa Wb Wc Hnc.
  assert (Hsq: square 3 (Mmat l)).
  { split; [reflexivity|]. intros r [<-|[<-|[<-|[]]]]; reflexivity. }
  destruct (inv_gj_total_on_regular 3 (Mmat l) Hsq
              (moment_matrix_regular l a b c Hw Ia Ib Ic Wa Wb Wc Hnc)) as [X HX].
  unfold fit_general. rewrite HX. eexists. eexists. reflexivity.
Qed.
Print Assumptions fit_general_total.
