(* strict convexity of the total hull: every consecutive triple of vertices of the closed polygon (cyclically,
   i.e. including the two junctions of the chains) turns strictly left, unless all input points are collinear *)
From Coq Require Import QArith Lqa Psatz List Sorting.Sorted Bool Lia.
Require Import HullModel HullGeo HullProof HullUpper HullFull HullFront HullClosed.
Import ListNotations.
Open Scope Q_scope.

(* consecutive triples of a vertex list, in list order *)
Fixpoint lturns (l : list pt) : Prop :=
  match l with
  | a :: ((b :: c :: _) as r) => 0 < cr a b c /\ lturns r
  | _ => True
  end.
Definition noncoll (l : list pt) : Prop :=
  exists p q r, In p l /\ In q l /\ In r l /\ ~ cr p q r == 0.

(* ---- invariants of the chain of a sorted list *)
Lemma chain_Good p0 l : StronglySorted lt (p0 :: l) ->
  exists P', (forall q, In q P' <-> In q (p0 :: l)) /\ Good P' (chain (p0 :: l)).
Proof.
  intros Hs. destruct (StronglySorted_inv Hs) as [Hl Hp0].
  unfold chain. simpl.
  destruct (chain_good l [p0] (push [] p0) (good_single p0)) as [P' [HP' HG]].
  - intros q' x [<-|[]] Hx. rewrite Forall_forall in Hp0. apply Hp0; exact Hx.
  - exact Hl.
  - exists P'. split; [| exact HG]. intros q. rewrite HP'. simpl. tauto.
Qed.
Lemma chain_desc S : StronglySorted lt S -> desc (chain S).
Proof.
  destruct S as [|p0 l]; [intros _; constructor|]. intros Hs.
  destruct (chain_Good p0 l Hs) as [P' [_ HG]]. apply (g_desc _ _ HG).
Qed.
Lemma chain_conv S : StronglySorted lt S -> conv (chain S).
Proof.
  destruct S as [|p0 l]; [intros _; exact I|]. intros Hs.
  destruct (chain_Good p0 l Hs) as [P' [_ HG]]. apply (g_conv _ _ HG).
Qed.
Lemma conv_neg T : conv (map neg T) <-> conv T.
Proof.
  induction T as [|c T IH]; [simpl; tauto|].
  destruct T as [|b [|a r]]; [simpl; tauto| simpl; tauto|].
  cbn [map conv]. cbn [map] in IH. rewrite cr_neg, IH. tauto.
Qed.
Lemma chain_rev_as_neg S : chain (rev S) = map neg (chain (map neg (rev S))).
Proof.
  rewrite chain_neg, map_map. rewrite (map_ext _ (fun x => x)) by apply neg_invol. rewrite map_id. reflexivity.
Qed.
Lemma chain_rev_conv S : StronglySorted lt S -> conv (chain (rev S)).
Proof.
  intros Hs. rewrite chain_rev_as_neg. apply conv_neg. apply chain_conv. apply sorted_neg_rev. exact Hs.
Qed.

(* ---- lturns: appending, reversing *)
Lemma lturns_snoc l a b c : lturns (l ++ [a; b]) -> 0 < cr a b c -> lturns (l ++ [a; b; c]).
Proof.
  induction l as [|x l IH]; intros H Hc.
  - simpl. tauto.
  - destruct l as [|y l'].
    + simpl in *. tauto.
    + destruct l' as [|z l''].
      * simpl in *. destruct H as [H1 H2]. split; [exact H1|]. apply (IH H2 Hc).
      * change ((x :: y :: z :: l'') ++ [a; b]) with (x :: y :: z :: (l'' ++ [a; b])) in H.
        change ((x :: y :: z :: l'') ++ [a; b; c]) with (x :: y :: z :: (l'' ++ [a; b; c])).
        cbn [lturns] in H |- *. destruct H as [H1 H2]. split; [exact H1|]. apply (IH H2 Hc).
Qed.
Lemma conv_lturns_rev T : conv T -> lturns (rev T).
Proof.
  induction T as [|c T IH]; [intros _; exact I|].
  destruct T as [|b [|a r]]; [intros _; exact I| intros _; exact I|].
  intros H. cbn [conv] in H. destruct H as [H1 H2].
  specialize (IH H2).
  change (rev (c :: b :: a :: r)) with (((rev r ++ [a]) ++ [b]) ++ [c]).
  change (rev (b :: a :: r)) with ((rev r ++ [a]) ++ [b]) in IH.
  rewrite <- !app_assoc in *. simpl in *. apply lturns_snoc; assumption.
Qed.
Lemma lturns_join A x m y B :
  lturns (A ++ [x; m]) -> lturns (m :: y :: B) -> 0 < cr x m y -> lturns (A ++ x :: m :: y :: B).
Proof.
  induction A as [|a A IH]; intros H1 H2 Hc.
  - simpl. split; [exact Hc| exact H2].
  - destruct A as [|a' A''].
    + simpl in *. destruct H1 as [H1 _]. split; [exact H1|]. split; [exact Hc| exact H2].
    + destruct A'' as [|a'' A3].
      * simpl in H1. destruct H1 as [H1 H1'].
        change ((a :: [a']) ++ x :: m :: y :: B) with (a :: a' :: x :: m :: y :: B).
        cbn [lturns]. split; [exact H1|]. apply (IH H1' H2 Hc).
      * change ((a :: a' :: a'' :: A3) ++ [x; m]) with (a :: a' :: a'' :: (A3 ++ [x; m])) in H1.
        change ((a :: a' :: a'' :: A3) ++ x :: m :: y :: B) with (a :: a' :: a'' :: (A3 ++ x :: m :: y :: B)).
        cbn [lturns] in H1 |- *. destruct H1 as [H1 H1']. split; [exact H1|]. apply (IH H1' H2 Hc).
Qed.

(* ---- small list facts *)
Lemma edges_last_in (A : list pt) x m : In (x, m) (edges (A ++ [x; m])).
Proof.
  induction A as [|a A IH]; [left; reflexivity|].
  destruct A as [|a' A']; [right; left; reflexivity|].
  change ((a :: a' :: A') ++ [x; m]) with (a :: a' :: (A' ++ [x; m])). cbn [edges]. right. exact IH.
Qed.
Lemma sorted_last_two {A} (R : A -> A -> Prop) L u v : StronglySorted R (L ++ [u; v]) -> R u v.
Proof.
  induction L as [|a L IH]; simpl; intros H.
  - destruct (StronglySorted_inv H) as [_ F]. inversion F; assumption.
  - apply IH. apply (StronglySorted_inv H).
Qed.

(* ---- geometry of the junction *)
Lemma idI x m y q : (fst x - fst m) * cr m y q + (fst y - fst m) * cr x m q == (fst q - fst m) * cr x m y.
Proof. unfold cr. ring. Qed.
Lemma idII x m y q : (snd x - snd m) * cr m y q + (snd y - snd m) * cr x m q == (snd q - snd m) * cr x m y.
Proof. unfold cr. ring. Qed.
Lemma J1 x m y q : lt x m -> lt y m -> cr x m y == 0 -> 0 <= cr x m q -> 0 <= cr m y q -> cr x m q <= 0.
Proof.
  intros L1 L2 H3 H4 H5.
  pose proof (idI x m y q) as I1. pose proof (idII x m y q) as I2.
  rewrite H3 in I1, I2.
  assert (C: cr x m y == (snd x - snd m) * (fst y - fst m) - (fst x - fst m) * (snd y - snd m)) by (unfold cr; ring).
  rewrite H3 in C.
  revert H4 H5 I1 I2. generalize (cr x m q) (cr m y q). intros B A H4 H5 I1 I2.
  unfold lt in L1, L2. destruct x as [xx xy], m as [mx my], y as [yx yy], q as [qx qy]; simpl in *.
  destruct L1 as [H1|[H1 H1']]; destruct L2 as [H2|[H2 H2']].
  - nra.
  - exfalso. rewrite H2 in C. nra.
  - exfalso. rewrite H1 in C. nra.
  - nra.
Qed.
Lemma idJ2 x m p q r : (fst m - fst x) * cr p q r ==
  (fst q - fst p) * cr x m r - (fst r - fst p) * cr x m q + (fst r - fst q) * cr x m p.
Proof. unfold cr. ring. Qed.
Lemma idJ2' x m p q r : (snd m - snd x) * cr p q r ==
  (snd q - snd p) * cr x m r - (snd r - snd p) * cr x m q + (snd r - snd q) * cr x m p.
Proof. unfold cr. ring. Qed.
Lemma J2 x m p q r : lt x m -> cr x m p == 0 -> cr x m q == 0 -> cr x m r == 0 -> cr p q r == 0.
Proof.
  intros L Hp Hq Hr.
  pose proof (idJ2 x m p q r) as I1. pose proof (idJ2' x m p q r) as I2.
  rewrite Hp, Hq, Hr in I1, I2.
  revert I1 I2. generalize (cr p q r). intros c I1 I2.
  unfold lt in L. destruct x as [xx xy], m as [mx my]; simpl in *.
  destruct (Q_dec c 0) as [[G|G]|G]; [exfalso| exfalso| exact G].
  - destruct L as [H|[H H']]; [nra| rewrite H in I1; nra].
  - destruct L as [H|[H H']]; [nra| rewrite H in I1; nra].
Qed.

(* ---- the junction of the two chains at the lexicographic maximum turns strictly left *)
Lemma junction S A x y B : StronglySorted lt S -> noncoll S ->
  rev (chain S) = A ++ [x; last S d0] -> rev (chain (rev S)) = last S d0 :: y :: B ->
  0 < cr x (last S d0) y.
Proof.
  intros Hs [p [q [r [Hp [Hq [Hr Hn]]]]]] E1 E2.
  set (m := last S d0) in *.
  assert (C1: chain S = m :: x :: rev A).
  { rewrite <- (rev_involutive (chain S)), E1, rev_app_distr. reflexivity. }
  assert (C2: chain (rev S) = rev B ++ [y; m]).
  { rewrite <- (rev_involutive (chain (rev S))), E2. simpl. rewrite <- app_assoc. reflexivity. }
  assert (Lx: lt x m).
  { pose proof (chain_desc S Hs) as D. rewrite C1 in D. apply (desc_hd m x _ D). }
  assert (Ly: lt y m).
  { pose proof (chain_desc _ (sorted_neg_rev S Hs)) as D. rewrite chain_neg, C2, map_app in D.
    simpl in D. apply sorted_last_two in D. apply lt_neg. exact D. }
  assert (Sy: In y S).
  { apply in_rev. apply chain_sub. rewrite C2. apply in_or_app. right. left. reflexivity. }
  assert (Ex: In (x, m) (edges (rev (chain S)))) by (rewrite E1; apply edges_last_in).
  assert (Ey: In (m, y) (edges (rev (chain (rev S))))) by (rewrite E2; left; reflexivity).
  assert (K: forall t, In t S -> 0 <= cr x m t /\ 0 <= cr m y t).
  { intros t Ht. destruct (hull_contains S Hs t Ht) as [H1 H2]. split; [apply H1; exact Ex| apply H2; exact Ey]. }
  destruct (Qlt_le_dec 0 (cr x m y)) as [G|G]; [exact G| exfalso].
  assert (Z: cr x m y == 0) by (apply Qle_antisym; [exact G| apply (K y Sy)]).
  assert (Z': forall t, In t S -> cr x m t == 0).
  { intros t Ht. destruct (K t Ht) as [K1 K2]. apply Qle_antisym; [apply (J1 x m y t); assumption| exact K1]. }
  apply Hn. apply (J2 x m p q r Lx); apply Z'; assumption.
Qed.

Lemma noncoll_neg_rev S : noncoll S -> noncoll (map neg (rev S)).
Proof.
  intros [p [q [r [Hp [Hq [Hr Hn]]]]]]. exists (neg p), (neg q), (neg r).
  repeat (split; [apply in_map; apply in_rev; rewrite rev_involutive; assumption|]).
  rewrite cr_neg. exact Hn.
Qed.

(* ---- the closed polygon, cyclically *)
Theorem hull_sorted_lturns S : StronglySorted lt S -> (2 <= length S)%nat -> noncoll S ->
  lturns (hull_sorted S ++ firstn 1 (tl (hull_sorted S))).
Proof.
  intros Hs Hl Hn.
  destruct (hull_shape S Hs Hl) as [lo [up [R1 [R2 [R3 Hlt]]]]].
  set (p0 := hd d0 S) in *. set (m := last S d0) in *.
  (* the two chains turn left *)
  assert (T1: lturns (p0 :: lo ++ [m])).
  { rewrite <- R1. apply conv_lturns_rev, chain_conv, Hs. }
  assert (T2: lturns (m :: up ++ [p0])).
  { rewrite <- R2. apply conv_lturns_rev, chain_rev_conv, Hs. }
  (* decompositions around the two junction vertices *)
  destruct (@exists_last _ (p0 :: lo) ltac:(discriminate)) as [A [x EA]].
  destruct (@exists_last _ (m :: up) ltac:(discriminate)) as [A0 [x' EA0]].
  assert (EB: exists y B, up ++ [p0] = y :: B).
  { destruct up as [|u up']; [exists p0, []; reflexivity| exists u, (up' ++ [p0]); reflexivity]. }
  destruct EB as [y [B EB]].
  assert (EV: exists v1 B0, lo ++ [m] = v1 :: B0).
  { destruct lo as [|u lo']; [exists m, []; reflexivity| exists u, (lo' ++ [m]); reflexivity]. }
  destruct EV as [v1 [B0 EV]].
  (* junction at the maximum *)
  assert (Jm: 0 < cr x m y).
  { apply (junction S A x y B Hs Hn).
    - rewrite R1. rewrite app_comm_cons, EA, <- app_assoc. reflexivity.
    - rewrite R2, EB. reflexivity. }
  (* junction at the minimum, by point reflection *)
  assert (J0: 0 < cr x' p0 v1).
  { pose proof (sorted_neg_rev S Hs) as Hs'. pose proof (noncoll_neg_rev S Hn) as Hn'.
    assert (L': last (map neg (rev S)) d0 = neg p0).
    { destruct S as [|s0 l]; [simpl in Hl; lia|]. simpl. rewrite map_app. simpl. apply last_last. }
    rewrite <- (cr_neg x' p0 v1). rewrite <- L'.
    apply (junction (map neg (rev S)) (map neg A0) (neg x') (neg v1) (map neg B0) Hs' Hn').
    - rewrite L'. rewrite chain_neg, <- map_rev, R2.
      rewrite app_comm_cons, EA0, <- app_assoc, map_app. reflexivity.
    - rewrite L'. rewrite <- map_rev, rev_involutive, chain_neg, <- map_rev, R1.
      simpl. rewrite EV. reflexivity. }
  (* assemble *)
  assert (T2': lturns (m :: up ++ [p0; v1])).
  { change (m :: up ++ [p0; v1]) with ((m :: up) ++ [p0; v1]). rewrite EA0, <- app_assoc.
    change ([x'] ++ [p0; v1]) with [x'; p0; v1]. apply lturns_snoc; [| exact J0].
    change [x'; p0] with ([x'] ++ [p0]). rewrite app_assoc, <- EA0. exact T2. }
  assert (Etl: firstn 1 (tl (hull_sorted S)) = [v1]).
  { rewrite R3. cbn [tl].
    replace (lo ++ m :: up ++ [p0]) with ((lo ++ [m]) ++ up ++ [p0]) by (rewrite <- app_assoc; reflexivity).
    rewrite EV. reflexivity. }
  rewrite Etl, R3.
  replace ((p0 :: lo ++ m :: up ++ [p0]) ++ [v1]) with (A ++ x :: m :: y :: (B ++ [v1])).
  - apply lturns_join.
    + replace (A ++ [x; m]) with (p0 :: lo ++ [m]); [exact T1|].
      rewrite app_comm_cons, EA, <- app_assoc. reflexivity.
    + replace (m :: y :: B ++ [v1]) with (m :: up ++ [p0; v1]); [exact T2'|].
      f_equal. change (y :: B ++ [v1]) with ((y :: B) ++ [v1]). rewrite <- EB, <- app_assoc. reflexivity.
    + exact Jm.
  - transitivity ((p0 :: lo) ++ m :: (up ++ [p0]) ++ [v1]).
    + rewrite EA, EB. rewrite <- app_assoc. reflexivity.
    + simpl. rewrite <- (app_assoc lo (m :: up ++ [p0]) [v1]). reflexivity.
Qed.
