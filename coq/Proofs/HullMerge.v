(* the merging loop of convex_hull (min_separation): the output is a subsequence of the hull that keeps
   the start and the closing vertex, and no two adjacent vertices remain within min_separation in both
   coordinates (unless only [start, closing] is left) *)
From Coq Require Import QArith Qabs Lqa List Bool Lia.
Require Import HullModel HullGeo HullProof HullFull.
Import ListNotations.
Open Scope Q_scope.

Inductive subseq : list pt -> list pt -> Prop :=
| sub_nil : forall l, subseq [] l
| sub_take : forall x a b, subseq a b -> subseq (x :: a) (x :: b)
| sub_skip : forall x a b, subseq a b -> subseq a (x :: b).

(* no two adjacent entries are within s in both coordinates *)
Fixpoint nocl (s : Q) (l : list pt) : Prop :=
  match l with
  | a :: ((b :: _) as r) => close s a b = false /\ nocl s r
  | _ => True
  end.

Lemma subseq_refl l : subseq l l.
Proof. induction l; constructor; assumption. Qed.
Lemma subseq_trans a b c : subseq a b -> subseq b c -> subseq a c.
Proof.
  intros H1 H2. revert a H1. induction H2 as [l|x b c H IH|x b c H IH]; intros a H1.
  - inversion H1; subst. constructor.
  - inversion H1; subst; [constructor| apply sub_take; apply IH; assumption| apply sub_skip; apply IH; assumption].
  - apply sub_skip. apply IH. exact H1.
Qed.
Lemma subseq_in a b x : subseq a b -> In x a -> In x b.
Proof.
  induction 1 as [l|y a b H IH|y a b H IH]; intros Hx.
  - destruct Hx.
  - destruct Hx as [<-|Hx]; [left; reflexivity| right; apply IH; exact Hx].
  - right. apply IH. exact Hx.
Qed.
Lemma subseq_length a b : subseq a b -> (length a <= length b)%nat.
Proof. induction 1; simpl; lia. Qed.

Lemma close_sym s a b : close s a b = close s b a.
Proof. unfold close. rewrite (Qabs_Qminus (fst a)), (Qabs_Qminus (snd a)). reflexivity. Qed.

Lemma nocl_tail s x l : nocl s (x :: l) -> nocl s l.
Proof. destruct l; simpl; tauto. Qed.

(* ---- the loop over k = n-2 .. 1 *)
Lemma merge_tail_step s v x r :
  merge_tail s (v :: x :: r) =
  match merge_tail s (x :: r) with
  | w :: t => if close s v w then w :: t else v :: w :: t
  | [] => [v]
  end.
Proof.
  change (merge_tail s (v :: x :: r)) with
    (let acc := merge_tail s (x :: r) in
     match acc with w :: _ => if close s v w then acc else v :: acc | [] => v :: acc end).
  cbv zeta. destruct (merge_tail s (x :: r)); reflexivity.
Qed.

Lemma merge_tail_ne s l : l <> [] -> merge_tail s l <> [].
Proof.
  induction l as [|v r IH]; [intros H; contradiction|]. intros _.
  destruct r as [|x r']; [discriminate|].
  rewrite merge_tail_step. specialize (IH ltac:(discriminate)).
  destruct (merge_tail s (x :: r')) as [|w t]; [contradiction|].
  destruct (close s v w); discriminate.
Qed.
Lemma merge_tail_subseq s l : subseq (merge_tail s l) l.
Proof.
  induction l as [|v r IH]; [constructor|].
  destruct r as [|x r']; [apply subseq_refl|].
  rewrite merge_tail_step.
  destruct (merge_tail s (x :: r')) as [|w t]; [apply sub_take; constructor|].
  destruct (close s v w); [apply sub_skip; exact IH| apply sub_take; exact IH].
Qed.
Lemma merge_tail_last s l d : last (merge_tail s l) d = last l d.
Proof.
  induction l as [|v r IH]; [reflexivity|].
  destruct r as [|x r']; [reflexivity|].
  rewrite merge_tail_step. pose proof (merge_tail_ne s (x :: r') ltac:(discriminate)) as Hne.
  change (last (v :: x :: r') d) with (last (x :: r') d). rewrite <- IH.
  destruct (merge_tail s (x :: r')) as [|w t]; [contradiction|].
  destruct (close s v w); reflexivity.
Qed.
Lemma merge_tail_nocl s l : nocl s (merge_tail s l).
Proof.
  induction l as [|v r IH]; [exact I|].
  destruct r as [|x r']; [exact I|].
  rewrite merge_tail_step.
  destruct (merge_tail s (x :: r')) as [|w t]; [exact I|].
  destruct (close s v w) eqn:E; [exact IH| split; [exact E| exact IH]].
Qed.

(* ---- the start step: while len(idx) > 3 and close(v0, v[idx[1]]): idx.pop(1) *)
Lemma merge_start_step s v0 v1 a b r :
  merge_start s v0 (v1 :: a :: b :: r) =
  if close s v0 v1 then merge_start s v0 (a :: b :: r) else v1 :: a :: b :: r.
Proof. reflexivity. Qed.

Lemma merge_start_props s v0 rest : rest <> [] -> nocl s rest ->
  let r' := merge_start s v0 rest in
  r' <> [] /\ subseq r' rest /\ nocl s r' /\ (forall d, last r' d = last rest d) /\
  ((length r' <= 2)%nat \/ exists v1 t, r' = v1 :: t /\ close s v0 v1 = false).
Proof.
  induction rest as [|v1 r IH]; [intros H; contradiction|]. intros _ Hn.
  destruct r as [|a [|b r']].
  - cbv zeta. simpl merge_start. split; [discriminate|]. split; [apply subseq_refl|]. split; [exact Hn|].
    split; [reflexivity|]. left; simpl; lia.
  - cbv zeta. simpl merge_start. split; [discriminate|]. split; [apply subseq_refl|]. split; [exact Hn|].
    split; [reflexivity|]. left; simpl; lia.
  - cbv zeta. rewrite merge_start_step. destruct (close s v0 v1) eqn:E.
    + specialize (IH ltac:(discriminate) (nocl_tail _ _ _ Hn)). cbv zeta in IH.
      destruct IH as (H1 & H2 & H3 & H4 & H5).
      split; [exact H1|]. split; [apply sub_skip; exact H2|]. split; [exact H3|].
      split; [intros d; rewrite H4; reflexivity| exact H5].
    + split; [discriminate|]. split; [apply subseq_refl|]. split; [exact Hn|].
      split; [reflexivity|]. right. exists v1, (a :: b :: r'). split; [reflexivity| exact E].
Qed.

(* ---- the whole merging step on a closed polygon *)
Theorem merge_spec s h : hd d0 h = last h d0 ->
  subseq (merge s h) h /\ hd d0 (merge s h) = hd d0 h /\ last (merge s h) d0 = last h d0 /\
  ((length (merge s h) <= 2)%nat \/ nocl s (merge s h)).
Proof.
  intros Hc. destruct h as [|v0 rest].
  { simpl. split; [constructor|]. split; [reflexivity|]. split; [reflexivity|]. left; lia. }
  destruct rest as [|x r].
  - simpl. split; [apply subseq_refl|]. split; [reflexivity|]. split; [reflexivity|]. left; lia.
  - unfold merge.
    pose proof (merge_tail_ne s (x :: r) ltac:(discriminate)) as Tne.
    pose proof (merge_tail_subseq s (x :: r)) as Tsub.
    pose proof (merge_tail_nocl s (x :: r)) as Tn.
    pose proof (merge_tail_last s (x :: r)) as Tl.
    set (T := merge_tail s (x :: r)) in *.
    destruct (merge_start_props s v0 T Tne Tn) as (R1 & R2 & R3 & R4 & R5). cbv zeta in *.
    set (R := merge_start s v0 T) in *.
    assert (Hlast: last R d0 = v0).
    { rewrite R4, Tl. simpl in Hc. symmetry. exact Hc. }
    split; [apply sub_take; apply (subseq_trans R T); assumption|].
    split; [reflexivity|].
    split.
    { destruct R as [|y t]; [contradiction|].
      change (last (v0 :: y :: t) d0) with (last (y :: t) d0). rewrite R4, Tl. reflexivity. }
    destruct R5 as [Hlen|[v1 [t [E Hcl]]]].
    + destruct R as [|y [|z [|w t]]]; [contradiction| left; simpl; lia| | simpl in Hlen; lia].
      right. simpl in Hlast. subst z. simpl in R3. destruct R3 as [R3 _].
      simpl. split; [rewrite close_sym; exact R3| split; [exact R3| exact I]].
    + right. rewrite E. split; [exact Hcl| rewrite <- E; exact R3].
Qed.
