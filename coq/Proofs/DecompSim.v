(* C10 for similarity fits (rshift / rscale): the "proper rotation" shortcut of _build_fit agrees with the general
   decomposition, and a reflected similarity reports skew = -180 (the end of [-180, 180] that numpy's floor-mod
   produces; +180 denotes the same angle). *)
From Coq Require Import Reals Lra Psatz ZArith Lia.
From TW Require Import Atan2 Decomp.
Open Scope R_scope.

(* atan2 is positively homogeneous *)
Lemma atan2_scale k y x : 0 < k -> atan2 (k * y) (k * x) = atan2 y x.
Proof.
  intros Hk. unfold atan2.
  destruct (Rlt_dec 0 x) as [X|X].
  - destruct (Rlt_dec 0 (k * x)) as [_|N]; [|exfalso; apply N; nra].
    f_equal. field. lra.
  - destruct (Rlt_dec 0 (k * x)) as [P|_]; [exfalso; nra|].
    destruct (Rlt_dec x 0) as [X'|X'].
    + destruct (Rlt_dec (k * x) 0) as [_|N]; [|exfalso; apply N; nra].
      assert (E: k * y / (k * x) = y / x) by (field; lra). rewrite E.
      destruct (Rle_dec 0 y) as [Y|Y].
      * destruct (Rle_dec 0 (k * y)) as [_|N]; [reflexivity| exfalso; apply N; nra].
      * destruct (Rle_dec 0 (k * y)) as [P|_]; [exfalso; nra| reflexivity].
    + destruct (Rlt_dec (k * x) 0) as [P|_]; [exfalso; nra|].
      destruct (Rlt_dec 0 y) as [Y|Y].
      * destruct (Rlt_dec 0 (k * y)) as [_|N]; [reflexivity| exfalso; apply N; nra].
      * destruct (Rlt_dec 0 (k * y)) as [P|_]; [exfalso; nra|].
        destruct (Rlt_dec y 0) as [Y'|Y'].
        -- destruct (Rlt_dec (k * y) 0) as [_|N]; [reflexivity| exfalso; apply N; nra].
        -- destruct (Rlt_dec (k * y) 0) as [P|_]; [exfalso; nra| reflexivity].
Qed.

(* proper similarity [[a, b], [-b, a]], scale s = sqrt(a^2 + b^2) > 0 removed: wfit = [[a/s, b/s], [-b/s, a/s]].
   The shortcut prop_rot = atan2 (wfit01 - sdet wfit10) (wfit00 + sdet wfit11) with sdet = 1 equals both rotx and roty
   of the general decomposition *)
Theorem proper_similarity_rotation a b s : 0 < s ->
  let w00 := a / s in let w01 := b / s in let w10 := - b / s in let w11 := a / s in
  atan2 (w01 - 1 * w10) (w00 + 1 * w11) = atan2 (- w10) w00 /\
  atan2 (w01 - 1 * w10) (w00 + 1 * w11) = atan2 w01 w11.
Proof.
  intros Hs. cbv zeta.
  assert (E1: b / s - 1 * (- b / s) = 2 * (b / s)) by (field; lra).
  assert (E2: a / s + 1 * (a / s) = 2 * (a / s)) by (field; lra).
  assert (E3: - (- b / s) = b / s) by (field; lra).
  rewrite E1, E2, E3. rewrite atan2_scale by lra. split; reflexivity.
Qed.

(* atan2 of the antipodal direction differs by half a turn *)
Lemma atan2_antipode y x : (x <> 0 \/ y <> 0) ->
  atan2 (- y) (- x) = atan2 y x + PI \/ atan2 (- y) (- x) = atan2 y x - PI.
Proof.
  intros Hnz. unfold atan2.
  destruct (Rlt_dec 0 x) as [X|X].
  - destruct (Rlt_dec 0 (- x)) as [P|_]; [exfalso; lra|].
    destruct (Rlt_dec (- x) 0) as [_|N]; [|exfalso; apply N; lra].
    assert (E: - y / - x = y / x) by (field; lra). rewrite E.
    destruct (Rle_dec 0 (- y)); [left| right]; reflexivity.
  - destruct (Rlt_dec x 0) as [X'|X'].
    + destruct (Rlt_dec 0 (- x)) as [_|N]; [|exfalso; apply N; lra].
      assert (E: - y / - x = y / x) by (field; lra). rewrite E.
      destruct (Rle_dec 0 y); [right| left]; lra.
    + assert (x = 0) by lra. subst x.
      destruct (Rlt_dec 0 (- 0)) as [P|_]; [exfalso; lra|].
      destruct (Rlt_dec (- 0) 0) as [P|_]; [exfalso; lra|].
      destruct (Rlt_dec 0 y) as [Y|Y].
      * destruct (Rlt_dec 0 (- y)) as [P|_]; [exfalso; lra|].
        destruct (Rlt_dec (- y) 0) as [_|N]; [right; lra| exfalso; apply N; lra].
      * destruct (Rlt_dec y 0) as [Y'|Y'].
        -- destruct (Rlt_dec 0 (- y)) as [_|N]; [left; lra| exfalso; apply N; lra].
        -- exfalso. destruct Hnz as [H|H]; [apply H; reflexivity| apply H; lra].
Qed.

Lemma deg_plus x y : deg (x + y) = deg x + deg y.
Proof. unfold deg. field. apply PI_neq0. Qed.
Lemma deg_PI : deg PI = 180.
Proof. unfold deg. field. apply PI_neq0. Qed.

(* half a turn between rotx and roty wraps to skew = -180 *)
Lemma skew_half_turn rotx roty : (roty - rotx = 180 \/ roty - rotx = -180) -> skew rotx roty = -180.
Proof.
  intros H. destruct (skew_spec rotx roty) as [[L U] [k E]].
  set (m := (1 + k)%Z) in *.
  destruct H as [H|H]; rewrite H in E.
  - (* 180 - 360 m in [-180, 180)  =>  m = 1 *)
    assert (A: 0 < IZR m <= 1) by (split; lra).
    assert (m = 1)%Z.
    { destruct A as [A1 A2]. apply lt_IZR in A1. apply le_IZR in A2. lia. }
    rewrite E, H0. lra.
  - assert (A: -1 < IZR m <= 0) by (split; lra).
    assert (m = 0)%Z.
    { destruct A as [A1 A2]. apply lt_IZR in A1. apply le_IZR in A2. lia. }
    rewrite E, H0. lra.
Qed.

(* reflected similarity [[a, b], [b, -a]] with the scale removed: rotx = atan2 (-w10) w00, roty = atan2 w01 w11 *)
Theorem improper_similarity_skew a b s : 0 < s -> (a <> 0 \/ b <> 0) ->
  let w00 := a / s in let w01 := b / s in let w10 := b / s in let w11 := - a / s in
  skew (deg (atan2 (- w10) w00)) (deg (atan2 w01 w11)) = -180.
Proof.
  intros Hs Hnz. cbv zeta.
  assert (E1: b / s = - (- (b / s))) by ring.
  assert (E2: - a / s = - (a / s)) by (field; lra).
  rewrite E1 at 2. rewrite E2.
  assert (Hnz': a / s <> 0 \/ - (b / s) <> 0).
  { destruct Hnz as [H|H]; [left| right]; intros C; apply H.
    - apply (Rmult_eq_reg_r (/ s)); [unfold Rdiv in C; rewrite C; ring| apply Rinv_neq_0_compat; lra].
    - apply (Rmult_eq_reg_r (/ s)); [unfold Rdiv in C; lra| apply Rinv_neq_0_compat; lra]. }
  apply skew_half_turn.
  destruct (atan2_antipode (- (b / s)) (a / s) Hnz') as [H|H]; rewrite H.
  - left. unfold Rminus. rewrite deg_plus, deg_PI. ring.
  - right. unfold Rminus. rewrite deg_plus. replace (deg (- PI)) with (- deg PI) by (unfold deg; field; apply PI_neq0).
    rewrite deg_PI. ring.
Qed.

Print Assumptions proper_similarity_rotation.
Print Assumptions improper_similarity_skew.
