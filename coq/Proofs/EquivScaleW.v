(* C08 at parameter level: multiplying all weights by k > 0 leaves the fitted parameters unchanged
   (similarity and general families, via uniqueness of the optimum) *)
From Coq Require Import QArith Qabs List Bool Arith Lia Lqa Psatz.
From TW Require Import GJModel LSQ Rscale Rscale2 Weights Equivariance UniqueSim Unique.
Import ListNotations.
Open Scope Q_scope.

Lemma ssr_sim_scale_w k l t : ssr_sim (map (scale_w k) l) t == k * ssr_sim l t.
Proof.
  unfold ssr_sim.
  apply (sumQ_scale_w k (fun p => sq (px p - (sa t * pu p + sb_ t * pv p + s1 t))
                                + sq (py p - (f10 t * pu p + f11 t * pv p + s2 t)))).
  intros p. reflexivity.
Qed.

Lemma mom_scale_w k (g : pr -> Q) (Hg : forall p, g (scale_w k p) = g p) l :
  sumQ (fun p => pw p * g p) (map (scale_w k) l) == k * sumQ (fun p => pw p * g p) l.
Proof. apply sumQ_scale_w. exact Hg. Qed.

Lemma sw_scale_w k l : sw (map (scale_w k) l) == k * sw l.
Proof.
  unfold sw. rewrite (sumQ_ext pw (fun p => pw p * 1)) by (intros; ring).
  rewrite (mom_scale_w k (fun _ => 1)) by reflexivity.
  rewrite (sumQ_ext (fun p => pw p * 1) pw l) by (intros; ring). reflexivity.
Qed.

Lemma q2_scale_w k l : ~ k == 0 -> q2 (map (scale_w k) l) == k * q2 l.
Proof.
  intros Hk. unfold q2, suu, svv, su, sv. rewrite sw_scale_w.
  rewrite (mom_scale_w k (fun p => pu p * pu p)) by reflexivity.
  rewrite (mom_scale_w k (fun p => pv p * pv p)) by reflexivity.
  rewrite (mom_scale_w k pu) by reflexivity. rewrite (mom_scale_w k pv) by reflexivity.
  destruct (Qeq_dec (sw l) 0) as [E|E].
  - rewrite E. unfold Qdiv. rewrite Qmult_0_r. change (/ 0) with 0. ring.
  - field. split; assumption.
Qed.

Theorem rscale_fit_scale_w_params k l : 0 < k -> 0 < sw l -> 0 < q2 l -> ~ detc l == 0 ->
  let m' := model (map (scale_w k) l) in
  sflip m' = sflip (model l) /\ sa m' == sa (model l) /\ sb_ m' == sb_ (model l) /\
  s1 m' == s1 (model l) /\ s2 m' == s2 (model l).
Proof.
  intros Hk HW Hq Hd m'.
  assert (Hk0: ~ k == 0) by lra.
  assert (HW': 0 < sw (map (scale_w k) l)) by (rewrite sw_scale_w; nra).
  assert (Hq': 0 < q2 (map (scale_w k) l)) by (rewrite (q2_scale_w k l Hk0); nra).
  pose proof (rscale_optimal (map (scale_w k) l) HW' Hq' (model l)) as O.
  rewrite !ssr_sim_scale_w in O. fold m' in O.
  assert (Hle: ssr_sim l m' <= ssr_sim l (model l)) by nra.
  destruct (rscale_unique l HW Hq m' Hd Hle) as [A [B [C [D E]]]].
  split; [exact A|]. split; [exact B|]. split; [exact C|]. split; [exact D| exact E].
Qed.
Print Assumptions rscale_fit_scale_w_params.
