(* C09 at parameter level for the similarity and general families: the fit of the data WITHOUT the zero-weight
   pairs has the same parameters as the fit of the full data (via uniqueness of the optimum) *)
From Coq Require Import QArith Qabs List Bool Arith Lia Lqa Psatz.
From TW Require Import GJModel LSQ Rscale Rscale2 Weights ZeroWeight UniqueSim Unique.
Import ListNotations.
Open Scope Q_scope.

Lemma moment_nz (g : pr -> Q) l :
  sumQ (fun p => pw p * g p) l == sumQ (fun p => pw p * g p) (filter nz l).
Proof. apply sumQ_zero_weight. Qed.

Lemma sw_nz l : sw l == sw (filter nz l).
Proof.
  unfold sw. rewrite (sumQ_ext pw (fun p => pw p * 1) l) by (intros; ring).
  rewrite (moment_nz (fun _ => 1) l). apply sumQ_ext. intros; ring.
Qed.

Lemma q2_nz l : q2 l == q2 (filter nz l).
Proof.
  unfold q2, suu, svv, su, sv. rewrite <- (sw_nz l).
  rewrite <- (moment_nz (fun p => pu p * pu p) l), <- (moment_nz (fun p => pv p * pv p) l),
          <- (moment_nz pu l), <- (moment_nz pv l). reflexivity.
Qed.

Theorem rscale_fit_zero_weight_params l : 0 < sw l -> 0 < q2 l -> ~ detc l == 0 ->
  let m' := model (filter nz l) in
  sflip m' = sflip (model l) /\ sa m' == sa (model l) /\ sb_ m' == sb_ (model l) /\
  s1 m' == s1 (model l) /\ s2 m' == s2 (model l).
Proof.
  intros HW Hq Hd m'.
  assert (HW': 0 < sw (filter nz l)) by (rewrite <- sw_nz; exact HW).
  assert (Hq': 0 < q2 (filter nz l)) by (rewrite <- q2_nz; exact Hq).
  assert (Hle: ssr_sim l m' <= ssr_sim l (model l)).
  { rewrite (ssr_sim_ignores_zero_weight l m'), (ssr_sim_ignores_zero_weight l (model l)).
    apply (rscale_optimal (filter nz l) HW' Hq'). }
  destruct (rscale_unique l HW Hq m' Hd Hle) as [A [B [C [D E]]]].
  split; [exact A|]. split; [exact B|]. split; [exact C|]. split; [exact D| exact E].
Qed.

Theorem general_fit_zero_weight_params l p q p' q' a b c :
  (forall z, In z l -> 0 <= pw z) ->
  fit_general l = FitOk p q -> fit_general (filter nz l) = FitOk p' q' ->
  In a l -> In b l -> In c l -> 0 < pw a -> 0 < pw b -> 0 < pw c -> noncollinear3 a b c ->
  (qnth p' 0 == qnth p 0 /\ qnth p' 1 == qnth p 1 /\ qnth p' 2 == qnth p 2) /\
  (qnth q' 0 == qnth q 0 /\ qnth q' 1 == qnth q 1 /\ qnth q' 2 == qnth q 2).
Proof.
  intros Hw Hf Hf' Ia Ib Ic Wa Wb Wc Hnc.
  destruct (general_fit_unaffected l p' q' Hf' Hw p) as [Ox _].
  destruct (general_fit_unaffected l p' q' Hf' Hw q) as [_ Oy].
  destruct (general_fit_unique l Hw p q a b c Hf Ia Ib Ic Wa Wb Wc Hnc p') as [Ux _].
  destruct (general_fit_unique l Hw p q a b c Hf Ia Ib Ic Wa Wb Wc Hnc q') as [_ Uy].
  split; [apply Ux; exact Ox| apply Uy; exact Oy].
Qed.
Print Assumptions rscale_fit_zero_weight_params.
Print Assumptions general_fit_zero_weight_params.
