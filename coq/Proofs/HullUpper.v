(* upper chain by point reflection, and the closed hull: every input point is on or left of every hull edge *)
From Coq Require Import QArith Lqa Psatz List Sorting.Sorted Lia.
Require Import HullModel HullGeo HullProof.
Import ListNotations.
Open Scope Q_scope.

Definition neg (p : pt) : pt := (- fst p, - snd p).
Lemma Qopp_invol_eq (x : Q) : - - x = x.
Proof. destruct x as [n d]. unfold Qopp; simpl. rewrite Z.opp_involutive. reflexivity. Qed.
Lemma neg_invol p : neg (neg p) = p.
Proof. destruct p as [x y]. unfold neg; simpl. rewrite !Qopp_invol_eq. reflexivity. Qed.
Lemma cr_neg o a b : cr (neg o) (neg a) (neg b) == cr o a b.
Proof. unfold cr, neg; simpl. ring. Qed.
Lemma lt_neg a b : lt (neg a) (neg b) <-> lt b a.
Proof. unfold lt, neg; destruct a, b; simpl. split; intros [H|[H H']]; [left|right; split|left|right; split]; lra. Qed.

Lemma popw_neg st p : popw (map neg st) (neg p) = map neg (popw st p).
Proof.
  induction st as [|b st IH]; [reflexivity|].
  destruct st as [|a r]; [reflexivity|].
  cbn [map popw]. cbn [map] in IH.
  assert (E: Qle_bool (cr (neg a) (neg b) (neg p)) 0 = Qle_bool (cr a b p) 0).
  { destruct (Qle_bool (cr a b p) 0) eqn:E1.
    - apply Qle_bool_iff. rewrite cr_neg. apply Qle_bool_iff. exact E1.
    - destruct (Qle_bool (cr (neg a) (neg b) (neg p)) 0) eqn:E2; [|reflexivity].
      apply Qle_bool_iff in E2. rewrite cr_neg in E2. apply Qle_bool_iff in E2. congruence. }
  rewrite E. destruct (Qle_bool (cr a b p) 0); [exact IH| reflexivity].
Qed.
Lemma chain_neg_gen l : forall st, fold_left push (map neg l) (map neg st) = map neg (fold_left push l st).
Proof.
  induction l as [|p l IH]; intros st; [reflexivity|].
  simpl. unfold push at 2. rewrite popw_neg. change (neg p :: map neg (popw st p)) with (map neg (push st p)).
  apply IH.
Qed.
Lemma chain_neg l : chain (map neg l) = map neg (chain l).
Proof. unfold chain. apply (chain_neg_gen l []). Qed.

Lemma above_neg q S : above (neg q) (map neg S) <-> above q S.
Proof.
  induction S as [|b S IH]; [simpl; tauto|].
  destruct S as [|a r]; [simpl; tauto|].
  cbn [map above]. cbn [map] in IH. rewrite cr_neg. rewrite IH. tauto.
Qed.

Lemma sorted_neg_rev pts : StronglySorted lt pts -> StronglySorted lt (map neg (rev pts)).
Proof.
  induction 1 as [|a l Hs IH Ha]; [constructor|].
  simpl. rewrite map_app. simpl.
  (* append the largest element at the end *)
  assert (G: forall l1 x, StronglySorted lt l1 -> Forall (fun y => lt y x) l1 -> StronglySorted lt (l1 ++ [x])).
  { induction l1 as [|y l1 IH1]; intros x H1 H2; simpl; [repeat constructor|].
    inversion H1; subst. inversion H2; subst. constructor; [apply IH1; assumption|].
    apply Forall_app. split; [assumption| constructor; [assumption| constructor]]. }
  apply G; [exact IH|].
  apply Forall_forall. intros y Hy. apply in_map_iff in Hy. destruct Hy as [z [<- Hz]].
  apply lt_neg. rewrite Forall_forall in Ha. apply Ha. apply in_rev. exact Hz.
Qed.

Theorem upper_chain_contains pts : StronglySorted lt pts ->
  forall q, In q pts -> above q (chain (rev pts)).
Proof.
  intros Hs q Hq.
  assert (E: chain (rev pts) = map neg (chain (map neg (rev pts)))).
  { rewrite chain_neg. rewrite map_map. rewrite (map_ext _ (fun x => x)) by apply neg_invol. rewrite map_id. reflexivity. }
  rewrite E.
  assert (H: above (neg q) (chain (map neg (rev pts)))).
  { apply lower_chain_contains; [apply sorted_neg_rev; exact Hs|].
    apply in_map. apply in_rev. rewrite rev_involutive. exact Hq. }
  apply (proj2 (above_neg (neg q) (chain (map neg (rev pts))))) in H.
  rewrite neg_invol in H. exact H.
Qed.

(* directed edges of a vertex list *)
Fixpoint edges (l : list pt) : list (pt * pt) :=
  match l with a :: ((b :: _) as r) => (a, b) :: edges r | _ => [] end.
Lemma above_edges q S : above q S <-> forall a b, In (a, b) (edges (rev S)) -> 0 <= cr a b q.
Proof.
  (* `above` lists the stack top first: edge a->b for consecutive b :: a; edges (rev S) lists them bottom first *)
  assert (G: forall S, above q S <-> (forall a b, In (b, a) (edges S) -> 0 <= cr a b q)).
  { induction S0 as [|b S0 IH]; [simpl; split; [intros _ a b []| trivial]|].
    destruct S0 as [|a r]; [simpl; split; [intros _ x y []| trivial]|].
    cbn [above edges]. rewrite IH. split.
    - intros [H1 H2] x y [E|Hin]; [inversion E; subst; exact H1| apply H2; exact Hin].
    - intros H. split; [apply H; left; reflexivity| intros x y Hin; apply H; right; exact Hin]. }
  rewrite G. clear G.
  assert (R: forall (l : list pt) a b, In (a, b) (edges (rev l)) <-> In (b, a) (edges l)).
  { induction l as [|x l IH]; intros a b; [simpl; tauto|].
    destruct l as [|y r]; [simpl; tauto|].
    (* rev (x :: y :: r) = rev (y :: r) ++ [x]; last of rev (y::r) is y *)
    assert (E: forall l1 z w, edges ((l1 ++ [z]) ++ [w]) = edges (l1 ++ [z]) ++ [(z, w)]).
    { induction l1 as [|h l1 IH1]; intros z w; [reflexivity|].
      destruct l1 as [|h2 l1']; [reflexivity|].
      specialize (IH1 z w). simpl in IH1 |- *. rewrite IH1. reflexivity. }
    change (rev (x :: y :: r)) with ((rev r ++ [y]) ++ [x]).
    rewrite E. rewrite in_app_iff. change (rev r ++ [y]) with (rev (y :: r)). rewrite IH.
    cbn [edges]. simpl. split.
    - intros [H|[H|[]]]; [right; exact H| left; inversion H; reflexivity].
    - intros [H|H]; [right; left; inversion H; reflexivity| left; exact H]. }
  split; intros H a b Hin; [apply H, R, Hin| apply H, R, Hin].
Qed.

(* the closed hull = lower chain (left to right) followed by the upper chain (right to left) *)
Theorem hull_contains pts : StronglySorted lt pts ->
  forall q, In q pts ->
  (forall a b, In (a, b) (edges (rev (chain pts))) -> 0 <= cr a b q) /\
  (forall a b, In (a, b) (edges (rev (chain (rev pts)))) -> 0 <= cr a b q).
Proof.
  intros Hs q Hq. split; apply above_edges.
  - apply lower_chain_contains; assumption.
  - apply upper_chain_contains; assumption.
Qed.
Print Assumptions hull_contains.
