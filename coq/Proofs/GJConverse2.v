(* converse, part 2: a matrix whose leading k x k block is unit upper triangular and whose rows >= k vanish has the
   explicit null vector obtained by back substitution (v_k = 1, v_j = 0 for j > k) *)
From Coq Require Import QArith Qabs List Bool Arith Lia Lqa Permutation.
Require Import GJModel GJSum GJProof1.
Import ListNotations.
Open Scope Q_scope.

Section BackSub.
Variable n k : nat.
Variable u : nat -> nat -> Q.
Hypothesis Hk : (k < n)%nat.
Hypothesis Hdiag : forall i, (i < k)%nat -> u i i == 1.
Hypothesis Hlow : forall i l, (i < n)%nat -> (l < k)%nat -> (l < i)%nat -> u i l == 0.
Hypothesis Hzero : forall i l, (k <= i < n)%nat -> (l < n)%nat -> u i l == 0.

Definition upper (v : nat -> Q) (i : nat) : Q :=
  vsum (seq 0 n) (fun j => if Nat.ltb i j then u i j * v j else 0).

Fixpoint bs (t : nat) : nat -> Q :=
  match t with
  | O => fun l => if Nat.eqb l k then 1 else 0
  | S t' => let v := bs t' in let i := (k - 1 - t')%nat in
            fun l => if Nat.eqb l i then - upper v i else v l
  end.

Lemma upper_ext v v' i : (forall j, (i < j)%nat -> v j == v' j) -> upper v i == upper v' i.
Proof.
  intros H. unfold upper. apply vsum_ext. intros j _.
  destruct (Nat.ltb_spec i j); [rewrite (H j) by assumption; reflexivity| reflexivity].
Qed.

Lemma bs_inv t : (t <= k)%nat ->
  (forall l, ((l < k - t)%nat \/ (k < l)%nat) -> bs t l == 0) /\ bs t k == 1 /\
  (forall i, (k - t <= i < k)%nat -> bs t i + upper (bs t) i == 0).
Proof.
  induction t as [|t IH]; intros Ht.
  - split; [|split].
    + intros l Hl. simpl. destruct (Nat.eqb_spec l k); [lia| reflexivity].
    + simpl. rewrite Nat.eqb_refl. reflexivity.
    + intros i Hi. lia.
  - destruct (IH ltac:(lia)) as [A [B C]].
    set (i0 := (k - 1 - t)%nat).
    assert (E: forall l, l <> i0 -> bs (S t) l == bs t l).
    { intros l Hl. simpl. fold i0. destruct (Nat.eqb_spec l i0); [contradiction| reflexivity]. }
    assert (E0: bs (S t) i0 == - upper (bs t) i0).
    { simpl. fold i0. rewrite Nat.eqb_refl. reflexivity. }
    split; [|split].
    + intros l Hl. rewrite E by (unfold i0; lia). apply A. lia.
    + rewrite E by (unfold i0; lia). exact B.
    + intros i Hi.
      assert (U: upper (bs (S t)) i == upper (bs t) i).
      { apply upper_ext. intros j Hj. apply E. unfold i0. lia. }
      rewrite U.
      destruct (Nat.eq_dec i i0) as [->|Hne].
      * rewrite E0. ring.
      * rewrite E by exact Hne. apply C. unfold i0 in Hne. lia.
Qed.

Definition nullv : nat -> Q := bs k.

Lemma nullv_k : nullv k == 1.
Proof. unfold nullv. apply (bs_inv k (le_n k)). Qed.

Lemma vsum_pick (c : Q) i : (i < n)%nat ->
  vsum (seq 0 n) (fun l => if Nat.eqb l i then c else 0) == c.
Proof.
  intros Hi. rewrite (vsum_ext _ _ (fun l => (fun _ => c) l * delta l i)).
  - apply (vsum_delta n (fun _ => c) i Hi).
  - intros l _. unfold delta. destruct (Nat.eqb l i); ring.
Qed.

Theorem nullv_spec : forall i, (i < n)%nat -> vsum (seq 0 n) (fun l => u i l * nullv l) == 0.
Proof.
  intros i Hi. destruct (bs_inv k (le_n k)) as [A [B C]]. fold nullv in A, B, C.
  destruct (Nat.lt_ge_cases i k) as [Hik|Hik].
  - rewrite (vsum_ext _ _ (fun l => (if Nat.ltb i l then u i l * nullv l else 0)
                                   + (if Nat.eqb l i then nullv i else 0))).
    + rewrite vsum_add. rewrite (vsum_pick (nullv i) i Hi). fold (upper nullv i).
      pose proof (C i ltac:(lia)) as H. lra.
    + intros l Hl. apply in_seq in Hl.
      destruct (Nat.ltb_spec i l) as [L|L]; destruct (Nat.eqb_spec l i) as [Eq|Ne]; try lia.
      * ring.
      * subst l. rewrite (Hdiag i Hik). ring.
      * rewrite (Hlow i l Hi) by lia. ring.
  - apply vsum_zero. intros l Hl. apply in_seq in Hl. rewrite (Hzero i l) by lia. ring.
Qed.
End BackSub.
