(* C13/C14: theorems about the whole run `align` of Model/AlignModel.v, for every input list, option vector, oracle *)
From Coq Require Import List Bool Arith Lia Permutation ZArith.
From TW Require Import AlignModel AlignGroups AlignLoop.
Import ListNotations.

Definition st_of (R : result) (i : nat) : stclass := nth i (r_st R) Unset.
Definition corr_of (R : result) (i : nat) : nat := nth i (r_corr R) 0.
Definition ref_group (ims : list image) (o : opts) (orc : oracle) : group :=
  nth (ref_index o orc (live_groups ims)) (live_groups ims) [].
(* first block of the reference catalog and its ids *)
Definition origin (ims : list image) (o : opts) (orc : oracle) : contrib :=
  match o_ref o with
  | RefNone => {| c_from := Some (ref_group ims o orc); c_rows := length (gids orc (ref_group ims o orc)) |}
  | RefTable _ ids | RefCorr _ ids => {| c_from := None; c_rows := length ids |}
  | RefBadType => {| c_from := None; c_rows := 0 |}
  end.
Definition ids0 (ims : list image) (o : opts) (orc : oracle) : list Z :=
  match o_ref o with
  | RefNone => gids orc (ref_group ims o orc)
  | RefTable _ ids | RefCorr _ ids => ids
  | RefBadType => []
  end.

Lemma st_fold_in (l : list group) i : (exists g, In g l /\ In i g) ->
  fold_right (fun g f => set_st g (Failed 0) f) (fun _ => Unset) l i = Failed 0.
Proof.
  induction l as [|a l IH]; intros [g [Hg Hi]]; [destruct Hg|]. simpl.
  destruct (inb i a) eqn:E.
  - unfold set_st. rewrite E. reflexivity.
  - unfold set_st. rewrite E. apply IH. destruct Hg as [->|Hg].
    + apply inb_false in E. contradiction.
    + exists g. split; assumption.
Qed.
Lemma st_fold_out (l : list group) i : (forall g, In g l -> ~ In i g) ->
  fold_right (fun g f => set_st g (Failed 0) f) (fun _ => Unset) l i = Unset.
Proof.
  induction l as [|a l IH]; intros H; [reflexivity|]. simpl.
  rewrite set_st_out by (apply H; left; reflexivity). apply IH. intros g Hg. apply H. right; exact Hg.
Qed.

Lemma check_args_not_enough o e stg : check_args o = Some (e, stg) -> e <> ExcNotEnough.
Proof.
  unfold check_args. destruct (o_wcscat_ok o), (o_cats_ok o), (o_fitgeom_ok o); simpl;
    try (intros H; inversion H; discriminate).
  destruct (o_ref o) as [|[] [|]|[] [|]|]; intros H; inversion H; discriminate.
Qed.

Lemma check_args_ref o : check_args o = None ->
  o_ref o = RefNone \/ exists b ids, ids <> [] /\ (o_ref o = RefTable b ids \/ o_ref o = RefCorr b ids).
Proof.
  unfold check_args. destruct (o_wcscat_ok o), (o_cats_ok o), (o_fitgeom_ok o); simpl; try discriminate.
  destruct (o_ref o) as [|[] [|z l]|[] [|z l]|]; try discriminate; intros _.
  - left; reflexivity.
  - right. exists true, (z :: l). split; [discriminate| left; reflexivity].
  - right. exists true, (z :: l). split; [discriminate| right; reflexivity].
Qed.

Section Run.
Variable ims : list image.
Variable o : opts.
Variable orc : oracle.
Let R := align ims o orc.
Let n := length ims.
Let live := live_groups ims.
Let dead := dead_groups ims.

Lemma exc_cases :
  (forall e stg, check_args o = Some (e, stg) -> r_exc R = Some e /\ r_stage R = stg) /\
  (check_args o = None -> length live < need o -> r_exc R = Some ExcNotEnough) /\
  (check_args o = None -> need o <= length live -> r_exc R = None).
Proof.
  unfold R, align. split; [|split].
  - intros e stg H. rewrite H. split; reflexivity.
  - intros H1 H2. rewrite H1. fold live. destruct (Nat.ltb_spec (length live) (need o)); [reflexivity| lia].
  - intros H1 H2. rewrite H1. fold live. destruct (Nat.ltb_spec (length live) (need o)); [lia|].
    destruct (start ims o orc). reflexivity.
Qed.

Lemma normal_inv : r_exc R = None -> check_args o = None /\ need o <= length live.
Proof.
  intros H. destruct exc_cases as (E1 & E2 & E3).
  destruct (check_args o) as [[e stg]|] eqn:Ec.
  - destruct (E1 e stg eq_refl) as [E _]. congruence.
  - split; [reflexivity|]. destruct (Nat.lt_ge_cases (length live) (need o)) as [Hl|Hl]; [|exact Hl].
    rewrite (E2 eq_refl Hl) in H. discriminate.
Qed.

Lemma normal_shape : check_args o = None -> need o <= length live ->
  let s1 := fst (start ims o orc) in let q := snd (start ims o orc) in
  let s2 := loop o orc (length q) q s1 in
  R = {| r_exc := None; r_stage := 0; r_st := tab n (ls_st s2); r_corr := tab n (ls_corr s2);
         r_ref := ls_ref s2; r_ids := ls_ids s2; r_order := ls_order s2 |}.
Proof.
  intros H1 H2. unfold R, align. rewrite H1. fold live.
  destruct (Nat.ltb_spec (length live) (need o)); [lia|].
  destruct (start ims o orc). reflexivity.
Qed.

Lemma live_in_groups g : In g live -> In g (groups ims).
Proof. unfold live, live_groups. intros H. apply filter_In in H. tauto. Qed.
Lemma dead_in_groups g : In g dead -> In g (groups ims).
Proof. unfold dead, dead_groups. intros H. apply filter_In in H. tauto. Qed.
Lemma live_or_dead g : In g (groups ims) -> In g live \/ In g dead.
Proof.
  intros H. unfold live, dead, live_groups, dead_groups. rewrite !filter_In.
  destruct (group_live ims g); [left|right]; split; auto.
Qed.
Lemma live_not_dead g : In g live -> In g dead -> False.
Proof.
  unfold live, dead, live_groups, dead_groups. rewrite !filter_In. intros [_ H1] [_ H2]. rewrite H1 in H2. discriminate.
Qed.
Lemma live_nodup : NoDup live /\ disjoint live.
Proof.
  destruct (groups_nodup ims) as [N D]. split.
  - apply NoDup_filter. exact N.
  - apply (disjoint_incl (groups ims)); [exact live_in_groups| exact D].
Qed.
Lemma member_lt g i : In g (groups ims) -> In i g -> i < n.
Proof. intros Hg Hi. apply groups_cover. exists g. split; assumption. Qed.

Lemma ref_index_lt : live <> [] -> ref_index o orc live < length live.
Proof.
  intros H. unfold ref_index, clip. destruct live as [|x l]; [congruence|]. simpl length.
  destruct (eff_enforce o || (S (length l) =? 2)); [lia|].
  destruct (pick_ref orc (x :: l) <? S (length l)) eqn:E; [apply Nat.ltb_lt in E; exact E| lia].
Qed.

(* the decisive characterisation of a normal return *)
Lemma align_char : check_args o = None -> need o <= length live ->
  (forall g, In g dead -> forall i, In i g -> st_of R i = Failed 0 /\ corr_of R i = 0) /\
  (forall g, In g live ->
      (o_ref o = RefNone /\ g = ref_group ims o orc /\ forall i, In i g -> st_of R i = Reference /\ corr_of R i = 0) \/
      ((o_ref o = RefNone -> g <> ref_group ims o orc) /\
       ((forall i, In i g -> st_of R i = Success /\ corr_of R i = 1) \/
        (exists r, forall i, In i g -> st_of R i = Failed r /\ corr_of R i = 0)))) /\
  (o_ref o = RefNone -> In (ref_group ims o orc) live) /\
  (exists blocks, r_ref R = origin ims o orc :: blocks /\
                  r_ids R = expand_ids (ids0 ims o orc) (total blocks) /\
                  (o_expand o = false -> blocks = []) /\
                  NoDup (map c_from (r_ref R)) /\
                  justified orc live (st_of R) [origin ims o orc] blocks).
Proof.
  intros Hc Hn. pose proof (normal_shape Hc Hn) as HR. cbv zeta in HR.
  destruct live_nodup as [Lnd Ldj].
  destruct (groups_nodup ims) as [Gnd Gdj].
  assert (Hst : forall i, i < n -> st_of R i = ls_st (loop o orc (length (snd (start ims o orc))) (snd (start ims o orc)) (fst (start ims o orc))) i).
  { intros i Hi. unfold st_of. rewrite HR. cbn [r_st]. apply tab_nth. exact Hi. }
  assert (Hco : forall i, i < n -> corr_of R i = ls_corr (loop o orc (length (snd (start ims o orc))) (snd (start ims o orc)) (fst (start ims o orc))) i).
  { intros i Hi. unfold corr_of. rewrite HR. cbn [r_corr]. apply tab_nth. exact Hi. }
  assert (Hrf : r_ref R = ls_ref (loop o orc (length (snd (start ims o orc))) (snd (start ims o orc)) (fst (start ims o orc)))) by (rewrite HR; reflexivity).
  assert (Hid : r_ids R = ls_ids (loop o orc (length (snd (start ims o orc))) (snd (start ims o orc)) (fst (start ims o orc)))) by (rewrite HR; reflexivity).
  (* dead members are in no live group *)
  assert (Hdl : forall g i, In g dead -> In i g -> forall g', In g' live -> ~ In i g').
  { intros g i Hg Hi g' Hg' Hi'. apply (live_not_dead g'); [exact Hg'|].
    rewrite <- (Gdj g g' i (dead_in_groups g Hg) (live_in_groups g' Hg') Hi Hi'). exact Hg. }
  assert (Hdead_st : forall g i, In g dead -> In i g -> st_dead ims i = Failed 0).
  { intros g i Hg Hi. unfold st_dead. apply st_fold_in. exists g. split; assumption. }
  destruct (check_args_ref o Hc) as [Eref|[bb [ids [Hids Eref]]]].
  - (* no reference catalog: a reference group is selected *)
    assert (Hne : live <> []).
    { unfold need, ref_given in Hn. rewrite Eref in Hn. destruct live; [simpl in Hn; lia| discriminate]. }
    pose proof (ref_index_lt Hne) as Hk.
    destruct (remove_at_facts (ref_index o orc live) live [] Hk Lnd) as (F1 & F3 & F4 & F2 & F6 & F7).
    set (r := ref_group ims o orc) in *.
    change (nth (ref_index o orc live) live []) with r in F1, F3, F2, F7.
    set (q := remove_at (ref_index o orc live) live) in *.
    assert (Est : start ims o orc =
              ({| ls_st := set_st r Reference (st_dead ims); ls_corr := fun _ => 0;
                  ls_ref := [{| c_from := Some r; c_rows := length (gids orc r) |}]; ls_ids := gids orc r;
                  ls_order := [r] |}, q)).
    { unfold start. rewrite Eref. reflexivity. }
    rewrite Est in Hst, Hco, Hrf, Hid. cbn [fst snd] in Hst, Hco, Hrf, Hid.
    assert (Hqdj : disjoint q) by (apply (disjoint_incl live); [intros g Hg; apply F2; right; exact Hg| exact Ldj]).
    pose proof (loop_spec o orc (length q) q
                  {| ls_st := set_st r Reference (st_dead ims); ls_corr := fun _ => 0;
                     ls_ref := [{| c_from := Some r; c_rows := length (gids orc r) |}]; ls_ids := gids orc r;
                     ls_order := [r] |} eq_refl F4 Hqdj) as L.
    cbv zeta in L. destruct L as (I1 & I2 & (blocks & R1 & R2 & R3 & R4 & R5) & _).
    cbn [ls_st ls_corr ls_ref ls_ids] in I1, I2, R1, R2, R5.
    assert (Hrq : forall i, In i r -> forall g, In g q -> ~ In i g).
    { intros i Hi g Hg Hig. apply F3. rewrite (Ldj r g i); auto. apply F2. right; exact Hg. }
    assert (Horg : origin ims o orc = {| c_from := Some r; c_rows := length (gids orc r) |}).
    { unfold origin. rewrite Eref. reflexivity. }
    assert (Hi0 : ids0 ims o orc = gids orc r) by (unfold ids0; rewrite Eref; reflexivity).
    split; [|split; [|split]].
    + intros g Hg i Hi. pose proof (member_lt g i (dead_in_groups g Hg) Hi) as Hlt.
      rewrite (Hst i Hlt), (Hco i Hlt).
      destruct (I1 i) as [E1 E2]; [intros g' Hg'; apply (Hdl g i Hg Hi); apply F2; right; exact Hg'|].
      rewrite E1, E2. split; [|reflexivity].
      rewrite set_st_out by (apply (Hdl g i Hg Hi); exact F1). exact (Hdead_st g i Hg Hi).
    + intros g Hg. apply F2 in Hg. destruct Hg as [->|Hg].
      * left. split; [exact Eref|]. split; [reflexivity|]. intros i Hi.
        pose proof (member_lt r i (live_in_groups r F1) Hi) as Hlt.
        rewrite (Hst i Hlt), (Hco i Hlt). destruct (I1 i (Hrq i Hi)) as [E1 E2]. rewrite E1, E2.
        split; [apply set_st_in; exact Hi| reflexivity].
      * right. split; [intros _ E; subst g; exact (F3 Hg)|].
        assert (Hgl : In g live) by (apply F2; right; exact Hg).
        destruct (I2 g Hg) as [H|[fr H]]; [left| right; exists fr]; intros i Hi;
          pose proof (member_lt g i (live_in_groups g Hgl) Hi) as Hlt;
          rewrite (Hst i Hlt), (Hco i Hlt); exact (H i Hi).
    + intros _. exact F1.
    + exists blocks. rewrite Horg, Hi0, Hrf, Hid. split; [exact R1| split; [exact R2| split; [exact R3|]]]. split.
      * rewrite R1. simpl. constructor; [|exact R4]. intro Hin. apply in_map_iff in Hin.
        destruct Hin as [b [Eb Hb]]. destruct (in_split _ _ Hb) as [pre [post Ebl]].
        destruct (R5 pre b post Ebl) as [g [Eg' [Hgq _]]]. rewrite Eb in Eg'. inversion Eg'; subst g. exact (F3 Hgq).
      * intros pre b post Hdec. destruct (R5 pre b post Hdec) as [g [E1 [Hgq Hj]]].
        assert (Hgl : In g live) by (apply F2; right; exact Hgq).
        exists g. split; [exact E1|]. split; [exact Hgl|].
        destruct Hj as [[Ho Hs]|[Ho [Hu [Ha Hs]]]]; [left|right].
        -- split; [exact Ho|]. intros i Hi. rewrite (Hst i (member_lt g i (live_in_groups g Hgl) Hi)). exact (Hs i Hi).
        -- split; [exact Ho|]. split; [exact Hu|]. split; [exact Ha|]. intros i Hi.
           rewrite (Hst i (member_lt g i (live_in_groups g Hgl) Hi)). exact (Hs i Hi).
  - (* reference catalog supplied *)
    assert (Est : start ims o orc =
              ({| ls_st := st_dead ims; ls_corr := fun _ => 0;
                  ls_ref := [{| c_from := None; c_rows := length ids |}]; ls_ids := ids; ls_order := [] |}, live)).
    { unfold start. destruct Eref as [E|E]; rewrite E; reflexivity. }
    assert (Hnr : o_ref o <> RefNone) by (destruct Eref as [E|E]; rewrite E; discriminate).
    rewrite Est in Hst, Hco, Hrf, Hid. cbn [fst snd] in Hst, Hco, Hrf, Hid.
    pose proof (loop_spec o orc (length live) live
                  {| ls_st := st_dead ims; ls_corr := fun _ => 0;
                     ls_ref := [{| c_from := None; c_rows := length ids |}]; ls_ids := ids; ls_order := [] |}
                  eq_refl Lnd Ldj) as L.
    cbv zeta in L. destruct L as (I1 & I2 & (blocks & R1 & R2 & R3 & R4 & R5) & _).
    cbn [ls_st ls_corr ls_ref ls_ids] in I1, I2, R1, R2, R5.
    assert (Horg : origin ims o orc = {| c_from := None; c_rows := length ids |}).
    { unfold origin. destruct Eref as [E|E]; rewrite E; reflexivity. }
    assert (Hi0 : ids0 ims o orc = ids) by (unfold ids0; destruct Eref as [E|E]; rewrite E; reflexivity).
    split; [|split; [|split]].
    + intros g Hg i Hi. pose proof (member_lt g i (dead_in_groups g Hg) Hi) as Hlt.
      rewrite (Hst i Hlt), (Hco i Hlt).
      destruct (I1 i (Hdl g i Hg Hi)) as [E1 E2]. rewrite E1, E2. split; [exact (Hdead_st g i Hg Hi)| reflexivity].
    + intros g Hg. right. split; [intros E; contradiction|].
      destruct (I2 g Hg) as [H|[r H]]; [left| right; exists r]; intros i Hi;
        pose proof (member_lt g i (live_in_groups g Hg) Hi) as Hlt;
        rewrite (Hst i Hlt), (Hco i Hlt); exact (H i Hi).
    + intros E; contradiction.
    + exists blocks. rewrite Horg, Hi0, Hrf, Hid. split; [exact R1| split; [exact R2| split; [exact R3|]]]. split.
      * rewrite R1. simpl. constructor; [|exact R4]. intro Hin. apply in_map_iff in Hin.
        destruct Hin as [b [Eb Hb]]. destruct (in_split _ _ Hb) as [pre [post Ebl]].
        destruct (R5 pre b post Ebl) as [g [Eg' _]]. rewrite Eb in Eg'. discriminate.
      * intros pre b post Hdec. destruct (R5 pre b post Hdec) as [g [E1 [Hgl Hj]]].
        exists g. split; [exact E1|]. split; [exact Hgl|].
        destruct Hj as [[Ho Hs]|[Ho [Hu [Ha Hs]]]]; [left|right].
        -- split; [exact Ho|]. intros i Hi. rewrite (Hst i (member_lt g i (live_in_groups g Hgl) Hi)). exact (Hs i Hi).
        -- split; [exact Ho|]. split; [exact Hu|]. split; [exact Ha|]. intros i Hi.
           rewrite (Hst i (member_lt g i (live_in_groups g Hgl) Hi)). exact (Hs i Hi).
Qed.

(* ================= C13 ================= *)

(* status, corrections and sharing, per group *)
Lemma group_verdict : r_exc R = None -> forall g, In g (groups ims) ->
  (forall i, In i g -> st_of R i = Reference /\ corr_of R i = 0) \/
  (forall i, In i g -> st_of R i = Success /\ corr_of R i = 1) \/
  (exists r, forall i, In i g -> st_of R i = Failed r /\ corr_of R i = 0).
Proof.
  intros Hn g Hg. destruct (normal_inv Hn) as [Hc Hl]. destruct (align_char Hc Hl) as (D & L & _).
  destruct (live_or_dead g Hg) as [H|H].
  - destruct (L g H) as [(_ & _ & H1)|[_ [H1|[r H1]]]].
    + left; exact H1.
    + right; left; exact H1.
    + right; right; exists r; exact H1.
  - right; right; exists 0. exact (D g H).
Qed.

Theorem status_total : r_exc R = None -> forall i, i < n ->
  st_of R i = Reference \/ st_of R i = Success \/ exists r, st_of R i = Failed r.
Proof.
  intros Hn i Hi. apply groups_cover in Hi. destruct Hi as [g [Hg Hig]].
  destruct (group_verdict Hn g Hg) as [H|[H|[r H]]].
  - left. exact (proj1 (H i Hig)).
  - right; left. exact (proj1 (H i Hig)).
  - right; right. exists r. exact (proj1 (H i Hig)).
Qed.

Theorem members_share : r_exc R = None -> forall g i j, In g (groups ims) -> In i g -> In j g ->
  st_of R i = st_of R j /\ corr_of R i = corr_of R j.
Proof.
  intros Hn g i j Hg Hi Hj. destruct (group_verdict Hn g Hg) as [H|[H|[r H]]];
    destruct (H i Hi) as [A B]; destruct (H j Hj) as [C D]; rewrite A, B, C, D; split; reflexivity.
Qed.

Theorem corrections_exact : r_exc R = None -> forall i, i < n ->
  corr_of R i = match st_of R i with Success => 1 | _ => 0 end.
Proof.
  intros Hn i Hi. apply groups_cover in Hi. destruct Hi as [g [Hg Hig]].
  destruct (group_verdict Hn g Hg) as [H|[H|[r H]]]; destruct (H i Hig) as [A B]; rewrite A, B; reflexivity.
Qed.

Theorem reference_iff_no_refcat : r_exc R = None ->
  (o_ref o = RefNone -> exists g, In g (groups ims) /\ g <> [] /\ forall i, i < n -> (st_of R i = Reference <-> In i g)) /\
  (o_ref o <> RefNone -> forall i, i < n -> st_of R i <> Reference).
Proof.
  intros Hn. destruct (normal_inv Hn) as [Hc Hl]. destruct (align_char Hc Hl) as (D & L & Hr & _).
  destruct (groups_nodup ims) as [_ Gdj].
  split.
  - intros E. specialize (Hr E). exists (ref_group ims o orc).
    split; [exact (live_in_groups _ Hr)|]. split; [apply (groups_nonempty ims); exact (live_in_groups _ Hr)|].
    intros i Hi. split.
    + intros Hs. apply groups_cover in Hi. destruct Hi as [g [Hg Hig]].
      destruct (live_or_dead g Hg) as [H|H].
      * destruct (L g H) as [(_ & -> & _)|[_ [H1|[r H1]]]]; [exact Hig| |];
          rewrite (proj1 (H1 i Hig)) in Hs; discriminate.
      * rewrite (proj1 (D g H i Hig)) in Hs. discriminate.
    + intros Hig. destruct (L _ Hr) as [(_ & _ & H1)|[Hne _]].
      * exact (proj1 (H1 i Hig)).
      * exfalso. exact (Hne E eq_refl).
  - intros E i Hi Hs. apply groups_cover in Hi. destruct Hi as [g [Hg Hig]].
    destruct (live_or_dead g Hg) as [H|H].
    + destruct (L g H) as [(E' & _)|[_ [H1|[r H1]]]]; [contradiction| |];
        rewrite (proj1 (H1 i Hig)) in Hs; discriminate.
    + rewrite (proj1 (D g H i Hig)) in Hs. discriminate.
Qed.

Theorem raise_no_correction : forall e, r_exc R = Some e -> forall i, corr_of R i = 0.
Proof.
  intros e He i. unfold corr_of. destruct exc_cases as (E1 & E2 & E3).
  assert (Hz : forall st stg e', nth i (r_corr (raised n e' stg st)) 0 = 0).
  { intros st stg e'. unfold raised; cbn [r_corr]. destruct (Nat.lt_ge_cases i n) as [H|H].
    - apply tab_nth. exact H.
    - apply nth_overflow. rewrite tab_length. exact H. }
  unfold R, align in *. fold n in He |- *.
  destruct (check_args o) as [[e' stg]|]; [apply Hz|].
  destruct (length (live_groups ims) <? need o); [apply Hz|].
  destruct (start ims o orc). simpl in He. discriminate.
Qed.

Theorem not_enough_iff :
  r_exc R = Some ExcNotEnough <-> (check_args o = None /\ length live < need o).
Proof.
  destruct exc_cases as (E1 & E2 & E3). split.
  - intros H. destruct (check_args o) as [[e stg]|] eqn:Ec.
    + destruct (E1 e stg eq_refl) as [E _]. rewrite E in H. inversion H; subst.
      exfalso. exact (check_args_not_enough o _ _ Ec eq_refl).
    + split; [reflexivity|]. destruct (Nat.lt_ge_cases (length live) (need o)) as [Hl|Hl]; [exact Hl|].
      rewrite (E3 eq_refl Hl) in H. discriminate.
  - intros [H1 H2]. exact (E2 H1 H2).
Qed.

Theorem invalid_args_raise : forall e stg, check_args o = Some (e, stg) ->
  r_exc R = Some e /\ e <> ExcNotEnough /\ forall i, corr_of R i = 0.
Proof.
  intros e stg H. destruct exc_cases as (E1 & _). destruct (E1 e stg H) as [E _].
  split; [exact E|]. split; [exact (check_args_not_enough o _ _ H)| exact (raise_no_correction e E)].
Qed.

Theorem live_groups_spec g :
  In g live <-> In g (groups ims) /\ exists i, In i g /\ is_nonempty ims i = true.
Proof.
  unfold live, live_groups. rewrite filter_In. unfold group_live. rewrite existsb_exists. tauto.
Qed.

(* ================= C14 ================= *)

Theorem refcat_shape : r_exc R = None ->
  exists blocks, r_ref R = origin ims o orc :: blocks /\
                 r_ids R = expand_ids (ids0 ims o orc) (total blocks) /\
                 (o_expand o = false -> blocks = []) /\
                 NoDup (map c_from (r_ref R)) /\
                 justified orc live (st_of R) [origin ims o orc] blocks.
Proof.
  intros Hn. destruct (normal_inv Hn) as [Hc Hl]. destruct (align_char Hc Hl) as (_ & _ & _ & H). exact H.
Qed.

(* original rows unchanged and in order; appended ids max+1.., consecutive and fresh *)
Theorem ids_prefix_fresh : r_exc R = None ->
  exists k, firstn (length (ids0 ims o orc)) (r_ids R) = ids0 ims o orc /\
            length (r_ids R) = length (ids0 ims o orc) + k /\
            (forall j, j < k -> nth (length (ids0 ims o orc) + j) (r_ids R) 0%Z =
                                (maxid (ids0 ims o orc) + 1 + Z.of_nat j)%Z) /\
            (NoDup (ids0 ims o orc) -> NoDup (r_ids R)) /\
            (o_expand o = false -> k = 0).
Proof.
  intros Hn. destruct (refcat_shape Hn) as [blocks (H1 & H2 & H3 & _)].
  exists (total blocks). destruct (expand_ids_spec (ids0 ims o orc) (total blocks)) as (A & B & C & D).
  rewrite H2. split; [exact A| split; [exact D| split; [exact B| split; [exact C|]]]].
  intros He. rewrite (H3 He). reflexivity.
Qed.

Theorem appended_justified : r_exc R = None ->
  forall pre b post, r_ref R = pre ++ b :: post -> pre <> [] ->
    exists g, c_from b = Some g /\ In g (groups ims) /\ o_expand o = true /\
      ((outcome orc g pre = Matched (c_rows b) /\ forall i, In i g -> st_of R i = Success) \/
       (mres_ok (outcome orc g pre) = false /\ mres_unm (outcome orc g pre) = c_rows b /\ area0 orc g pre = true /\
        forall i, In i g -> st_of R i = Failed (fail_reason (outcome orc g pre)))).
Proof.
  intros Hn pre b post Hdec Hpre. destruct (refcat_shape Hn) as [blocks (H1 & _ & H3 & _ & H5)].
  rewrite H1 in Hdec. destruct pre as [|p pre']; [congruence|].
  simpl in Hdec. inversion Hdec as [[Ep Ebl]]. subst p.
  destruct (H5 pre' b post Ebl) as [g [E1 [Hgl Hj]]].
  exists g. split; [exact E1|]. split; [exact (live_in_groups g Hgl)|]. split.
  - destruct (o_expand o) eqn:E; [reflexivity|]. rewrite (H3 eq_refl) in Ebl. destruct pre'; discriminate.
  - exact Hj.
Qed.

Theorem no_expand_never_extended : r_exc R = None -> o_expand o = false ->
  r_ref R = [origin ims o orc] /\ r_ids R = ids0 ims o orc.
Proof.
  intros Hn He. destruct (refcat_shape Hn) as [blocks (H1 & H2 & H3 & _)].
  rewrite (H3 He) in H1, H2. simpl in H2. rewrite expand_ids_0 in H2. split; assumption.
Qed.

Theorem each_group_once : r_exc R = None -> NoDup (map c_from (r_ref R)).
Proof. intros Hn. destruct (refcat_shape Hn) as [blocks (_ & _ & _ & H & _)]. exact H. Qed.

End Run.

(* the loop invariant of C14, per step: whatever group is processed, the rows (and ids) present before the step
   are an unchanged prefix afterwards *)
Theorem step_keeps_prefix o orc g s :
  firstn (length (ls_ids s)) (ls_ids (step o orc g s)) = ls_ids s /\
  firstn (length (ls_ref s)) (ls_ref (step o orc g s)) = ls_ref s.
Proof.
  unfold step; cbn [ls_ids ls_ref]. destruct (will_grow o orc g (ls_ref s)).
  - split.
    + exact (proj1 (expand_ids_spec (ls_ids s) _)).
    + rewrite firstn_app, Nat.sub_diag, firstn_all. simpl. apply app_nil_r.
  - split; apply firstn_all.
Qed.
