(* _check_wcs_structure of the gWCS corrector: specification, and preservation under insertion of the 'v2v3corr' frame *)
From Coq Require Import QArith Qcanon List Bool Arith Lia.
From TW Require Import CorrModel CorrList.
Import ListNotations.
Close Scope Qc_scope.
Open Scope nat_scope.

Definition v23_of (frms : list fname) : fname := if mem Fvacorr frms then Fvacorr else Fv2v3.

Record check_spec (frms : list fname) : Prop := {
  cs_len : 3 <= length frms;
  cs_hd : count (hd Fdet frms) frms <= 1;
  cs_last : count (last frms Fdet) frms <= 1;
  cs_v2v3 : count Fv2v3 frms = 1;
  cs_va : count Fvacorr frms <= 1;
  cs_i0 : exists i0, index_of Fv2v3 frms = Some i0 /\ 0 < i0 /\ i0 <> length frms - 1 /\
            (forall iv, index_of Fvacorr frms = Some iv -> i0 <= iv /\ iv <> length frms - 1);
  cs_corr : count Fcorr frms = 0 \/
            (count Fcorr frms = 1 /\ exists i1, index_of (v23_of frms) frms = Some i1 /\
               index_of Fcorr frms = Some (i1 + 1) /\ i1 + 1 <> length frms - 1)
}.

Lemma mem_index x l : mem x l = true <-> exists i, index_of x l = Some i.
Proof.
  rewrite mem_true. split.
  - intro H. destruct (index_of x l) eqn:E; [eexists; reflexivity| apply index_of_none in E; contradiction].
  - intros [i Hi] E. apply index_of_none in E. rewrite E in Hi. discriminate Hi.
Qed.

Lemma check_structure_spec frms : check_structure frms = true <-> check_spec frms.
Proof.
  unfold check_structure. split.
  - intro H.
    destruct (Nat.ltb (length frms) 3) eqn:E1; [discriminate H|]. apply Nat.ltb_ge in E1.
    destruct (Nat.ltb 1 (count (hd Fdet frms) frms)) eqn:E2; [discriminate H|]. apply Nat.ltb_ge in E2.
    destruct (Nat.ltb 1 (count (last frms Fdet) frms)) eqn:E3; [discriminate H|]. apply Nat.ltb_ge in E3.
    simpl in H.
    destruct (Nat.eqb (count Fv2v3 frms) 1) eqn:E4; [|discriminate H]. apply Nat.eqb_eq in E4.
    destruct (Nat.ltb 1 (count Fvacorr frms)) eqn:E5; [discriminate H|]. apply Nat.ltb_ge in E5.
    simpl in H.
    destruct (index_of Fv2v3 frms) as [i0|] eqn:E6; [|discriminate H].
    destruct (Nat.eqb i0 0) eqn:E7; [discriminate H|]. apply Nat.eqb_neq in E7.
    destruct (Nat.eqb i0 (length frms - 1)) eqn:E8; [discriminate H|]. apply Nat.eqb_neq in E8.
    simpl in H.
    destruct (index_of Fvacorr frms) as [iv|] eqn:E9.
    + destruct (Nat.ltb iv i0) eqn:E10; [discriminate H|]. apply Nat.ltb_ge in E10.
      destruct (Nat.eqb iv (length frms - 1)) eqn:E11; [discriminate H|]. apply Nat.eqb_neq in E11.
      simpl in H.
      assert (Hv : v23_of frms = Fvacorr).
      { unfold v23_of. replace (mem Fvacorr frms) with true; [reflexivity|]. symmetry. apply mem_index. eauto. }
      constructor; try assumption.
      * exists i0. split; [exact E6|]. split; [lia|]. split; [assumption|]. intros iv' E; rewrite E9 in E; inversion E; subst; split; lia.
      * destruct (count Fcorr frms) as [|[|n]] eqn:E12; [left; reflexivity| |discriminate H].
        right. split; [reflexivity|]. destruct (index_of Fcorr frms) as [ic|] eqn:E13; [|discriminate H].
        apply negb_true_iff, orb_false_iff in H. destruct H as [H1 H2].
        apply negb_false_iff, Nat.eqb_eq in H1. apply Nat.eqb_neq in H2. subst ic.
        exists iv. rewrite Hv. repeat split; assumption.
    + assert (Hv : v23_of frms = Fv2v3).
      { unfold v23_of. replace (mem Fvacorr frms) with false; [reflexivity|]. symmetry. apply mem_false, index_of_none. exact E9. }
      constructor; try assumption.
      * exists i0. split; [exact E6|]. split; [lia|]. split; [assumption|]. intros iv' E; rewrite E9 in E; discriminate E.
      * destruct (count Fcorr frms) as [|[|n]] eqn:E12; [left; reflexivity| |discriminate H].
        right. split; [reflexivity|]. destruct (index_of Fcorr frms) as [ic|] eqn:E13; [|discriminate H].
        apply negb_true_iff, orb_false_iff in H. destruct H as [H1 H2].
        apply negb_false_iff, Nat.eqb_eq in H1. apply Nat.eqb_neq in H2. subst ic.
        exists i0. rewrite Hv. repeat split; assumption.
  - intros [H1 H2 H3 H4 H5 (i0 & Hi0 & Hp & Hn & Hva) H7].
    replace (Nat.ltb (length frms) 3) with false by (symmetry; apply Nat.ltb_ge; lia).
    replace (Nat.ltb 1 (count (hd Fdet frms) frms)) with false by (symmetry; apply Nat.ltb_ge; lia).
    replace (Nat.ltb 1 (count (last frms Fdet) frms)) with false by (symmetry; apply Nat.ltb_ge; lia).
    rewrite H4. replace (Nat.ltb 1 (count Fvacorr frms)) with false by (symmetry; apply Nat.ltb_ge; lia).
    simpl. rewrite Hi0.
    replace (Nat.eqb i0 0) with false by (symmetry; apply Nat.eqb_neq; lia).
    replace (Nat.eqb i0 (length frms - 1)) with false by (symmetry; apply Nat.eqb_neq; lia).
    simpl.
    destruct (index_of Fvacorr frms) as [iv|] eqn:E9.
    + destruct (Hva iv eq_refl) as [Ha Hb].
      replace (Nat.ltb iv i0) with false by (symmetry; apply Nat.ltb_ge; lia).
      replace (Nat.eqb iv (length frms - 1)) with false by (symmetry; apply Nat.eqb_neq; lia).
      simpl.
      assert (Hv : v23_of frms = Fvacorr).
      { unfold v23_of. replace (mem Fvacorr frms) with true; [reflexivity|]. symmetry. apply mem_index. eauto. }
      destruct H7 as [H7|(H7 & i1 & Hi1 & Hic & Hnl)]; rewrite H7; [reflexivity|].
      rewrite Hic. rewrite Hv, E9 in Hi1. inversion Hi1; subst.
      rewrite Nat.eqb_refl. simpl. apply negb_true_iff, Nat.eqb_neq. exact Hnl.
    + assert (Hv : v23_of frms = Fv2v3).
      { unfold v23_of. replace (mem Fvacorr frms) with false; [reflexivity|]. symmetry. apply mem_false, index_of_none. exact E9. }
      destruct H7 as [H7|(H7 & i1 & Hi1 & Hic & Hnl)]; rewrite H7; [reflexivity|].
      rewrite Hic. rewrite Hv, Hi0 in Hi1. inversion Hi1; subst.
      rewrite Nat.eqb_refl. simpl. apply negb_true_iff, Nat.eqb_neq. exact Hnl.
Qed.

Lemma v23_of_cases frms : v23_of frms = Fvacorr \/ v23_of frms = Fv2v3.
Proof. unfold v23_of. destruct (mem Fvacorr frms); auto. Qed.
Lemma v23_of_neq_corr frms : v23_of frms <> Fcorr.
Proof. destruct (v23_of_cases frms) as [-> | ->]; discriminate. Qed.

Lemma index_lt x l i : index_of x l = Some i -> i < length l.
Proof. intro H. destruct (index_of_split _ _ _ H) as (l1 & l2 & -> & <- & _). rewrite app_length. simpl. lia. Qed.

(* position of the frame the correction is attached to, in an uncorrected pipeline *)
Lemma check_spec_v23_index frms : check_spec frms ->
  exists i1, index_of (v23_of frms) frms = Some i1 /\ 0 < i1 /\ i1 <> length frms - 1 /\
             (exists i0, index_of Fv2v3 frms = Some i0 /\ i0 <= i1).
Proof.
  intros [H1 H2 H3 H4 H5 (i0 & Hi0 & Hp & Hn & Hva) H7]. unfold v23_of.
  destruct (mem Fvacorr frms) eqn:E.
  - apply mem_index in E. destruct E as [iv Hiv]. destruct (Hva iv Hiv) as [Ha Hb].
    exists iv. repeat split; try assumption; try lia. exists i0. split; [assumption| lia].
  - exists i0. repeat split; try assumption. exists i0. split; [assumption| lia].
Qed.

Lemma check_spec_split frms : check_spec frms ->
  exists a b, frms = a ++ v23_of frms :: b /\ a <> [] /\ b <> [] /\ count (v23_of frms) a = 0.
Proof.
  intro H. destruct (check_spec_v23_index _ H) as (i1 & Hi & Hp & Hn & _).
  destruct (index_of_split _ _ _ Hi) as (a & b & E & Hl & Hc).
  exists a, b. split; [exact E|]. split; [|split; [|exact Hc]].
  - intro Ea. subst a. simpl in Hl. lia.
  - intro Eb. subst b. rewrite E in Hn. rewrite app_length in Hn. simpl in Hn. lia.
Qed.

Lemma count_insert x a f b : count x (a ++ f :: Fcorr :: b) = count x (a ++ f :: b) + (if fname_eqb Fcorr x then 1 else 0).
Proof. rewrite !count_app. simpl. destruct (fname_eqb f x), (fname_eqb Fcorr x); lia. Qed.
Lemma count_insert_neq x a f b : x <> Fcorr -> count x (a ++ f :: Fcorr :: b) = count x (a ++ f :: b).
Proof. intro H. rewrite count_insert. rewrite fname_eqb_neq by (intro E; apply H; symmetry; exact E). lia. Qed.

Lemma index_insert_le x a f b i : index_of x (a ++ f :: b) = Some i -> i <= length a ->
  index_of x (a ++ f :: Fcorr :: b) = Some i.
Proof.
  intros H Hi. destruct (index_of x a) as [j|] eqn:Ea.
  - rewrite (index_of_in_prefix _ _ _ _ Ea) in H. rewrite (index_of_in_prefix _ _ _ _ Ea). exact H.
  - apply index_of_none in Ea. rewrite index_of_app_notin in H by exact Ea. rewrite index_of_app_notin by exact Ea.
    simpl in *. destruct (fname_eqb f x); [exact H|].
    destruct (index_of x b) as [j|]; simpl in H; [|discriminate H]. inversion H. lia.
Qed.
Lemma index_insert_none x a f b : x <> Fcorr -> index_of x (a ++ f :: b) = None -> index_of x (a ++ f :: Fcorr :: b) = None.
Proof. intros Hx H. apply index_of_none. apply index_of_none in H. rewrite count_insert_neq by exact Hx. exact H. Qed.

Lemma mem_insert_neq x a f b : x <> Fcorr -> mem x (a ++ f :: Fcorr :: b) = mem x (a ++ f :: b).
Proof. intro H. unfold mem. rewrite count_insert_neq by exact H. reflexivity. Qed.
Lemma v23_of_insert a f b : v23_of (a ++ f :: Fcorr :: b) = v23_of (a ++ f :: b).
Proof. unfold v23_of. rewrite mem_insert_neq by discriminate. reflexivity. Qed.

(* inserting the 'v2v3corr' frame right after the frame chosen by __init__ keeps the structure check satisfied *)
Lemma check_spec_insert a f b :
  check_spec (a ++ f :: b) -> f = v23_of (a ++ f :: b) -> count Fcorr (a ++ f :: b) = 0 -> count f a = 0 ->
  a <> [] -> b <> [] -> check_spec (a ++ f :: Fcorr :: b).
Proof.
  intros H Hf Hc Hfa Ha Hb.
  assert (Hfc : f <> Fcorr) by (rewrite Hf; apply v23_of_neq_corr).
  destruct (check_spec_v23_index _ H) as (i1 & Hi1 & Hp1 & Hn1 & i0' & Hi0' & Hle).
  rewrite <- Hf in Hi1. rewrite index_of_here in Hi1 by exact Hfa. inversion Hi1; subst i1.
  destruct H as [H1 H2 H3 H4 H5 (i0 & Hi0 & Hp & Hn & Hva) H7].
  rewrite Hi0 in Hi0'. inversion Hi0'; subst i0'.
  assert (Hlen : length (a ++ f :: Fcorr :: b) = S (length (a ++ f :: b))) by (rewrite !app_length; simpl; lia).
  assert (Hlen2 : length (a ++ f :: b) = length a + 1 + length b) by (rewrite !app_length; simpl; lia).
  assert (Hbl : 0 < length b) by (destruct b; [contradiction| simpl; lia]).
  assert (Hca : count Fcorr a = 0) by (rewrite count_app in Hc; lia).
  constructor.
  - lia.
  - rewrite hd_app_ne by exact Ha. rewrite hd_app_ne in H2 by exact Ha.
    rewrite count_insert_neq; [exact H2|]. intro E.
    assert (In (hd Fdet a) (a ++ f :: b)) by (apply in_or_app; left; destruct a; [contradiction| left; reflexivity]).
    apply in_count_pos in H. rewrite E in H. lia.
  - rewrite last_app_cons. rewrite last_app_cons in H3.
    rewrite last_cons_ne by discriminate. rewrite last_cons_ne by exact Hb. rewrite last_cons_ne in H3 by exact Hb.
    rewrite count_insert_neq; [exact H3|]. intro E.
    assert (In (last b Fdet) (a ++ f :: b)) by (apply in_or_app; right; right; apply last_in; exact Hb).
    apply in_count_pos in H. rewrite E in H. lia.
  - rewrite count_insert_neq by discriminate. exact H4.
  - rewrite count_insert_neq by discriminate. exact H5.
  - exists i0. split; [apply index_insert_le; assumption|]. split; [exact Hp|]. split; [lia|].
    intros iv Hiv. destruct (index_of Fvacorr (a ++ f :: b)) as [iv0|] eqn:E.
    + destruct (Hva iv0 eq_refl) as [Hx Hy].
      assert (Hfv : f = Fvacorr).
      { rewrite Hf. unfold v23_of. replace (mem Fvacorr (a ++ f :: b)) with true; [reflexivity|]. symmetry. apply mem_index. eauto. }
      subst f. rewrite index_of_here in E by exact Hfa. inversion E; subst iv0.
      rewrite index_of_here in Hiv by exact Hfa. inversion Hiv; subst iv. split; lia.
    + rewrite index_insert_none in Hiv; [discriminate Hiv| discriminate| exact E].
  - right. split; [rewrite count_insert; simpl; lia|]. exists (length a).
    rewrite v23_of_insert, <- Hf. split; [apply index_of_here; exact Hfa|]. split.
    + rewrite index_of_app_notin by exact Hca. simpl. rewrite fname_eqb_neq by exact Hfc. simpl. f_equal; lia.
    + lia.
Qed.

Lemma app_eq_len {A} (l1 l2 r1 r2 : list A) : l1 ++ r1 = l2 ++ r2 -> length l1 = length l2 -> l1 = l2 /\ r1 = r2.
Proof.
  revert l2. induction l1 as [|x l1 IH]; intros [|y l2] H Hl; simpl in *; try discriminate Hl.
  - split; [reflexivity| exact H].
  - injection H as -> H. destruct (IH l2 H) as [-> ->]; [lia| split; reflexivity].
Qed.

(* shape of an already corrected pipeline accepted by the structure check *)
Lemma check_spec_split_corr frms : check_spec frms -> count Fcorr frms = 1 ->
  exists a b, frms = a ++ v23_of frms :: Fcorr :: b /\ a <> [] /\ b <> [] /\
              count (v23_of frms) a = 0 /\ count Fcorr a = 0 /\ count Fcorr b = 0.
Proof.
  intros H Hc. destruct (check_spec_v23_index _ H) as (i1 & Hi1 & Hp1 & Hn1 & _).
  destruct H as [H1 H2 H3 H4 H5 _ H7].
  destruct H7 as [H7|(_ & i1' & Hi1' & Hic & Hnl)]; [rewrite H7 in Hc; discriminate Hc|].
  rewrite Hi1 in Hi1'. inversion Hi1'; subst i1'.
  destruct (index_of_split _ _ _ Hic) as (l1 & b & E1 & Hl1 & Hc1).
  destruct (index_of_split _ _ _ Hi1) as (a & b' & E2 & Hl2 & Hc2).
  assert (Hl1' : l1 <> []) by (intro E; subst l1; simpl in Hl1; lia).
  destruct (exists_last Hl1') as (a0 & x & ->).
  rewrite app_length in Hl1. simpl in Hl1.
  assert (E3 : a0 ++ x :: Fcorr :: b = a ++ v23_of frms :: b').
  { rewrite <- E2. rewrite E1. rewrite <- app_assoc. reflexivity. }
  destruct (app_eq_len _ _ _ _ E3) as [-> E4]; [lia|]. injection E4 as -> <-.
  exists a, b. split; [rewrite E1 at 1; rewrite <- app_assoc; reflexivity|].
  rewrite count_app in Hc1. simpl in Hc1.
  split; [intro E; subst a; simpl in Hl2; lia|]. split.
  - intro E. subst b. rewrite E1 in Hnl. rewrite !app_length in Hnl. simpl in Hnl. lia.
  - split; [exact Hc2|]. split; [lia|].
    rewrite E1 in Hc. rewrite !count_app in Hc. simpl in Hc. lia.
Qed.
