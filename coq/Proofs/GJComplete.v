(* completeness of the singularity exit of inv_gj: a matrix with a non-trivial null vector
   is reported Singular (corollary of the left-inverse theorem) *)
From Coq Require Import QArith Qabs List Bool Arith Lia Lqa.
Require Import GJModel GJSum GJProof1 GJProof2 GJProof3 GJProof4 GJProof5.
Import ListNotations.
Open Scope Q_scope.

Lemma square_check n a : square n a -> forallb (fun r => Nat.eqb (length r) (length a)) a = true.
Proof.
  intros [Hl Hr]. apply forallb_forall. intros r Hin. rewrite Hl, (Hr r Hin). apply Nat.eqb_refl.
Qed.

Lemma inv_gj_not_notsquare n a : square n a -> inv_gj a <> NotSquare.
Proof.
  intros Hs. unfold inv_gj. rewrite (square_check n a Hs). cbn [negb].
  destruct (fwd _ _ _); discriminate.
Qed.

Lemma vsum_delta_l n f i : (i < n)%nat -> vsum (seq 0 n) (fun j => delta i j * f j) == f i.
Proof.
  intros Hi. rewrite (vsum_ext _ _ (fun j => f j * delta j i)).
  - apply vsum_delta; exact Hi.
  - intros j _. unfold delta. rewrite (Nat.eqb_sym i j). ring.
Qed.

Theorem inv_gj_null_vector_singular n a (v : nat -> Q) :
  square n a ->
  (forall i, (i < n)%nat -> vsum (seq 0 n) (fun j => mnth a i j * v j) == 0) ->
  (exists k, (k < n)%nat /\ ~ v k == 0) ->
  inv_gj a = Singular.
Proof.
  intros Hs Hnull [k [Hk Hv]].
  destruct (inv_gj a) as [x| |] eqn:E; [|reflexivity|exfalso; exact (inv_gj_not_notsquare n a Hs E)].
  exfalso. apply Hv.
  pose proof (inv_gj_left_inverse n a x Hs E) as HL.
  rewrite <- (vsum_delta_l n v k Hk).
  rewrite (vsum_ext _ _ (fun l => vsum (seq 0 n) (fun j => (mnth x k j * mnth a j l) * v l))).
  2:{ intros l Hl. apply in_seq in Hl. rewrite vsum_scal_r. rewrite (HL k l Hk) by lia. reflexivity. }
  rewrite vsum_swap.
  apply vsum_zero. intros j Hj. apply in_seq in Hj.
  rewrite (vsum_ext _ _ (fun l => mnth x k j * (mnth a j l * v l))) by (intros; ring).
  rewrite vsum_scal. rewrite (Hnull j) by lia. ring.
Qed.

(* a regular result is never produced for non-square input, and a square input never gives NotSquare *)
Lemma inv_gj_ok_square a x : inv_gj a = Ok x -> square (length a) a.
Proof.
  unfold inv_gj. destruct (forallb (fun r => Nat.eqb (length r) (length a)) a) eqn:F; cbn [negb]; [|discriminate].
  intros _. split; [reflexivity|]. intros r Hin.
  rewrite forallb_forall in F. apply Nat.eqb_eq. apply F; exact Hin.
Qed.
Print Assumptions inv_gj_null_vector_singular.
