(* uniqueness of the similarity (rscale) optimum when the centred cross determinant does not vanish *)
From Coq Require Import QArith Qabs List Bool Arith Lia Lqa Psatz.
From TW Require Import LSQ Rscale Rscale2 Recovery.
Import ListNotations.
Open Scope Q_scope.

Section US.
Variable l : list pr.
Hypothesis Wpos : 0 < sw l.
Hypothesis q2pos : 0 < q2 l.

(* exact decomposition of the SSR of any member t of the family (any branch) *)
Lemma ssr_sim_decomp t :
  ssr_sim l t == sw l * (sq (dl1 l t) + sq (dl2 l t))
               + q2 l * (sq (sa t - dn l (sflip t) / q2 l) + sq (sb_ t - nm l (sflip t) / q2 l))
               + (kk l - (sq (dn l (sflip t)) + sq (nm l (sflip t))) / q2 l).
Proof.
  assert (Hq: ~ q2 l == 0) by lra.
  rewrite (ssr_closed l Wpos t). unfold sq. field. exact Hq.
Qed.

Lemma ssr_sim_model_value :
  ssr_sim l (model l) == kk l - (sq (den l) + sq (num l)) / q2 l.
Proof.
  assert (Hq: ~ q2 l == 0) by lra.
  rewrite (ssr_sim_decomp (model l)).
  assert (Z1: dl1 l (model l) == 0) by (unfold dl1, model; cbn [sa sb_ s1]; ring).
  assert (Z2: dl2 l (model l) == 0) by (unfold dl2, model, f10, f11; cbn [sa sb_ sflip s2]; destruct (flip l); ring).
  assert (Ed: dn l (flip l) == den l) by (unfold dn, den; destruct (flip l); reflexivity).
  assert (En: nm l (flip l) == num l) by (unfold nm, num; destruct (flip l); reflexivity).
  cbn [sa sb_ sflip model].
  unfold sq. rewrite Z1, Z2, Ed, En. unfold ma, mb. field. exact Hq.
Qed.

(* the two branches differ by exactly 4 |detc|: the other branch is strictly worse when detc <> 0 *)
Lemma branch_gap g : sflip g <> flip l -> ~ detc l == 0 ->
  sq (dn l (sflip g)) + sq (nm l (sflip g)) < sq (den l) + sq (num l).
Proof.
  intros Hne Hd. unfold den, num, dn, nm, flip, sq in *.
  destruct (Qlt_le_dec (detc l) 0) as [Hlt|Hge]; destruct (sflip g); try congruence; unfold detc in *; nra.
Qed.

Theorem rscale_unique t : ~ detc l == 0 -> ssr_sim l t <= ssr_sim l (model l) ->
  sflip t = flip l /\ sa t == sa (model l) /\ sb_ t == sb_ (model l) /\
  s1 t == s1 (model l) /\ s2 t == s2 (model l).
Proof.
  intros Hd Hle.
  assert (Hq: ~ q2 l == 0) by lra.
  rewrite (ssr_sim_decomp t), ssr_sim_model_value in Hle.
  set (A := sq (dl1 l t) + sq (dl2 l t)) in *.
  set (B := sq (sa t - dn l (sflip t) / q2 l) + sq (sb_ t - nm l (sflip t) / q2 l)) in *.
  assert (HA: 0 <= A) by (unfold A; pose proof (sq_nonneg (dl1 l t)); pose proof (sq_nonneg (dl2 l t)); lra).
  assert (HB: 0 <= B) by (unfold B; pose proof (sq_nonneg (sa t - dn l (sflip t) / q2 l));
                          pose proof (sq_nonneg (sb_ t - nm l (sflip t) / q2 l)); lra).
  assert (HWA: 0 <= sw l * A) by (apply Qmult_le_0_compat; lra).
  assert (HQB: 0 <= q2 l * B) by (apply Qmult_le_0_compat; lra).
  (* same branch *)
  assert (Hf: sflip t = flip l).
  { destruct (bool_dec (sflip t) (flip l)) as [E|E]; [exact E|]. exfalso.
    pose proof (branch_gap t E Hd) as G.
    assert (G': (sq (dn l (sflip t)) + sq (nm l (sflip t))) / q2 l < (sq (den l) + sq (num l)) / q2 l).
    { unfold Qdiv. apply Qmult_lt_compat_r; [apply Qinv_lt_0_compat; exact q2pos| exact G]. }
    lra. }
  assert (Ed: dn l (sflip t) == den l) by (rewrite Hf; unfold dn, den; destruct (flip l); reflexivity).
  assert (En: nm l (sflip t) == num l) by (rewrite Hf; unfold nm, num; destruct (flip l); reflexivity).
  assert (Eval: (sq (dn l (sflip t)) + sq (nm l (sflip t))) / q2 l == (sq (den l) + sq (num l)) / q2 l).
  { unfold sq. rewrite Ed, En. reflexivity. }
  assert (ZA: sw l * A == 0) by lra.
  assert (ZB: q2 l * B == 0) by lra.
  assert (A0: A == 0).
  { destruct (Qeq_dec A 0) as [E|E]; [exact E|]. exfalso. assert (0 < A) by lra. nra. }
  assert (B0: B == 0).
  { destruct (Qeq_dec B 0) as [E|E]; [exact E|]. exfalso. assert (0 < B) by lra. nra. }
  unfold A, sq in A0. unfold B, sq in B0.
  assert (D1: dl1 l t == 0 /\ dl2 l t == 0).
  { apply (wsumsq_zero 1); [lra|]. rewrite <- A0. ring. }
  assert (D2: sa t - dn l (sflip t) / q2 l == 0 /\ sb_ t - nm l (sflip t) / q2 l == 0).
  { apply (wsumsq_zero 1); [lra|]. rewrite <- B0. ring. }
  destruct D1 as [D11 D12]. destruct D2 as [D21 D22].
  assert (Ea: sa t == ma l) by (unfold ma; rewrite <- Ed; lra).
  assert (Eb: sb_ t == mb l) by (unfold mb; rewrite <- En; lra).
  split; [exact Hf|]. cbn [sa sb_ s1 s2 model].
  split; [exact Ea|]. split; [exact Eb|].
  unfold dl1 in D11. unfold dl2 in D12.
  split.
  - rewrite <- Ea, <- Eb. lra.
  - unfold f10, f11 in *. cbn [sa sb_ sflip] in *. rewrite Hf in D12.
    destruct (flip l); rewrite <- Ea, <- Eb; lra.
Qed.
End US.
Print Assumptions rscale_unique.
