(* C08 at parameter level for the similarity family: the fit of permuted data has the same branch, matrix and
   shift (uses uniqueness of the optimum when the cross determinant does not vanish) *)
From Coq Require Import QArith Qabs List Bool Arith Lia Lqa Psatz Permutation.
From TW Require Import LSQ Rscale Rscale2 Weights Equivariance UniqueSim.
Import ListNotations.
Open Scope Q_scope.

Lemma ssr_sim_perm l l' t : Permutation l l' -> ssr_sim l t == ssr_sim l' t.
Proof. intros H. unfold ssr_sim. apply sumQ_perm. exact H. Qed.

Lemma q2_perm l l' : Permutation l l' -> q2 l == q2 l'.
Proof.
  intros H. destruct (rscale_moments_perm l l' H) as [Ew [Eu [Ev [_ [_ [Euu [Evv _]]]]]]].
  unfold q2. rewrite Ew, Eu, Ev, Euu, Evv. reflexivity.
Qed.

Theorem rscale_fit_perm_params l l' : Permutation l l' -> 0 < sw l -> 0 < q2 l -> ~ detc l == 0 ->
  sflip (model l') = sflip (model l) /\ sa (model l') == sa (model l) /\ sb_ (model l') == sb_ (model l) /\
  s1 (model l') == s1 (model l) /\ s2 (model l') == s2 (model l).
Proof.
  intros HP HW Hq Hd.
  assert (HW': 0 < sw l').
  { destruct (rscale_moments_perm l l' HP) as [Ew _]. rewrite <- Ew. exact HW. }
  assert (Hq': 0 < q2 l') by (rewrite <- (q2_perm l l' HP); exact Hq).
  assert (Hle: ssr_sim l (model l') <= ssr_sim l (model l)).
  { rewrite (ssr_sim_perm l l' (model l') HP), (ssr_sim_perm l l' (model l) HP).
    apply (rscale_optimal l' HW' Hq'). }
  destruct (rscale_unique l HW Hq (model l') Hd Hle) as [A [B [C [D E]]]].
  cbn [sflip model] in A.
  split; [cbn [sflip model]; exact A|]. split; [exact B|]. split; [exact C|]. split; [exact D| exact E].
Qed.
Print Assumptions rscale_fit_perm_params.
