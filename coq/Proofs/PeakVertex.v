(* C12: the vertex formula of _find_peak is exact for a concave paraboloid, and the post-fit stage returns
   SUCCESS with that vertex when it lies in the fit box. *)
From Coq Require Import QArith Qabs ZArith List Bool Lia Lqa Psatz.
From TW Require Import GJModel Peak PeakBounds.
Import ListNotations.
Open Scope Q_scope.

(* value of the fitted quadratic at (x, y) *)
Definition qeval (c : coef6) (x y : Q) : Q :=
  c00 c + c10 c * x + c01 c * y + c11 c * (x * y) + c20 c * (x * x) + c02 c * (y * y).

(* p0 + a (x-xv)^2 + b (x-xv)(y-yv) + c (y-yv)^2 written in the monomial basis *)
Definition paraboloid_coef (p0 a b c xv yv : Q) : coef6 :=
  {| c00 := p0 + a * xv * xv + b * xv * yv + c * yv * yv;
     c10 := - (2 * a * xv) - b * yv; c01 := - (2 * c * yv) - b * xv; c11 := b; c20 := a; c02 := c |}.

Lemma paraboloid_coef_eval p0 a b c xv yv x y :
  qeval (paraboloid_coef p0 a b c xv yv) x y ==
  p0 + a * ((x - xv) * (x - xv)) + b * ((x - xv) * (y - yv)) + c * ((y - yv) * (y - yv)).
Proof. unfold qeval, paraboloid_coef. cbn [c00 c10 c01 c11 c20 c02]. ring. Qed.

Theorem vertex_exact p0 a b c xv yv : 0 < 4 * a * c - b * b ->
  vertex_x (paraboloid_coef p0 a b c xv yv) == xv /\ vertex_y (paraboloid_coef p0 a b c xv yv) == yv.
Proof.
  intros Hd. unfold vertex_x, vertex_y, fit_det, paraboloid_coef. cbn [c00 c10 c01 c11 c20 c02].
  assert (Hn: ~ 4 * c * a - b * b == 0) by lra.
  split; field; exact Hn.
Qed.

(* the vertex of ANY coefficient vector with det <> 0 is the stationary point of the quadratic *)
Theorem vertex_stationary (cf : coef6) : ~ fit_det cf == 0 ->
  c10 cf + c11 cf * vertex_y cf + 2 * c20 cf * vertex_x cf == 0 /\
  c01 cf + c11 cf * vertex_x cf + 2 * c02 cf * vertex_y cf == 0.
Proof. intros Hn. unfold vertex_x, vertex_y. unfold fit_det in *. split; field; exact Hn. Qed.

Lemma Qleb'_false a b : b < a -> Qleb' a b = false.
Proof.
  intros H. unfold Qleb'. destruct (Qle_bool a b) eqn:E; [|reflexivity].
  apply Qle_bool_iff in E. lra.
Qed.
Lemma Qleb'_intro a b : a <= b -> Qleb' a b = true.
Proof. intros H. unfold Qleb'. apply Qle_bool_iff. exact H. Qed.
Lemma Qltb'_false a b : b <= a -> Qltb' a b = false.
Proof. intros H. unfold Qltb'. apply negb_false_iff. apply Qle_bool_iff. exact H. Qed.

Lemma inject_Z_sub a b : inject_Z (a - b) == inject_Z a - inject_Z b.
Proof. unfold Z.sub. rewrite inject_Z_plus, inject_Z_opp. reflexivity. Qed.

Theorem finish_paraboloid p0 a b c xv yv pts x1 x2 y1 y2 :
  a < 0 -> 0 < 4 * a * c - b * b ->
  1 <= xv <= inject_Z (x2 - x1) -> 1 <= yv <= inject_Z (y2 - y1) ->
  let r := finish (Some (paraboloid_coef p0 a b c xv yv)) pts x1 x2 y1 y2 in
  fst (fst r) == xv + inject_Z x1 - 1 /\ snd (fst r) == yv + inject_Z y1 - 1 /\ snd r = Success.
Proof.
  intros Ha Hd [Hx1 Hx2] [Hy1 Hy2]. cbv zeta.
  destruct (vertex_exact p0 a b c xv yv Hd) as [VX VY].
  assert (Hc: c < 0) by nra.
  unfold finish. set (cf := paraboloid_coef p0 a b c xv yv) in *.
  assert (NM: no_max cf = false).
  { unfold no_max, fit_det, cf, paraboloid_coef. cbn [c00 c10 c01 c11 c20 c02].
    rewrite (Qleb'_false (4 * c * a - b * b) 0) by lra.
    rewrite (Qltb'_false 0 a) by lra. rewrite (Qleb'_false 0 a) by lra. reflexivity. }
  rewrite NM. rewrite inject_Z_sub in Hx2, Hy2.
  assert (G1: Qleb' (inject_Z x1) (Qred (vertex_x cf + inject_Z x1 - 1)) = true)
    by (apply Qleb'_intro; rewrite Qred_correct, VX; absz; lra).
  assert (G2: Qleb' (Qred (vertex_x cf + inject_Z x1 - 1)) (inject_Z x2 - 1) = true)
    by (apply Qleb'_intro; rewrite Qred_correct, VX; absz; lra).
  assert (G3: Qleb' (inject_Z y1) (Qred (vertex_y cf + inject_Z y1 - 1)) = true)
    by (apply Qleb'_intro; rewrite Qred_correct, VY; absz; lra).
  assert (G4: Qleb' (Qred (vertex_y cf + inject_Z y1 - 1)) (inject_Z y2 - 1) = true)
    by (apply Qleb'_intro; rewrite Qred_correct, VY; absz; lra).
  rewrite G1, G2, G3, G4. cbn [andb fst snd]. rewrite !Qred_correct, VX, VY.
  split; [reflexivity|]. split; reflexivity.
Qed.
