(* C12: the histogram estimate is within half a bin of the true shift when only true pairs are in the search box;
   (0,0) when the box is empty; crowded-field bound; refutation of the legacy conversion (F3). *)
From Coq Require Import QArith Qround Qabs ZArith List Bool Lia Lqa Psatz FinFun.
From TW Require Import GJModel Peak Hist LegacyHist FloorSqrt PeakBounds.
Import ListNotations.
Open Scope Z_scope.

(* ---- tables indexed by zrange ---- *)
Lemma nth_zrange_map {A} (f : Z -> A) n k d : 0 <= k < n -> nth (Z.to_nat k) (map f (zrange 0 n)) d = f k.
Proof.
  intros Hk. unfold zrange. rewrite map_map.
  rewrite nth_indep with (d' := f (0 + Z.of_nat 0)) by (rewrite map_length, seq_length; lia).
  rewrite (map_nth (fun k0 => f (0 + Z.of_nat k0)) (seq 0 (Z.to_nat (n - 0))) 0%nat).
  rewrite seq_nth by lia. f_equal. lia.
Qed.

Lemma val_table (f : Z -> Z -> Z) n j i : 0 <= j < n -> 0 <= i < n ->
  val (map (fun j => map (fun i => f j i) (zrange 0 n)) (zrange 0 n)) j i = f j i.
Proof.
  intros Hj Hi. unfold val. rewrite (nth_zrange_map (fun j => map (fun i => f j i) (zrange 0 n)) n j [] Hj).
  apply nth_zrange_map. exact Hi.
Qed.

Lemma val_xy_2dhist r img ref j i : let n := 2 * half_bins r + 1 in 0 <= j < n -> 0 <= i < n ->
  val (xy_2dhist r img ref) j i = count (bins r img ref) i j.
Proof.
  intros n Hj Hi. unfold xy_2dhist, transpose_sq. fold n. rewrite val_table by assumption.
  unfold hist_xy. fold n. apply val_table; assumption.
Qed.

Lemma val_table_nonneg (f : Z -> Z -> Z) l1 l2 : (forall a b, 0 <= f a b) ->
  forall j i, 0 <= val (map (fun j => map (fun i => f j i) l2) l1) j i.
Proof.
  intros Hf j i. unfold val.
  destruct (nth_in_or_default (Z.to_nat j) (map (fun j => map (fun i => f j i) l2) l1) []) as [Hr|Hr].
  - apply in_map_iff in Hr. destruct Hr as [j0 [Hr _]]. rewrite <- Hr.
    destruct (nth_in_or_default (Z.to_nat i) (map (fun i => f j0 i) l2) 0) as [Hc|Hc].
    + apply in_map_iff in Hc. destruct Hc as [i0 [Hc _]]. rewrite <- Hc. apply Hf.
    + rewrite Hc. lia.
  - rewrite Hr. destruct (Z.to_nat i); simpl; lia.
Qed.

Lemma xy_2dhist_nonneg r img ref : nonneg (xy_2dhist r img ref).
Proof.
  intros j i. unfold xy_2dhist, transpose_sq. apply val_table_nonneg. intros a b.
  unfold hist_xy. apply val_table_nonneg. intros. unfold count. lia.
Qed.

(* ---- NoDup of the cell enumeration ---- *)
Lemma NoDup_app' {A} (l1 l2 : list A) : NoDup l1 -> NoDup l2 -> (forall x, In x l1 -> ~ In x l2) -> NoDup (l1 ++ l2).
Proof.
  induction l1 as [|a l1 IH]; simpl; intros H1 H2 H; [exact H2|].
  inversion H1; subst. constructor.
  - rewrite in_app_iff. intros [X|X]; [contradiction| apply (H a); auto].
  - apply IH; auto.
Qed.

Lemma NoDup_list_prod {A B} (l1 : list A) (l2 : list B) : NoDup l1 -> NoDup l2 -> NoDup (list_prod l1 l2).
Proof.
  induction l1 as [|a l1 IH]; simpl; intros H1 H2; [constructor|].
  inversion H1; subst. apply NoDup_app'.
  - apply FinFun.Injective_map_NoDup; [intros x y [= ->]; reflexivity| exact H2].
  - apply IH; assumption.
  - intros [x y] Hin Hin2. apply in_map_iff in Hin. destruct Hin as [y' [[= <- <-] _]].
    apply in_prod_iff in Hin2. destruct Hin2; contradiction.
Qed.

Lemma NoDup_zrange a b : NoDup (zrange a b).
Proof. unfold zrange. apply FinFun.Injective_map_NoDup; [intros x y H; lia| apply seq_NoDup]. Qed.

Lemma NoDup_cells ny nx : NoDup (cells ny nx).
Proof. apply NoDup_list_prod; apply NoDup_zrange. Qed.

Lemma filter_none {A} (f : A -> bool) l : (forall x, In x l -> f x = false) -> filter f l = [].
Proof.
  induction l as [|x l IH]; simpl; intros H; [reflexivity|].
  rewrite (H x (or_introl eq_refl)). apply IH. intros y Hy. apply H. right. exact Hy.
Qed.

Lemma filter_single {A} (f : A -> bool) l a : NoDup l -> In a l ->
  f a = true -> (forall x, In x l -> x <> a -> f x = false) -> filter f l = [a].
Proof.
  induction l as [|x l IH]; simpl; intros Hnd Hin Ha Hoth; [contradiction|].
  inversion Hnd; subst. destruct Hin as [->|Hin].
  - rewrite Ha. f_equal. apply filter_none. intros y Hy. apply Hoth; [right; exact Hy|]. intros ->. contradiction.
  - rewrite (Hoth x (or_introl eq_refl)); [|intros ->; contradiction].
    apply IH; auto.
Qed.

(* ---- deltas ---- *)
Open Scope Q_scope.

(* the scaled difference the code forms for image source p and reference source q *)
Definition delta_of (pscale : Q) (p q : pt) : Q * Q :=
  (Qred (fst p / pscale) - Qred (fst q / pscale), Qred (snd p / pscale) - Qred (snd q / pscale)).

Lemma in_deltas_scaled pscale img ref d :
  In d (deltas (scale_pts pscale img) (scale_pts pscale ref)) <->
  exists p q, In p img /\ In q ref /\ d = delta_of pscale p q.
Proof.
  unfold deltas, scale_pts, delta_of. rewrite in_flat_map. split.
  - intros [p' [Hp' Hd]]. apply in_map_iff in Hp'. destruct Hp' as [p [<- Hp]].
    apply in_map_iff in Hd. destruct Hd as [q' [<- Hq']]. apply in_map_iff in Hq'. destruct Hq' as [q [<- Hq]].
    exists p, q. cbn [fst snd]. auto.
  - intros [p [q [Hp [Hq ->]]]]. eexists. split; [apply in_map; exact Hp|].
    apply in_map_iff. eexists. split; [|apply in_map; exact Hq]. reflexivity.
Qed.

Lemma delta_of_eq pscale p q : ~ pscale == 0 ->
  fst (delta_of pscale p q) == (fst p - fst q) / pscale /\ snd (delta_of pscale p q) == (snd p - snd q) / pscale.
Proof. intros Hp. unfold delta_of. cbn [fst snd]. rewrite !Qred_correct. split; field; exact Hp. Qed.

Lemma Qltb'_true a b : Qltb' a b = true -> a < b.
Proof. unfold Qltb'. intros H. apply negb_true_iff in H. apply Qnot_le_lt. intros C. apply Qle_bool_iff in C. congruence. Qed.

Lemma inbox_spec r d : inbox r d = true ->
  - r - (1#2) <= fst d /\ fst d < r + (1#2) /\ - r - (1#2) <= snd d /\ snd d < r + (1#2).
Proof.
  unfold inbox. intros H. apply andb_prop in H. destruct H as [H H4]. apply andb_prop in H. destruct H as [H H3].
  apply andb_prop in H. destruct H as [H1 H2].
  apply Qltb'_true in H1, H3. apply Qleb'_true in H2, H4. auto.
Qed.

(* the KD-tree pre-selection ball of radius (r + 1/2) sqrt 2 contains the search box *)
Lemma inbox_in_ball r d : inbox r d = true ->
  fst d * fst d + snd d * snd d <= 2 * ((r + (1#2)) * (r + (1#2))).
Proof. intros H. apply inbox_spec in H. destruct H as [H1 [H2 [H3 H4]]]. nra. Qed.

Lemma binof_range r d : - r - (1#2) <= d -> d < r + (1#2) ->
  (0 <= binof (half_bins r) d < 2 * half_bins r + 1)%Z.
Proof.
  intros H1 H2. unfold binof, half_bins. pose proof (Qle_ceiling r) as C. set (R := Qceiling r) in *.
  split.
  - replace 0%Z with (Qfloor 0) by reflexivity. apply Qfloor_resp_le. absz. lra.
  - assert (L: d + inject_Z R + (1#2) < inject_Z (2 * R + 1)).
    { rewrite inject_Z_plus, inject_Z_mult. change (inject_Z 2) with 2. change (inject_Z 1) with 1. absz. lra. }
    pose proof (Qfloor_le (d + inject_Z R + (1#2))) as F.
    assert (inject_Z (Qfloor (d + inject_Z R + (1 # 2))) < inject_Z (2 * R + 1)) by (eapply Qle_lt_trans; eassumption).
    rewrite <- Zlt_Qlt in H. exact H.
Qed.

Lemma half_of_odd R : ((2 * R + 1) / 2 = R)%Z.
Proof. symmetry. apply (Z.div_unique (2 * R + 1) 2 R 1); lia. Qed.

(* ---- counting ---- *)
Lemma count_all_same bs bx by_ : (forall b, In b bs -> b = (bx, by_)) -> count bs bx by_ = Z.of_nat (length bs).
Proof.
  intros H. unfold count. f_equal. f_equal. induction bs as [|b l IH]; simpl; [reflexivity|].
  rewrite (H b (or_introl eq_refl)). cbn [fst snd]. rewrite !Z.eqb_refl. simpl. f_equal.
  apply IH. intros c Hc. apply H. right. exact Hc.
Qed.

Lemma count_other bs bx by_ cx cy : (forall b, In b bs -> b = (bx, by_)) -> (cx, cy) <> (bx, by_) -> count bs cx cy = 0%Z.
Proof.
  intros H Hne. unfold count. rewrite filter_none; [reflexivity|].
  intros b Hb. rewrite (H b Hb). cbn [fst snd].
  destruct (bx =? cx)%Z eqn:E1; [|reflexivity]. destruct (by_ =? cy)%Z eqn:E2; [|reflexivity].
  apply Z.eqb_eq in E1, E2. subst. contradiction.
Qed.

Lemma Qltb'_intro a b : a < b -> Qltb' a b = true.
Proof. intros H. unfold Qltb'. apply negb_true_iff. destruct (Qle_bool b a) eqn:E; [|reflexivity]. apply Qle_bool_iff in E. lra. Qed.
Lemma Qleb'_intro' a b : a <= b -> Qleb' a b = true.
Proof. intros H. unfold Qleb'. apply Qle_bool_iff. exact H. Qed.

(* a true pair whose offset is within the search radius (componentwise) is inside the search box, for the exact
   quotient r = searchrad / pscale and for any rounding of it that is less than half a bin too small *)
Lemma true_pair_in_box r searchrad pscale p q sx sy : 0 < pscale ->
  fst p - fst q == sx -> snd p - snd q == sy -> Qabs sx <= searchrad -> Qabs sy <= searchrad ->
  searchrad / pscale < r + (1#2) -> inbox r (delta_of pscale p q) = true.
Proof.
  intros Hps Ex Ey Hx Hy Hr. assert (Hnz: ~ pscale == 0) by lra.
  destruct (delta_of_eq pscale p q Hnz) as [D1 D2]. rewrite Ex in D1. rewrite Ey in D2.
  assert (B: forall s, Qabs s <= searchrad -> - (searchrad / pscale) <= s / pscale <= searchrad / pscale).
  { intros s Hs. assert (- searchrad <= s <= searchrad).
    { revert Hs. apply Qabs_case; intros; lra. }
    unfold Qdiv. assert (0 < / pscale) by (apply Qinv_lt_0_compat; exact Hps). nra. }
  destruct (B sx Hx) as [X1 X2]. destruct (B sy Hy) as [Y1 Y2].
  unfold inbox. rewrite !andb_true_iff. repeat split.
  - apply Qltb'_intro. rewrite D1. lra.
  - apply Qleb'_intro'. rewrite D1. lra.
  - apply Qltb'_intro. rewrite D2. lra.
  - apply Qleb'_intro'. rewrite D2. lra.
Qed.

(* ---- main theorems ---- *)
Section Estimate.
Variable solver : list (Z * Z * Z) -> option coef6.

Theorem estimate_none_in_range img ref r pscale :
  (forall p q, In p img -> In q ref -> inbox r (delta_of pscale p q) = false) ->
  estimate_with solver img ref r pscale = (0, 0).
Proof.
  intros H. unfold estimate_with. set (n := (2 * half_bins r + 1)%Z).
  set (zp := xy_2dhist r (scale_pts pscale img) (scale_pts pscale ref)).
  assert (E: nonzero_cells n zp = []).
  { unfold nonzero_cells. apply filter_none. intros [j i] Hc. apply in_cells in Hc. destruct Hc as [Hj Hi].
    cbn [fst snd]. unfold zp. rewrite val_xy_2dhist by assumption.
    unfold count, bins. rewrite (filter_none (inbox r)); [reflexivity|].
    intros d Hd. apply in_deltas_scaled in Hd. destruct Hd as [p [q [Hp [Hq ->]]]]. apply H; assumption. }
  rewrite E. reflexivity.
Qed.

Theorem estimate_half_bin img ref r pscale sx sy : 0 < pscale ->
  (forall p q, In p img -> In q ref -> inbox r (delta_of pscale p q) = true ->
               fst p - fst q == sx /\ snd p - snd q == sy) ->
  (exists p q, In p img /\ In q ref /\ inbox r (delta_of pscale p q) = true) ->
  let e := estimate_with solver img ref r pscale in
  Qabs (fst e - sx) <= pscale * (1#2) /\ Qabs (snd e - sy) <= pscale * (1#2).
Proof.
  intros Hps Hall [p0 [q0 [Hp0 [Hq0 Hin0]]]].
  assert (Hnz: ~ pscale == 0) by lra.
  set (R := half_bins r). set (n := (2 * R + 1)%Z).
  set (bx := binof R (sx / pscale)). set (by_ := binof R (sy / pscale)).
  set (bs := bins r (scale_pts pscale img) (scale_pts pscale ref)).
  (* every in-box delta equals (sx, sy) / pscale *)
  assert (Hd: forall d, In d (filter (inbox r) (deltas (scale_pts pscale img) (scale_pts pscale ref))) ->
              fst d == sx / pscale /\ snd d == sy / pscale).
  { intros d Hd. apply filter_In in Hd. destruct Hd as [Hd Hb]. apply in_deltas_scaled in Hd.
    destruct Hd as [p [q [Hp [Hq ->]]]]. destruct (Hall p q Hp Hq Hb) as [E1 E2].
    destruct (delta_of_eq pscale p q Hnz) as [D1 D2]. rewrite D1, D2, E1, E2. split; reflexivity. }
  assert (Hbs: forall b, In b bs -> b = (bx, by_)).
  { intros b Hb. unfold bs, bins in Hb. apply in_map_iff in Hb. destruct Hb as [d [<- Hd']].
    destruct (Hd d Hd') as [E1 E2]. unfold bx, by_, binof. fold R. rewrite E1, E2. reflexivity. }
  assert (Hd0: In (delta_of pscale p0 q0) (filter (inbox r) (deltas (scale_pts pscale img) (scale_pts pscale ref)))).
  { apply filter_In. split; [|exact Hin0]. apply in_deltas_scaled. exists p0, q0. auto. }
  assert (Hlen: (0 < Z.of_nat (length bs))%Z).
  { unfold bs, bins. rewrite map_length. destruct (filter _ _); [contradiction| simpl; lia]. }
  (* the bin is inside the array *)
  assert (Hrange: (0 <= bx < n)%Z /\ (0 <= by_ < n)%Z).
  { destruct (Hd _ Hd0) as [E1 E2]. apply inbox_spec in Hin0. destruct Hin0 as [I1 [I2 [I3 I4]]].
    unfold bx, by_, n, R. split; apply binof_range; lra. }
  destruct Hrange as [Hbx Hby].
  set (zp := xy_2dhist r (scale_pts pscale img) (scale_pts pscale ref)).
  assert (Hval: forall j i, (0 <= j < n)%Z -> (0 <= i < n)%Z -> val zp j i = count bs i j).
  { intros j i Hj Hi. unfold zp. apply val_xy_2dhist; assumption. }
  assert (Hnzc: nonzero_cells n zp = [(by_, bx)]).
  { unfold nonzero_cells. apply filter_single.
    - apply NoDup_cells.
    - apply in_cells. auto.
    - cbn [fst snd]. rewrite Hval by assumption. rewrite count_all_same by exact Hbs.
      apply negb_true_iff. apply Z.eqb_neq. lia.
    - intros [j i] Hc Hne. apply in_cells in Hc. destruct Hc as [Hj Hi]. cbn [fst snd].
      rewrite Hval by assumption. rewrite (count_other bs bx by_ i j Hbs); [reflexivity|].
      intros [= -> ->]. apply Hne. reflexivity. }
  assert (Harg: argmax_first zp (cells n n) = Some (by_, bx)).
  { destruct (argmax_first zp (cells n n)) as [[j i]|] eqn:A.
    - pose proof (argmax_first_in _ _ _ A) as I. apply in_cells in I. destruct I as [Hj Hi].
      pose proof (argmax_first_max _ _ _ A (by_, bx)) as M. cbn [fst snd] in M.
      rewrite !Hval in M by assumption. rewrite count_all_same in M by exact Hbs.
      destruct (Z.eq_dec j by_) as [->|Nj]; [destruct (Z.eq_dec i bx) as [->|Ni]; [reflexivity|]|].
      + rewrite (count_other bs bx by_ i by_ Hbs) in M by (intros [= ->]; contradiction).
        specialize (M ltac:(apply in_cells; auto)). lia.
      + rewrite (count_other bs bx by_ i j Hbs) in M by (intros [= _ ->]; contradiction).
        specialize (M ltac:(apply in_cells; auto)). lia.
    - apply argmax_first_none in A. assert (In (by_, bx) (cells n n)) by (apply in_cells; auto).
      rewrite A in H. contradiction. }
  unfold estimate_with. fold R. fold n. fold zp. rewrite Hnzc. cbn [length]. rewrite Harg. cbn [fst snd].
  unfold bin2off, n. rewrite half_of_odd.
  pose proof (half_bin pscale R sx Hps) as HX. pose proof (half_bin pscale R sy Hps) as HY.
  unfold estimate, bin in HX, HY. split; assumption.
Qed.

(* crowded field: whatever lstsq returns, the estimate is (0,0) [error exit] or less than 5 bins (the fit box)
   from the centre of the highest bin *)
Theorem estimate_in_peak_box img ref r pscale : 0 < pscale ->
  let n := (2 * half_bins r + 1)%Z in
  let zp := xy_2dhist r (scale_pts pscale img) (scale_pts pscale ref) in
  (2 <= length (nonzero_cells n zp))%nat ->
  forall jmax imax, argmax_first zp (masked_cells n n (mask_pos zp)) = Some (jmax, imax) -> (1 <= val zp jmax imax)%Z ->
  let e := estimate_with solver img ref r pscale in
  (fst e == 0 /\ snd e == 0) \/
  (Qabs (fst e - pscale * (inject_Z imax - inject_Z (half_bins r))) <= pscale * 4 /\
   Qabs (snd e - pscale * (inject_Z jmax - inject_Z (half_bins r))) <= pscale * 4).
Proof.
  intros Hps n zp Hlen jmax imax A Hv. unfold estimate_with. fold n. fold zp.
  destruct (length (nonzero_cells n zp)) as [|[|k]] eqn:L; [lia|lia|].
  destruct (is_error _); [left; split; reflexivity|]. right. cbn [fst snd].
  assert (Hn1: (1 <= n)%Z).
  { pose proof (argmax_first_in _ _ _ A) as I. apply in_masked in I. lia. }
  assert (Hnn: nonneg zp) by apply xy_2dhist_nonneg.
  pose proof (find_peak_within_box_of_max solver n n zp (mask_pos zp) 5 jmax imax Hn1 Hn1 ltac:(lia) Hnn A Hv) as W.
  cbv zeta in W. destruct W as [W1 W2]. change (inject_Z 5 - 1) with 4 in W1, W2.
  unfold bin2off, n. rewrite half_of_odd.
  set (R := inject_Z (half_bins r)). set (pk := find_peak_with solver (2 * half_bins r + 1) (2 * half_bins r + 1) zp (mask_pos zp) 5) in *.
  assert (EX: pscale * (p_x pk - R) - pscale * (inject_Z imax - R) == pscale * (p_x pk - inject_Z imax)) by ring.
  assert (EY: pscale * (p_y pk - R) - pscale * (inject_Z jmax - R) == pscale * (p_y pk - inject_Z jmax)) by ring.
  rewrite EX, EY, !Qabs_Qmult, (Qabs_pos pscale) by lra.
  split; apply Qmult_le_l; assumption.
Qed.
End Estimate.

Lemma mval_mask_pos h j i : mval (mask_pos h) j i = (0 <? val h j i)%Z.
Proof.
  unfold mval, mask_pos, val.
  change (@nil bool) with (map (fun v => (0 <? v)%Z) (@nil Z)). rewrite map_nth.
  change false with ((fun v => (0 <? v)%Z) 0%Z). rewrite map_nth. reflexivity.
Qed.

(* self-contained form: with at least two occupied bins there is a highest bin (first maximum, count >= 1) and the
   estimate is (0,0) or within the five-bin fit box around it, for every coefficient oracle *)
Theorem estimate_crowded solver img ref r pscale : 0 < pscale ->
  let n := (2 * half_bins r + 1)%Z in
  let zp := xy_2dhist r (scale_pts pscale img) (scale_pts pscale ref) in
  (2 <= length (nonzero_cells n zp))%nat ->
  exists jmax imax,
    (0 <= jmax < n)%Z /\ (0 <= imax < n)%Z /\ (1 <= val zp jmax imax)%Z /\
    (forall j i, (0 <= j < n)%Z -> (0 <= i < n)%Z -> (val zp j i <= val zp jmax imax)%Z) /\
    let e := estimate_with solver img ref r pscale in
    (fst e == 0 /\ snd e == 0) \/
    (Qabs (fst e - pscale * (inject_Z imax - inject_Z (half_bins r))) <= pscale * 4 /\
     Qabs (snd e - pscale * (inject_Z jmax - inject_Z (half_bins r))) <= pscale * 4).
Proof.
  intros Hps n zp Hlen.
  assert (Hnn: nonneg zp) by apply xy_2dhist_nonneg.
  destruct (nonzero_cells n zp) as [|[j0 i0] l] eqn:E; [simpl in Hlen; lia|].
  assert (I0: In (j0, i0) (nonzero_cells n zp)) by (rewrite E; left; reflexivity).
  unfold nonzero_cells in I0. apply filter_In in I0. destruct I0 as [Ic Hv0]. cbn [fst snd] in Hv0.
  apply negb_true_iff in Hv0. apply Z.eqb_neq in Hv0. pose proof (Hnn j0 i0) as P0.
  assert (Im: In (j0, i0) (masked_cells n n (mask_pos zp))).
  { unfold masked_cells. apply filter_In. split; [exact Ic|]. cbn [fst snd]. rewrite mval_mask_pos. apply Z.ltb_lt. lia. }
  destruct (argmax_first zp (masked_cells n n (mask_pos zp))) as [[jmax imax]|] eqn:A.
  - pose proof (argmax_first_max _ _ _ A) as M. pose proof (argmax_first_in _ _ _ A) as I.
    apply in_masked in I. destruct I as [Hj Hi].
    pose proof (M _ Im) as M0. cbn [fst snd] in M0.
    assert (Hv1: (1 <= val zp jmax imax)%Z) by lia.
    exists jmax, imax. split; [exact Hj|]. split; [exact Hi|]. split; [lia|]. split.
    + intros j i Hj' Hi'. destruct (Z_le_gt_dec (val zp j i) 0) as [Z0|Z0]; [lia|].
      apply (M (j, i)). unfold masked_cells. apply filter_In. split; [apply in_cells; auto|].
      cbn [fst snd]. rewrite mval_mask_pos. apply Z.ltb_lt. lia.
    + apply (estimate_in_peak_box solver img ref r pscale Hps); [fold n; fold zp; rewrite E; exact Hlen| exact A| exact Hv1].
  - apply argmax_first_none in A. rewrite A in Im. contradiction.
Qed.

(* ---- F3: the conversion used before the fix violates the half-bin bound ---- *)
Theorem legacy_estimate_refuted :
  exists img ref searchrad pscale sx sy,
    0 < pscale /\
    (forall p q, In p img -> In q ref -> inbox (searchrad / pscale) (delta_of pscale p q) = true ->
                 fst p - fst q == sx /\ snd p - snd q == sy) /\
    (exists p q, In p img /\ In q ref /\ inbox (searchrad / pscale) (delta_of pscale p q) = true) /\
    let e := legacy_estimate_with (fun _ => None) img ref searchrad pscale in
    pscale * (1#2) < Qabs (fst e - sx).
Proof.
  exists [(0, 0)], [(0, 0)], 1, (3#10), 0, 0.
  split; [reflexivity|]. split.
  - intros p q [<-|[]] [<-|[]] _. split; reflexivity.
  - split; [exists (0,0), (0,0); repeat split; try (left; reflexivity)|]. vm_compute. reflexivity.
Qed.
